import Lemmas.Allocate
import Lemmas.SpecConserve
import Lemmas.Portions
import Lemmas.SpecFloor
import Lemmas.NumLift
/-! C03 — a send moves exactly what it says.  Part 1: the funding algebra (`internal/machine/funding.go`,
`allotment.go`) that every send is built from.  Part 2 (second half of this file): the same facts lifted through
the source-level semantics `Spec` (`evalSource`, `takeFromSource`, `evalDest`, `evalSend`, `run`): `send_exact`,
`send_exact_allot`, `send_all_exact`, `dest_conserves`, `source_cap_respected`, `postings_nonneg`,
`ordered_sources_drain`. -/
namespace C03
open Num

/-- `Funding.Take`: a successful take yields exactly the requested amount and loses nothing -/
theorem take_exact {f : Parts} {n : Int} {t r : Parts} (hf : NonNeg f) (h : take f n = some (t, r)) :
    total t = n ∧ total t + total r = total f := take_total hf h

/-- `Funding.Take` succeeds exactly when the funding can cover the (non-negative) amount -/
theorem take_iff_covered (f : Parts) (n : Int) (hf : NonNeg f) : (take f n).isSome ↔ 0 ≤ n ∧ n ≤ total f :=
  take_isSome_iff f n hf

/-- per account nothing is created or lost by `Take` -/
theorem take_per_account {f : Parts} {n : Int} {t r : Parts} (h : take f n = some (t, r)) (x : Acct) :
    amtOf t x + amtOf r x = amtOf f x := take_amtOf h x

/-- `Funding.TakeMax` (a `max` on a source or destination): the cap is never exceeded, and it is reached
whenever the funding holds that much; nothing is lost -/
theorem max_respected (f : Parts) (n : Int) (hn : 0 ≤ n) (hf : NonNeg f) :
    total (takeMax f n).1 ≤ n ∧ total (takeMax f n).1 = min n (total f) ∧
    total (takeMax f n).1 + total (takeMax f n).2 = total f :=
  ⟨(takeMax_le f n hn hf).1, (takeMax_le f n hn hf).2, takeMax_total f n⟩

/-- no part ever becomes negative -/
theorem parts_stay_nonneg (f : Parts) (n : Int) (hf : NonNeg f) :
    NonNeg (takeMax f n).1 ∧ NonNeg (takeMax f n).2 ∧
    ∀ t r, take f n = some (t, r) → NonNeg t ∧ NonNeg r :=
  ⟨(takeMax_nonneg f n hf).1, (takeMax_nonneg f n hf).2, fun _ _ h => take_nonneg hf h⟩

/-- `Funding.Concat` conserves totals, per-account amounts and non-negativity -/
theorem concat_conserves (f g : Parts) (x : Acct) :
    total (concat f g) = total f + total g ∧ amtOf (concat f g) x = amtOf f x + amtOf g x :=
  ⟨concat_total f g, concat_amtOf f g x⟩

/-- portions that add up to one split the amount with nothing lost or created -/
theorem portions_sum (ps : List Rat') (n : Int) (hn : 0 ≤ n) (h : PosDen ps)
    (hone : (ratSum ps).1 = (ratSum ps).2) (hne : ps ≠ []) : (allocate ps n).sum = n :=
  allocate_sum ps n hn h hone hne

/-- each share is the floored fraction; the leftover units go one each to the earliest entries -/
theorem portions_shape (ps : List Rat') (n : Int) (hn : 0 ≤ n) (h : PosDen ps)
    (hone : (ratSum ps).1 = (ratSum ps).2) (i : Nat) (hi : i < ps.length) :
    (allocate ps n)[i]'(by rw [allocate_length]; exact hi) =
      (n * (ps[i]).num) / (ps[i]).den + (if (i : Int) < n - (floors ps n).sum then 1 else 0) :=
  allocate_shape ps n hn h hone i hi

theorem portions_nonneg (ps : List Rat') (n : Int) (hn : 0 ≤ n) : ∀ y ∈ allocate ps n, 0 ≤ y :=
  allocate_nonneg ps n hn

/-! non-vacuity -/
example : allocate [⟨1, 3⟩, ⟨1, 3⟩, ⟨1, 3⟩] 10 = [4, 3, 3] := by decide
example : (ratSum [⟨1, 3⟩, ⟨1, 3⟩, ⟨1, 3⟩]).1 = (ratSum [⟨1, 3⟩, ⟨1, 3⟩, ⟨1, 3⟩]).2 := by decide
example : take [⟨"a", 5⟩, ⟨"b", 7⟩] 8 = some ([⟨"a", 5⟩, ⟨"b", 3⟩], [⟨"b", 4⟩]) := by decide
example : take [⟨"a", 5⟩] 8 = none := by decide

/-! ## Part 2 — lifted to `Spec` -/

/-- `assemble` (`OP_FUNDING_ASSEMBLE`): all fundings carry the asset of the last one, the parts are concatenated
left to right; totals, per-account amounts and non-negativity are those of the pieces -/
theorem assemble_facts {fs : List Fund} {r : Fund} (h : assemble fs = .ok r) :
    (∃ l, fs.getLast? = some l ∧ r.asset = l.asset) ∧ (∀ f ∈ fs, f.asset = r.asset) ∧
    r.parts = fs.foldl (fun acc f => concat acc f.parts) [] ∧
    total r.parts = (fs.map (fun f => total f.parts)).sum ∧
    (∀ x, amtOf r.parts x = (fs.map (fun f => amtOf f.parts x)).sum) ∧
    ((∀ f ∈ fs, NonNeg f.parts) → NonNeg r.parts) :=
  ⟨(assemble_ok h).1, (assemble_ok h).2.1, (assemble_ok h).2.2, assemble_total h, assemble_amtOf h,
    assemble_nonneg h⟩

/-- the two-funding form used by destinations (`kept` put back in front of the remainder) -/
theorem assemble_two {k : Fund} {a : Asset} {rem : Parts} {r : Fund} (h : assemble [k, ⟨a, rem⟩] = .ok r) :
    r.asset = a ∧ k.asset = a ∧ r.parts = concat k.parts rem := assemble_pair h

/-- whatever a source provides, no part of it is negative -/
theorem source_parts_nonneg {env : VEnv} {asset : Asset} {s : Source} {b b' : Bal} {f : Fund} {fb : Option Acct}
    (h : evalSource env asset s b = .ok (f, fb, b')) : NonNeg f.parts :=
  evalSource_nonneg env asset s b f fb b' h

theorem sources_parts_nonneg {env : VEnv} {asset : Asset} {ss : SourceList} {b b' : Bal} {fs : List Fund}
    {fb : Option Acct} (h : evalSources env asset ss b = .ok (fs, fb, b')) : ∀ f ∈ fs, NonNeg f.parts :=
  evalSources_nonneg env asset ss b fs fb b' h

/-- `max m from s` never provides more than `m` (exactly `min m (what s provides)`); when `s` is unbounded
(world / unbounded overdraft: it has a fallback account) it provides exactly `m` -/
theorem source_cap_respected {env : VEnv} {asset : Asset} {cap : Expr} {s : Source} {b b' : Bal} {f : Fund}
    {fb : Option Acct} {ma : Asset} {mn : Int}
    (h : evalSource env asset (.maxed cap s) b = .ok (f, fb, b')) (hm : evalMon env cap = .ok (ma, mn)) :
    ∃ f0 fb0 b1, evalSource env asset s b = .ok (f0, fb0, b1) ∧ 0 ≤ mn ∧ f.asset = ma ∧ total f.parts ≤ mn ∧
      (fb0 = none → total f.parts = min mn (total f0.parts)) ∧ (fb0 ≠ none → total f.parts = mn) := by
  obtain ⟨f0, fb0, b1, ma', mn', hs, hm', hmn, ha, h1, h2⟩ := evalSource_maxed_total h
  rw [hm] at hm'
  simp only [Except.ok.injEq, Prod.mk.injEq] at hm'
  obtain ⟨rfl, rfl⟩ := hm'
  refine ⟨f0, fb0, b1, hs, hmn, ha, ?_, h1, h2⟩
  cases hfb : fb0 with
  | none => have := h1 hfb; omega
  | some w => have := h2 (by rw [hfb]; simp); omega

/-- `TakeFromSource` is exact: the funding it returns totals the requested amount (which is non-negative), in
the requested asset; from a bounded source this requires the source to hold that much -/
theorem takeFromSource_exact {fb : Option Acct} {f : Fund} {ma : Asset} {mn : Int} {b b' : Bal} {t : Fund}
    (hf : NonNeg f.parts) (h : takeFromSource fb f ma mn b = .ok (t, b')) :
    total t.parts = mn ∧ 0 ≤ mn ∧ NonNeg t.parts ∧ t.asset = ma ∧ (fb = none → mn ≤ total f.parts) := by
  have h1 := Num.takeFromSource_exact hf h
  refine ⟨h1.1, h1.2.1, h1.2.2.1, h1.2.2.2, ?_⟩
  intro hfb; subst hfb
  exact (takeFromSource_none_exact hf h).2.2.1

/-- from an unbounded source: what the funding lacks comes from the fallback account, nothing more -/
theorem takeFromSource_fallback {w : Acct} {f : Fund} {ma : Asset} {mn : Int} {b b' : Bal} {t : Fund}
    (hf : NonNeg f.parts) (h : takeFromSource (some w) f ma mn b = .ok (t, b')) :
    amtOf t.parts w = amtOf (takeMax f.parts mn).1 w + (if mn > total f.parts then mn - total f.parts else 0) :=
  (takeFromSource_some_exact hf h).2.2.2.2

/-- `dest_conserves`: a destination appends postings (all non-negative, all in the funding's asset) and hands
back a funding (what is `kept`); emitted plus handed back is exactly what was received -/
theorem dest_conserves {env : VEnv} {d : Dest} {f r : Fund} {st st' : St}
    (h : evalDest env d f st = .ok (r, st')) (hf : NonNeg f.parts) :
    ∃ new, st'.postings = st.postings ++ new ∧ (∀ p ∈ new, 0 ≤ p.amt ∧ p.asset = f.asset) ∧
      sumAmt new + total r.parts = total f.parts ∧ NonNeg r.parts ∧ r.asset = f.asset :=
  evalDest_conserves env d f r st st' h hf

theorem keptOrDest_conserves {env : VEnv} {kd : KeptOrDest} {f r : Fund} {st st' : St}
    (h : evalKD env kd f st = .ok (r, st')) (hf : NonNeg f.parts) :
    ∃ new, st'.postings = st.postings ++ new ∧ (∀ p ∈ new, 0 ≤ p.amt ∧ p.asset = f.asset) ∧
      sumAmt new + total r.parts = total f.parts ∧ NonNeg r.parts ∧ r.asset = f.asset :=
  evalKD_conserves env kd f r st st' h hf

/-- the capped entries of an ordered destination: what they emit plus what is left (`cur'`) is what came in -/
theorem caps_conserve {env : VEnv} {cs : CapList} {kt kt' : Int} {cur cur' : Fund} {st st' : St}
    (h : evalCaps env cs kt cur st = .ok (kt', cur', st')) (hf : NonNeg cur.parts) :
    ∃ new, st'.postings = st.postings ++ new ∧ (∀ p ∈ new, 0 ≤ p.amt ∧ p.asset = cur.asset) ∧
      sumAmt new + total cur'.parts = total cur.parts ∧ NonNeg cur'.parts ∧ cur'.asset = cur.asset :=
  evalCaps_conserves env cs kt kt' cur cur' st st' h hf

/-- `dest_cap_respected`: `max [A m] to d` inside an ordered destination hands `d` exactly `min m (what is left)`,
so the postings `d` emits never exceed the cap -/
theorem dest_cap_respected {env : VEnv} {cap : Expr} {kd : KeptOrDest} {rest : CapList} {kt kt' : Int}
    {cur cur' : Fund} {st st' : St} {ma : Asset} {mn : Int}
    (h : evalCaps env (.cons cap kd rest) kt cur st = .ok (kt', cur', st')) (hm : evalMon env cap = .ok (ma, mn))
    (hf : NonNeg cur.parts) :
    ∃ k st1 new, evalKD env kd ⟨cur.asset, (takeMax cur.parts mn).1⟩ st = .ok (k, st1) ∧
      total (takeMax cur.parts mn).1 = min mn (total cur.parts) ∧
      st1.postings = st.postings ++ new ∧ sumAmt new ≤ mn ∧ 0 ≤ mn := by
  obtain ⟨ma', mn', k, st1, m, hm', hmn, _, hk, _, _, _⟩ := evalCaps_cons_inv h
  rw [hm] at hm'
  simp only [Except.ok.injEq, Prod.mk.injEq] at hm'
  obtain ⟨rfl, rfl⟩ := hm'
  have hle := takeMax_le cur.parts mn hmn hf
  obtain ⟨new, hp, _, hs, hk', _⟩ :=
    evalKD_conserves env kd ⟨cur.asset, (takeMax cur.parts mn).1⟩ k st st1 hk (takeMax_nonneg cur.parts mn hf).1
  have := total_nonneg hk'
  exact ⟨k, st1, new, hk, hle.2, hp, by simp only at hs; omega, hmn⟩

theorem allot_conserves {env : VEnv} {items : AllotList} {parts : List Int} {cur r : Fund} {st st' : St}
    (h : evalAllot env items parts cur st = .ok (r, st')) (hf : NonNeg cur.parts) :
    ∃ new, st'.postings = st.postings ++ new ∧ (∀ p ∈ new, 0 ≤ p.amt ∧ p.asset = cur.asset) ∧
      sumAmt new + total r.parts = total cur.parts ∧ NonNeg r.parts ∧ r.asset = cur.asset :=
  evalAllot_conserves env items parts cur r st st' h hf

/-- **`send_exact`**: `send [A n] (source = s  destination = d)` appends postings that are all non-negative, all
in asset `A`, and add up to `n` minus what the destination keeps (`kept ≥ 0`, handed back to the sources) -/
theorem send_exact {env : VEnv} {e : Expr} {s : Source} {d : Dest} {st st' : St} {ma : Asset} {mn : Int}
    (h : evalSend env (.mon e) (.src s) d st = .ok st') (hm : evalMon env e = .ok (ma, mn)) :
    ∃ new kept, st'.postings = st.postings ++ new ∧ (∀ p ∈ new, 0 ≤ p.amt ∧ p.asset = ma) ∧
      sumAmt new = mn - kept ∧ 0 ≤ kept ∧ 0 ≤ mn :=
  let ⟨⟨new, kept, h1, h2, h3, h4⟩, h5⟩ := send_mon_src_ok h hm
  ⟨new, kept, h1, h2, h3, h4, h5⟩

/-- the allotment-source form `send [A n] (source = { p₁ from s₁ … } destination = d)`: every source delivers
exactly its share `allocate ps n`, the postings add up to the sum of the shares minus what is kept -/
theorem send_exact_allot_shares {env : VEnv} {e : Expr} {items : List (PortionSpec × Source)} {d : Dest}
    {st st' : St} {ma : Asset} {mn : Int}
    (h : evalSend env (.mon e) (.allot items) d st = .ok st') (hm : evalMon env e = .ok (ma, mn)) :
    ∃ ps new kept, resolvePortions env (items.map (·.1)) = .ok ps ∧ ps.length = items.length ∧
      st'.postings = st.postings ++ new ∧ (∀ p ∈ new, 0 ≤ p.amt ∧ p.asset = ma) ∧
      sumAmt new = (allocate ps mn).sum - kept ∧ 0 ≤ kept ∧ (∀ y ∈ allocate ps mn, 0 ≤ y) := by
  obtain ⟨ps, hp, _, ⟨new, kept, h1, h2, h3, h4⟩, h5⟩ := send_mon_allot_ok h hm
  have hlen : ps.length = items.length := by rw [resolvePortions_length hp]; simp
  have htake : (allocate ps mn).take items.length = allocate ps mn := by
    apply List.take_of_length_le; rw [allocate_length, hlen]
  rw [htake] at h3 h5
  exact ⟨ps, new, kept, hp, hlen, h1, h2, h3, h4, h5⟩

/-- … and the shares add up to `n` whenever the resolved portions add up to one (guaranteed by
`portions_of_remaining` when a `remaining` entry is present, by `portions_of_checked` for every accepted script) -/
theorem send_exact_allot {env : VEnv} {e : Expr} {items : List (PortionSpec × Source)} {d : Dest}
    {st st' : St} {ma : Asset} {mn : Int}
    (h : evalSend env (.mon e) (.allot items) d st = .ok st') (hm : evalMon env e = .ok (ma, mn))
    (hone : ∀ ps, resolvePortions env (items.map (·.1)) = .ok ps → PosDen ps ∧ (ratSum ps).1 = (ratSum ps).2) :
    ∃ new kept, st'.postings = st.postings ++ new ∧ (∀ p ∈ new, 0 ≤ p.amt ∧ p.asset = ma) ∧
      sumAmt new = mn - kept ∧ 0 ≤ kept := by
  obtain ⟨ps, new, kept, hp, _, h1, h2, h3, h4, _⟩ := send_exact_allot_shares h hm
  obtain ⟨hpos, hsum⟩ := hone ps hp
  rw [allocate_sum_any ps mn hpos hsum (ne_nil_of_sum_one hsum)] at h3
  exact ⟨new, kept, h1, h2, h3, h4⟩

/-- a portion list with a `remaining` entry resolves to portions adding up to exactly one -/
theorem portions_of_remaining {env : VEnv} {specs : List PortionSpec} {ps : List Rat'}
    (h : resolvePortions env specs = .ok ps) (hrem : PortionSpec.remaining ∈ specs) :
    (ratSum ps).1 = (ratSum ps).2 := resolvePortions_sum_one_of_remaining h hrem

/-- every portion list the compiler accepts resolves to portions adding up to exactly one -/
theorem portions_of_checked {Γ : TEnv} {env : VEnv} {specs : List PortionSpec} {ps : List Rat'}
    (hc : checkPortions Γ specs = true) (h : resolvePortions env specs = .ok ps) :
    (ratSum ps).1 = (ratSum ps).2 := resolvePortions_sum_one_of_checked hc h

/-- … so for an accepted script whose portion denominators are positive (in the text and in the portion
variables — true of everything the parser and `parsePortion` build) the allotment-source send is exact too -/
theorem send_exact_allot_checked {Γ : TEnv} {env : VEnv} {e : Expr} {items : List (PortionSpec × Source)} {d : Dest}
    {st st' : St} {ma : Asset} {mn : Int}
    (h : evalSend env (.mon e) (.allot items) d st = .ok st') (hm : evalMon env e = .ok (ma, mn))
    (hc : checkPortions Γ (items.map (·.1)) = true)
    (hv : ∀ n r, lookupVar env n = some (.portion r) → 0 < r.den)
    (hk : ∀ r, PortionSpec.const r ∈ items.map (·.1) → 0 < r.den) :
    ∃ new kept, st'.postings = st.postings ++ new ∧ (∀ p ∈ new, 0 ≤ p.amt ∧ p.asset = ma) ∧
      sumAmt new = mn - kept ∧ 0 ≤ kept :=
  send_exact_allot h hm (fun _ hp => ⟨resolvePortions_posDen hp hv hk, resolvePortions_sum_one_of_checked hc hp⟩)

/-- `send [A *] (source = s  destination = d)`: the postings add up to everything the source provides, minus
what the destination keeps -/
theorem send_all_exact {env : VEnv} {ae : Expr} {s : Source} {d : Dest} {st st' : St}
    (h : evalSend env (.all ae) (.src s) d st = .ok st') :
    ∃ a f fb b1 new kept, evalAsset env ae = .ok a ∧ evalSource env a s st.bal = .ok (f, fb, b1) ∧
      st'.postings = st.postings ++ new ∧ (∀ p ∈ new, 0 ≤ p.amt ∧ p.asset = f.asset) ∧
      sumAmt new = total f.parts - kept ∧ 0 ≤ kept := by
  obtain ⟨a, f, fb, b1, ha, hs, new, kept, h1, h2, h3, h4⟩ := send_all_src_ok h
  exact ⟨a, f, fb, b1, new, kept, ha, hs, h1, h2, h3, h4⟩

/-- the asset `send [A *]` moves: that of one of the source's account occurrences — `A` for bare / unbounded
accounts, but the overdraft's asset for `allowing overdraft up to [B n]`.  (`Spec` and the real VM agree that
`send [USD *] (source = @a allowing overdraft up to [EUR 5] …)` moves EUR when `(a, EUR)` is tracked.) -/
theorem send_all_asset {env : VEnv} {asset : Asset} {s : Source} {b b' : Bal} {f : Fund} {fb : Option Acct}
    (h : evalSource env asset s b = .ok (f, fb, b')) :
    (∃ o ∈ sourceOcc env asset s, o.asset = f.asset) ∧
    ((∀ o ∈ sourceOcc env asset s, o.asset = asset) → f.asset = asset) :=
  ⟨evalSource_asset env asset s b b' f fb h, evalSource_asset_eq h⟩

/-- every statement only appends non-negative postings … -/
theorem stmt_appends_nonneg {env : VEnv} {s : Stmt} {F F' : Full} (h : evalStmt env s F = .ok F') :
    ∃ new, F'.st.postings = F.st.postings ++ new ∧ ∀ p ∈ new, 0 ≤ p.amt := evalStmt_appends h

/-- … so an accepted run never produces a negative posting -/
theorem postings_nonneg {P : Script} {req : Request} {store : Store} {r : Result}
    (h : run P req store = .ok r) : ∀ p ∈ r.postings, 0 ≤ p.amt := run_postings_nonneg h

/-- **`ordered_sources_drain`**: fundings are consumed front to back.  The parts of an ordered source
`{s₁ … sₙ}` are the concatenation of what `s₁ … sₙ` provide (`assemble_facts`); when an amount is taken out of it
(`takeLoop`, the loop under `Take` and `TakeMax`), the part at position `j` of what is taken comes from position
`j` of the funding, never exceeds it, and every EARLIER part (`i < j`) is taken in full: a later source
contributes only once all earlier ones have given everything they can -/
theorem ordered_sources_drain (f : Parts) (n : Int) (j : Nat) (hj : j < (takeLoop f n).1.length) :
    ∃ hjf : j < f.length, ((takeLoop f n).1[j]).acct = f[j].acct ∧ ((takeLoop f n).1[j]).amt ≤ f[j].amt ∧
      ∀ i (hi : i < j), (takeLoop f n).1[i]'(by omega) = f[i]'(by omega) := takeLoop_drain f n j hj

theorem ordered_sources_drain_take {f t r : Parts} {n : Int} (hn : 0 < n) (h : take f n = some (t, r)) (j : Nat)
    (hj : j < t.length) :
    ∃ hjf : j < f.length, (t[j]).acct = f[j].acct ∧ (t[j]).amt ≤ f[j].amt ∧
      ∀ i (hi : i < j), t[i]'(by omega) = f[i]'(by omega) := take_drain hn h j hj

/-! non-vacuity: concrete sends -/

/-- `send [USD 10] (source = @a  destination = @b)` with 100 on `a` -/
example : ∃ st', evalSend [] (.mon (.mon (.asset "USD") 10)) (.src (.acct (.acct "a") .none)) (.acct (.acct "b"))
      ⟨⟨fun _ _ => some 100⟩, []⟩ = .ok st' ∧ st'.postings = [⟨"a", "b", 10, "USD"⟩] := ⟨_, rfl, rfl⟩

/-- `send [USD 10] (source = {@a @b}  destination = {max [USD 3] to @c  remaining kept})`: 3 are sent, 7 kept -/
example : ∃ st', evalSend [] (.mon (.mon (.asset "USD") 10))
      (.src (.inorder (.cons (.acct (.acct "a") .none) (.cons (.acct (.acct "b") .none) .nil))))
      (.inorder (.cons (.mon (.asset "USD") 3) (.to (.acct (.acct "c"))) .nil) .kept)
      ⟨⟨fun _ _ => some 6⟩, []⟩ = .ok st' ∧ st'.postings = [⟨"a", "c", 3, "USD"⟩] := ⟨_, rfl, rfl⟩

/-- a source allotment with `remaining` -/
example : ∃ st', evalSend [] (.mon (.mon (.asset "USD") 10))
      (.allot [(.const ⟨1, 3⟩, .acct (.acct "a") .none), (.remaining, .acct (.acct "b") .none)])
      (.acct (.acct "c")) ⟨⟨fun _ _ => some 100⟩, []⟩ = .ok st' ∧
      st'.postings = [⟨"a", "c", 4, "USD"⟩, ⟨"b", "c", 6, "USD"⟩] := ⟨_, rfl, rfl⟩

example : resolvePortions [] [.const ⟨1, 3⟩, .remaining] = .ok [⟨1, 3⟩, ⟨2, 3⟩] := rfl

/-- the excluded point of `send_all_asset`: `send [USD *] (source = @a allowing overdraft up to [EUR 5]
destination = @b)` on a state that tracks `(a, EUR)` moves 12 EUR (the real VM does the same) -/
example : ∃ st', evalSend [] (.all (.asset "USD")) (.src (.acct (.acct "a") (.upTo (.mon (.asset "EUR") 5))))
      (.acct (.acct "b")) ⟨⟨fun _ _ => some 7⟩, []⟩ = .ok st' ∧ st'.postings = [⟨"a", "b", 12, "EUR"⟩] := ⟨_, rfl, rfl⟩

/-! #### the compiled program: lift through compiler correctness (`Num.run_eq` = `C08.compile_correct`) -/

/-- whatever holds of the postings of every accepted `Spec` run holds of the postings the bytecode VM model emits for the
compiled program (the statement-level theorems above are about `evalSend`/`evalStmts`, the functions `Spec.run` folds) -/
theorem postings_fact_compiled {P : Script} {prog : Program} (hc : compile P = .ok prog) (hwf : P.frag2)
    {req : Request} {store : Store} (Q : List Posting → Prop)
    (hQ : ∀ r', run P req store = .ok r' → Q r'.postings) {r : VM.Result} (h : VM.run prog req store = .ok r) :
    Q r.postings := by
  obtain ⟨r', h1, h2⟩ := vm_ok_postings hc hwf req store h
  exact h2 ▸ hQ r' h1

/-- … for instance: the compiled program never emits a negative posting -/
theorem postings_nonneg_compiled {P : Script} {prog : Program} (hc : compile P = .ok prog) (hwf : P.frag2)
    {req : Request} {store : Store} {r : VM.Result} (h : VM.run prog req store = .ok r) : ∀ p ∈ r.postings, 0 ≤ p.amt :=
  postings_fact_compiled hc hwf (fun ps => ∀ p ∈ ps, 0 ≤ p.amt) (fun _ h' => postings_nonneg h') h

end C03
