import Lemmas.Allocate
/-! C03 — a send moves exactly what it says.  Part 1: the funding algebra (`internal/machine/funding.go`,
`allotment.go`) that every send is built from.  Part 2 (`Props/C03Spec.lean` once proved) lifts these through
`Spec.evalSource` / `Spec.evalDest`. -/
namespace C03
open Num

/-- `Funding.Take`: a successful take yields exactly the requested amount and loses nothing -/
theorem take_exact {f : Parts} {n : Int} {t r : Parts} (hf : NonNeg f) (h : take f n = some (t, r)) :
    total t = n ∧ total t + total r = total f := take_total hf h

/-- `Funding.Take` succeeds exactly when the funding can cover the (non-negative) amount -/
theorem take_iff_covered (f : Parts) (n : Int) (hf : NonNeg f) : (take f n).isSome ↔ 0 ≤ n ∧ n ≤ total f :=
  take_isSome_iff f n hf

/-- per account nothing is created or lost by `Take` -/
theorem take_per_account {f : Parts} {n : Int} {t r : Parts} (h : take f n = some (t, r)) (x : Acct) :
    amtOf t x + amtOf r x = amtOf f x := take_amtOf h x

/-- `Funding.TakeMax` (a `max` on a source or destination): the cap is never exceeded, and it is reached
whenever the funding holds that much; nothing is lost -/
theorem max_respected (f : Parts) (n : Int) (hn : 0 ≤ n) (hf : NonNeg f) :
    total (takeMax f n).1 ≤ n ∧ total (takeMax f n).1 = min n (total f) ∧
    total (takeMax f n).1 + total (takeMax f n).2 = total f :=
  ⟨(takeMax_le f n hn hf).1, (takeMax_le f n hn hf).2, takeMax_total f n⟩

/-- no part ever becomes negative -/
theorem parts_stay_nonneg (f : Parts) (n : Int) (hf : NonNeg f) :
    NonNeg (takeMax f n).1 ∧ NonNeg (takeMax f n).2 ∧
    ∀ t r, take f n = some (t, r) → NonNeg t ∧ NonNeg r :=
  ⟨(takeMax_nonneg f n hf).1, (takeMax_nonneg f n hf).2, fun _ _ h => take_nonneg hf h⟩

/-- `Funding.Concat` conserves totals, per-account amounts and non-negativity -/
theorem concat_conserves (f g : Parts) (x : Acct) :
    total (concat f g) = total f + total g ∧ amtOf (concat f g) x = amtOf f x + amtOf g x :=
  ⟨concat_total f g, concat_amtOf f g x⟩

/-- portions that add up to one split the amount with nothing lost or created -/
theorem portions_sum (ps : List Rat') (n : Int) (hn : 0 ≤ n) (h : PosDen ps)
    (hone : (ratSum ps).1 = (ratSum ps).2) (hne : ps ≠ []) : (allocate ps n).sum = n :=
  allocate_sum ps n hn h hone hne

/-- each share is the floored fraction; the leftover units go one each to the earliest entries -/
theorem portions_shape (ps : List Rat') (n : Int) (hn : 0 ≤ n) (h : PosDen ps)
    (hone : (ratSum ps).1 = (ratSum ps).2) (i : Nat) (hi : i < ps.length) :
    (allocate ps n)[i]'(by rw [allocate_length]; exact hi) =
      (n * (ps[i]).num) / (ps[i]).den + (if (i : Int) < n - (floors ps n).sum then 1 else 0) :=
  allocate_shape ps n hn h hone i hi

theorem portions_nonneg (ps : List Rat') (n : Int) (hn : 0 ≤ n) : ∀ y ∈ allocate ps n, 0 ≤ y :=
  allocate_nonneg ps n hn

/-! non-vacuity -/
example : allocate [⟨1, 3⟩, ⟨1, 3⟩, ⟨1, 3⟩] 10 = [4, 3, 3] := by decide
example : (ratSum [⟨1, 3⟩, ⟨1, 3⟩, ⟨1, 3⟩]).1 = (ratSum [⟨1, 3⟩, ⟨1, 3⟩, ⟨1, 3⟩]).2 := by decide
example : take [⟨"a", 5⟩, ⟨"b", 7⟩] 8 = some ([⟨"a", 5⟩, ⟨"b", 3⟩], [⟨"b", 4⟩]) := by decide
example : take [⟨"a", 5⟩] 8 = none := by decide

end C03
