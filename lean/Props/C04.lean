import Model.Store.Spec
import Lemmas.StoreReplay
import Lemmas.StorePit
import Lemmas.StoreMeta
import Model.Store.Project
import Model.Store.Search
import Lemmas.StoreSqlSmallScope
import Lemmas.StoreSqlFrame
import Lemmas.StoreSqlMain
import Lemmas.StoreSqlPit
import Lemmas.LogTimeAccept
import Model.Store.FilterSem
import Lemmas.FilterSem
/-! C04 — what the read API reports is the replay of the log   (**PARTIAL**: see `checks/c04.py` META; the projection half of
stage 2 is now proved for every history — `projection_refines_replay`, `ledger_frame` — what stays partial is that PostgreSQL is
never executed and that the Go read queries are not evaluated).

Stage 1 (this part of the file): the laws of `Store.replay`, the independent fold the property speaks about.  They hold
for EVERY log sequence (any number of ledgers in the bucket, back- and future-dated transactions, reverts, metadata set
and delete on accounts and transactions, account metadata written by scripts, amounts of any size).

The tie to the code is in `checks/c04.py`: the real in-memory store against `replay` (differential + independent
Python fold), the ledger predicate on every SQL text the real `ledgerstore` read methods send, and — stage 2, below —
the PL/pgSQL projection of `0-init-schema.sql` translated on every run into `Generated/Schema.lean`. -/
namespace C04
open Store

-- ---------------------------------------------------------------- conservation

/-- **For every asset the inputs summed over all accounts equal the outputs** — for every log sequence of the bucket,
every ledger, every asset, and every selection of moves by date (`When.always`: current figures; `When.insertedBy t`:
as of a past instant; `When.effectiveBy d`: by effective date). -/
theorem replay_conservation (logs : List CLog) (l : String) (w : When) (asset : String) :
    aggregatedInput (replay logs l) w (fun _ => true) asset = aggregatedOutput (replay logs l) w (fun _ => true) asset := by
  have hb : Balanced (replay logs l) := by
    rw [replay_filter]; exact balanced_replayFrom _ _ balanced_empty
  have hf : ∀ l : List String, l.filter (fun _ => true) = l := fun l => List.filter_eq_self.mpr (fun _ _ => rfl)
  simp only [aggregatedInput, aggregatedOutput, hf, input, output]
  rw [sum_volume_eq_total _ _ w asset false hb.nodup hb.covered, sum_volume_eq_total _ _ w asset true hb.nodup hb.covered]
  exact hb.bal w asset

/-- every account that has a move is in the account list the sums range over, and is listed once -/
theorem replay_accounts_complete (logs : List CLog) (l : String) :
    (accounts (replay logs l)).Nodup ∧ ∀ m ∈ (replay logs l).moves, m.account ∈ accounts (replay logs l) := by
  have hb : Balanced (replay logs l) := by
    rw [replay_filter]; exact balanced_replayFrom _ _ balanced_empty
  exact ⟨hb.nodup, hb.covered⟩

theorem balance_fold (ms : List Move) (w : When) (a x : String) (acc : Int) :
    ms.foldl (fun acc m => acc + signed w a x m) acc = acc + (volume ms w a x false : Int) - (volume ms w a x true : Int) := by
  induction ms generalizing acc with
  | nil => simp [volume_nil]
  | cons m ms ih =>
    simp only [List.foldl_cons, ih, volume_cons]
    obtain ⟨acct, ast, amt, src, ins, eff, tid⟩ := m
    by_cases h1 : acct = a <;> by_cases h2 : ast = x <;> by_cases h3 : w ins eff = true <;> cases src <;>
      simp [signed, sel, h1, h2, h3] <;> omega

/-- the balance (a signed running sum over the moves) is input minus output — current, as of an instant, by effective date -/
theorem balance_is_input_minus_output (logs : List CLog) (l : String) (w : When) (a asset : String) :
    balance (replay logs l) w a asset = (input (replay logs l) w a asset : Int) - (output (replay logs l) w a asset : Int) := by
  simp [balance, input, output, balance_fold]

-- ---------------------------------------------------------------- ledgers sharing a bucket

/-- `Interleave l₁ l₂ l`: `l` is some interleaving of `l₁` and `l₂` (both in their own order) -/
inductive Interleave : List CLog → List CLog → List CLog → Prop
  | nil : Interleave [] [] []
  | left (x) {l₁ l₂ l} : Interleave l₁ l₂ l → Interleave (x :: l₁) l₂ (x :: l)
  | right (x) {l₁ l₂ l} : Interleave l₁ l₂ l → Interleave l₁ (x :: l₂) (x :: l)

theorem interleave_from (l₁ l₂ l : List CLog) (ℓ : String) (h : Interleave l₁ l₂ l)
    (h₁ : ∀ x ∈ l₁, x.ledger = ℓ) (h₂ : ∀ x ∈ l₂, x.ledger ≠ ℓ) (v v' : View) (hv : v ℓ = v' ℓ) :
    replayFrom v l ℓ = replayFrom v' l₁ ℓ := by
  induction h generalizing v v' with
  | nil => simpa [replayFrom] using hv
  | left x _ ih =>
    simp only [replayFrom, List.foldl_cons] at ih ⊢
    apply ih (fun y hy => h₁ y (List.mem_cons_of_mem _ hy)) h₂
    have := h₁ x (List.mem_cons_self ..)
    simp [step, this, hv]
  | right x _ ih =>
    simp only [replayFrom, List.foldl_cons] at ih ⊢
    apply ih h₁ (fun y hy => h₂ y (List.mem_cons_of_mem _ hy))
    have := h₂ x (List.mem_cons_self ..)
    have hne : ¬ ℓ = x.ledger := fun hh => this hh.symm
    simp [step, hne, hv]

/-- **Entries of one ledger never affect another ledger sharing the same database**: whatever the other ledgers of
the bucket log, and however their entries interleave with those of `ℓ`, the view of `ℓ` is the replay of `ℓ`'s own
entries. -/
theorem replay_ledger_independent (l₁ l₂ l : List CLog) (ℓ : String) (h : Interleave l₁ l₂ l)
    (h₁ : ∀ x ∈ l₁, x.ledger = ℓ) (h₂ : ∀ x ∈ l₂, x.ledger ≠ ℓ) :
    replay l ℓ = replay l₁ ℓ :=
  interleave_from l₁ l₂ l ℓ h h₁ h₂ _ _ rfl

/-- the same fact without naming the interleaving: the view of `ℓ` is the single-ledger replay of the entries that carry `ℓ` -/
theorem replay_own_entries_only (logs : List CLog) (ℓ : String) :
    replay logs ℓ = replayLedger (logs.filter (fun x => x.ledger == ℓ)) := replay_filter logs ℓ

-- ---------------------------------------------------------------- reverted flag

/-- a transaction is flagged reverted **iff** a REVERTED_TRANSACTION entry targets it (for the histories the commander
writes: fresh transaction ids, reverts of existing transactions — `WFLogs`) -/
theorem revert_flag_exact (logs : List CLog) (hw : WFLogs [] logs) :
    ∀ r ∈ (replayLedger logs).txs, (r.reverted.isSome = true ↔ r.tx.id ∈ revertTargets logs) := by
  obtain ⟨k, h⟩ := revInv_replay logs {} [] [] hw ⟨rfl, by simp, by simp⟩
  simpa [replayLedger] using h.flag

/-- soundness half, for ANY log sequence: no transaction is flagged unless a REVERTED_TRANSACTION entry names its id -/
theorem revert_flag_sound (logs : List CLog) (st : LedgerState) (hst : ∀ r ∈ st.txs, r.reverted = none) :
    ∀ r ∈ (replayLedgerFrom st logs).txs, r.reverted.isSome = true → r.tx.id ∈ revertTargets logs := by
  induction logs generalizing st with
  | nil => intro r hr h; simp [replayLedgerFrom] at hr; simp [hst r hr] at h
  | cons l ls ih =>
    -- generalise: flagged ⇒ id among the targets seen so far
    have gen : ∀ (logs : List CLog) (st : LedgerState) (T : List Nat),
        (∀ r ∈ st.txs, r.reverted.isSome = true → r.tx.id ∈ T) →
        ∀ r ∈ (replayLedgerFrom st logs).txs, r.reverted.isSome = true → r.tx.id ∈ T ++ revertTargets logs := by
      intro logs
      induction logs with
      | nil => intro st T h r hr hf; simpa [revertTargets] using h r (by simpa [replayLedgerFrom] using hr) hf
      | cons x xs ihx =>
        intro st T h
        simp only [replayLedgerFrom, List.foldl_cons]
        rw [revertTargets_cons, ← List.append_assoc]
        apply ihx
        intro r hr hf
        have ins : ∀ (d : Int) (tx : Tx), ∀ r ∈ (insertTx st d tx).txs, r.reverted.isSome = true → r.tx.id ∈ T := by
          intro d tx r hr hf
          simp only [insertTx, List.mem_append, List.mem_singleton] at hr
          cases hr with
          | inl hr => exact h r hr hf
          | inr hr => subst hr; simp at hf
        cases hp : x.payload with
        | newTx tx am =>
          simp only [stepLedger, hp, applyPayload] at hr
          simpa [revertTargets, hp] using ins x.date tx r hr hf
        | revert rid tx =>
          simp only [stepLedger, hp, applyPayload, markReverted, List.mem_map] at hr
          obtain ⟨r0, hr0, rfl⟩ := hr
          simp only [revertTargets, hp, List.filterMap_cons, List.filterMap_nil, List.mem_append, List.mem_singleton]
          by_cases h1 : r0.tx.id = rid
          · right; by_cases h2 : r0.reverted = none <;> simp [h1, h2]
          · rw [if_neg (by simp [h1])] at hf ⊢
            exact Or.inl (ins x.date tx r0 hr0 hf)
        | setMeta tg m =>
          cases tg with
          | account a => simp only [stepLedger, hp, applyPayload] at hr; simpa [revertTargets, hp] using h r hr hf
          | transaction id =>
            simp only [stepLedger, hp, applyPayload, reviseTx, List.mem_map] at hr
            obtain ⟨r0, hr0, rfl⟩ := hr
            have := h r0 hr0
            by_cases hh : r0.tx.id = id <;> simp [hh] at hf ⊢ <;> simpa [revertTargets, hp, hh] using this hf
        | delMeta tg k =>
          cases tg with
          | account a => simp only [stepLedger, hp, applyPayload] at hr; simpa [revertTargets, hp] using h r hr hf
          | transaction id =>
            simp only [stepLedger, hp, applyPayload, reviseTx, List.mem_map] at hr
            obtain ⟨r0, hr0, rfl⟩ := hr
            have := h r0 hr0
            by_cases hh : r0.tx.id = id <;> simp [hh] at hf ⊢ <;> simpa [revertTargets, hp, hh] using this hf
    have := gen (l :: ls) st [] (fun r hr hf => by simp [hst r hr] at hf)
    simpa using this

-- ---------------------------------------------------------------- metadata

/-- set then delete: the key is gone, other keys are untouched -/
theorem meta_set_then_delete (m : Meta) (k v : String) :
    (Meta.erase (Meta.set m k v) k).get k = none ∧ ∀ k', k' ≠ k → (Meta.erase (Meta.set m k v) k).get k' = m.get k' := by
  refine ⟨Meta.get_erase_same _ k, fun k' hk => ?_⟩
  rw [Meta.get_erase_other _ k k' hk, Meta.get_set_other m k k' v hk]

/-- the later set wins -/
theorem meta_later_set_wins (m : Meta) (k v₁ v₂ : String) : (Meta.set (Meta.set m k v₁) k v₂).get k = some v₂ :=
  Meta.get_set_same _ k v₂

/-- merging an object (`metadata || new`): the last binding of a key in `new` wins, keys not in `new` keep their value -/
theorem meta_merge (m pre post : Meta) (k v : String) (hk : ∀ kv ∈ post, kv.1 ≠ k) :
    (Meta.merge m (pre ++ (k, v) :: post)).get k = some v ∧
    ∀ k', (∀ kv ∈ pre ++ (k, v) :: post, kv.1 ≠ k') → (Meta.merge m (pre ++ (k, v) :: post)).get k' = m.get k' :=
  ⟨Meta.get_merge_last pre post m k v hk, fun k' h => Meta.get_merge_not_mem _ m k' h⟩

/-- a SET_METADATA entry on an account merges into that account's current metadata (creating the account) and leaves
every other account's metadata alone -/
theorem account_set_metadata (st : LedgerState) (l : String) (id : Nat) (d : Int) (ik : String) (a : String) (m : Meta) :
    acctMeta (stepLedger st ⟨l, id, d, ik, .setMeta (.account a) m⟩) a = Meta.merge (acctMeta st a) m ∧
    ∀ b, b ≠ a → acctMeta (stepLedger st ⟨l, id, d, ik, .setMeta (.account a) m⟩) b = acctMeta st b := by
  refine ⟨by simp [acctMeta_eq, stepLedger, applyPayload, metaOfAccts_setAcctMeta], fun b hb => ?_⟩
  simp only [acctMeta_eq, stepLedger, applyPayload, setAcctMeta]
  rw [metaOfAccts_revise_other _ a b d _ hb, metaOfAccts_touch]

/-- a DELETE_METADATA entry on an account removes exactly that key -/
theorem account_delete_metadata (st : LedgerState) (l : String) (id : Nat) (d : Int) (ik : String) (a k : String) :
    acctMeta (stepLedger st ⟨l, id, d, ik, .delMeta (.account a) k⟩) a = Meta.erase (acctMeta st a) k := by
  simp only [acctMeta_eq, stepLedger, applyPayload]
  cases h : hasAcct st.accts a with
  | true => rw [metaOfAccts_revise_same _ a d _ h]
  | false =>
    rw [metaOfAccts_revise_absent _ a d _ h]
    simp [metaOfAccts, find_none_of_not_hasAcct _ a h, Meta.erase]

/-- at replay level: after `set k:=v` then `delete k` on an account the key is absent; after two sets the later value shows -/
theorem account_set_then_delete (st : LedgerState) (l : String) (d₁ d₂ : Int) (a k v : String) :
    (acctMeta (replayLedgerFrom st [⟨l, 0, d₁, "", .setMeta (.account a) [(k, v)]⟩, ⟨l, 1, d₂, "", .delMeta (.account a) k⟩]) a).get k = none := by
  simp only [replayLedgerFrom, List.foldl_cons, List.foldl_nil]
  rw [account_delete_metadata]; exact Meta.get_erase_same _ k

theorem account_later_set_wins (st : LedgerState) (l : String) (d₁ d₂ : Int) (a k v₁ v₂ : String) :
    (acctMeta (replayLedgerFrom st [⟨l, 0, d₁, "", .setMeta (.account a) [(k, v₁)]⟩, ⟨l, 1, d₂, "", .setMeta (.account a) [(k, v₂)]⟩]) a).get k = some v₂ := by
  simp only [replayLedgerFrom, List.foldl_cons, List.foldl_nil]
  rw [(account_set_metadata _ l 1 d₂ "" a [(k, v₂)]).1]
  exact Meta.get_merge_last [] [] _ k v₂ (by simp)

/-- SET_METADATA / DELETE_METADATA on a transaction: the transaction found under that id carries the merged / reduced metadata -/
theorem transaction_set_metadata (st : LedgerState) (l : String) (n : Nat) (d : Int) (ik : String) (id : Nat) (m : Meta)
    (r : TxRec) (hr : findTx st id = some r) :
    (findTx (stepLedger st ⟨l, n, d, ik, .setMeta (.transaction id) m⟩) id).map txMeta = some (Meta.merge (txMeta r) m) := by
  have hid : r.tx.id = id := by simpa using List.find?_some hr
  simp only [findTx] at hr
  simp [findTx, stepLedger, applyPayload, findTx_revise, hr, hid, txMeta, histCurrent]

theorem transaction_delete_metadata (st : LedgerState) (l : String) (n : Nat) (d : Int) (ik : String) (id : Nat) (k : String)
    (r : TxRec) (hr : findTx st id = some r) :
    (findTx (stepLedger st ⟨l, n, d, ik, .delMeta (.transaction id) k⟩) id).map txMeta = some (Meta.erase (txMeta r) k) := by
  have hid : r.tx.id = id := by simpa using List.find?_some hr
  simp only [findTx] at hr
  simp [findTx, stepLedger, applyPayload, findTx_revise, hr, hid, txMeta, histCurrent]

-- ---------------------------------------------------------------- point in time

theorem volume_mono (ms : List Move) (w w' : When) (a x : String) (s : Bool)
    (h : ∀ i e, w i e = true → w' i e = true) : volume ms w a x s ≤ volume ms w' a x s := by
  induction ms with
  | nil => simp [volume_nil]
  | cons m ms ih =>
    simp only [volume_cons]
    by_cases h1 : sel w a x s m = true
    · have : sel w' a x s m = true := by
        simp only [sel, Bool.and_eq_true] at h1 ⊢
        exact ⟨h1.1, h _ _ h1.2⟩
      simp [h1, this]; exact ih
    · have : sel w a x s m = false := by simpa using h1
      simp only [this]; by_cases h2 : sel w' a x s m = true <;> simp [h2] <;> omega

/-- volumes as of an instant only grow with the instant (same for volumes by effective date) -/
theorem pit_monotone (logs : List CLog) (l : String) (t t' : Int) (a asset : String) (h : t ≤ t') :
    input (replay logs l) (When.insertedBy t) a asset ≤ input (replay logs l) (When.insertedBy t') a asset ∧
    output (replay logs l) (When.insertedBy t) a asset ≤ output (replay logs l) (When.insertedBy t') a asset ∧
    input (replay logs l) (When.effectiveBy t) a asset ≤ input (replay logs l) (When.effectiveBy t') a asset ∧
    output (replay logs l) (When.effectiveBy t) a asset ≤ output (replay logs l) (When.effectiveBy t') a asset := by
  have h1 : ∀ i e, When.insertedBy t i e = true → When.insertedBy t' i e = true := by
    intro i e hh; simp [When.insertedBy] at hh ⊢; omega
  have h2 : ∀ i e, When.effectiveBy t i e = true → When.effectiveBy t' i e = true := by
    intro i e hh; simp [When.effectiveBy] at hh ⊢; omega
  exact ⟨volume_mono _ _ _ a asset false h1, volume_mono _ _ _ a asset true h1,
    volume_mono _ _ _ a asset false h2, volume_mono _ _ _ a asset true h2⟩

/-- the current volumes of the record as of `t` are the volumes selected by insertion date -/
theorem pit_volumes (st : LedgerState) (t : Int) (a asset : String) :
    input (st.asOf t) When.always a asset = input st (When.insertedBy t) a asset ∧
    output (st.asOf t) When.always a asset = output st (When.insertedBy t) a asset := by
  have key : ∀ s, volume (st.moves.filter (fun m => decide (m.insertedAt ≤ t))) When.always a asset s
      = volume st.moves (When.insertedBy t) a asset s := by
    intro s
    simp only [volume, List.filter_filter]
    apply congrArg; apply congrArg
    apply List.filter_congr
    intro m _
    simp [sel, When.always, When.insertedBy]
  exact ⟨key false, key true⟩

theorem dropWhile_after (t : Int) (logs : List CLog) (hs : logs.Pairwise (fun x y => x.date ≤ y.date)) :
    ∀ l ∈ logs.dropWhile (fun x => decide (x.date ≤ t)), t < l.date := by
  induction logs with
  | nil => simp
  | cons x xs ih =>
    have hp := List.pairwise_cons.mp hs
    by_cases hx : x.date ≤ t
    · simpa [List.dropWhile_cons, hx] using ih hp.2
    · intro l hl
      simp only [List.dropWhile_cons, hx, decide_false] at hl
      simp only [Bool.false_eq_true, if_false, List.mem_cons] at hl
      cases hl with
      | inl hl => subst hl; omega
      | inr hl => have := hp.1 l hl; omega

theorem takeWhile_before (t : Int) (logs : List CLog) : ∀ l ∈ logs.takeWhile (fun x => decide (x.date ≤ t)), l.date ≤ t := by
  induction logs with
  | nil => simp
  | cons x xs ih =>
    by_cases hx : x.date ≤ t
    · intro l hl
      simp only [List.takeWhile_cons, hx, decide_true, if_true, List.mem_cons] at hl
      cases hl with
      | inl hl => subst hl; exact hx
      | inr hl => exact ih l hl
    · simp [hx]

/-- **point in time = replay of the prefix**: when log dates never decrease, the record as of insertion date `t`
(moves, transactions with their metadata revisions and reverted flag, accounts with their metadata revisions, logs —
hence every figure derived from them) is exactly the replay of the entries dated `≤ t`. -/
theorem pit_prefix (logs : List CLog) (t : Int) (hs : logs.Pairwise (fun x y => x.date ≤ y.date)) :
    (replayLedger logs).asOf t = replayLedger (logs.takeWhile (fun x => decide (x.date ≤ t))) := by
  have hsplit := @List.takeWhile_append_dropWhile _ (fun x : CLog => decide (x.date ≤ t)) logs
  have : replayLedger logs = replayLedgerFrom (replayLedger (logs.takeWhile (fun x => decide (x.date ≤ t))))
      (logs.dropWhile (fun x => decide (x.date ≤ t))) := by
    show List.foldl stepLedger {} logs = List.foldl stepLedger (List.foldl stepLedger {} _) _
    rw [← List.foldl_append, hsplit]
  rw [this, asOf_replayFrom_after t _ _ (dropWhile_after t logs hs)]
  exact asOf_of_allLe t _ (allLe_replayFrom t _ _ (takeWhile_before t logs) (allLe_empty t))

theorem takeWhile_eq_filter (t : Int) (logs : List CLog) (hs : logs.Pairwise (fun x y => x.date ≤ y.date)) :
    logs.takeWhile (fun x => decide (x.date ≤ t)) = logs.filter (fun x => decide (x.date ≤ t)) := by
  induction logs with
  | nil => rfl
  | cons x xs ih =>
    have hp := List.pairwise_cons.mp hs
    by_cases hx : x.date ≤ t
    · simp [hx, ih hp.2]
    · have : xs.filter (fun x => decide (x.date ≤ t)) = [] := by
        rw [List.filter_eq_nil_iff]; intro y hy; have := hp.1 y hy; simp; omega
      simp [hx, this]

/-- the same for one ledger of a bucket shared with others -/
theorem pit_prefix_bucket (logs : List CLog) (l : String) (t : Int) (hs : logs.Pairwise (fun x y => x.date ≤ y.date)) :
    (replay logs l).asOf t = replay (logs.takeWhile (fun x => decide (x.date ≤ t))) l := by
  have hs' : (logs.filter (fun x => x.ledger == l)).Pairwise (fun x y => x.date ≤ y.date) := hs.filter _
  rw [replay_filter, replay_filter, pit_prefix _ t hs', takeWhile_eq_filter t _ hs', takeWhile_eq_filter t _ hs,
    List.filter_filter, List.filter_filter]
  congr 2
  funext x; exact Bool.and_comm _ _

-- ---------------------------------------------------------------- non-vacuity: a concrete bucket

def exLogs : List CLog := [
  ⟨"l1", 0, 100, "k0", .newTx ⟨0, [⟨"world", "alice", "USD", 1180591620717411303424⟩], [("t", "a")], 50, "r0"⟩ [("alice", [("tier", "gold")])]⟩,
  ⟨"l2", 0, 101, "", .newTx ⟨0, [⟨"world", "alice", "USD", 7⟩], [], 300, ""⟩ []⟩,
  ⟨"l1", 1, 110, "", .newTx ⟨1, [⟨"alice", "bob", "USD", 30⟩, ⟨"alice", "alice", "USD", 5⟩], [], 20, ""⟩ []⟩,
  ⟨"l1", 2, 120, "", .revert 1 ⟨2, [⟨"alice", "alice", "USD", 5⟩, ⟨"bob", "alice", "USD", 30⟩], [], 120, ""⟩⟩,
  ⟨"l1", 3, 130, "", .setMeta (.account "alice") [("tier", "silver")]⟩,
  ⟨"l1", 4, 140, "", .delMeta (.account "alice") "tier"⟩,
  ⟨"l1", 5, 150, "", .setMeta (.transaction 0) [("t", "b")]⟩ ]

example : WFLogs [] (exLogs.filter (fun x => x.ledger == "l1")) := by simp [exLogs, WFLogs]
example : exLogs.Pairwise (fun x y => x.date ≤ y.date) := by decide
example : balance (replay exLogs "l1") When.always "alice" "USD" = 1180591620717411303424 := by decide
example : balance (replay exLogs "l2") When.always "alice" "USD" = 7 := by decide
example : input (replay exLogs "l1") (When.insertedBy 115) "bob" "USD" = 30 := by decide
example : input (replay exLogs "l1") (When.effectiveBy 25) "bob" "USD" = 30 ∧ input (replay exLogs "l1") (When.effectiveBy 19) "bob" "USD" = 0 := by decide
example : ((findTx (replay exLogs "l1") 1).map (fun r => r.reverted.isSome)) = some true := by decide
example : ((findTx (replay exLogs "l1") 0).map (fun r => (r.reverted.isSome, txMeta r))) = some (false, [("t", "b")]) := by decide
example : acctMeta (replay exLogs "l1") "alice" = [] ∧ acctMeta ((replay exLogs "l1").asOf 135) "alice" = [("tier", "silver")] := by decide
example : Interleave (exLogs.filter (fun x => x.ledger == "l1")) (exLogs.filter (fun x => x.ledger != "l1")) exLogs := by
  repeat (first | exact .nil | apply Interleave.left | apply Interleave.right)

-- ================================================================ STAGE 2 (model level only)
/-! Everything below is about `Generated/Schema.lean`: the PL/pgSQL functions and triggers of `0-init-schema.sql` as
translated on THIS run by `extract/plpgsql` into applications of the combinators of `Model/Store/Sql.lean` (trusted reading
of PostgreSQL).  Nothing here was executed by PostgreSQL.  `StoreSql.project` inserts the log entries one by one into `logs`
and lets the generated trigger chain (`handle_log` → `insert_transaction` → `insert_posting` → `insert_move`, `upsert_account`,
the four history triggers, …) fill the tables; `StoreSql.discrepancies` compares them with `Store.replay` clause by clause:
(i) latest move by `seq` = running volumes, (ii) latest move by `(effective_date, seq)` dated `≤ d` = effective volumes at `d`,
(iii) metadata and its revisions, (iv) `reverted_at`, and `frameBad` is (v): rows of other ledgers untouched, step by step. -/
open StoreSql Sql Schema

/-- the statement for EVERY association-list history, without any hypothesis.  As stated it is **false** — `wDuplicateKey` below: a
metadata "map" that lists a key twice is not a JSON object, `J.beq` is not even reflexive on it — and **proved** under the one hypothesis
that the metadata maps are maps: `projection_refines_replay` (section "the full theorem" at the end of this namespace).  Before the
repairs of `0-init-schema.sql` (fixes/c04-backdated-move.diff, fixes/c04-self-posting.diff) it was false on well-formed histories
too (`wBackdated`, `wSelf` below were counterexamples). -/
def ProjectionRefinesReplay : Prop := ∀ logs : List CLog, discrepancies logs = [] ∧ frameBad logs = []

/-- DESIGN §6 #24: alice receives 10 dated 100, then 5 dated 50 (a transaction dated before every existing move) -/
def wBackdated : List CLog := [
  ⟨"l", 0, 100, "", .newTx ⟨0, [⟨"world", "alice", "USD", 10⟩], [], 100, ""⟩ []⟩,
  ⟨"l", 1, 110, "", .newTx ⟨1, [⟨"world", "alice", "USD", 5⟩], [], 50, ""⟩ []⟩ ]

/-- a posting from an account that does not exist yet to itself (e.g. the first transaction of a ledger sends world → world) -/
def wSelf : List CLog := [ ⟨"l", 0, 100, "", .newTx ⟨0, [⟨"world", "world", "USD", 10⟩], [], 100, ""⟩ []⟩ ]

set_option maxRecDepth 100000 in
/-- clause (ii) on `wBackdated` (it failed before `insert_move` reset the effective totals when its second `select … into`
finds no row: the move carried NULL, `null + 5`): the move that `get_all_account_effective_volumes` picks for alice/USD at
effective date 50 carries (5, 0), the one at date 100 carries (15, 0) — the replayed figures — and no clause differs. -/
theorem projection_backdated_move_effective_volumes :
    (col (lastEffectiveMove (project wBackdated) "l" "alice" "USD" 50) (fun r => r.post_commit_effective_volumes) == volPair 5 0) = true ∧
    (input (replay wBackdated "l") (When.effectiveBy 50) "alice" "USD", output (replay wBackdated "l") (When.effectiveBy 50) "alice" "USD") = (5, 0) ∧
    (col (lastEffectiveMove (project wBackdated) "l" "alice" "USD" 100) (fun r => r.post_commit_effective_volumes) == volPair 15 0) = true ∧
    (col (lastEffectiveMove (project wBackdated) "l" "world" "USD" 50) (fun r => r.post_commit_effective_volumes) == volPair 0 5) = true ∧
    discrepancies wBackdated = [] := by
  decide

set_option maxRecDepth 100000 in
/-- clause (i) on `wSelf` (it failed while `insert_posting` looked up `_destination_exists` before the account was created: the
destination move started again from (0, 0) and the tables reported input 10, output 0): the latest move of world/USD says
input 10, output 10, as the replay does, and no clause differs. -/
theorem projection_self_posting_new_account :
    (col (lastMove (project wSelf) "l" "world" "USD") (fun r => r.post_commit_volumes) == volPair 10 10) = true ∧
    (input (replay wSelf "l") When.always "world" "USD", output (replay wSelf "l") When.always "world" "USD") = (10, 10) ∧
    (col (lastEffectiveMove (project wSelf) "l" "world" "USD" 100) (fun r => r.post_commit_effective_volumes) == volPair 10 10) = true ∧
    discrepancies wSelf = [] := by
  decide

/-- DESIGN §6 #25: a transaction at instant 1000 whose STORED timestamp text carries the offset +02:00 (7 200 000 000 µs) -/
def wZoned : List (CLog × Int) := [ (⟨"l", 0, 2000, "", .newTx ⟨0, [⟨"world", "alice", "USD", 1⟩], [], 1000, ""⟩ []⟩, 7200000000) ]

set_option maxRecDepth 100000 in
/-- what the SQL does with an offset in the stored text (**latent** since `ParseTime` converts to UTC — fixes/c04-parsetime-utc.diff;
`stored_timestamps_are_utc` below): `::timestamp without time zone` ignores it, the projection files the transaction under its
wall-clock time, two hours after its instant: `timestamp`, and the `effective_date` of its moves.  The check observes on every run
that the text the real code marshals carries no offset, and feeds whatever it observes to this model. -/
theorem projection_timestamp_offset_dropped :
    ((txRows (projectO wZoned) "l").map (fun r => r.timestamp == Val.ts 7200001000)) = [true] ∧
    ((moveRows (projectO wZoned) "l").map (fun r => r.effective_date == Val.ts 7200001000)) = [true, true] ∧
    (discrepanciesO wZoned).map (fun d => d.cls) = ["effective-volumes-null", "effective-volumes-null", "transaction-timestamp"] := by
  decide

set_option maxRecDepth 100000 in
/-- the same transaction stored as a UTC text: filed under its instant, no clause differs -/
theorem projection_timestamp_utc :
    ((txRows (projectO (wZoned.map (fun x => (x.1, 0)))) "l").map (fun r => r.timestamp == Val.ts 1000)) = [true] ∧
    discrepanciesO (wZoned.map (fun x => (x.1, 0))) = [] := by
  decide

/-- every timestamp the API accepts is handed on — and therefore marshalled into the stored payload — with offset 0
(model D of `ParseTime`, tied to the real one by C13's differential; `LogM.formatTime` prints offset 0 as `Z`) -/
theorem stored_timestamps_are_utc (s : String) (t : LogM.Time) (h : LogM.parseTime s = .ok t) :
    t.off = 0 ∧ LogM.fmtZone t.off = ['Z'] := by
  have := (LogM.parseTime_wf s t h).2.2.2.2.2.2.2.2.2.2.2
  exact ⟨this, by rw [this]; rfl⟩

/-- a bucket of two ledgers with back- and future-dated transactions, a self-posting on an existing account, a revert,
account metadata written by a script, metadata set / delete on accounts and on a transaction -/
def exLogs2 : List CLog := [
  ⟨"l1", 0, 100, "k0", .newTx ⟨0, [⟨"world", "alice", "USD", 1180591620717411303424⟩], [("t", "a")], 50, "r0"⟩ [("alice", [("tier", "gold")]), ("carol", [("x", "y")])]⟩,
  ⟨"l2", 0, 101, "", .newTx ⟨0, [⟨"world", "alice", "USD", 7⟩], [], 300, ""⟩ []⟩,
  ⟨"l1", 1, 110, "", .newTx ⟨1, [⟨"alice", "bob", "USD", 30⟩, ⟨"alice", "alice", "USD", 5⟩], [], 60, ""⟩ []⟩,
  ⟨"l1", 2, 120, "", .revert 1 ⟨2, [⟨"alice", "alice", "USD", 5⟩, ⟨"bob", "alice", "USD", 30⟩], [("reverts", "1")], 120, ""⟩⟩,
  ⟨"l1", 3, 130, "", .setMeta (.account "alice") [("tier", "silver")]⟩,
  ⟨"l2", 1, 131, "", .setMeta (.account "alice") [("tier", "bronze")]⟩,
  ⟨"l1", 4, 140, "", .delMeta (.account "alice") "tier"⟩,
  ⟨"l1", 5, 150, "", .setMeta (.transaction 0) [("t", "b")]⟩,
  ⟨"l1", 6, 160, "", .delMeta (.transaction 0) "t"⟩,
  ⟨"l1", 7, 170, "", .newTx ⟨3, [⟨"bob", "alice", "USD", 1⟩], [], 65, ""⟩ []⟩ ]

set_option maxRecDepth 1000000 in
/-- `projection_refines_replay`, **partial — one concrete history**: on `exLogs2` the generated projection agrees with the
replay on every clause (i)–(v) (non-vacuity of the comparison: the tables are not empty) -/
theorem projection_refines_replay_partial_example :
    discrepancies exLogs2 = [] ∧ frameBad exLogs2 = [] ∧
    ((project exLogs2).moves.length, (project exLogs2).transactions_metadata.length, (project exLogs2).accounts_metadata.length) = (14, 13, 9) := by
  decide +kernel

/-- `projection_refines_replay`, **partial — exhaustive small scope, checked by the kernel** (`Lemmas/StoreSqlSmallScope.lean`
holds the evaluation so that it is cached on its own): for EVERY history of one or two entries over the alphabet of
`Model/Store/Search.lean` (316 histories: sends a→b, b→a, a→a dated before / at / after everything, script metadata, reverts,
metadata set and delete on an account and a transaction, a second ledger), the generated projection agrees with the replay on
every clause (i)–(iv) — `discrepancies = []`, no (account, asset) excepted — and never touches another ledger's rows (v).
Superseded by `projection_refines_replay` (every history); kept as an independent, evaluation-only confirmation. -/
theorem projection_refines_replay_partial_small_scope : (Search.histories 2).all smallScopeOk = true :=
  StoreSql.smallScope_depth2

-- ---- unbounded facts about some GENERATED definitions (every database state, every argument)

/-- clause (iv), the writing half, for EVERY database state: the generated `revert_transaction` sets `reverted_at` on exactly
the rows with that id and ledger, changes no other column of `transactions`, and leaves moves and accounts alone -/
theorem revert_sets_reverted_at_exactly (db : DB) (l id d : Val) :
    (revert_transaction db l id d).transactions =
      db.transactions.map (fun r => if truthy (Val.and (Val.eq r.id id) (Val.eq r.ledger l)) then { r with reverted_at := d } else r) ∧
    (revert_transaction db l id d).moves = db.moves ∧ (revert_transaction db l id d).accounts = db.accounts := by
  obtain ⟨hs, _, g2, _, g4, _, g6, _⟩ := update_transactions_effect db (fun r => Val.and (Val.eq r.id id) (Val.eq r.ledger l))
    (fun r => { r with reverted_at := d })
  exact ⟨g2, g6, g4⟩

/-- … and the two metadata writers on transactions never touch `reverted_at` -/
theorem metadata_updates_keep_reverted_at (db : DB) (l id v d : Val) :
    (update_transaction_metadata db l id v d).transactions.map (fun r => r.reverted_at) = db.transactions.map (fun r => r.reverted_at) ∧
    (delete_transaction_metadata db l id v d).transactions.map (fun r => r.reverted_at) = db.transactions.map (fun r => r.reverted_at) := by
  obtain ⟨_, _, g2, _⟩ := update_transactions_effect db (fun r => Val.and (Val.eq r.id id) (Val.eq r.ledger l))
    (fun r => { r with metadata := Val.concat r.metadata v, updated_at := d })
  obtain ⟨_, _, k2, _⟩ := update_transactions_effect db (fun r => Val.and (Val.eq r.id id) (Val.eq r.ledger l))
    (fun r => { r with metadata := Val.sub r.metadata v, updated_at := d })
  constructor
  · show (update_transactions db _ _).transactions.map _ = _
    rw [g2, List.map_map]; apply List.map_congr_left; intro r _
    by_cases h : truthy (Val.and (Val.eq r.id id) (Val.eq r.ledger l)) = true <;> simp [h]
  · show (update_transactions db _ _).transactions.map _ = _
    rw [k2, List.map_map]; apply List.map_congr_left; intro r _
    by_cases h : truthy (Val.and (Val.eq r.id id) (Val.eq r.ledger l)) = true <;> simp [h]

/-- clause (v), **partial — three of the generated functions, but every database state**: `revert_transaction`,
`update_transaction_metadata` and `delete_transaction_metadata` called for ledger `l` (with the revision rows their
trigger appends) leave the rows of every other ledger `l'` in all five tables exactly as they were.  The insert
path (`insert_transaction` → `insert_posting` → `insert_move`, `upsert_account`, `delete_account_metadata`) is covered by
`ledger_frame` below (every history, every entry). -/
theorem projection_frame_partial (db : DB) (l l' : String) (hne : l ≠ l') (id v d : Val) :
    ofLedger l' (revert_transaction db (.text l) id d) = ofLedger l' db ∧
    ofLedger l' (update_transaction_metadata db (.text l) id v d) = ofLedger l' db ∧
    ofLedger l' (delete_transaction_metadata db (.text l) id v d) = ofLedger l' db :=
  ⟨update_transactions_frame db l l' hne (fun r => Val.eq r.id id) (fun r => { r with reverted_at := d }) (fun _ => rfl),
   update_transactions_frame db l l' hne (fun r => Val.eq r.id id) (fun r => { r with metadata := Val.concat r.metadata v, updated_at := d }) (fun _ => rfl),
   update_transactions_frame db l l' hne (fun r => Val.eq r.id id) (fun r => { r with metadata := Val.sub r.metadata v, updated_at := d }) (fun _ => rfl)⟩

-- ================================================================ STAGE 2, THE FULL THEOREM (every history)
/-! ### `projection_refines_replay` — proved

How (files `Lemmas/StoreSql*.lean`, ≈ 5 000 lines, no `decide` on histories):
1. **data refinement** (`StoreSqlAbs`): a typed database `ADB` (ledger a `String`, `seq` a `Nat`, dates and volumes integers, metadata
   key/value lists) with `conc : ADB → DB`; for every GENERATED function `f` the equation `f (conc A) args = conc (aF A …)` is proved
   by unfolding the regenerated definition (`upsert_account_conc`, `insert_move_conc`, `insert_posting_conc`,
   `insert_transaction_conc`, `handle_log_conc`, … up to `stepDB_conc : stepDB 0 (conc A) log = conc (aStep A log)`, every `A`,
   every `log`).  This is the only layer that looks into `Generated/Schema.lean`; it stops checking when the SQL changes.
2. **invariants of the typed tables** kept by `aStep`: `Sane` (unique `seq`s, one `accounts` row per (ledger, address), every move
   names an existing account of its ledger), `VolOk` (every move carries the totals of the moves of its account and asset that are
   not after it by `seq` resp. by (effective_date, seq) — `volOk_insertMove` is the heart: the two `select … into`, the insert,
   the `update` of the later-dated rows), `MovesRel` / `TxsRel` / `AcctsRel` (rows of a ledger ↔ replayed moves / transactions with
   metadata, revisions and `reverted_at` / accounts with metadata and revisions; the revision tables canonicalise to the replayed
   metadata histories, `Sim`).  During a NEW_TRANSACTION with script metadata the SQL is AHEAD of the replay (`insert_posting` hands
   the script metadata of a posting's accounts to `upsert_account` at once, the replay applies it after all postings): `AcctOkX`.
3. **the invariant implies the comparison** (`StoreSqlFinal`): `discrepanciesOf (conc A) l (v l) = []`; `StoreSqlRefl`: rows are `==`
   to themselves, so equality of the other ledgers' rows gives `frameBad = []`. -/

/-- **`projection_refines_replay`** — for EVERY log sequence (any length, any number of ledgers sharing the bucket, transactions dated
in the past or in the future, reverts of anything, metadata set / delete on accounts and transactions that exist or not, account
metadata written by scripts, ids and dates of any kind) whose metadata maps have distinct keys (`StoreSql.wellFormedHistory`, a
decidable predicate; see `Model/Store/Project.lean`), what the GENERATED SQL projection stores — accounts, transactions with metadata
and `reverted_at`, moves with `post_commit_volumes` and `post_commit_effective_volumes`, the two revision tables — agrees with
`Store.replay` on every clause the executable comparison checks, and no entry touches a row of another ledger.

The hypothesis is about the REPRESENTATION, not about the engine: `Store.Meta` and `Sql.J.obj` are association lists, a jsonb object
and a Go `map[string]string` cannot list a key twice.  None of the engine's guarantees (C05 ids, C10 revert targets, monotone dates,
existing metadata targets) is needed: the projection and the replay agree on histories that violate them as well. -/
theorem projection_refines_replay (logs : List CLog) (hwf : wellFormedHistory logs = true) :
    discrepancies logs = [] ∧ frameBad logs = [] :=
  projection_refines_replay_main logs hwf

/-- **`ledger_frame`** (clause (v), unbounded, NO hypothesis, equality rather than `==`): whatever history `pre` has been projected and
whatever the next entry is, inserting it leaves every row of every OTHER ledger — in `transactions`, `transactions_metadata`, `accounts`,
`accounts_metadata` and `moves` — exactly as it was.  (`insert_move` patches later-dated rows selected by `accounts_seq` and asset
without a ledger predicate; it stays inside the ledger because a move's `accounts_seq` names a row of `accounts` with the move's
ledger and `accounts.seq` is unique: `StoreSql.Sane`.) -/
theorem ledger_frame (pre : List CLog) (log : CLog) :
    otherRows (stepDB 0 (project pre) log) log.ledger = otherRows (project pre) log.ledger :=
  ledger_frame_step pre log

/-- the generated trigger chain, one `INSERT INTO logs`, IS the typed step — for every typed database and every entry -/
theorem generated_step_refines_typed_step (A : ADB) (log : CLog) : stepDB 0 (conc A) log = conc (aStep A log) := stepDB_conc A log

/-- **`insert_move` maintains the running and the effective volumes** (every database state): on a database whose `moves` rows carry
consistent totals (`VolOk`), the GENERATED `insert_move` — called, as `insert_posting` does, for an existing account row, with
`_account_exists` false only when no move refers to that account yet — yields a database whose rows do: the new row carries the totals
of all rows of its account and asset (resp. of those dated `≤` its date), every later-dated row got the amount added. -/
theorem insert_move_maintains_volumes (A : ADB) (txSeq : Val) (l : String) (ins : Val) (eff : Int) (a x : String) (amt : Int) (src ex : Bool)
    (hs : Sane A) (hv : VolOk A.moves) (hacc : A.accounts.any (acctKey l a) = true)
    (hex : ex = false → ∀ r ∈ A.moves, r.acctSeq ≠ acctSeqOf A l a) :
    ∃ A', insert_move (conc A) txSeq (.text l) ins (.ts eff) (.text a) (.text x) (.int amt) (.bool src) (exVal ex) = conc A' ∧ VolOk A'.moves :=
  ⟨_, insert_move_conc' A txSeq l ins eff a x amt src ex hacc, volOk_insertMove A txSeq l ins eff a x amt src ex _ hs.mv_lt hv hex⟩

/-- the invariant behind the theorem, for every well-formed history: the projected database is the rendering of a typed database that
is sane, carries consistent totals, and whose rows of every ledger are the replay's -/
theorem projection_invariant (logs : List CLog) (hwf : wellFormedHistory logs = true) :
    ∃ A, project logs = conc A ∧ Inv A (replay logs) :=
  ⟨_, project_eq logs, inv_steps logs {} _ (wfHistory_of logs hwf) inv_empty⟩

/-- clause (i) in the form a reader of `moves` uses it: for every well-formed history, ledger, account and asset with at least one
move, the move with the greatest `seq` carries the replayed inputs and outputs -/
theorem projection_running_volumes (logs : List CLog) (hwf : wellFormedHistory logs = true) (l a x : String)
    (hm : ∃ m ∈ (replay logs l).moves, m.account = a ∧ m.asset = x) :
    (col (lastMove (project logs) l a x) (fun r => r.post_commit_volumes) ==
      volPair (input (replay logs l) When.always a x) (output (replay logs l) When.always a x)) = true := by
  obtain ⟨A, e, hinv⟩ := projection_invariant logs hwf
  rw [e]; exact clause_volumes hinv l a x hm

/-- clause (ii) for EVERY date `d` (not only those that occur, which is what the executable comparison looks at): if some move of the
account and asset is dated `≤ d`, the move last by (effective_date, seq) among those dated `≤ d` carries the replayed inputs and
outputs by effective date `d` — the invariant `insert_move`'s patching of the later-dated rows maintains -/
theorem projection_effective_volumes (logs : List CLog) (hwf : wellFormedHistory logs = true) (l a x : String) (d : Int)
    (hm : ∃ m ∈ (replay logs l).moves, m.account = a ∧ m.asset = x ∧ m.effective ≤ d) :
    (col (lastEffectiveMove (project logs) l a x d) (fun r => r.post_commit_effective_volumes) ==
      volPair (input (replay logs l) (When.effectiveBy d) a x) (output (replay logs l) (When.effectiveBy d) a x)) = true := by
  obtain ⟨A, e, hinv⟩ := projection_invariant logs hwf
  rw [e]; exact clause_effective hinv l a x d hm

/-- non-vacuity of the hypothesis: the rich example and every history of the small-scope enumeration satisfy it … -/
theorem wellFormed_examples : wellFormedHistory exLogs2 = true ∧ (Search.histories 2).all wellFormedHistory = true := by
  constructor
  · decide
  · decide +kernel

/-- … (the check evaluates `wellFormedHistory` on every generated history of a run: all of them satisfy it) and the theorem applied to
the rich example gives what `projection_refines_replay_partial_example` evaluates -/
theorem projection_refines_replay_exLogs2 : discrepancies exLogs2 = [] ∧ frameBad exLogs2 = [] :=
  projection_refines_replay exLogs2 wellFormed_examples.1

/-- the hypothesis cannot be dropped for THIS comparison: a metadata "map" listing a key twice is not `==` to itself -/
def wDuplicateKey : List CLog := [ ⟨"l", 0, 10, "", .newTx ⟨0, [⟨"a", "b", "X", 1⟩], [("k", "v"), ("k", "w")], 10, ""⟩ []⟩ ]

set_option maxRecDepth 100000 in
theorem wellFormed_needed : wellFormedHistory wDuplicateKey = false ∧ (discrepancies wDuplicateKey).map (·.cls) = ["transaction-metadata", "transaction-metadata-history"] := by
  decide

theorem projectionRefinesReplay_unrestricted_is_false : ¬ ProjectionRefinesReplay := by
  intro h
  have := (h wDuplicateKey).1
  have h2 := wellFormed_needed.2
  rw [this] at h2
  cases h2

/-- DESIGN §6 #22 (latent: the Go read API never passes `_before`, and never calls `aggregate_ledger_volumes`):
`get_account_balance(…, _before)` picks the latest move BY SEQ among those with `effective_date <= _before` and reads the
insertion-ordered running totals — neither the balance by effective date nor the balance as of an instant. -/
def wBefore : List CLog := [
  ⟨"l", 0, 100, "", .newTx ⟨0, [⟨"world", "alice", "USD", 10⟩], [], 100, ""⟩ []⟩,
  ⟨"l", 1, 110, "", .newTx ⟨1, [⟨"world", "alice", "USD", 5⟩], [], 200, ""⟩ []⟩,
  ⟨"l", 2, 120, "", .newTx ⟨2, [⟨"world", "alice", "USD", 1⟩], [], 150, ""⟩ []⟩ ]

set_option maxRecDepth 100000 in
theorem get_account_balance_before_witness :
    (getAccountBalance (project wBefore) "l" "alice" "USD" (some 150) == Val.int 16) = true ∧
    balance (replay wBefore "l") (When.effectiveBy 150) "alice" "USD" = 11 ∧
    (getAccountBalance (project wBefore) "l" "alice" "USD" none == Val.int 16) = true ∧
    balance (replay wBefore "l") When.always "alice" "USD" = 16 := by
  decide

end C04

/-! ## Filters: the `where` text built for a filter expression MEANS the filter

Quantifier of C04: "every point-in-time and **filter**".  What a filtered read reports must be the replay of the log
restricted by that filter; the rows are selected by the `where` text the query builder writes.  `Model.SqlText.exprPieces`
is the model of that writer (`libs/query` `set.Build` / `not.Build` / `keyValue.Build` + the `ContextFn` leaf renderers
of `ledgerstore`; tied to the real SQL text by the `sqltext` stream of C20 and the `filtersem` stream of
`checks/c04.py`).  `Model.Store.FilterSem` holds the intended meaning of a filter (`sem`: `$not` negation, `$and`
conjunction, `$or` disjunction, a leaf = the boolean skeleton of atomic conditions its renderer is meant to emit) and
`boolParse`, the reading of a token sequence under SQL operator precedence (parentheses, NOT > AND > OR; TRUSTED: my
model of PostgreSQL's grammar for the three connectives).  The statements below say the two coincide, for every
listing, PIT flag, ledger name and EVERY expression that renders — all nesting depths and list lengths, leaves whose
own text is an unparenthesised `a or b` (account match on transactions) or `a and b and …` (address pattern with
wildcard segments) included.  The proof (`Lemmas/FilterSem.lean`) shows where the parentheses are needed: `set.Build`
wraps every item, `not.Build` wraps its operand, bun wraps every `Where(...)`. -/
namespace C04
open SqlText FilterSem

/-- **The rendered `where` text has exactly the boolean structure the filter tree says.**  For every listing `ep`,
point-in-time flag, ledger and every filter expression `e` that the query context accepts (`exprPieces … = .ok ps`):
the tokens of the rendering (the scanner `SqlText.lexL` on every piece) are read by `boolParse` as a tree whose value,
under EVERY assignment of truth values to the atomic conditions, is the intended meaning `sem` of `e`. -/
theorem filter_where_means_filter (ep : Endpoint) (pit : Bool) (ledger : Chars) (e : Expr) (ps : List Piece)
    (h : exprPieces ep pit ledger e = .ok ps) :
    ∃ t, boolParse (pieceToks ps) = some t ∧ ∀ asg, t.eval asg = sem ep pit ledger asg e :=
  (expr_reads ep pit ledger e ps h).parse _ (Nat.lt_succ_self _)

/-- the rendering has balanced parentheses and is not mistaken for a sub-select: whoever wraps it in `( … )` — bun's
`Where`, an enclosing `$and` / `$or` / `$not` — gets a boolean group with the same reading -/
theorem filter_text_wraps (ep : Endpoint) (pit : Bool) (ledger : Chars) (e : Expr) (ps : List Piece)
    (h : exprPieces ep pit ledger e = .ok ps) :
    bal (pieceToks ps) = true ∧ startsSelect (pieceToks ps) = false ∧
      ∃ t, boolParse (paren (pieceToks ps)) = some t ∧ ∀ asg, t.eval asg = sem ep pit ledger asg e := by
  have r := expr_reads ep pit ledger e ps h
  exact ⟨r.bal, r.nosel, (opnd_reads (paren_opnd r)).parse _ (Nat.lt_succ_self _)⟩

/-- **The filter stays conjoined with the statement's own conditions** (the ledger predicate, the PIT bound): bun
writes every `Where(...)` as one parenthesised conjunct, `(c₁) AND … AND (cₙ) AND (filter)`; for atomic conditions
`cᵢ` that text is read as `c₁ ∧ … ∧ cₙ ∧ sem e` — no connective of the filter can capture or escape them. -/
theorem filter_attached_as_conjunct (ep : Endpoint) (pit : Bool) (ledger : Chars) (e : Expr) (ps : List Piece)
    (h : exprPieces ep pit ledger e = .ok ps) (pre : List (List Tok)) (hpre : ∀ c ∈ pre, isAtomToks c = true) :
    ∃ t, boolParse (whereToks (pre ++ [pieceToks ps])) = some t ∧
      ∀ asg, t.eval asg = (pre.all asg && sem ep pit ledger asg e) :=
  (where_reads pre hpre (expr_reads ep pit ledger e ps h)).parse _ (Nat.lt_succ_self _)

/-- the tree form of the meaning (what the driver prints and the check compares with the reading of the captured SQL) -/
theorem filter_skeleton_is_meaning (ep : Endpoint) (pit : Bool) (ledger : Chars) (asg : List Tok → Bool) (e : Expr) :
    (skel ep pit ledger e).eval asg = sem ep pit ledger asg e :=
  skel_eval ep pit ledger asg e

/-- every leaf alone: the text of one matcher is read as the skeleton it is meant to be (one condition; `source OR
destination`; `length AND segment AND …`) -/
theorem leaf_text_means_leaf (ep : Endpoint) (pit : Bool) (ledger : Chars) (key : FKey) (op : String) (v : JV)
    (ps : List Piece) (h : leafPieces ep pit ledger key op v = .ok ps) :
    ∃ t, boolParse (pieceToks ps) = some t ∧ ∀ asg, t.eval asg = (leafSkel ep pit ledger key op v).eval asg :=
  (leaf_reads h).parse _ (Nat.lt_succ_self _)

/-! ### non-vacuity: concrete filters, read by evaluation -/

/-- the atomic conditions of the examples, by their text -/
abbrev A (s : String) : BTree := .atom (lex s)

/-- `$not` over an account match on transactions: the negation covers BOTH column tests -/
example : (renderFilter .transactions false "l" (.not (.leaf .account "$match" (.str "bank".toList)))).toOption =
    some "not (sources @> '[\"bank\"]' or destinations @> '[\"bank\"]')" := by decide
example : (exprPieces .transactions false "l".toList (.not (.leaf .account "$match" (.str "bank".toList)))).toOption.map
      (fun ps => boolParse (pieceToks ps)) =
    some (some (.not (.or (A "sources @> '[\"bank\"]'") (A "destinations @> '[\"bank\"]'")))) := by decide
/-- the same text through the scanner as a whole, inside the statement's `where` -/
example : boolParseSql "(transactions.ledger = 'l') AND (not (sources @> '[\"bank\"]' or destinations @> '[\"bank\"]'))" =
    some (.and (A "transactions.ledger = 'l'") (.not (.or (A "sources @> '[\"bank\"]'") (A "destinations @> '[\"bank\"]'")))) := by
  decide
/-- piece by piece or as one text: the same tokens -/
example : (exprPieces .transactions false "l".toList (.not (.leaf .account "$match" (.str "bank".toList)))).toOption.map
      (fun ps => decide (pieceToks ps = lex (String.ofList (flat ps)))) = some true := by decide

/-- **the parentheses of `not.Build` are needed**: without them the same leaf reads `(NOT source) OR destination` — a
transaction whose destination is `bank` would be listed among those that do not involve `bank` -/
example : boolParseSql "not sources @> '[\"bank\"]' or destinations @> '[\"bank\"]'" =
    some (.or (.not (A "sources @> '[\"bank\"]'")) (A "destinations @> '[\"bank\"]'")) := by decide
theorem not_needs_its_parentheses :
    ∃ asg, (boolParseSql "not sources @> '[\"bank\"]' or destinations @> '[\"bank\"]'").map (·.eval asg) ≠
      some (sem .transactions false "l".toList asg (.not (.leaf .account "$match" (.str "bank".toList)))) :=
  ⟨fun ts => decide (ts = lex "destinations @> '[\"bank\"]'"), by decide⟩

/-- `$not` over `$or [a, b]` -/
def notOr : Expr := .not (.set false [.leaf .source "$match" (.str "world".toList), .leaf .destination "$match" (.str "bank".toList)])
example : (renderFilter .transactions false "l" notOr).toOption =
    some "not ((sources @> '[\"world\"]') or (destinations @> '[\"bank\"]'))" := by decide
example : (exprPieces .transactions false "l".toList notOr).toOption.map (fun ps => boolParse (pieceToks ps)) =
    some (some (.not (.or (A "sources @> '[\"world\"]'") (A "destinations @> '[\"bank\"]'")))) := by decide
/-- … and what the same set reads as when the operand of `not` is not wrapped: `(NOT a) OR b` -/
example : boolParseSql "not (sources @> '[\"world\"]') or (destinations @> '[\"bank\"]')" =
    some (.or (.not (A "sources @> '[\"world\"]'")) (A "destinations @> '[\"bank\"]'")) := by decide

/-- an address pattern with a wildcard segment under `$not`, on accounts: `NOT (length AND segment)` -/
example : (exprPieces .accounts false "l".toList (.not (.leaf .address "$match" (.str "users:".toList)))).toOption.map
      (fun ps => boolParse (pieceToks ps)) =
    some (some (.not (.and (A "jsonb_array_length(accounts.address_array) = 2")
      (A "accounts.address_array @@ ('$[0] == \"users\"')::jsonpath")))) := by decide

/-- three deep, mixed: `$and [ $not ($or [account, $and [metadata, $not reference]]), timestamp ]` -/
def deep : Expr :=
  .set true [.not (.set false [.leaf .account "$match" (.str "a:".toList),
                               .set true [.leaf (.metadata "k".toList) "$match" (.str "v".toList),
                                          .not (.leaf .reference "$match" (.str "r".toList))]]),
             .leaf .timestamp "$lte" (.str "2023-01-01T00:00:00Z".toList)]
set_option maxRecDepth 100000 in
example : (exprPieces .transactions true "l".toList deep).toOption.map (fun ps => boolParse (pieceToks ps)) =
    some (some (.and
      (.not (.or (.or (A "sources_arrays @> '[{\"0\":\"a\",\"2\":null}]'") (A "destinations_arrays @> '[{\"0\":\"a\",\"2\":null}]'"))
                 (.and (A "transactions_metadata.metadata @> '{\"k\":\"v\"}'") (.not (A "reference = 'r'")))))
      (A "timestamp <= '2023-01-01T00:00:00Z'"))) := by decide
set_option maxRecDepth 100000 in
/-- the reading and the meaning agree under all 2^5 assignments of the five atomic conditions -/
example : (((exprPieces .transactions true "l".toList deep).toOption.bind (fun ps => boolParse (pieceToks ps))).map
    (fun t => equivalent t (skel .transactions true "l".toList deep))) = some true := by decide

set_option maxRecDepth 100000 in
/-- a balance matcher is ONE condition although its sub-select contains `and`: `not ( select … ) < 5` negates the comparison -/
example : ((exprPieces .accounts false "l".toList (.not (.leaf (.balanceOf "USD".toList) "$lt" (.num 5)))).toOption.bind
      (fun ps => boolParse (pieceToks ps))).map (fun t => match t with | .not (.atom _) => true | _ => false) = some true := by decide

/-- an empty `$and` / `$or` is `1 = 1`, the constant true -/
example : (exprPieces .accounts false "l".toList (.not (.set false []))).toOption.map (fun ps => boolParse (pieceToks ps)) =
    some (some (.not .tt)) := by decide

/-- shapes the reading refuses rather than guesses -/
example : boolParseSql "a is not null" = none ∧ boolParseSql "a and" = none ∧ boolParseSql "(a or b" = none ∧
    boolParseSql "a between 1 and 2" = none := by decide

end C04

/-! ## What a point-in-time read of `moves` computes: the pairing of date column, row order and volumes column

A row of `moves` carries two pairs of totals (`projection_running_volumes`, `projection_effective_volumes`): `post_commit_volumes` — the
moves of its account and asset not after it BY `seq`, i.e. in insertion order — and `post_commit_effective_volumes` — those not after it
BY (effective_date, seq).  A read "as of instant `t`" keeps ONE row per account and asset; exactly two ways of choosing it are sound:

* **P1** rows with `insertion_date ≤ t`, the latest by `seq`, column `post_commit_volumes`: the replayed volumes of the entries inserted
  by `t` (`pit_read_by_insertion_date`; needs what the commander guarantees: log dates never decrease —
  `pit_read_by_insertion_date_needs_ordered_dates` shows the hypothesis cannot be dropped);
* **P2** rows with `effective_date ≤ t`, the latest by (effective_date, seq), column `post_commit_effective_volumes`: the replayed volumes
  by effective date (`pit_read_by_effective_date`, every history).

Mixing them — rows cut on one date, row picked / totals kept in the other order — is wrong as soon as the two orders differ
(`pit_mixed_read_witness`: one back-dated transaction; the figure is NEITHER replayed figure).  `checks/c04pit.py` reads the triple
(date column, order, volumes column) off every statement the real store sends and off the schema functions it passes the point in time
to, and accepts P1 and P2 only. -/
namespace C04
open Store StoreSql Sql Schema

/-- **P1**: every history with distinct metadata keys and non-decreasing log dates, every ledger, account, asset and instant `t` with at
least one move inserted by `t`: among the rows with `insertion_date ≤ t` the one with the greatest `seq` carries, in
`post_commit_volumes`, the replayed inputs and outputs as of `t` -/
theorem pit_read_by_insertion_date (logs : List CLog) (hwf : wellFormedHistory logs = true)
    (hs : logs.Pairwise (fun p q => p.date ≤ q.date)) (l a x : String) (t : Int)
    (hm : ∃ m ∈ (replay logs l).moves, m.account = a ∧ m.asset = x ∧ m.insertedAt ≤ t) :
    (col (lastMoveAsOf (project logs) l a x t) (fun r => r.post_commit_volumes) ==
      volPair (input (replay logs l) (When.insertedBy t) a x) (output (replay logs l) (When.insertedBy t) a x)) = true := by
  obtain ⟨hinv, hins⟩ := inv_ins_steps logs {} _ (wfHistory_of logs hwf) inv_empty (fun _ => .nil)
  rw [project_eq]
  exact clause_pit hinv l a x t (hins l) (replay_moves_sorted logs l hs) hm

/-- **P2** (`projection_effective_volumes` at the instant): among the rows with `effective_date ≤ t` the last by (effective_date, seq)
carries, in `post_commit_effective_volumes`, the replayed inputs and outputs by effective date `t` — every history -/
theorem pit_read_by_effective_date (logs : List CLog) (hwf : wellFormedHistory logs = true) (l a x : String) (t : Int)
    (hm : ∃ m ∈ (replay logs l).moves, m.account = a ∧ m.asset = x ∧ m.effective ≤ t) :
    (col (lastEffectiveMove (project logs) l a x t) (fun r => r.post_commit_effective_volumes) ==
      volPair (input (replay logs l) (When.effectiveBy t) a x) (output (replay logs l) (When.effectiveBy t) a x)) = true :=
  projection_effective_volumes logs hwf l a x t hm

/-- the history of the seeded change c04-r4-1: `tx0` (world → bank 100) dated 500 is inserted at 1000, then `tx1` (bank → u1 10) dated 300
— BEFORE `tx0` — is inserted at 1001.  Insertion order: tx0, tx1.  Timestamp order: tx1, tx0. -/
def wPairing : List CLog := [
  ⟨"l1", 0, 1000, "", .newTx ⟨0, [⟨"world", "bank", "USD", 100⟩], [], 500, ""⟩ []⟩,
  ⟨"l1", 1, 1001, "", .newTx ⟨1, [⟨"bank", "u1", "USD", 10⟩], [], 300, ""⟩ []⟩ ]

set_option maxRecDepth 100000 in
/-- **the mixed read is neither figure**: at `t = 400` (after `tx1`'s date, before `tx0`'s, before anything was inserted) the rows of
`bank` cut on `effective_date ≤ 400` are `tx1`'s row alone; it is the latest by `seq` and its `post_commit_volumes` are the
insertion-order totals (100, 10), which include `tx0`.  As of the instant 400 nothing had been inserted — (0, 0); by effective date 400
only `tx1` counts — (0, 10); the two sound reads give exactly those (no row, resp. the row with (0, 10)). -/
theorem pit_mixed_read_witness :
    wellFormedHistory wPairing = true ∧ wPairing.Pairwise (fun p q => p.date ≤ q.date) ∧
    (col (lastMoveDatedBySeq (project wPairing) "l1" "bank" "USD" 400) (fun r => r.post_commit_volumes) == volPair 100 10) = true ∧
    (input (replay wPairing "l1") (When.insertedBy 400) "bank" "USD", output (replay wPairing "l1") (When.insertedBy 400) "bank" "USD") = (0, 0) ∧
    (input (replay wPairing "l1") (When.effectiveBy 400) "bank" "USD", output (replay wPairing "l1") (When.effectiveBy 400) "bank" "USD") = (0, 10) ∧
    (lastMoveAsOf (project wPairing) "l1" "bank" "USD" 400).isNone = true ∧
    (col (lastEffectiveMove (project wPairing) "l1" "bank" "USD" 400) (fun r => r.post_commit_effective_volumes) == volPair 0 10) = true ∧
    -- … and between the two insertions (t = 1000: only tx0 is in) the mixed read of `bank` is (100, 10) again, the replay says (100, 0)
    (col (lastMoveDatedBySeq (project wPairing) "l1" "bank" "USD" 1000) (fun r => r.post_commit_volumes) == volPair 100 10) = true ∧
    (input (replay wPairing "l1") (When.insertedBy 1000) "bank" "USD", output (replay wPairing "l1") (When.insertedBy 1000) "bank" "USD") = (100, 0) ∧
    (col (lastMoveAsOf (project wPairing) "l1" "bank" "USD" 1000) (fun r => r.post_commit_volumes) == volPair 100 0) = true := by
  decide

/-- log dates that DECREASE (never written by the commander): `seq` order is not insertion-date order any more -/
def wUnordered : List CLog := [
  ⟨"l", 0, 200, "", .newTx ⟨0, [⟨"world", "a", "USD", 5⟩], [], 200, ""⟩ []⟩,
  ⟨"l", 1, 100, "", .newTx ⟨1, [⟨"world", "a", "USD", 3⟩], [], 100, ""⟩ []⟩ ]

set_option maxRecDepth 100000 in
/-- the hypothesis of P1 cannot be dropped: with decreasing log dates the latest row by `seq` among those inserted by 150 carries 8, the
replay of the entries dated `≤ 150` has 3 -/
theorem pit_read_by_insertion_date_needs_ordered_dates :
    wellFormedHistory wUnordered = true ∧
    (col (lastMoveAsOf (project wUnordered) "l" "a" "USD" 150) (fun r => r.post_commit_volumes) == volPair 8 0) = true ∧
    input (replay wUnordered "l") (When.insertedBy 150) "a" "USD" = 3 := by
  decide

/-- **`pit_read_pairing`**: the two sound pairings, for every history, and the witness against mixing them -/
theorem pit_read_pairing :
    (∀ (logs : List CLog), wellFormedHistory logs = true → ∀ (l a x : String) (t : Int),
      (logs.Pairwise (fun p q => p.date ≤ q.date) →
        (∃ m ∈ (replay logs l).moves, m.account = a ∧ m.asset = x ∧ m.insertedAt ≤ t) →
        (col (lastMoveAsOf (project logs) l a x t) (fun r => r.post_commit_volumes) ==
          volPair (input (replay logs l) (When.insertedBy t) a x) (output (replay logs l) (When.insertedBy t) a x)) = true) ∧
      ((∃ m ∈ (replay logs l).moves, m.account = a ∧ m.asset = x ∧ m.effective ≤ t) →
        (col (lastEffectiveMove (project logs) l a x t) (fun r => r.post_commit_effective_volumes) ==
          volPair (input (replay logs l) (When.effectiveBy t) a x) (output (replay logs l) (When.effectiveBy t) a x)) = true)) ∧
    -- the mixed read (cut on effective_date, latest by seq, post_commit_volumes) on `wPairing` at 400: neither replayed figure
    (wellFormedHistory wPairing = true ∧ wPairing.Pairwise (fun p q => p.date ≤ q.date) ∧
      (col (lastMoveDatedBySeq (project wPairing) "l1" "bank" "USD" 400) (fun r => r.post_commit_volumes) == volPair 100 10) = true ∧
      (input (replay wPairing "l1") (When.insertedBy 400) "bank" "USD", output (replay wPairing "l1") (When.insertedBy 400) "bank" "USD") = (0, 0) ∧
      (input (replay wPairing "l1") (When.effectiveBy 400) "bank" "USD", output (replay wPairing "l1") (When.effectiveBy 400) "bank" "USD") = (0, 10)) :=
  ⟨fun logs hwf l a x t => ⟨fun hs hm => pit_read_by_insertion_date logs hwf hs l a x t hm, fun hm => pit_read_by_effective_date logs hwf l a x t hm⟩,
   pit_mixed_read_witness.1, pit_mixed_read_witness.2.1, pit_mixed_read_witness.2.2.1, pit_mixed_read_witness.2.2.2.1, pit_mixed_read_witness.2.2.2.2.1⟩

end C04
