import Model.Router
import Generated.Routes
/-! C19 — read-only mode executes no write.

Every statement that mentions `Generated.*` is about the route table, the middleware stacks and the gate's pass list as
RE-EXTRACTED from `internal/api/{read_only,router}.go` and `internal/api/{v1,v2}/routes.go` on this run.  A change there
(a write handler registered under GET, a router mounted outside the gate, a gate that lets POST through, a middleware
that rewrites the method) changes `Generated/Routes.lean` and breaks one of the obligations below.

The tie of `Router.dispatch` to the real `api.NewRouter` is the differential of `checks/c19.py`. -/
namespace C19
open Router

/-- the safe methods of the property -/
def Safe (m : String) : Prop := m = "GET" ∨ m = "HEAD" ∨ m = "OPTIONS"

instance (m : String) : Decidable (Safe m) := by unfold Safe; infer_instance

-- ---------------------------------------------------------------- general lemmas (any configuration)

theorem runMws_rejects (pass : List String) (ro : Bool) (req : Request) (nl : Bool) (ws : List Mw)
    (hg : gateFirst ro ws = true) (hm : gateOf pass req.method = false) :
    runMws pass ro req nl ws = .rejected := by
  induction ws with
  | nil => simp [gateFirst] at hg
  | cons w ws ih =>
    by_cases ha : w.active ro = true
    · cases hk : w.kind <;> simp [gateFirst, ha, hk] at hg <;> simp [runMws, ha, hk, hm]
      exact ih hg
    · simp [gateFirst, ha] at hg
      simp [runMws, ha, ih hg]

theorem runMws_pass_gate (pass : List String) (ro : Bool) (req : Request) (nl : Bool) (ws : List Mw)
    (hg : gateFirst ro ws = true) (hp : runMws pass ro req nl ws = .pass) :
    gateOf pass req.method = true := by
  by_cases hm : gateOf pass req.method = true
  · exact hm
  · have := runMws_rejects pass ro req nl ws hg (by simpa using hm)
    rw [this] at hp; cases hp

/-- a mux only ever selects one of its own routes, registered for exactly the request's method string -/
theorem pickAt_direct (method : String) (rs : List Route) (depth : Nat) (segs : List String) (r : Route)
    (h : pickAt method rs depth segs = .direct r) : r ∈ rs ∧ r.method = method := by
  unfold pickAt at h
  simp only at h
  have key : ∀ (ok : List Route) (k : List Nat),
      (match ok.find? (fun r => patKey r.pattern == k) with
        | some r => Pick.direct r
        | none => Pick.fail false) = Pick.direct r → r ∈ ok := by
    intro ok k hk
    split at hk
    · rename_i r' hf
      cases hk
      exact List.mem_of_find?_eq_some hf
    · cases hk
  have nomount : ∀ (mc : List String) (k : List Nat) (f : String → Bool),
      (match mc.find? (fun m => mountKey m == k) with
        | some m => Pick.mount m (f m)
        | none => Pick.fail false) = Pick.direct r → False := by
    intro mc k f hk
    split at hk <;> cases hk
  have fin : ∀ ok : List Route, ok = (rs.filter (fun r => r.mounts.length == depth && patMatches r.pattern segs)).filter
      (fun r => r.method == method) → r ∈ ok → r ∈ rs ∧ r.method = method := by
    intro ok hok hmem
    subst hok
    simp only [List.mem_filter] at hmem
    exact ⟨hmem.1.1, by simpa using hmem.2⟩
  split at h
  · exact fin _ rfl (key _ _ h)
  · split at h
    · exact (nomount _ _ _ h).elim
    · exact fin _ rfl (key _ _ h)
  · exact (nomount _ _ _ h).elim
  · cases h

theorem routeAt_sound (cfg : Config) (ro : Bool) (req : Request) (fuel : Nat) :
    ∀ (rs : List Route) (chain segs : List String) (mna nl : Bool) (r : Route),
      routeAt cfg ro req fuel rs chain segs mna nl = .reached r → r ∈ rs ∧ r.method = req.method := by
  induction fuel with
  | zero =>
    intro rs chain segs mna nl r h
    simp only [routeAt] at h
    split at h <;> cases h
  | succ n ih =>
    intro rs chain segs mna nl r h
    simp only [routeAt] at h
    split at h
    · rename_i r' hp
      cases h
      exact pickAt_direct _ _ _ _ _ hp
    · split at h <;> cases h
    · split at h
      · cases h
      · cases h
      · cases h
      · obtain ⟨hm, he⟩ := ih _ _ _ _ _ _ h
        exact ⟨(List.mem_filter.mp hm).1, he⟩

/-- whatever `dispatch` reaches is a route of the table registered for the request's own method string, and — when the
gate is installed — that method passed the gate -/
theorem dispatch_reached (cfg : Config) (ro : Bool) (req : Request) (r : Route)
    (h : dispatch cfg ro req = .reached r) :
    r ∈ cfg.routes ∧ r.method = req.method ∧ (gateInstalled cfg ro = true → gateOf cfg.pass req.method = true) := by
  unfold dispatch at h
  split at h
  · cases h
  · cases h
  · cases h
  · rename_i hp
    split at h
    · cases h
    · split at h
      · cases h
      · obtain ⟨hm, he⟩ := routeAt_sound _ _ _ _ _ _ _ _ _ _ h
        exact ⟨hm, he, fun hg => runMws_pass_gate _ _ _ _ _ hg hp⟩

/-- the property for ANY configuration: gate in front, gate passes only safe methods, no safe-method route writes -/
theorem no_write_of_config (cfg : Config) (ro : Bool) (req : Request)
    (hgate : gateInstalled cfg ro = true)
    (hpass : ∀ m, gateOf cfg.pass m = true → Safe m)
    (hsafe : ∀ r ∈ cfg.routes, Safe r.method → r.writes = false) :
    (dispatch cfg ro req).writes = false := by
  cases hd : dispatch cfg ro req with
  | reached r =>
    obtain ⟨hm, he, hg⟩ := dispatch_reached cfg ro req r hd
    exact hsafe r hm (he ▸ hpass _ (hg hgate))
  | _ => rfl

theorem rejected_of_config (cfg : Config) (ro : Bool) (req : Request)
    (hgate : gateInstalled cfg ro = true) (hm : gateOf cfg.pass req.method = false) :
    dispatch cfg ro req = .rejected := by
  unfold dispatch
  rw [runMws_rejects cfg.pass ro req true _ hgate hm]

-- ---------------------------------------------------------------- facts about the regenerated tables (`gate_installed`)

/-- with `readOnly` set, `api.NewRouter` mounts `ReadOnly` on the top-level mux before anything that could answer, and
every route of both API versions hangs below that mux (the table is the flattening of that one tree) -/
theorem gate_installed : gateInstalled Generated.config true = true := by decide

/-- without the flag the gate is absent (the control stream of the differential is not gated) -/
theorem gate_absent_when_not_read_only : gateInstalled Generated.config false = false := by decide

/-- the gate extracted from `read_only.go` is `readOnlyGate`: it passes exactly GET, OPTIONS, HEAD, compared as strings -/
theorem gate_is_readOnlyGate (m : String) : gateOf Generated.config.pass m = readOnlyGate m := by
  have : Generated.config.pass = ["GET", "HEAD", "OPTIONS"] := by decide
  rw [this]
  simp only [gateOf, readOnlyGate, List.contains_cons, List.contains_nil, Bool.or_false]
  cases m == "GET" <;> cases m == "HEAD" <;> cases m == "OPTIONS" <;> rfl

theorem gate_passes_only_safe (m : String) (h : gateOf Generated.config.pass m = true) : Safe m := by
  rw [gate_is_readOnlyGate] at h
  simp only [readOnlyGate, Bool.or_eq_true, beq_iff_eq] at h
  unfold Safe
  rcases h with (h | h) | h <;> simp [h]

/-- no code under `internal/api` assigns to `Request.Method` / chi's `RouteMethod`: the method the gate saw is the method routed on -/
theorem no_method_rewrite : Generated.methodWriters = [] := by decide

/-- no middleware of any mux can reach a write (they run even when no route matches) -/
theorem no_writing_middleware : ∀ x ∈ Generated.muxes, ∀ w ∈ x.mws, w.writes = false := by decide

/-- no handler was classified `write` by default (= the extractor could not resolve the handler expression) -/
theorem every_handler_resolved : Generated.unresolvedHandlers = [] := by decide

-- ---------------------------------------------------------------- the property

/-- `readOnly → method ∉ {GET, HEAD, OPTIONS} → rejected`, for every request (any method string, path, headers) -/
theorem read_only_blocks (ro : Bool) (req : Request) (hro : ro = true) (hm : ¬ Safe req.method) :
    dispatch Generated.config ro req = .rejected := by
  subst hro
  apply rejected_of_config _ _ _ gate_installed
  cases hg : gateOf Generated.config.pass req.method with
  | false => rfl
  | true => exact (hm (gate_passes_only_safe _ hg)).elim

/-- no route registered for a safe method can reach a write — decided over the whole regenerated table -/
theorem safe_methods_reach_no_writer : ∀ r ∈ Generated.routes, Safe r.method → r.writes = false := by decide

/-- `readOnly →` the dispatch result is never a writing handler — for EVERY request -/
theorem read_only_no_write (ro : Bool) (req : Request) (hro : ro = true) :
    (dispatch Generated.config ro req).writes = false := by
  subst hro
  exact no_write_of_config _ _ _ gate_installed gate_passes_only_safe safe_methods_reach_no_writer

/-- in read-only mode a handler is reached only through a safe method, and it is one of the table's non-writing routes -/
theorem read_only_reaches_only_safe (req : Request) (r : Route)
    (h : dispatch Generated.config true req = .reached r) :
    r ∈ Generated.routes ∧ Safe req.method ∧ r.method = req.method ∧ r.writes = false := by
  obtain ⟨hm, he, hg⟩ := dispatch_reached _ _ _ _ h
  have hs := gate_passes_only_safe _ (hg gate_installed)
  exact ⟨hm, hs, he, safe_methods_reach_no_writer r hm (he ▸ hs)⟩

-- ---------------------------------------------------------------- non-vacuity

/-- the table has writers (the property is not true for want of write routes) … -/
example : (Generated.routes.filter (·.writes)).length ≥ 8 := by decide
/-- … in both API versions, and `_bulk` is one of them -/
example : ∃ r ∈ Generated.routes, r.version = "v1" ∧ r.writes = true := by decide
example : ∃ r ∈ Generated.routes, r.version = "v2" ∧ r.pattern = "/_bulk" ∧ r.writes = true := by decide
/-- safe-method routes exist -/
example : ∃ r ∈ Generated.routes, Safe r.method := by decide

def postTx : Request := { method := "POST", path := "/api/ledger/v2/ledger0/transactions" }
def bulk : Request := { method := "POST", path := "/api/ledger/v2/ledger0/_bulk" }
def getTx : Request := { method := "GET", path := "/api/ledger/v2/ledger0/transactions" }
def lowerPost : Request := { method := "post", path := "/api/ledger/v2/ledger0/transactions" }

/-- without the flag the same model DOES reach the writers (so `read_only_no_write` is about the gate, not about a
`dispatch` that never reaches anything) -/
example : (dispatch Generated.config false postTx).writes = true := by decide +kernel
example : (dispatch Generated.config false bulk).writes = true := by decide +kernel
example : (dispatch Generated.config false { method := "DELETE", path := "/api/ledger/l/accounts/a/metadata/k" }).writes = true := by
  decide +kernel
/-- with the flag they are rejected, a lower-case method included; reads still get through -/
example : dispatch Generated.config true postTx = .rejected := by decide +kernel
example : dispatch Generated.config true lowerPost = .rejected := by decide +kernel
example : (match dispatch Generated.config true getTx with
    | .reached r => r.handler == "getTransactions" && r.version == "v2"
    | _ => false) = true := by decide +kernel
example : ¬ Safe "get" := by decide

end C19
