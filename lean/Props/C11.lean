import Lemmas.EngineGuard
/-! C11 — a transaction reference is committed at most once.
Statements are about the `Guard` component of model B instantiated for transaction references (`refView`): every
event sequence it accepts — any number of requests sharing a reference, any interleaving of their reservation
attempt, store lookup, commit and release with the persistence of a competitor, whether that competitor succeeds,
fails or is lost in a crash.  Trace validation (`checks/c11.py`) shows the real `Commander` only produces sequences
the component accepts. -/
namespace C11
open Engine Engine.Guard

/-- the machine: the `Guard` component looking at references -/
abbrev refStep : S → Ev → Except String S := stepOf refView

/-- the inductive invariant holds in every reachable state -/
theorem guard_inv (d0 : List Entry) (h0 : UniqueKeys d0) (evs : List Ev) (s : S)
    (h : runOn refStep (init d0) evs = .ok s) : Inv s :=
  run_inv refView d0 h0 evs s h

/-- **unique**: in every reachable state a non-empty reference labels at most one entry, persisted or still queued -/
theorem reference_unique (d0 : List Entry) (h0 : UniqueKeys d0) (evs : List Ev) (s : S)
    (h : runOn refStep (init d0) evs = .ok s) :
    ∀ r, r ≠ "" → ((s.durable ++ s.pending).filter (·.key = r)).length ≤ 1 :=
  (guard_inv d0 h0 evs s h).uniq

/-- a commit with a reference is only accepted from the request that holds the reservation and whose store lookup
missed, and then no entry — persisted or queued — carries the reference -/
theorem commit_needs_miss (d0 : List Entry) (h0 : UniqueKeys d0) (evs : List Ev) (s : S)
    (h : runOn refStep (init d0) evs = .ok s) (a : Nat) (l : LogE) (lt : Int) (hr : l.ref ≠ "") (s' : S)
    (hc : refStep s (.committed a l lt) = .ok s') :
    (l.ref, a) ∈ s.held ∧ (a, l.ref) ∈ s.missed ∧ (∀ e ∈ s.durable ++ s.pending, e.key ≠ l.ref) := by
  have hc' := commit_ok (s := s) (a := a) (id := l.id) (k := l.ref) hr hc
  refine ⟨hc'.1, hc'.2.1, ?_⟩
  intro e he hek
  exact no_commit_while_present (guard_inv d0 h0 evs s h) hr he hek a l.id s' hc

/-- **a refused request changes nothing**: a reservation attempt that fails leaves the state as it was, and for as
long as the request does not obtain the reservation by a later successful attempt of its own, no entry with the
reference is accepted from it — whatever else happens in between -/
theorem refused_changes_nothing (s : S) (a : Nat) (r : String) (hr : r ≠ "") (hn : (r, a) ∉ s.held) (s1 : S)
    (ht : refStep s (.taken a "ref" r false) = .ok s1) :
    s1 = s ∧
    ∀ (evs2 : List Ev) (s2 : S), (∀ e ∈ evs2, refView e ≠ .take a r true) → runOn refStep s1 evs2 = .ok s2 →
      ∀ (l : LogE) (lt : Int) (s3 : S), l.ref = r → refStep s2 (.committed a l lt) ≠ .ok s3 := by
  have h1 : s1 = s := (take_refused (s := s) (a := a) (k := r) ht).1
  refine ⟨h1, ?_⟩
  intro evs2 s2 hall h2 l lt s3 hl hc
  subst h1
  have hn2 : (r, a) ∉ s2.held := run_not_held refView r a evs2 s1 s2 hn hall h2
  subst hl
  exact no_commit_without_reservation hr hn2 l.id s3 hc

/-- **a request that finds the reference changes nothing**: a lookup answered `found` leaves the state as it was, the
entry it found stays persisted, and from then on no commit with that reference is accepted — from this request or
any other, after any continuation (including crashes) -/
theorem found_changes_nothing (d0 : List Entry) (h0 : UniqueKeys d0) (evs : List Ev) (s : S)
    (h : runOn refStep (init d0) evs = .ok s) (a : Nat) (r : String) (hr : r ≠ "") (s1 : S)
    (hf : refStep s (.refRead a r true) = .ok s1) :
    s1 = s ∧
    ∀ (evs2 : List Ev) (s2 : S), runOn refStep s1 evs2 = .ok s2 →
      ∀ (b : Nat) (l : LogE) (lt : Int) (s3 : S), l.ref = r → refStep s2 (.committed b l lt) ≠ .ok s3 := by
  have hr' := read_ok (s := s) (a := a) (k := r) (found := true) hf
  have h1 : s1 = s := hr'.2.2 rfl
  refine ⟨h1, ?_⟩
  intro evs2 s2 h2 b l lt s3 hl hc
  subst h1
  have hany : s1.durable.any (·.key = r) = true := hr'.2.1.symm
  obtain ⟨x, hx, hxk⟩ := List.any_eq_true.mp hany
  have hxk' : x.key = r := by simpa using hxk
  have hx2 : x ∈ s2.durable := run_durable_mono refView x evs2 s1 s2 hx h2
  have hi2 : Inv s2 := run_inv_from refView evs2 s1 s2 (guard_inv d0 h0 evs s1 h) h2
  subst hl
  exact no_commit_while_present hi2 hr (List.mem_append_left _ hx2) hxk' b l.id s3 hc

/-- **the loser changes nothing** (both ways of losing): a request whose reservation attempt is refused, or whose
lookup finds the reference, leaves the state unchanged and cannot commit an entry with the reference in that state -/
theorem loser_changes_nothing (d0 : List Entry) (h0 : UniqueKeys d0) (evs : List Ev) (s : S)
    (h : runOn refStep (init d0) evs = .ok s) (a : Nat) (r : String) (hr : r ≠ "") (s1 : S) :
    ((r, a) ∉ s.held → refStep s (.taken a "ref" r false) = .ok s1 →
      s1 = s ∧ ∀ l lt s3, l.ref = r → refStep s1 (.committed a l lt) ≠ .ok s3) ∧
    (refStep s (.refRead a r true) = .ok s1 →
      s1 = s ∧ ∀ l lt s3, l.ref = r → refStep s1 (.committed a l lt) ≠ .ok s3) := by
  constructor
  · intro hn ht
    have := refused_changes_nothing s a r hr hn s1 ht
    exact ⟨this.1, fun l lt s3 hl => this.2 [] s1 (fun e he => by cases he) rfl l lt s3 hl⟩
  · intro hf
    have := found_changes_nothing d0 h0 evs s h a r hr s1 hf
    exact ⟨this.1, fun l lt s3 hl => this.2 [] s1 rfl a l lt s3 hl⟩

/-! non-vacuity -/

def lg (ref : String) (id : Nat) : LogE :=
  { id := id, kind := .create, txid := some id, ik := "", ref := ref, reverts := none, postings := [], target := "",
    metaKey := "", prevId := none, hashOk := true }

def view (r : Except String S) : Option (List (String × Nat) × List (String × Nat)) :=
  r.toOption.map (fun s => (s.durable.map (fun e => (e.key, e.id)), s.pending.map (fun e => (e.key, e.id))))

/-- two requests with one reference: the second is refused while the first is in flight; a third one, after the first
has been persisted and released, finds the reference -/
example : view (runOn refStep (init [])
    [.taken 1 "ref" "r" true, .refRead 1 "r" false, .taken 2 "ref" "r" false, .finish 2 false "conflict" none,
     .committed 1 (lg "r" 0) 0, .gate 1 true, .finish 1 true "" (some 0),
     .taken 3 "ref" "r" true, .refRead 3 "r" true, .finish 3 false "conflict" none])
    = some ([("r", 0)], []) := by decide

/-- the loser cannot commit: refused … -/
example : (runOn refStep (init [])
    [.taken 1 "ref" "r" true, .refRead 1 "r" false, .taken 2 "ref" "r" false, .committed 2 (lg "r" 0) 0]).toOption.isNone := by decide

/-- … or after finding the reference -/
example : (runOn refStep (init [⟨"r", 0, 1⟩])
    [.taken 2 "ref" "r" true, .refRead 2 "r" true, .committed 2 (lg "r" 1) 1]).toOption.isNone := by decide

/-- releasing the reference when the executor returns, before the log is persisted, is rejected (DESIGN §6 #6): it
is what lets a second request pass the store lookup -/
example : (runOn refStep (init [])
    [.taken 1 "ref" "r" true, .refRead 1 "r" false, .committed 1 (lg "r" 0) 0, .finish 1 true "" (some 0)]).toOption.isNone := by decide

/-- the competitor fails (its batch is refused by the store and the process restarts): its entry is lost and the
reference can be used — once -/
example : view (runOn refStep (init [])
    [.taken 1 "ref" "r" true, .refRead 1 "r" false, .committed 1 (lg "r" 0) 0, .gate 1 false, .crash,
     .taken 2 "ref" "r" true, .refRead 2 "r" false, .committed 2 (lg "r" 0) 0, .gate 1 true, .finish 2 true "" (some 0)])
    = some ([("r", 0)], []) := by decide

/-- transactions without a reference are not constrained -/
example : view (runOn refStep (init [])
    [.committed 1 (lg "" 0) 0, .committed 2 (lg "" 1) 1, .gate 2 true, .finish 1 true "" (some 0), .finish 2 true "" (some 1)])
    = some ([("", 0), ("", 1)], []) := by decide

end C11
