import Props.SkeletonRef
import Lemmas.SkelEvents
import Lemmas.SkelExecY
import Lemmas.EngineEvents
/-! SkeletonEvents — the regenerated skeleton, INTERPRETED and scheduled at its yield points, refines the `Events`
machine (C16, and the preview clauses of C14).

`Sys.RunY` (`Model/Engine/SkelSys.lean`): any number of requests, each following a control path of
`Generated.Commander`; a request that has started runs until its next `verifhook.Yield` (or its end); between two such
segments any other request may run, the store may persist a prefix of the batcher's queue or fail, a new request may
arrive; a crash may fall anywhere.  Every trace such a run produces is accepted by `Events.step`, whose store and queue
are the system's — so the machine's theorems (`Props/C16.lean`, `Lemmas/EngineEvents.lean`) hold of every reachable
state of the interpreted skeleton.

Why the yield points and not every action (`Sys.Run`, as for `Chain`): `Events` records at a preview's `arrive a "wait"`
the id `lastTx + 1` the preview has to answer, while the code read `lastTXID + 1` (`peekTxid`) a few actions earlier in
the same segment; with a commit of another request in between the two would differ.

What is assumed, all of it in the statements: the initial store is a gap-free chain (`Chain.ChainOK`: ids are positions,
so that the lookup by id `Events.entryOf` performs returns the log the store returned for the key) whose create / revert
logs carry a transaction id (`StoreOK`); what `Events` is told about a request (`dry`, `isTxKind`) is what the request
says, and its entry point writes its kind of log (`AdmittedE`).  What every generated path is checked for: the
automaton of `Model/Engine/SkelAutoEvents.lean` (`accepts_generated`, one `decide +kernel`). -/
namespace SkeletonEvents
open Engine Engine.Skel Generated.Commander Skeleton

/-- every control path of every entry point of the commander, as extracted on this run, is accepted by the automaton
`Events` needs -/
theorem accepts_generated :
    entryPoints.all (fun e => (paths e.1 e.2).all (fun p => EventsRef.eaccepts e.1 (tagged p))) = true := by
  decide +kernel

/-- a request admitted for the `Events` refinement: a control path of its entry point, and the request's own data are
what the machine is told about it (`dry`, `isTxKind`: the parameters of `Events.step`) and fit its entry point -/
def AdmittedE (dry isTxKind : Nat → Bool) (j : Sys.Job) (p : Path) : Prop :=
  SkeletonRef.Admitted j p ∧ j.req.dry = dry j.a ∧ j.isTx = isTxKind j.a ∧ EventsRef.kindOfEp j.ep = some j.req.kind

/-- the initial store: a gap-free chain whose create / revert logs carry a transaction id -/
def StoreOK (store : List LogE) : Prop :=
  Chain.ChainOK store ∧ ∀ l ∈ store, (l.kind = .create ∨ l.kind = .revert) → l.txid.isSome = true

theorem admittedE_ok (dry isTxKind : Nat → Bool) (j : Sys.Job) (p : Path) (h : AdmittedE dry isTxKind j p) :
    EventsRef.eaccepts j.ep p = true ∧ EventsRef.JobOK dry isTxKind j := by
  obtain ⟨⟨e, he, hep, p0, hp0, rfl⟩, h1, h2, h3⟩ := h
  refine ⟨?_, h1, h2, h3⟩
  have := List.all_eq_true.1 (List.all_eq_true.1 accepts_generated e he) p0 hp0
  rw [← hep]
  exact this

/-- the ids of the persisted log are its positions in every reachable state (C05 for the interpreted skeleton) -/
theorem ids_every_schedule (dry isTxKind : Nat → Bool) (store : List LogE) (h0 : Chain.ChainOK store) (tr : List Ev)
    (y : Sys.YState) (h : Sys.RunY (AdmittedE dry isTxKind) ⟨Sys.init store, none⟩ tr y) : Chain.idsOk 0 y.st.sh.store := by
  have hrun : Sys.Run SkeletonRef.Admitted (Sys.init store) tr y.st :=
    EventsRef.run_mono (fun j p hjp => hjp.1) h.toRun
  exact EventsRef.idsOk_append_left 0 _ _ (SkeletonRef.chain_ok_every_schedule store h0 tr y.st hrun).1

/-- the simulation: the machine state reached on the trace, coupled with the state of the system -/
theorem events_simulation (dry isTxKind : Nat → Bool) (store : List LogE) (tr : List Ev) (y : Sys.YState)
    (h : Sys.RunY (AdmittedE dry isTxKind) ⟨Sys.init store, none⟩ tr y) (hstore : StoreOK store) :
    ∃ s, runOn (Events.step dry isTxKind) (Events.init store) tr = .ok s ∧ EventsRef.GInv dry isTxKind y s :=
  EventsRef.runY_refines dry isTxKind _ (admittedE_ok dry isTxKind) _ _ _ h
    (fun tr' y' h' => ids_every_schedule dry isTxKind store hstore.1 tr' y' h') _
    (EventsRef.init_ginv dry isTxKind store hstore.2)

/-- **C16 / C14 for every yield-point schedule of the regenerated skeleton.**  Whatever the order in which the requests'
segments run, the batch boundaries, the store failures and the crashes: the trace the system produces is accepted by
the `Events` machine, whose persisted log and queue are the system's (and whose `lastTx` is the commander's whenever no
request is in the middle of a segment). -/
theorem events_accepts_every_schedule (dry isTxKind : Nat → Bool) (store : List LogE) (tr : List Ev) (y : Sys.YState)
    (h : Sys.RunY (AdmittedE dry isTxKind) ⟨Sys.init store, none⟩ tr y) (hstore : StoreOK store) :
    ∃ s, runOn (Events.step dry isTxKind) (Events.init store) tr = .ok s ∧ s.durable = y.st.sh.store ∧
      s.pending = y.st.sh.queue.map (·.2) ∧ (y.running = none → s.lastTx = y.st.sh.lastTx) := by
  obtain ⟨s, hs, hi⟩ := events_simulation dry isTxKind store tr y h hstore
  exact ⟨s, hs, hi.glob.dur, hi.glob.pend, fun hr => (hi.idle hr).symm⟩

/-- … hence, in every reachable state of the interpreted skeleton: **every event on the bus has an entry in the
system's store that carries its content**, and every successfully answered real write has been published -/
theorem events_backed_every_schedule (dry isTxKind : Nat → Bool) (store : List LogE) (tr : List Ev) (y : Sys.YState)
    (h : Sys.RunY (AdmittedE dry isTxKind) ⟨Sys.init store, none⟩ tr y) (hstore : StoreOK store) :
    ∃ s, runOn (Events.step dry isTxKind) (Events.init store) tr = .ok s ∧
      (∀ e ∈ s.published, ∃ l ∈ y.st.sh.store, Events.describes e l = true) ∧
      (∀ x ∈ s.acked, dry x.1 = false ∧ ∃ e ∈ s.published, Events.describes e x.2 = true) := by
  obtain ⟨s, hs, hd, _, _⟩ := events_accepts_every_schedule dry isTxKind store tr y h hstore
  have hi := Events.run_inv dry isTxKind tr _ s (Events.init_inv dry store) hs
  refine ⟨s, hs, ?_, hi.ackedPub⟩
  rw [← hd]
  exact hi.faithful

/-- **at the very step that publishes**: the publisher is a real write, the event describes the entry of that request
and that entry is persisted at that moment -/
theorem publication_is_faithful_every_schedule (dry isTxKind : Nat → Bool) (store : List LogE) (y : Sys.YState)
    (pre post : List Ev) (a : Nat) (e : BusEv)
    (h : Sys.RunY (AdmittedE dry isTxKind) ⟨Sys.init store, none⟩ (pre ++ .publish a e :: post) y) (hstore : StoreOK store) :
    dry a = false ∧ ∃ s, runOn (Events.step dry isTxKind) (Events.init store) pre = .ok s ∧
      ∃ l, Events.entryOf s a = some l ∧ Events.describes e l = true ∧ l ∈ s.durable := by
  obtain ⟨s, hs, _⟩ := events_accepts_every_schedule dry isTxKind store _ y h hstore
  obtain ⟨s1, s2, h1, h2, _⟩ := EventsRef.runOn_split _ _ _ pre post _ hs
  obtain ⟨hd, _, hl⟩ := Events.publish_ok h2
  exact ⟨hd, s1, h1, hl⟩

/-- **a preview commits nothing and publishes nothing** -/
theorem preview_is_inert_every_schedule (dry isTxKind : Nat → Bool) (store : List LogE) (tr : List Ev) (y : Sys.YState)
    (h : Sys.RunY (AdmittedE dry isTxKind) ⟨Sys.init store, none⟩ tr y) (hstore : StoreOK store) (a : Nat) (hd : dry a = true) :
    (∀ l lt, Ev.committed a l lt ∉ tr) ∧ (∀ e, Ev.publish a e ∉ tr) := by
  obtain ⟨s, hs, _⟩ := events_accepts_every_schedule dry isTxKind store tr y h hstore
  constructor
  · intro l lt hmem
    obtain ⟨pre, post, rfl⟩ := List.append_of_mem hmem
    obtain ⟨s1, s2, _, h2, _⟩ := EventsRef.runOn_split _ _ _ pre post _ hs
    simp [Events.step, hd] at h2
  · intro e hmem
    obtain ⟨pre, post, rfl⟩ := List.append_of_mem hmem
    obtain ⟨s1, s2, _, h2, _⟩ := EventsRef.runOn_split _ _ _ pre post _ hs
    simp [Events.step, hd] at h2

/-- **a preview answers what the real write would answer** (C14): a successful preview of a transaction-kind request is
answered with the transaction id of the entry its idempotency key designates, else with the id that was next when it
reached its commit point -/
theorem preview_answer_every_schedule (dry isTxKind : Nat → Bool) (store : List LogE) (y : Sys.YState)
    (pre post : List Ev) (a : Nat) (cls : String) (t : Option Nat)
    (h : Sys.RunY (AdmittedE dry isTxKind) ⟨Sys.init store, none⟩ (pre ++ .finish a true cls t :: post) y)
    (hstore : StoreOK store) (hd : dry a = true) (htx : isTxKind a = true) :
    ∃ s, runOn (Events.step dry isTxKind) (Events.init store) pre = .ok s ∧
      (match Events.entryOf s a with
       | some l => t = l.txid
       | none => t.map (fun (n : Nat) => (n : Int)) = some ((Events.peekOf s a).getD (s.lastTx + 1))) := by
  obtain ⟨s, hs, _⟩ := events_accepts_every_schedule dry isTxKind store _ y h hstore
  obtain ⟨s1, s2, h1, h2, _⟩ := EventsRef.runOn_split _ _ _ pre post _ hs
  refine ⟨s1, h1, ?_⟩
  simp only [Events.step, hd, if_true, htx, true_and] at h2
  split at h2
  · rename_i l hl
    split at h2
    · cases h2
    · rename_i hc; rw [hl]; simpa using hc
  · rename_i hl
    split at h2
    · cases h2
    · rename_i hc; rw [hl]; simpa using hc

/-! non-vacuity.  The automaton is exercised by the generated paths: every entry point has a path that is not cut short
(`dead`) and publishes its own log after the wait for persistence, and one that publishes the log found for the
idempotency key; the transaction entry points have a preview that peeks, parks at `"wait"` and answers from the preview. -/
def reaches (ep : String) (body : Stmt) (f : EventsRef.EPh → Bool) : Bool :=
  (paths ep body).any (fun p => match EventsRef.erun ep {} (tagged p) with
    | some ph => !ph.dead && f ph
    | none => false)

example : entryPoints.all (fun e => reaches e.1 e.2 (fun ph => ph.pub && ph.app && ph.dur) &&
    reaches e.1 e.2 (fun ph => ph.pub && ph.fnd && !ph.app && ph.kOk)) = true := by decide +kernel
example : reaches "CreateTransaction" createTransaction (fun ph => ph.pk = .recorded && ph.ans = .preview && ph.dry = some true) = true ∧
    reaches "RevertTransaction" revertTransaction (fun ph => ph.pk = .recorded && ph.ans = .preview && ph.dry = some true) = true ∧
    reaches "RevertTransaction" revertTransaction (fun ph => ph.pub && ph.fnd && ph.idOk) = true := by decide +kernel

/-- … and it is not constantly true.  A path that publishes its log before the wait for persistence is refused -/
example : EventsRef.eaccepts "CreateTransaction" [.choose "dry" false, .act .muLock .ok .direct, .choose "tx≠nil" true,
    .act .allocTxid .ok .direct, .act .stampTxid .ok .direct, .act .chainLog .ok .direct,
    .act (.append "chained" ["c"]) .ok .direct, .act .muUnlock .ok .deferred,
    .act (.publish "CommittedTransactions" [.of "chained" ".Data.(ledger.NewTransactionLogPayload).Transaction"]) .ok .direct,
    .act (.wait "persisted") .ok .direct, .fin true ""] = false := by decide +kernel
/-- the same path with the publication after the wait is accepted -/
example : EventsRef.eaccepts "CreateTransaction" [.choose "dry" false, .act .muLock .ok .direct, .choose "tx≠nil" true,
    .act .allocTxid .ok .direct, .act .stampTxid .ok .direct, .act .chainLog .ok .direct,
    .act (.append "chained" ["c"]) .ok .direct, .act .muUnlock .ok .deferred, .act (.wait "persisted") .ok .direct,
    .act (.publish "CommittedTransactions" [.of "chained" ".Data.(ledger.NewTransactionLogPayload).Transaction"]) .ok .direct,
    .fin true ""] = true := by decide +kernel
/-- a success of a real write without publication; a publication by a preview; a publication of another kind of event; a
scheduling point between the allocation of a transaction id and the append; a preview that is descheduled between its
peek and `yield "wait"`; a preview answered from something else than its peek: all refused -/
example : EventsRef.eaccepts "SaveMeta" [.choose "dry" false, .act .chainLog .ok .direct, .act (.append "chained" ["c"]) .ok .direct,
    .act (.wait "persisted") .ok .direct, .fin true ""] = false := by decide +kernel
example : EventsRef.eaccepts "SaveMeta" [.choose "dry" true, .act .chainLog .ok .direct,
    .act (.publish "SavedMetadata" [.of "chained" ""]) .ok .direct, .fin true ""] = false := by decide +kernel
example : EventsRef.eaccepts "SaveMeta" [.choose "dry" false, .act .chainLog .ok .direct, .act (.append "chained" ["c"]) .ok .direct,
    .act (.wait "persisted") .ok .direct, .act (.publish "DeletedMetadata" [.of "chained" ""]) .ok .direct, .fin true ""] = false := by
  decide +kernel
example : EventsRef.eaccepts "CreateTransaction" [.choose "dry" false, .act .allocTxid .ok .direct, .act (.yield "x") .ok .direct,
    .act .stampTxid .ok .direct, .act .chainLog .ok .direct, .act (.append "chained" ["c"]) .ok .direct] = false := by decide +kernel
example : EventsRef.eaccepts "CreateTransaction" [.choose "dry" true, .act .peekTxid .ok .direct, .act (.yield "x") .ok .direct,
    .act (.yield "wait") .ok .direct, .act (.answer (.of "preview" "")) .ok .direct, .fin true ""] = false := by decide +kernel
example : EventsRef.eaccepts "CreateTransaction" [.choose "dry" true, .act .peekTxid .ok .direct,
    .act (.yield "wait") .ok .direct, .act (.answer (.of "chained" "")) .ok .direct, .fin true ""] = false := by decide +kernel
example : EventsRef.eaccepts "CreateTransaction" [.choose "dry" true, .act .peekTxid .ok .direct,
    .act (.yield "wait") .ok .direct, .act (.answer (.of "preview" "")) .ok .direct, .fin true ""] = true := by decide +kernel

/-- the admission predicate is inhabited: a real write following a generated path of `CreateTransaction` -/
example : ∃ j p, AdmittedE (fun _ => false) (fun _ => true) j p ∧ p.length > 30 := by
  refine ⟨{ a := 1, ep := "CreateTransaction", req := { kind := .create, dry := false, ik := "k", ref := "", target := 0, force := false, over := 0 },
            postings := [], target := "", metaKey := "", r := [], w := [], bals := [] },
    tagged ((paths "CreateTransaction" createTransaction)[27]!),
    ⟨⟨("CreateTransaction", createTransaction), by simp [entryPoints], rfl, _, by decide +kernel, rfl⟩, rfl, rfl, rfl⟩, by decide +kernel⟩

/-! … and the hypothesis of the `…_every_schedule` theorems is met by runs that go all the way: a schedule of four
requests on generated paths of `CreateTransaction`, computed by the executable scheduler `Sys.execY`
(`Lemmas/SkelExecY.lean`, sound for `RunY`).  Request 1 creates a transaction under key "k" and parks at `"wait"`;
preview 2 runs meanwhile and is answered with the id that is next (1); the store persists the batch; 1 publishes and
answers (0); request 3 replays 1 through the key (publishes the found entry, answers 0); preview 4, same key, is
answered 0 and publishes nothing. -/
section Witness
open Sys

def wPaths : List Path := paths "CreateTransaction" createTransaction

/-- request `a` pays its own account (the account locks of two requests on the same account would serialise them) -/
def wJob (a : Nat) (dry : Bool) (ik : String) : Job :=
  { a := a, ep := "CreateTransaction", req := { kind := .create, dry := dry, ik := ik, ref := "", target := 0, force := false, over := 0 },
    postings := [⟨"world", s!"acct{a}", 5, "USD"⟩], target := "", metaKey := "", r := ["world"], w := [s!"acct{a}"], bals := [] }

/-- the first successful path of `CreateTransaction` that decided the named conditions this way and commits (or not) -/
def wPick (ik ref dry : Bool) (commits : Bool) : Path :=
  (wPaths.find? (fun p => p.contains (.fin true "") && chose p "ik≠''" ik && (ik || chose p "ref≠''" ref) && chose p "dry" dry &&
    (p.any isAppend == commits) && (commits || ik == p.any isReadIkOk) && (!commits || (chose p "ref≠''" ref && chose p "tx≠nil" true)) &&
    (ik || commits || chose p "tx≠nil" true))).getD []

def wp1 := tagged (wPick true false false true)      -- key not found, commit, wait, publish the own log
def wp2 := tagged (wPick false false true false)     -- no key, preview: peek, park at "wait", answer the peeked id
def wp3 := tagged (wPick true false false false)     -- key found, real: publish the found log
def wp4 := tagged (wPick true false true false)      -- key found, preview

/-- request 1 up to its wait for persistence, preview 2 entirely, the batch, the rest of 1, then 3, then 4 -/
def wSched : List Move :=
  [.arrive (wJob 1 false "k") wp1, .arrive (wJob 2 true "") wp2] ++ List.replicate (wp1.findIdx isWaitPersisted) (.item 1)
  ++ List.replicate wp2.length (.item 2) ++ [.gate 1 true] ++ List.replicate (wp1.length - wp1.findIdx isWaitPersisted) (.item 1)
  ++ [.arrive (wJob 3 false "k") wp3] ++ List.replicate wp3.length (.item 3)
  ++ [.arrive (wJob 4 true "k") wp4] ++ List.replicate wp4.length (.item 4)

def wDry (a : Nat) : Bool := a == 2 || a == 4
def wTx (_ : Nat) : Bool := true

/-- what one sees of a trace: commits, batches, publications, successful answers -/
def wObs : Ev → Option (String × Nat × Option Nat)
  | .committed a l _ => some ("committed", a, l.txid)
  | .gate n _ => some ("gate", n, none)
  | .publish a (.committed t _) => some ("publish", a, some t)
  | .finish a true _ t => some ("answer", a, t)
  | _ => none

theorem witness_picks : [wPick true false false true, wPick false false true false, wPick true false false false,
    wPick true false true false].all (fun p => wPaths.contains p && p.length > 8) = true := by decide +kernel

theorem witness_admitted (a : Nat) (dry : Bool) (ik : String) (p0 : Path) (h : p0 ∈ wPaths) (hd : dry = wDry a) :
    AdmittedE wDry wTx (wJob a dry ik) (tagged p0) :=
  ⟨⟨("CreateTransaction", createTransaction), by simp [entryPoints], rfl, p0, h, rfl⟩, hd, rfl, rfl⟩

theorem witness_sched_runs : (execY ⟨init [], none⟩ wSched).map (fun r => (r.2.filterMap wObs, r.1.st.procs.all (fun p => p.todo.isEmpty))) =
    some ([("committed", 1, some 0), ("answer", 2, some 1), ("gate", 1, none), ("publish", 1, some 0), ("answer", 1, some 0),
           ("publish", 3, some 0), ("answer", 3, some 0), ("answer", 4, some 0)], true) := by decide +kernel

/-- **a run of the interpreted skeleton in which everything happens**, as a `RunY` of admitted requests from the empty
store: all four requests reach the end of their paths -/
theorem witness_run_exists : ∃ tr y, RunY (AdmittedE wDry wTx) ⟨init [], none⟩ tr y ∧ StoreOK [] ∧
    tr.filterMap wObs = [("committed", 1, some 0), ("answer", 2, some 1), ("gate", 1, none), ("publish", 1, some 0),
      ("answer", 1, some 0), ("publish", 3, some 0), ("answer", 3, some 0), ("answer", 4, some 0)] ∧
    y.st.procs.all (fun p => p.todo.isEmpty) = true := by
  have h := witness_sched_runs
  cases he : execY ⟨init [], none⟩ wSched with
  | none => simp [he] at h
  | some r =>
    obtain ⟨y, tr⟩ := r
    simp only [he, Option.map_some, Option.some.injEq, Prod.mk.injEq] at h
    refine ⟨tr, y, ?_, ⟨⟨trivial, trivial⟩, fun l hl => by cases hl⟩, h.1, h.2⟩
    apply execY_sound _ _ _ _ _ _ he
    have ha : arrivals wSched = [(wJob 1 false "k", wp1), (wJob 2 true "", wp2), (wJob 3 false "k", wp3), (wJob 4 true "k", wp4)] := rfl
    rw [ha]
    intro jp hjp
    simp only [List.mem_cons, List.not_mem_nil, or_false] at hjp
    have hp := witness_picks
    simp only [List.all_cons, List.all_nil, Bool.and_true, Bool.and_eq_true, List.contains_iff_mem, decide_eq_true_eq] at hp
    rcases hjp with rfl | rfl | rfl | rfl
    · exact witness_admitted 1 false "k" _ hp.1.1 rfl
    · exact witness_admitted 2 true "" _ hp.2.1.1 rfl
    · exact witness_admitted 3 false "k" _ hp.2.2.1.1 rfl
    · exact witness_admitted 4 true "k" _ hp.2.2.2.1 rfl

/-- … so the refinement theorem applies to it: `Events` accepts its trace, with one persisted entry, two publications
of it and the two real answers recorded -/
example : ∃ tr y s, RunY (AdmittedE wDry wTx) ⟨init [], none⟩ tr y ∧
    runOn (Events.step wDry wTx) (Events.init []) tr = .ok s ∧ s.durable = y.st.sh.store := by
  obtain ⟨tr, y, h, hs, _⟩ := witness_run_exists
  obtain ⟨s, h1, h2, _⟩ := events_accepts_every_schedule wDry wTx [] tr y h hs
  exact ⟨tr, y, s, h, h1, h2⟩

end Witness

end SkeletonEvents
