import Lemmas.PaginateWalk
import Lemmas.CursorRoundtrip
/-! C17 — following cursors enumerates each item exactly once.

Statements about `Model.Paginate` (`UsingColumn` / `UsingOffset` evaluated on an abstract table by a
where/order/limit evaluator) and `Model.Cursor` (what a cursor token contains).  The walks are stated at token
level: between two pages the query goes through `encode` and `decode` (`xferCol` / `xferOff`), as it does in
`bunpaginate.Iterate` and for a client that sends `next` back.  Quantifiers: every table whose pagination column is
unique (`UniqueIds`, stored in any order), every caller filter `keep`, every page size ≥ 1 that fits the Go type,
both orders, every carried filter expression and options (`Opts`), every amount of fuel that is enough to finish
(the fuel only makes `walk` a total function; any value above the length of the listing works).
The tie to the Go code is the differential of `checks/c17.py`. -/
namespace C17
open Paginate Cursor

/-- the expected content of a list: the rows of the table that match, each exactly once (a permutation of
`tbl.filter keep`), in the strict order of the list -/
theorem listing_exactly_once (tbl : List Row) (hU : UniqueIds tbl) (keep : Row → Bool) (o : Order) :
    (listing tbl keep o).Perm (tbl.filter keep) ∧ Strict o (listing tbl keep o) ∧ (listing tbl keep o).Nodup :=
  ⟨orderBy_perm o _, listing_strict o hU keep,
    (listing_strict o hU keep).imp (fun {a b} h e => by subst e; simp [o.ltb_irrefl] at h)⟩

/-! ### cursors -/

/-- a filter expression written into a token is read back as the same expression -/
theorem filter_roundtrip (f : Filter) : decodeFilter (encodeFilter f) = .ok f := filter_rt f

/-- **cursor_roundtrip**: a column-paginated query written into a token is accepted back and is the same query:
position, page size, order, options and filter expression included -/
theorem cursor_roundtrip (q : ColQuery Opts) (h : fitsCol q) : decodeCol q.filters.extra.kind (encodeCol q) = .ok q :=
  col_rt q h

/-- the same for offset-paginated queries (accounts) -/
theorem cursor_roundtrip_offset (q : OffQuery Opts) (h : fitsOff q) : decodeOff q.filters.extra.kind (encodeOff q) = .ok q :=
  off_rt q h

/-- every token handed out is accepted back and stands for the same query -/
theorem cursor_accepted_back (q : ColQuery Opts) (h : fitsCol q) : xferCol q = some q := by
  simp [xferCol, cursor_roundtrip q h, Dec.toOption]

theorem cursor_accepted_back_offset (q : OffQuery Opts) (h : fitsOff q) : xferOff q = some q := by
  simp [xferOff, cursor_roundtrip_offset q h, Dec.toOption]

/-! ### column pagination (transactions, logs) -/

theorem walk_col (tbl : List Row) (hU : UniqueIds tbl) (keep : Row → Bool) (ps : Nat) (hps : 1 ≤ ps) (hfit : ps ≤ uint64Max)
    (o : Order) (f : Opts) (hf : f.pageSize ≤ uint64Max) (fuel : Nat) (hfuel : (listing tbl keep o).length < fuel) :
    ∃ pages, walk (stepCol tbl keep) xferCol fuel (firstCol ps o f) = some pages ∧
      allData pages = listing tbl keep o ∧ Linked (stepCol tbl keep) xferCol pages :=
  walk_col_spec hU keep ps hps o f xferCol (fun _ _ _ => cursor_accepted_back _ ⟨hfit, hf⟩) fuel hfuel

/-- **walk_next_complete**: starting at the first page and following `next` (each token sent back and decoded) until
`hasMore` is false ends, and the pages put one after the other are exactly the listing: every matching row once, in
the list's order (`listing_exactly_once`) -/
theorem walk_next_complete (tbl : List Row) (hU : UniqueIds tbl) (keep : Row → Bool) (ps : Nat) (hps : 1 ≤ ps) (hfit : ps ≤ uint64Max)
    (o : Order) (f : Opts) (hf : f.pageSize ≤ uint64Max) (fuel : Nat) (hfuel : (listing tbl keep o).length < fuel) :
    ∃ pages, walk (stepCol tbl keep) xferCol fuel (firstCol ps o f) = some pages ∧ allData pages = listing tbl keep o := by
  obtain ⟨pages, h1, h2, _⟩ := walk_col tbl hU keep ps hps hfit o f hf fuel hfuel
  exact ⟨pages, h1, h2⟩

/-- **previous_is_previous**: in that walk, the `previous` token of page k+1 is accepted back and shows exactly the
rows of page k, and the `next` token of the page so reached leads to page k+1 again -/
theorem previous_is_previous (tbl : List Row) (hU : UniqueIds tbl) (keep : Row → Bool) (ps : Nat) (hps : 1 ≤ ps) (hfit : ps ≤ uint64Max)
    (o : Order) (f : Opts) (hf : f.pageSize ≤ uint64Max) (fuel : Nat) (hfuel : (listing tbl keep o).length < fuel)
    (pages : List (Page (ColQuery Opts))) (hw : walk (stepCol tbl keep) xferCol fuel (firstCol ps o f) = some pages)
    (k : Nat) (pg pg' : Page (ColQuery Opts)) (hk : pages[k]? = some pg) (hk' : pages[k + 1]? = some pg') :
    LinksBack (stepCol tbl keep) xferCol pg pg' := by
  obtain ⟨pages', h1, _, h3⟩ := walk_col tbl hU keep ps hps hfit o f hf fuel hfuel
  rw [hw] at h1
  cases h1
  exact h3 k pg pg' hk hk'

/-- **previous_walk_complete**: from any position of the list (the query a `previous` token stands for points at row
`y`; `bottom` is whatever the walk recorded), following `previous` until there is none ends, and the pages read
backwards are exactly the rows before `y`: each once, in the list's order -/
theorem previous_walk_complete (tbl : List Row) (hU : UniqueIds tbl) (keep : Row → Bool) (ps : Nat) (hps : 1 ≤ ps) (hfit : ps ≤ uint64Max)
    (b : Int) (o : Order) (f : Opts) (hf : f.pageSize ≤ uint64Max) (pre : List Row) (y : Row) (B : List Row)
    (hL : listing tbl keep o = pre ++ y :: B) (fuel : Nat) (hfuel : pre.length < fuel) :
    ∃ pages, walkBack (stepCol tbl keep) xferCol fuel ⟨ps, some b, idColumn, some y.id, o, f, true⟩ = some pages ∧
      allData pages.reverse = pre :=
  walk_back_spec hU keep ps hps b o f xferCol (fun _ _ _ => cursor_accepted_back _ ⟨hfit, hf⟩) pre.length pre y B (Nat.le_refl _) hL fuel hfuel

/-- **has_more_iff_next**: whatever query `UsingColumn` is handed (any position, forwards or backwards, states no walk
reaches included), the page says `hasMore` exactly when a `next` token comes with it.  A client that follows `next` until
`hasMore` is false therefore stops exactly where the tokens stop — on pages reached through `previous` too -/
theorem has_more_iff_next {F} (tbl : List Row) (keep : Row → Bool) (q : ColQuery F) (pg : Page (ColQuery F))
    (h : pageCol tbl keep q = .ok pg) : pg.hasMore = pg.next.isSome := by
  unfold pageCol at h
  split at h
  · cases h
  · unfold pageRows at h
    simp only at h
    repeat' split at h
    all_goals first | (cases h; rfl) | cases h

/-- **resume_after_previous_complete**: a client went forward in a list, then one step back with `previous`; it is now
on the page `A` that ends just before row `y` (`bottom` is the first row of the list, as every token of a traversal
records it).  Following `next` from THAT page until `hasMore` is false ends, and delivers the page itself followed by
everything after it: the rest of the list from that position, each row once, in the list's order.  Together with
`walk_next_complete` (positions reached forwards) this is the enumeration clause for every position of a traversal -/
theorem resume_after_previous_complete (tbl : List Row) (hU : UniqueIds tbl) (keep : Row → Bool) (ps : Nat) (hps : 1 ≤ ps) (hfit : ps ≤ uint64Max)
    (o : Order) (f : Opts) (hf : f.pageSize ≤ uint64Max) (l0 : Row) (hl0 : (listing tbl keep o).head? = some l0)
    (pre A : List Row) (y : Row) (B : List Row) (hA : A.length = ps) (hL : listing tbl keep o = pre ++ A ++ y :: B)
    (fuel : Nat) (hfuel : (y :: B).length < fuel) :
    ∃ pages, walk (stepCol tbl keep) xferCol fuel ⟨ps, some l0.id, idColumn, some y.id, o, f, true⟩ = some pages ∧
      allData pages = A ++ y :: B := by
  have hx : ∀ b p r, xferCol (⟨ps, b, idColumn, p, o, f, r⟩ : ColQuery Opts) = some ⟨ps, b, idColumn, p, o, f, r⟩ :=
    fun _ _ _ => cursor_accepted_back _ ⟨hfit, hf⟩
  cases fuel with
  | zero => omega
  | succ fuel =>
    obtain ⟨prev, hrev⟩ := page_rev hU keep ps hps l0.id o f pre A y B hA hL
    have hstep := stepCol_of_ok hrev
    obtain ⟨pg1, pages, _, hwalk1, hdata1, _⟩ :=
      walk_fwd_spec hU keep ps hps o f xferCol hx l0 hl0 (y :: B).length (pre ++ A) y B (Nat.le_refl _) hL fuel (by omega)
    refine ⟨⟨A, true, prev, some ⟨ps, some l0.id, idColumn, some y.id, o, f, false⟩⟩ :: pg1 :: pages,
      by simp [walk, hstep, hx, hwalk1], ?_⟩
    simp only [allData, List.flatMap_cons] at hdata1 ⊢
    rw [hdata1]

/-! ### offset pagination (accounts) -/

/-- **offset_walk_complete**: the same two facts for `UsingOffset`; `so` is the `ORDER BY` of the caller's select -/
theorem offset_walk_complete (tbl : List Row) (keep : Row → Bool) (so : Order) (ps : Nat) (hps : 1 ≤ ps) (hfit : ps ≤ uint64Max)
    (hsize : (listing tbl keep so).length ≤ uint64Max)
    (o : Order) (f : Opts) (hf : f.pageSize ≤ uint64Max) (fuel : Nat) (hfuel : (listing tbl keep so).length < fuel) :
    ∃ pages, walk (stepOff tbl keep so) xferOff fuel (firstOff ps o f) = some pages ∧
      allData pages = listing tbl keep so ∧ Linked (stepOff tbl keep so) xferOff pages := by
  obtain ⟨pages, h1, h2, h3⟩ := walk_off_spec (tbl := tbl) keep so ps hps o f xferOff
    (fun off hoff => cursor_accepted_back_offset _ ⟨hfit, by simp; omega, hf⟩)
    (listing tbl keep so).length 0 (by simp) (by omega) fuel (by simpa using hfuel)
  exact ⟨_, h1, by simpa using h2, h3⟩

/-- the same flag fact for `UsingOffset` (pages of an offset-paginated list are reached through `previous` with an
ordinary offset query, so `offset_walk_complete` started at any offset already covers them) -/
theorem has_more_iff_next_offset {F} (tbl : List Row) (keep : Row → Bool) (so : Order) (q : OffQuery F) :
    (pageOff tbl keep so q).hasMore = (pageOff tbl keep so q).next.isSome := by
  unfold pageOff
  by_cases h : (q.pageSize != 0 && decide ((select tbl keep so (if q.pageSize > 0 then some (q.pageSize + 1) else none) q.offset).length > q.pageSize)) = true
  · simp [h]
  · simp [h]

/-! ### non-vacuity and the page-size-0 note -/

def t5 : List Row := [⟨7, 0⟩, ⟨2, 1⟩, ⟨11, 0⟩, ⟨4, 0⟩, ⟨9, 1⟩]   -- stored in no particular order
def noOpts : Opts := ⟨some (.set .and [.kv .match "account" (.str "users:"), .not (.kv .lt "balance" (.num 5 0))]), 2,
  .pitVol (some "2023-01-02T03:04:05Z") false true⟩

private theorem t5_unique : UniqueIds t5 := by unfold UniqueIds t5; decide
example : (listing t5 (fun _ => true) .desc).map (·.id) = [11, 9, 7, 4, 2] := by decide
example : (listing t5 (fun r => r.grp == 0) .asc).map (·.id) = [4, 7, 11] := by decide
/-- the hypotheses of the walk theorems are met by a concrete table, page size 2, a filter carried in the tokens -/
example : ∃ pages, walk (stepCol t5 (fun _ => true)) xferCol 6 (firstCol 2 .desc noOpts) = some pages ∧
    (allData pages).map (·.id) = [11, 9, 7, 4, 2] := by
  obtain ⟨pages, h1, h2⟩ := walk_next_complete t5 t5_unique (fun _ => true) 2 (by omega) (by decide) .desc noOpts (by decide) 6 (by decide)
  exact ⟨pages, h1, by rw [h2]; decide⟩
/-- what the pages look like (queries handed over directly, no token in between): three pages of two, descending -/
example : (walk (stepCol t5 (fun _ => true)) some 6 (firstCol 2 .desc ())).map (·.map (fun p => (p.data.map (·.id), p.hasMore)))
    = some [([11, 9], true), ([7, 4], true), ([2], false)] := by decide
/-- `previous` of the second page is the first page -/
example : (stepCol t5 (fun _ => true) ⟨2, some 11, idColumn, some 7, .desc, (), true⟩).map (fun p => p.data.map (·.id)) = some [11, 9] := by
  decide
/-- forward twice, one step back (the page before row 2 is [7, 4]), then `next` until `hasMore` is false: the rest of the list -/
example : (walk (stepCol t5 (fun _ => true)) some 6 ⟨2, some 11, idColumn, some 2, .desc, (), true⟩).map
    (·.map (fun p => (p.data.map (·.id), p.hasMore))) = some [([7, 4], true), ([2], false)] := by decide
/-- back from the last page along `previous`: the pages before it, nearest first -/
example : (walkBack (stepCol t5 (fun _ => true)) some 6 ⟨2, some 11, idColumn, some 2, .desc, (), true⟩).map (·.map (fun p => p.data.map (·.id)))
    = some [[7, 4], [11, 9]] := by decide
/-- offset pagination, ascending, page size 2 -/
example : (walk (stepOff t5 (fun _ => true) .asc) some 6 (firstOff 2 .asc ())).map (·.map (fun p => (p.data.map (·.id), p.hasMore)))
    = some [([2, 4], true), ([7, 9], true), ([11], false)] := by decide
/-- a token with a filter in it: the JSON value it contains -/
example : encodeQb noOpts.qb = .obj [("$and", .arr [.obj [("$match", .obj [("account", .str "users:")])],
    .obj [("$not", .obj [("$lt", .obj [("balance", .num 5 0)])])]])] := by
  simp [encodeQb, noOpts, encodeFilter, encodeItems, SetOp.name, KvOp.name]
/-- page size 0 (outside the property): an empty page that says `hasMore`, with a `next` that starts at the same row again -/
example : pageCol t5 (fun _ => true) (firstCol 0 .asc ()) =
    .ok ⟨[], true, none, some ⟨0, some 2, idColumn, some 2, .asc, (), false⟩⟩ := by decide

end C17
