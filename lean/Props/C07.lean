import Lemmas.EngineGuard
/-! C07 — an idempotency key takes effect at most once.
Statements are about the `Guard` component of model B instantiated for idempotency keys (`ikView`): every event
sequence it accepts — any number of requests with the same key, any interleaving of their reservation attempt, store
lookup, commit and release, any batch boundaries, store failures, crashes and restarts.  Trace validation
(`checks/c07.py`) shows the real `Commander` only produces sequences the component accepts; the lookup's answer is
checked against the model's persisted log at every read. -/
namespace C07
open Engine Engine.Guard

/-- the machine: the `Guard` component looking at idempotency keys -/
abbrev ikStep : S → Ev → Except String S := stepOf ikView

/-- the inductive invariant (at most one entry per key; reservations exclusive; a pending keyed entry is protected by
its producer's reservation; a lookup that missed means no entry carries the key) holds in every reachable state -/
theorem guard_inv (d0 : List Entry) (h0 : UniqueKeys d0) (evs : List Ev) (s : S)
    (h : runOn ikStep (init d0) evs = .ok s) : Inv s :=
  run_inv ikView d0 h0 evs s h

/-- **at most once**: in every reachable state a non-empty key labels at most one entry, persisted or still queued -/
theorem key_at_most_once (d0 : List Entry) (h0 : UniqueKeys d0) (evs : List Ev) (s : S)
    (h : runOn ikStep (init d0) evs = .ok s) :
    ∀ k, k ≠ "" → ((s.durable ++ s.pending).filter (·.key = k)).length ≤ 1 :=
  (guard_inv d0 h0 evs s h).uniq

/-- … in particular two entries with the same key are one entry -/
theorem key_designates_one_entry (d0 : List Entry) (h0 : UniqueKeys d0) (evs : List Ev) (s : S)
    (h : runOn ikStep (init d0) evs = .ok s) (k : String) (hk : k ≠ "") (x y : Entry)
    (hx : x ∈ s.durable ++ s.pending) (hy : y ∈ s.durable ++ s.pending) (hxk : x.key = k) (hyk : y.key = k) : x = y := by
  have hu := key_at_most_once d0 h0 evs s h k hk
  apply eq_of_filter_length_le_one (fun e : Entry => decide (e.key = k)) _ hu
  · exact List.mem_filter.mpr ⟨hx, by simpa using hxk⟩
  · exact List.mem_filter.mpr ⟨hy, by simpa using hyk⟩

/-- **restart**: a crash keeps the persisted log as it is (and forgets every reservation and every queued entry), the
persisted entry stays persisted in every continuation, and whenever its key is looked up later — by whichever
request, after however many further events and crashes — the lookup is answered `found` (for every state `s`, reachable
or not) -/
theorem key_survives_restart (s : S) (x : Entry) (hx : x ∈ s.durable) :
    (∃ s1, ikStep s .crash = .ok s1 ∧ s1.durable = s.durable ∧ s1.pending = [] ∧ s1.held = []) ∧
    ∀ (evs2 : List Ev) (s2 : S), runOn ikStep s (.crash :: evs2) = .ok s2 →
      x ∈ s2.durable ∧
      ∀ (a : Nat) (found : Option Nat) (s3 : S), ikStep s2 (.ikRead a x.key found) = .ok s3 → found.isSome = true ∧ s3 = s2 := by
  refine ⟨⟨_, rfl, rfl, rfl, rfl⟩, ?_⟩
  intro evs2 s2 h2
  have hx2 : x ∈ s2.durable := run_durable_mono ikView x _ s s2 hx h2
  refine ⟨hx2, ?_⟩
  intro a found s3 h3
  have hr := read_ok (s := s2) (a := a) (k := x.key) (found := found.isSome) h3
  have hf : found.isSome = true := by
    rw [hr.2.1]
    exact List.any_eq_true.mpr ⟨x, hx2, by simp⟩
  exact ⟨hf, hr.2.2 hf⟩

/-- **a retry gets the entry**: a lookup answered `found` is made under the reservation, changes nothing, and designates
a persisted entry carrying the key — the only entry, persisted or queued, that carries it; a lookup answered
`not found` means no persisted entry carries the key -/
theorem retry_gets_the_entry (d0 : List Entry) (h0 : UniqueKeys d0) (evs : List Ev) (s : S)
    (h : runOn ikStep (init d0) evs = .ok s) (a : Nat) (k : String) (hk : k ≠ "") (found : Option Nat) (s' : S)
    (hr : ikStep s (.ikRead a k found) = .ok s') :
    (k, a) ∈ s.held ∧
    (found.isSome = true → s' = s ∧ ∃ e ∈ s.durable, e.key = k ∧ ∀ e' ∈ s.durable ++ s.pending, e'.key = k → e' = e) ∧
    (found.isSome = false → ∀ e ∈ s.durable, e.key ≠ k) := by
  have hr' := read_ok (s := s) (a := a) (k := k) (found := found.isSome) hr
  refine ⟨hr'.1, ?_, ?_⟩
  · intro hf
    refine ⟨hr'.2.2 hf, ?_⟩
    have hany : s.durable.any (·.key = k) = true := by rw [← hr'.2.1]; exact hf
    obtain ⟨e, he, hek⟩ := List.any_eq_true.mp hany
    have hek' : e.key = k := by simpa using hek
    refine ⟨e, he, hek', ?_⟩
    intro e' he' hek2
    exact key_designates_one_entry d0 h0 evs s h k hk e' e he' (List.mem_append_left _ he) hek2 hek'
  · intro hf e he hek
    have hany : s.durable.any (·.key = k) = true := List.any_eq_true.mpr ⟨e, he, by simpa using hek⟩
    rw [← hr'.2.1, hf] at hany
    cases hany

/-- **an effect needs a miss under the reservation**: an entry with a key is only committed by the request that holds
the reservation and whose lookup missed; while any entry carries the key nobody's commit of it is accepted -/
theorem effect_needs_miss (d0 : List Entry) (h0 : UniqueKeys d0) (evs : List Ev) (s : S)
    (h : runOn ikStep (init d0) evs = .ok s) (a : Nat) (l : LogE) (lt : Int) (hk : l.ik ≠ "") (s' : S)
    (hc : ikStep s (.committed a l lt) = .ok s') :
    (l.ik, a) ∈ s.held ∧ (a, l.ik) ∈ s.missed ∧ (∀ e ∈ s.durable ++ s.pending, e.key ≠ l.ik) := by
  have hc' := commit_ok (s := s) (a := a) (id := l.id) (k := l.ik) hk hc
  refine ⟨hc'.1, hc'.2.1, ?_⟩
  intro e he hek
  exact no_commit_while_present (guard_inv d0 h0 evs s h) hk he hek a l.id s' hc

/-! non-vacuity -/

def lg (ik : String) (id : Nat) : LogE :=
  { id := id, kind := .create, txid := some id, ik := ik, ref := "", reverts := none, postings := [], target := "",
    metaKey := "", prevId := none, hashOk := true }

def view (r : Except String S) : Option (List (String × Nat) × List (String × Nat)) :=
  r.toOption.map (fun s => (s.durable.map (fun e => (e.key, e.id)), s.pending.map (fun e => (e.key, e.id))))

/-- two racing requests with one key: the second is refused while the first is in flight, and once the first has
finished its retry takes the reservation and finds the entry -/
example : view (runOn ikStep (init [])
    [.taken 1 "ik" "k" true, .taken 2 "ik" "k" false, .finish 2 false "conflict" none, .ikRead 1 "k" none,
     .committed 1 (lg "k" 0) 0, .gate 1 true, .finish 1 true "" (some 0),
     .taken 2 "ik" "k" true, .ikRead 2 "k" (some 0), .finish 2 true "" (some 0)])
    = some ([("k", 0)], []) := by decide

/-- the second request cannot commit the key: neither without the reservation … -/
example : (runOn ikStep (init [])
    [.taken 1 "ik" "k" true, .ikRead 1 "k" none, .taken 2 "ik" "k" false, .committed 2 (lg "k" 0) 0]).toOption.isNone := by decide

/-- … nor after its lookup found the entry -/
example : (runOn ikStep (init [⟨"k", 0, 1⟩])
    [.taken 2 "ik" "k" true, .ikRead 2 "k" (some 0), .committed 2 (lg "k" 1) 1]).toOption.isNone := by decide

/-- a reservation released while the entry is only queued is rejected -/
example : (runOn ikStep (init [])
    [.taken 1 "ik" "k" true, .ikRead 1 "k" none, .committed 1 (lg "k" 0) 0, .finish 1 true "" (some 0)]).toOption.isNone := by decide

/-- a request that has committed does not look the key up again before its entry is persisted (the check that
`step_inv` needs: without it a second miss would license a second entry) -/
example : (runOn ikStep (init [])
    [.taken 1 "ik" "k" true, .ikRead 1 "k" none, .committed 1 (lg "k" 0) 0, .ikRead 1 "k" none]).toOption.isNone := by decide

/-- a retry after a crash: the first attempt is persisted, the process stops before it answers, the retry finds it;
an attempt that was only queued when the process stopped is lost and the retry takes effect — once -/
example : view (runOn ikStep (init [])
    [.taken 1 "ik" "k" true, .ikRead 1 "k" none, .committed 1 (lg "k" 0) 0, .gate 1 true, .crash,
     .taken 2 "ik" "k" true, .ikRead 2 "k" (some 0), .finish 2 true "" (some 0)])
    = some ([("k", 0)], []) := by decide
example : view (runOn ikStep (init [])
    [.taken 1 "ik" "k" true, .ikRead 1 "k" none, .committed 1 (lg "k" 0) 0, .crash,
     .taken 2 "ik" "k" true, .ikRead 2 "k" none, .committed 2 (lg "k" 0) 0, .gate 1 true, .finish 2 true "" (some 0)])
    = some ([("k", 0)], []) := by decide

example : UniqueKeys [⟨"k", 0, 1⟩, ⟨"", 1, 1⟩, ⟨"", 2, 1⟩] := by
  intro k hk
  by_cases h : k = "k"
  · subst h; decide
  · have : ("k" : String) ≠ k := fun h' => h h'.symm
    have h2 : ("" : String) ≠ k := fun h' => hk h'.symm
    simp [this, h2]

end C07
