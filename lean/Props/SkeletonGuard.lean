import Props.Skeleton
import Props.SkeletonRef
import Lemmas.SkelGuard
/-! SkeletonGuard — the regenerated skeleton, INTERPRETED and scheduled at its yield points, refines the three `Guard`
machines (C07 idempotency keys, C11 references, C10 revert targets): statements for ALL schedules.

`Engine.Skel.Sys.RunY` is the commander as a transition system that interprets control paths of
`Generated.Commander`, a request being descheduled only at a `verifhook.Yield` (or when it is over); between two
segments the store persists a prefix of the queue or fails, the process crashes, a new request arrives.  Every trace it
produces is accepted by `Guard` under each of its three views, and the machine's persisted / queued entries are the
commander's store / queue with the view's keys.  The machine's own theorems (`Props/C07.lean`, `C10`, `C11`:
`Guard.Inv`, at most one entry per key) then hold of every reachable state of the interpreted skeleton.

Why `RunY` and not the item-level `Run`: `Guard` reads a request's `finish` as the release of its reservations; the
code releases them a few actions earlier (deferred calls, `terminated()`), with no event.  Under item-level
interleaving another request could take the key in that window and `Guard` would (rightly, for its own reading) reject
"reserved twice".  The per-request automaton (`Model/Engine/SkelAutoGuard.lean`) checks that no scheduling point lies
between a release and the return, so under the yield-point discipline nobody else runs in the window.

Hypotheses, all explicit in the statements:
* (none about panics: a path that panics — the 4 paths of `SaveMeta` / `DeleteMetadata` on an unknown target type —
  ends, after its deferred calls, with the error its caller answers once the panic has unwound, `fin false "panic"`,
  as the harness and the HTTP recoverer do; before `Skel.paths` said so the refinement was false for these paths — the
  key was released without any `finish` — and they had to be excluded.)
* `JobOk isRevert j` — the request's kind agrees with its entry point (`SkelSys` takes the log's reference / revert
  target from `req.kind`, the skeleton decides the protocol from the entry point) and `isRevert` says which requests
  are reverts (the parameter of `Guard.revView`).  Not needed for the idempotency-key view.
* revert view: the initial store is well formed — a log that reverts `t` only exists next to a log of transaction `t`
  (otherwise a `GetTransaction` that finds nothing would disagree with the machine's "already reverted"). -/
namespace SkeletonGuard
open Engine Engine.Skel Engine.Skel.GuardRef Generated.Commander Skeleton

-- ------------------------------------------------------------------------------------------------ admission

/-- **every control path of the regenerated skeleton is accepted by the guard automaton, for the three views** (one
kernel evaluation, like `Skeleton.wf_generated`) -/
theorem guard_shape_generated :
    entryPoints.all (fun e => (paths e.1 e.2).all (fun p => gaccAll e.1 (tagged p))) = true := by
  decide +kernel

/-- the request's kind agrees with its entry point, and `isRevert` tells the reverts -/
def JobOk (isRevert : Nat → Bool) (j : Sys.Job) : Prop :=
  (j.req.kind = .create ↔ j.ep = "CreateTransaction") ∧ (j.req.kind = .revert ↔ j.ep = "RevertTransaction") ∧
  decide (j.req.kind = .revert) = isRevert j.a

/-- admission for the idempotency-key view: any path of the request's entry point -/
def AdmittedNP (j : Sys.Job) (p : Path) : Prop := SkeletonRef.Admitted j p

/-- admission for the reference and revert views -/
def AdmittedG (isRevert : Nat → Bool) (j : Sys.Job) (p : Path) : Prop :=
  SkeletonRef.Admitted j p ∧ JobOk isRevert j

theorem admitted_guard_shape (v : VId) (j : Sys.Job) (p : Path) (h : SkeletonRef.Admitted j p) :
    gacc v j.ep (ginit v j.ep) p = true := by
  obtain ⟨e, he, hep, p0, hp0, rfl⟩ := h
  have h1 := List.all_eq_true.mp guard_shape_generated e he
  have h2 := List.all_eq_true.mp h1 p0 hp0
  have h3 := List.all_eq_true.mp h2 v (by cases v <;> simp [VId.all])
  rw [← hep]
  exact h3

theorem jobOk_view (isRevert : Nat → Bool) (v : VId) (j : Sys.Job) (h : JobOk isRevert j) : JobOkV isRevert v j := by
  cases v with
  | ik => trivial
  | ref => exact h.1.1
  | rev => exact ⟨h.2.1, h.2.2.symm⟩

-- ------------------------------------------------------------------------------------------------ C07: idempotency keys

/-- **C07 for every yield-point schedule of the regenerated skeleton.**  Whatever the order in which the requests'
segments run, the batch boundaries, the store failures and the crashes: the trace is accepted by the `Guard` machine
looking at idempotency keys, whose persisted and queued entries are the commander's store and queue. -/
theorem guard_ik_accepts_every_schedule (store : List LogE) (tr : List Ev) (y : Sys.YState)
    (h : Sys.RunY AdmittedNP ⟨Sys.init store, none⟩ tr y) :
    ∃ s, runOn (Guard.stepOf Guard.ikView) (Guard.init (store.map (fun l => ⟨l.ik, l.id, 0⟩))) tr = .ok s ∧
      s.durable.map (fun e => (e.key, e.id)) = y.st.sh.store.map (fun l => (l.ik, l.id)) ∧
      s.pending = y.st.sh.queue.map (fun q => ⟨q.2.ik, q.2.id, q.1⟩) := by
  obtain ⟨s, hs, hi⟩ := runY_refines .ik (fun _ => false) AdmittedNP
    (fun j p hp => ⟨admitted_guard_shape .ik j p hp, trivial⟩) _ _ _ h _ (init_inv .ik _ store trivial)
  exact ⟨s, hs, hi.dur, hi.pend⟩

/-- … hence (C07's invariant) in every reachable state of the interpreted skeleton the machine's invariant holds and **a
non-empty idempotency key labels at most one log, persisted or queued** -/
theorem ik_at_most_once_every_schedule (store : List LogE)
    (h0 : ∀ k, k ≠ "" → (store.filter (fun l => l.ik = k)).length ≤ 1) (tr : List Ev) (y : Sys.YState)
    (h : Sys.RunY AdmittedNP ⟨Sys.init store, none⟩ tr y) :
    ∀ k, k ≠ "" → ((y.st.sh.store ++ y.st.sh.queue.map (·.2)).filter (fun l => l.ik = k)).length ≤ 1 := by
  obtain ⟨s, hs, hd, hp⟩ := guard_ik_accepts_every_schedule store tr y h
  have hinv := Guard.run_inv Guard.ikView _ (uniqueKeys_of_store .ik store h0) tr s hs
  intro k hk
  have := hinv.uniq k hk
  rwa [keyed_length .ik s y.st.sh hd hp k] at this

-- ------------------------------------------------------------------------------------------------ C11: references

/-- **C11 for every yield-point schedule**: the trace is accepted by the `Guard` machine looking at transaction
references -/
theorem guard_ref_accepts_every_schedule (isRevert : Nat → Bool) (store : List LogE) (tr : List Ev) (y : Sys.YState)
    (h : Sys.RunY (AdmittedG isRevert) ⟨Sys.init store, none⟩ tr y) :
    ∃ s, runOn (Guard.stepOf Guard.refView) (Guard.init (store.map (fun l => ⟨l.ref, l.id, 0⟩))) tr = .ok s ∧
      s.durable.map (fun e => (e.key, e.id)) = y.st.sh.store.map (fun l => (l.ref, l.id)) ∧
      s.pending = y.st.sh.queue.map (fun q => ⟨q.2.ref, q.2.id, q.1⟩) := by
  obtain ⟨s, hs, hi⟩ := runY_refines .ref isRevert (AdmittedG isRevert)
    (fun j p hp => ⟨admitted_guard_shape .ref j p hp.1, jobOk_view isRevert .ref j hp.2⟩) _ _ _ h _
    (init_inv .ref _ store trivial)
  exact ⟨s, hs, hi.dur, hi.pend⟩

/-- … hence **a non-empty reference labels at most one log, persisted or queued**, in every reachable state -/
theorem ref_at_most_once_every_schedule (isRevert : Nat → Bool) (store : List LogE)
    (h0 : ∀ k, k ≠ "" → (store.filter (fun l => l.ref = k)).length ≤ 1) (tr : List Ev) (y : Sys.YState)
    (h : Sys.RunY (AdmittedG isRevert) ⟨Sys.init store, none⟩ tr y) :
    ∀ k, k ≠ "" → ((y.st.sh.store ++ y.st.sh.queue.map (·.2)).filter (fun l => l.ref = k)).length ≤ 1 := by
  obtain ⟨s, hs, hd, hp⟩ := guard_ref_accepts_every_schedule isRevert store tr y h
  have hinv := Guard.run_inv Guard.refView _ (uniqueKeys_of_store .ref store h0) tr s hs
  intro k hk
  have := hinv.uniq k hk
  rwa [keyed_length .ref s y.st.sh hd hp k] at this

-- ------------------------------------------------------------------------------------------------ C10: revert targets

/-- a log that reverts `t` only exists next to a log of transaction `t` -/
def RevertsKnown (store : List LogE) : Prop :=
  ∀ l ∈ store, ∀ t, l.reverts = some t → store.any (fun l' => l'.txid = some t) = true

/-- **C10 (once only) for every yield-point schedule**: the trace is accepted by the `Guard` machine looking at revert
targets (`isRevert a`: request `a` is a revert) -/
theorem guard_rev_accepts_every_schedule (isRevert : Nat → Bool) (store : List LogE) (hstore : RevertsKnown store)
    (tr : List Ev) (y : Sys.YState) (h : Sys.RunY (AdmittedG isRevert) ⟨Sys.init store, none⟩ tr y) :
    ∃ s, runOn (Guard.stepOf (Guard.revView isRevert)) (Guard.init (store.map (fun l => ⟨Guard.revKey l.reverts, l.id, 0⟩))) tr = .ok s ∧
      s.durable.map (fun e => (e.key, e.id)) = y.st.sh.store.map (fun l => (Guard.revKey l.reverts, l.id)) ∧
      s.pending = y.st.sh.queue.map (fun q => ⟨Guard.revKey q.2.reverts, q.2.id, q.1⟩) := by
  have hst : SInv .rev (Sys.restart store) := by
    intro l hl t ht
    simp only [Sys.restart, List.map_nil, List.not_mem_nil, or_false] at hl
    exact hstore l hl t ht
  obtain ⟨s, hs, hi⟩ := runY_refines .rev isRevert (AdmittedG isRevert)
    (fun j p hp => ⟨admitted_guard_shape .rev j p hp.1, jobOk_view isRevert .rev j hp.2⟩) _ _ _ h _
    (init_inv .rev _ store hst)
  exact ⟨s, hs, hi.dur, hi.pend⟩

/-- … hence **a transaction is reverted by at most one log, persisted or queued**, in every reachable state -/
theorem revert_at_most_once_every_schedule (isRevert : Nat → Bool) (store : List LogE) (hstore : RevertsKnown store)
    (h0 : ∀ t : Nat, (store.filter (fun l => l.reverts = some t)).length ≤ 1) (tr : List Ev) (y : Sys.YState)
    (h : Sys.RunY (AdmittedG isRevert) ⟨Sys.init store, none⟩ tr y) :
    ∀ t : Nat, ((y.st.sh.store ++ y.st.sh.queue.map (·.2)).filter (fun l => l.reverts = some t)).length ≤ 1 := by
  obtain ⟨s, hs, hd, hp⟩ := guard_rev_accepts_every_schedule isRevert store hstore tr y h
  have hconv : ∀ (ls : List LogE) (t : Nat), ls.filter (fun l => VId.rev.keyOf l = toString t) = ls.filter (fun l => l.reverts = some t) := by
    intro ls t
    apply List.filter_congr
    intro l _
    simp only [VId.keyOf, revKey_eq_toString]
  have hu : Guard.UniqueKeys (store.map (fun l => ⟨Guard.revKey l.reverts, l.id, 0⟩)) := by
    apply uniqueKeys_of_store .rev store
    intro k hk
    by_cases hex : ∃ l ∈ store, VId.rev.keyOf l = k
    · obtain ⟨l, _, hl⟩ := hex
      cases hr : l.reverts with
      | none => simp [VId.keyOf, hr, Guard.revKey] at hl; exact absurd hl hk
      | some t =>
        have : k = toString t := by simpa [VId.keyOf, hr, Guard.revKey] using hl.symm
        rw [this, hconv]
        exact h0 t
    · have : store.filter (fun l => VId.rev.keyOf l = k) = [] := by
        rw [List.filter_eq_nil_iff]
        intro l hl hk'
        exact hex ⟨l, hl, by simpa using hk'⟩
      rw [this]; simp
  have hinv := Guard.run_inv (Guard.revView isRevert) _ hu tr s hs
  intro t
  have hne : toString t ≠ "" := by
    intro h
    have := (revKey_eq_empty (some t)).1 h
    cases this
  have := hinv.uniq (toString t) hne
  rw [keyed_length .rev s y.st.sh hd hp, hconv] at this
  exact this

/-- the full invariant of the machine (reservations exclusive, a queued keyed entry protected by its producer's
reservation, a miss means no entry) in every reachable state, for the reference and revert views (idempotency keys: `Guard.run_inv` on
`guard_ik_accepts_every_schedule` in the same way) -/
theorem guard_inv_every_schedule (isRevert : Nat → Bool) (store : List LogE) (hstore : RevertsKnown store)
    (href : ∀ k, k ≠ "" → (store.filter (fun l => l.ref = k)).length ≤ 1)
    (hrev : ∀ k, k ≠ "" → (store.filter (fun l => Guard.revKey l.reverts = k)).length ≤ 1)
    (tr : List Ev) (y : Sys.YState) (h : Sys.RunY (AdmittedG isRevert) ⟨Sys.init store, none⟩ tr y) :
    (∃ s, runOn (Guard.stepOf Guard.refView) (Guard.init (store.map (fun l => ⟨l.ref, l.id, 0⟩))) tr = .ok s ∧ Guard.Inv s) ∧
    (∃ s, runOn (Guard.stepOf (Guard.revView isRevert)) (Guard.init (store.map (fun l => ⟨Guard.revKey l.reverts, l.id, 0⟩))) tr = .ok s ∧ Guard.Inv s) := by
  constructor
  · obtain ⟨s, hs, _⟩ := guard_ref_accepts_every_schedule isRevert store tr y h
    exact ⟨s, hs, Guard.run_inv Guard.refView _ (uniqueKeys_of_store .ref store href) tr s hs⟩
  · obtain ⟨s, hs, _⟩ := guard_rev_accepts_every_schedule isRevert store hstore tr y h
    exact ⟨s, hs, Guard.run_inv (Guard.revView isRevert) _ (uniqueKeys_of_store .rev store hrev) tr s hs⟩

-- ------------------------------------------------------------------------------------------------ non-vacuity

/-- the automaton rejects a path that looks the key up before reserving it … -/
example : gacc .ik "CreateTransaction" (ginit .ik "CreateTransaction")
    [.act (.readIk "k") .notFound .direct, .act (.take .iks "k") .ok .direct, .act (.release .iks "k") .ok .deferred,
     .fin true ""] = false := by decide

/-- … a path with a scheduling point between the release and the return … -/
example : gacc .ik "CreateTransaction" (ginit .ik "CreateTransaction")
    [.act (.take .iks "k") .ok .direct, .act (.readIk "k") .ok .direct, .act (.release .iks "k") .ok .deferred,
     .act (.yield "late") .ok .direct, .fin true ""] = false := by decide

/-- … a path that commits a keyed log after a lookup that FOUND the key, one that returns before the wait, one that
leaves the reservation behind … -/
example : gacc .ik "CreateTransaction" (ginit .ik "CreateTransaction")
    [.act (.take .iks "k") .ok .direct, .act (.readIk "k") .ok .direct, .act .setIk .ok .direct, .act .chainLog .ok .direct,
     .act (.append "chained" ["c"]) .ok .direct, .act (.wait "persisted") .ok .direct,
     .act (.release .iks "k") .ok .deferred, .fin true ""] = false := by decide
example : gacc .ik "CreateTransaction" (ginit .ik "CreateTransaction")
    [.act (.take .iks "k") .ok .direct, .act (.readIk "k") .notFound .direct, .act .setIk .ok .direct,
     .act .chainLog .ok .direct, .act (.append "chained" ["c"]) .ok .direct,
     .act (.release .iks "k") .ok .deferred, .fin true ""] = false := by decide
example : gacc .ik "CreateTransaction" (ginit .ik "CreateTransaction")
    [.act (.take .iks "k") .ok .direct, .act (.readIk "k") .ok .direct, .fin true ""] = false := by decide

/-- … a revert that commits without having decided `reverted = false` … -/
example : gacc .rev "RevertTransaction" (ginit .rev "RevertTransaction")
    [.act (.take .reverts "t") .ok .direct, .act (.readTx "t") .ok .direct, .act .chainLog .ok .direct,
     .act (.append "chained" ["c"]) .ok .direct, .act (.wait "persisted") .ok .direct,
     .act (.release .reverts "t") .ok .deferred, .fin true ""] = false := by decide

/-- … and accepts the protocol as the code runs it -/
example : gacc .ik "CreateTransaction" (ginit .ik "CreateTransaction")
    [.act (.yield "ik-take") .ok .direct, .act (.take .iks "k") .ok .direct, .act (.yield "ik-lookup") .ok .direct,
     .act (.readIk "k") .notFound .direct, .act .setIk .ok .direct, .act (.yield "commit") .ok .direct,
     .act .chainLog .ok .direct, .act (.append "chained" ["c"]) .ok .direct, .act (.yield "wait") .ok .direct,
     .act (.wait "persisted") .ok .direct, .act (.release .iks "k") .ok .deferred, .fin true ""] = true := by decide

/-- the skeleton has paths that take, look up, commit and release (the acceptance theorem is not about nothing) -/
example : entryPoints.all (fun e => (paths e.1 e.2).any (fun p =>
    !(tagged p).any isPanic && p.any (isTakeOk .iks) && p.any isAppend && p.any (isRelease .iks))) = true := by decide +kernel

/-! a concrete run: the hypotheses of the theorems are satisfiable and the runs they speak about do something.  The store
holds a log with idempotency key "k"; request 1 (`CreateTransaction`, preview, key "k") follows the skeleton's path
"reserve the key, look it up, found: release, answer with the stored transaction" to its end. -/

def store1 : List LogE :=
  [{ id := 0, kind := .create, txid := some 0, ik := "k", ref := "", reverts := none, postings := [], target := "",
     metaKey := "", prevId := none, hashOk := true }]

def job1 : Sys.Job :=
  { a := 1, ep := "CreateTransaction",
    req := { kind := .create, dry := true, ik := "k", ref := "", target := 0, force := false, over := 0 },
    postings := [], target := "", metaKey := "", r := [], w := [], bals := [] }

def path1 : Path := tagged (((paths "CreateTransaction" createTransaction)[1]?).getD [])

def sawRetry (o : Option (List Ev × Sys.Shared × Sys.Regs)) : Bool :=
  match o with
  | some r =>
    r.1.any (fun e => match e with | .taken 1 "ik" "k" true => true | _ => false) &&
    r.1.any (fun e => match e with | .ikRead 1 "k" (some 0) => true | _ => false) &&
    r.1.any (fun e => match e with | .finish 1 true _ (some 0) => true | _ => false) &&
    r.2.1.held.isEmpty
  | none => false

theorem admitted1 : AdmittedG (fun _ => false) job1 path1 := by
  refine ⟨⟨("CreateTransaction", createTransaction), by simp [entryPoints], rfl,
    ((paths "CreateTransaction" createTransaction)[1]?).getD [], ?_, rfl⟩, ?_⟩
  · have h : (paths "CreateTransaction" createTransaction)[1]? =
        some (((paths "CreateTransaction" createTransaction)[1]?).getD []) := by decide +kernel
    exact List.mem_of_getElem? h
  · refine ⟨⟨fun _ => rfl, fun _ => rfl⟩, ⟨(fun h => by cases h), fun h => ?_⟩, rfl⟩
    have : ("CreateTransaction" : String) ≠ "RevertTransaction" := by decide
    exact absurd h this

example : ∃ tr y, Sys.RunY (AdmittedG (fun _ => false)) ⟨Sys.init store1, none⟩ tr y ∧ sawRetry (some (tr, y.st.sh, {})) = true := by
  have hchk : sawRetry (solo (Sys.init store1).sh job1 {} path1) = true := by decide +kernel
  cases hs : solo (Sys.init store1).sh job1 {} path1 with
  | none => rw [hs] at hchk; cases hchk
  | some res =>
    rw [hs] at hchk
    have h1 := Sys.RunY.cons _ _ _ _ _ (Sys.RunY.nil ⟨Sys.init store1, none⟩)
      (Sys.StepY.arrive (adm := AdmittedG (fun _ => false)) ⟨Sys.init store1, none⟩ job1 path1 (by simp [Sys.init]) admitted1)
    have hne : path1 ≠ [] := by decide +kernel
    have h2 := solo_runY' (AdmittedG (fun _ => false)) _ job1 path1 hne _ _ _ _ _ res h1 (.inl rfl) hs
    exact ⟨_, _, h2, by simpa [sawRetry] using hchk⟩

end SkeletonGuard
