import Model.SqlText
import Lemmas.SqlText
/-! C20 — filter values are data, never SQL.

`Model.SqlText` holds bun's literal rendering (`bunQuote`, `jsonBody ∘ goJson`), a PostgreSQL scanner (`lex`, `shape`) and
the filter renderers of the repaired `ledgerstore` query contexts.  The statements below are about those definitions;
their tie to the Go code is the differential of `checks/c20.py` (captured SQL of the real store = frame + the model's
fragment; Lean scanner = independent Python tokenizer on every captured statement).

"Data" is stated as: the token kinds of the whole statement (identifiers, operators and punctuation kept, literal
contents erased) are those of the statement for the harmless twin of the value, in every context `pre … post` whose
prefix ends at a token boundary. -/
namespace C20
open SqlText

deriving instance DecidableEq for Except

/-- the text before the filter ends at a token boundary (as `… WHERE (ledger = 'l0') AND (` does) -/
abbrev Boundary (pre : String) : Prop := (run .dflt pre.toList).1 = .dflt

/-- **A bound string is one literal.**  Whatever `s` contains — quotes, backslashes, comment markers, `$$`, newlines,
non-ASCII — `bunQuote s` scans as exactly one string-literal token, and its value is `s` itself; the only characters
bun treats specially are NUL (U+0000), which it drops, and `'`, which it doubles. -/
theorem bound_values_are_one_literal (s : String) :
    lex (bunQuote s) = [(.str, String.ofList (dropNul s.toList))] := by
  have := lexL_quoted (qsafe_quoteBody s.toList)
  simpa [lex, bunQuote, bunQuoteL, unq_quoteBody] using this

/-- a string without NUL comes back unchanged -/
theorem bound_value_roundtrip (s : String) (h : NUL ∉ s.toList) : lex (bunQuote s) = [(.str, s)] := by
  rw [bound_values_are_one_literal]
  have : ∀ cs : Chars, NUL ∉ cs → dropNul cs = cs := by
    intro cs hcs
    induction cs with
    | nil => rfl
    | cons c cs ih =>
      have hc : c ≠ NUL := fun h' => hcs (by simp [h'])
      simp [dropNul, hc, ih (fun h' => hcs (by simp [h']))]
  simp [this _ h]

/-- **A bound JSON value is one literal** (`map[string]any`, `[]any`: `encoding/json` then `AppendJSON`), for every
JSON value: keys and strings with quotes, backslashes, control characters, `\u0000` included. -/
theorem json_values_are_one_literal (v : JV) :
    lex (String.ofList ('\'' :: (jsonBody (goJson v) ++ ['\'']))) = [(.str, String.ofList (unq (jsonBody (goJson v))))] := by
  have := lexL_quoted (qsafe_jsonBody _ (jsafe_goJson v))
  simpa [lex] using this

/-- **Literal bodies are invisible to the token structure.**  Two texts built from the same program text with quoted
literals in the same places (`frameOf`), whose literal bodies are quote-safe, have the same token kinds in every
continuation `post`, from any scanner state in which those literals are well placed. -/
theorem frame_determines_shape (s : Ctl) (ps qs : List Piece) (post : Chars)
    (hf : frameOf ps = frameOf qs) (hp : LitsSafe ps) (hq : LitsSafe qs) (hw : (frameRun s (frameOf ps)).isSome) :
    shape (lexFrom s (flat ps ++ post)) = shape (lexFrom s (flat qs ++ post)) := by
  rw [shape_lexFrom, shape_lexFrom]
  exact frame_kinds post hf hp hq hw

/-- what the repaired `filterAccountAddress*` accept: every character of an accepted pattern is a letter, a digit,
`_`, `-` or the separator `:` -/
theorem accepted_alphabet (a : String) (h : accepted a.toList = true) :
    ∀ c ∈ a.toList, c = ':' ∨ isWordC c = true ∨ c = '-' := by
  intro c hc
  rcases mem_splitColonAux [] a.toList c (.inr hc) with h1 | ⟨s, hs, hcs⟩
  · exact .inl h1
  · exact .inr (acceptedSegs_seg h hs c hcs)

/-- `filterAccountAddress` rejects exactly the patterns that are not accepted -/
theorem address_rejected_iff (a k : String) : renderAddress a k = .error .invalid ↔ accepted a.toList = false := by
  have key : ∀ r : Except Rej (List Piece),
      (Except.map (fun ps => String.ofList (flat ps)) r = .error .invalid) ↔ r = .error .invalid := by
    intro r; cases r <;> simp [Except.map]
  unfold renderAddress renderPieces
  rw [key]
  unfold addressPieces accepted
  by_cases h : acceptedSegs (splitColon a.toList) = true
  · by_cases hw : (splitColon a.toList).any List.isEmpty = true <;> simp [h, hw]
  · simp [h]

/-- **An accepted address pattern is data** in `filterAccountAddress(address, key)`: for every accepted `a` and every
column name `k` (letters, digits, `_`, `.`), in every context, the SQL has the token kinds it has for the harmless
twin of `a` (every character of every segment replaced by `a`). -/
theorem address_is_data (a k : String) (hk : IdentKey k.toList) (ha : accepted a.toList = true)
    (pre post : String) (hpre : Boundary pre) :
    ∃ x y, renderAddress a k = .ok x ∧ renderAddress (harmless a) k = .ok y ∧
      shape (lex (pre ++ x ++ post)) = shape (lex (pre ++ y ++ post)) := by
  cases h : addressPieces a.toList k.toList with
  | error r =>
    exfalso
    unfold addressPieces at h
    have : acceptedSegs (splitColon a.toList) = true := ha
    by_cases hw : (splitColon a.toList).any List.isEmpty = true <;> simp [this, hw] at h
  | ok ps =>
    obtain ⟨ps', h', g⟩ := address_good hk h
    refine ⟨String.ofList (flat ps), String.ofList (flat ps'), ?_, ?_, good_shape g pre post hpre⟩
    · simp [renderAddress, renderPieces, h, Except.map]
    · simp [renderAddress, renderPieces, harmless, h', Except.map]

/-- the same for `filterAccountAddressOnTransactions(address, source, destination)` -/
theorem address_on_tx_is_data (a : String) (source destination : Bool) (ha : accepted a.toList = true)
    (pre post : String) (hpre : Boundary pre) :
    ∃ x y, renderAddressOnTx a source destination = .ok x ∧ renderAddressOnTx (harmless a) source destination = .ok y ∧
      shape (lex (pre ++ x ++ post)) = shape (lex (pre ++ y ++ post)) := by
  cases h : addressOnTxPieces a.toList source destination with
  | error r =>
    exfalso
    unfold addressOnTxPieces at h
    have : acceptedSegs (splitColon a.toList) = true := ha
    simp only [this] at h
    cases h
  | ok ps =>
    obtain ⟨ps', h', g⟩ := addressOnTx_good h
    refine ⟨String.ofList (flat ps), String.ofList (flat ps'), ?_, ?_, good_shape g pre post hpre⟩
    · simp [renderAddressOnTx, renderPieces, h, Except.map]
    · simp [renderAddressOnTx, renderPieces, harmless, h', Except.map]

/-- **Rejected or data, one filter leaf.**  For every listing, every key it knows (the captured metadata key and asset
name are arbitrary strings), every operator and every JSON value: the query context either rejects the leaf, or renders
SQL whose token kinds, in every context, are those of the rendering for the harmless twin (same key shape, every
character of every string replaced by `a`), which is accepted too. -/
theorem rejected_or_data (ep : Endpoint) (pit : Bool) (ledger : String) (key : FKey) (op : String) (v : JV)
    (pre post : String) (hpre : Boundary pre) :
    match renderPieces (leafPieces ep pit ledger.toList key op v) with
    | .error _ => True
    | .ok sql => ∃ sql', renderPieces (leafPieces ep pit ledger.toList (harmlessKey key) op (harmlessValue key v)) = .ok sql' ∧
        shape (lex (pre ++ sql ++ post)) = shape (lex (pre ++ sql' ++ post)) := by
  cases h : leafPieces ep pit ledger.toList key op v with
  | error r => simp [renderPieces, Except.map]
  | ok ps =>
    obtain ⟨ps', h', g⟩ := leaf_good h
    simp only [renderPieces, Except.map, h']
    exact ⟨_, rfl, good_shape g pre post hpre⟩

/-- **The key is client text too.**  A filter key arrives as a string (a JSON object key, the name of a v1 query parameter);
`classifyKey` is all the query contexts do with it.  For every listing and EVERY key string — SQL in front of or behind a
known key, a table-qualified column, a column of the schema that is no filter key — the leaf is rejected, or its SQL has in
every context the token kinds of the rendering for the harmless twin: of the key string itself only the captured metadata key /
asset name ever reaches the statement, inside a literal. -/
theorem key_rejected_or_data (ep : Endpoint) (pit : Bool) (ledger : String) (key : String) (op : String) (v : JV)
    (pre post : String) (hpre : Boundary pre) :
    match renderPieces (leafPieces ep pit ledger.toList (classifyKey ep key) op v) with
    | .error _ => True
    | .ok sql => ∃ sql', renderPieces (leafPieces ep pit ledger.toList (harmlessKey (classifyKey ep key)) op (harmlessValue (classifyKey ep key) v)) = .ok sql' ∧
        shape (lex (pre ++ sql ++ post)) = shape (lex (pre ++ sql' ++ post)) :=
  rejected_or_data ep pit ledger (classifyKey ep key) op v pre post hpre

/-- **Rejected or data, whole filter expressions** (`$and` / `$or` / `not` over leaves, as `query.Builder.Build` joins
them): the `where` text is rejected, or has in every context the token kinds of the text for the harmless twin. -/
theorem filter_rejected_or_data (ep : Endpoint) (pit : Bool) (ledger : String) (e : Expr)
    (pre post : String) (hpre : Boundary pre) :
    match renderFilter ep pit ledger e with
    | .error _ => True
    | .ok sql => ∃ sql', renderFilter ep pit ledger (harmlessExpr e) = .ok sql' ∧
        shape (lex (pre ++ sql ++ post)) = shape (lex (pre ++ sql' ++ post)) := by
  unfold renderFilter
  cases h : exprPieces ep pit ledger.toList e with
  | error r => simp [renderPieces, Except.map]
  | ok ps =>
    obtain ⟨ps', h', g⟩ := expr_good ep pit ledger.toList e ps h
    simp only [renderPieces, Except.map, h']
    exact ⟨_, rfl, good_shape g pre post hpre⟩

/-! ## non-vacuity: hostile strings, concrete contexts -/

example : bunQuote "x' or '1'='1" = "'x'' or ''1''=''1'" := by decide
example : lex (bunQuote "x' or '1'='1") = [(.str, "x' or '1'='1")] := by decide
example : lex (bunQuote "a'; drop table x; --") = [(.str, "a'; drop table x; --")] := by decide
example : lex (bunQuote "\\'; select 1; --") = [(.str, "\\'; select 1; --")] := by decide
example : lex (bunQuote "$$ /* */ $a$") = [(.str, "$$ /* */ $a$")] := by decide
/-- the scanner does tell code from data: the same texts outside a literal are several tokens -/
example : (lex "q' or '1'='1").length = 5 ∧ (lex "a; drop table x; --").length = 6 := by decide
/-- the unrepaired rendering (`fmt.Sprintf("%s = '%s'")`) of `x' or '1'='1` is NOT data -/
example : shape (lex "accounts.address = 'x' or '1'='1'") ≠ shape (lex "accounts.address = 'aaaaaaaaaaaa'") := by decide
/-- under E'…' a backslash would matter; bun never writes E'…' -/
example : shape (lex "E'a\\' or 1=1 --'") = [.estr] ∧ shape (lex "'a\\' or 1=1 --'") = [.str, .ident "or", .num, .op "=", .num] := by decide

set_option maxRecDepth 8000 in
example : Boundary "SELECT \"accounts\".\"address\" FROM \"accounts\" WHERE (accounts.ledger = 'l0') AND (" := by decide
example : IdentKey "accounts.address".toList ∧ IdentKey "account_address".toList := by decide
example : accepted "users:a-b:".toList = true ∧ accepted "::".toList = true ∧ accepted "orders:001:x_y".toList = true := by decide
example : accepted "x' or '1'='1".toList = false ∧ accepted "a'; drop table x; --".toList = false ∧ accepted "a\\".toList = false ∧
    accepted "$$".toList = false ∧ accepted "/*".toList = false ∧ accepted "a--b".toList = false ∧ accepted "a:?:b".toList = false ∧
    accepted "a\"b:".toList = false := by decide
example : renderAddress "x' or '1'='1" "accounts.address" = .error .invalid := by decide
example : renderAddress "users:001" "accounts.address" = .ok "accounts.address = 'users:001'" := by decide
example : harmless "users:001" = "aaaaa:aaa" ∧ harmless "users::x" = "aaaaa::a" := by decide
example : renderAddress "users:" "accounts.address" =
    .ok "jsonb_array_length(accounts.address_array) = 2 and accounts.address_array @@ ('$[0] == \"users\"')::jsonpath" := by decide
example : renderAddressOnTx ":b" true true =
    .ok "sources_arrays @> '[{\"1\":\"b\",\"2\":null}]' or destinations_arrays @> '[{\"1\":\"b\",\"2\":null}]'" := by decide
example : renderFilter .accounts false "l0" (.leaf (.metadata "k".toList) "$match" (.str "x' or '1'='1".toList)) =
    .ok "metadata @> '{\"k\":\"x'' or ''1''=''1\"}'" := by decide
example : renderFilter .transactions true "l0" (.set true [.leaf .reference "$match" (.str "a'; drop table x; --".toList),
      .not (.leaf (.metadata "k'".toList) "$match" (.str "\\".toList))]) =
    .ok "(reference = 'a''; drop table x; --') and (not (transactions_metadata.metadata @> '{\"k''\":\"\\\\\"}'))" := by decide
example : renderFilter .transactions false "l0" (.leaf .source "$match" (.str "a'b".toList)) = .error .invalid := by decide
/-- hostile keys: text around a known key, a qualified column, a column that is no filter key — all unknown keys, all refused -/
example : classifyKey .transactions "true or transactions.reference" = .unknown ∧ classifyKey .transactions "transactions.reference" = .unknown ∧
    classifyKey .transactions "asset" = .unknown ∧ classifyKey .accounts "address or true" = .unknown ∧ classifyKey .logs "date; select 1" = .unknown := by decide
example : renderFilter .transactions true "l0" (.leaf (classifyKey .transactions "true or transactions.reference") "$match" (.str "x".toList)) = .error .invalid := by
  decide

end C20
