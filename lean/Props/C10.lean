import Lemmas.EngineGuard
import Lemmas.Revert
/-! C10 — revert is an exact, once-only inverse.
Two parts.  (1) *Once only*: the `Guard` component of model B instantiated for revert targets (`revView`: the
reservation of the target's id, the `GetTransaction` lookup answering whether it is already reverted, the commit of
the `REVERTED_TRANSACTION` log, the release) — statements over every event sequence it accepts, i.e. any number of
racing reverts of the same or different transactions, any batch boundaries, store failures and crashes.  Trace
validation (`checks/c10.py`) shows the real `Commander` only produces sequences the component accepts.  (2) *Exact
inverse*: `Postings.Reverse` as a function on lists and its effect on balances.  The overdraft clause (an unforced
revert is refused rather than overdrawing) is the `Floor` component's (C02) with `grant = some 0`. -/
namespace C10
open Engine Engine.Guard Engine.Revert

/-! ### a transaction is reverted at most once -/

/-- the machine: the `Guard` component looking at revert targets (`isRevert a`: request `a` is a revert) -/
abbrev revStep (isRevert : Nat → Bool) : S → Ev → Except String S := stepOf (revView isRevert)

/-- the key of a revert log is never the empty key -/
theorem revKey_some_ne (t : Nat) : revKey (some t) ≠ "" := by
  simp [revKey, toString]

/-- the inductive invariant holds in every reachable state -/
theorem guard_inv (isRevert : Nat → Bool) (d0 : List Entry) (h0 : UniqueKeys d0) (evs : List Ev) (s : S)
    (h : runOn (revStep isRevert) (init d0) evs = .ok s) : Inv s :=
  run_inv (revView isRevert) d0 h0 evs s h

/-- **at most once**: in every reachable state at most one `REVERTED_TRANSACTION` entry, persisted or still queued,
targets a given transaction -/
theorem revert_at_most_once (isRevert : Nat → Bool) (d0 : List Entry) (h0 : UniqueKeys d0) (evs : List Ev) (s : S)
    (h : runOn (revStep isRevert) (init d0) evs = .ok s) (t : Nat) :
    ((s.durable ++ s.pending).filter (·.key = revKey (some t))).length ≤ 1 :=
  (guard_inv isRevert d0 h0 evs s h).uniq _ (revKey_some_ne t)

/-- a revert is only committed by the request that holds the reservation of the target and whose lookup of the target
answered "not reverted", and then no entry — persisted or queued — reverts that target -/
theorem revert_needs_unreverted (isRevert : Nat → Bool) (d0 : List Entry) (h0 : UniqueKeys d0) (evs : List Ev) (s : S)
    (h : runOn (revStep isRevert) (init d0) evs = .ok s) (a : Nat) (l : LogE) (lt : Int) (t : Nat)
    (hl : l.reverts = some t) (s' : S) (hc : revStep isRevert s (.committed a l lt) = .ok s') :
    (revKey (some t), a) ∈ s.held ∧ (a, revKey (some t)) ∈ s.missed ∧
    (∀ e ∈ s.durable ++ s.pending, e.key ≠ revKey (some t)) := by
  have hc0 : step s (.commit a (revKey l.reverts) l.id) = .ok s' := hc
  rw [hl] at hc0
  have hc' := commit_ok (revKey_some_ne t) hc0
  refine ⟨hc'.1, hc'.2.1, ?_⟩
  intro e he hek
  exact no_commit_while_present (guard_inv isRevert d0 h0 evs s h) (revKey_some_ne t) he hek a l.id s' hc0

/-- **a persisted revert is seen**: the lookup of a transaction whose `REVERTED_TRANSACTION` entry is persisted is
answered "reverted" — after any continuation, including crashes — and from then on no revert of it is accepted from
anybody -/
theorem reverted_is_final (isRevert : Nat → Bool) (d0 : List Entry) (h0 : UniqueKeys d0) (evs : List Ev) (s : S)
    (h : runOn (revStep isRevert) (init d0) evs = .ok s) (t : Nat) (x : Entry) (hx : x ∈ s.durable)
    (hxk : x.key = revKey (some t)) (evs2 : List Ev) (s2 : S) (h2 : runOn (revStep isRevert) s evs2 = .ok s2) :
    (∀ (a : Nat) (found reverted : Bool) (s3 : S), isRevert a = true →
        revStep isRevert s2 (.txRead a t found reverted) = .ok s3 → reverted = true ∧ s3 = s2) ∧
    (∀ (b : Nat) (l : LogE) (lt : Int) (s3 : S), l.reverts = some t →
        revStep isRevert s2 (.committed b l lt) ≠ .ok s3) := by
  have hx2 : x ∈ s2.durable := run_durable_mono (revView isRevert) x evs2 s s2 hx h2
  have hi2 : Inv s2 := run_inv_from (revView isRevert) evs2 s s2 (guard_inv isRevert d0 h0 evs s h) h2
  constructor
  · intro a found reverted s3 ha h3
    have h3' : step s2 (.read a (toString t) reverted) = .ok s3 := by
      have : revView isRevert (.txRead a t found reverted) = .read a (toString t) reverted := by
        simp only [revView, ha, if_true]
      simpa only [stepOf, this] using h3
    have hr := read_ok h3'
    have hf : reverted = true := by
      rw [hr.2.1]
      exact List.any_eq_true.mpr ⟨x, hx2, by simpa [revKey] using hxk⟩
    exact ⟨hf, hr.2.2 hf⟩
  · intro b l lt s3 hl hc
    have hc0 : step s2 (.commit b (revKey l.reverts) l.id) = .ok s3 := hc
    rw [hl] at hc0
    exact no_commit_while_present hi2 (revKey_some_ne t) (List.mem_append_left _ hx2) hxk b l.id s3 hc0

/-! ### the revert is the exact inverse -/

/-- **shape**: the reverting postings are the original's in reverse order with source and destination exchanged
(amount and asset kept) -/
theorem reverse_shape (ps : List Posting) :
    reverse ps = ps.reverse.map (fun p => { p with src := p.dst, dst := p.src }) := by
  simp only [reverse, List.map_reverse]
  rfl

/-- … position by position: the i-th reverting posting is the (n−1−i)-th original one, swapped -/
theorem reverse_getElem (ps : List Posting) (i : Nat) (hi : i < (reverse ps).length) :
    (reverse ps).length = ps.length ∧
    ∃ (hj : ps.length - 1 - i < ps.length),
      (reverse ps)[i] = { ps[ps.length - 1 - i] with src := ps[ps.length - 1 - i].dst, dst := ps[ps.length - 1 - i].src } := by
  have hlen : (reverse ps).length = ps.length := by simp [reverse]
  refine ⟨hlen, by omega, ?_⟩
  simp only [reverse, List.getElem_reverse, List.getElem_map, List.length_map, swap]

/-- reverting twice gives the original postings back -/
theorem reverse_involutive (ps : List Posting) : reverse (reverse ps) = ps := by
  simp only [reverse, List.map_reverse, List.reverse_reverse, List.map_map]
  have : (swap ∘ swap) = id := by funext p; exact swap_swap p
  rw [this, List.map_id]

/-- **restores**: applying a posting list and then its reverse leaves every account, for every asset, where it stood
— from any balances, whatever the list (repeated accounts, self-transfers, `world`, any amounts) -/
theorem revert_restores (ps : List Posting) (B : Bal) : applyAll (ps ++ reverse ps) B = B := by
  induction ps generalizing B with
  | nil => rfl
  | cons p ps ih =>
    rw [reverse_cons, List.cons_append, ← List.append_assoc]
    show applyAll ((ps ++ reverse ps) ++ [swap p]) (apply1 B p) = B
    rw [applyAll_append, ih (apply1 B p)]
    exact apply1_swap B p

/-- … and with any later history `qs` in between (funds moved on, other transactions): the revert subtracts exactly
what the original added, so the net effect of `ps ++ qs ++ reverse ps` is that of `qs` alone -/
theorem revert_restores_after_history (ps qs : List Posting) (B : Bal) :
    applyAll (ps ++ qs ++ reverse ps) B = applyAll qs B := by
  induction ps generalizing B with
  | nil => simp only [reverse, List.map_nil, List.reverse_nil, List.nil_append, List.append_nil]
  | cons p ps ih =>
    rw [reverse_cons, List.cons_append, List.cons_append, ← List.append_assoc]
    show applyAll ((ps ++ qs ++ reverse ps) ++ [swap p]) (apply1 B p) = applyAll qs B
    rw [applyAll_append, ih (apply1 B p), applyAll_apply1]
    exact apply1_swap (applyAll qs B) p

/-! non-vacuity -/

def lg (reverts : Option Nat) (id : Nat) : LogE :=
  { id := id, kind := (if reverts.isSome then .revert else .create), txid := some id, ik := "", ref := "",
    reverts := reverts, postings := [], target := "", metaKey := "", prevId := none, hashOk := true }

def view (r : Except String S) : Option (List (String × Nat) × List (String × Nat)) :=
  r.toOption.map (fun s => (s.durable.map (fun e => (e.key, e.id)), s.pending.map (fun e => (e.key, e.id))))

def allRevert : Nat → Bool := fun _ => true

/-- two racing reverts of transaction 0: the second is refused while the first is in flight ("revert occurring"); a
third one after the first has been persisted and released is answered "already reverted" -/
example : view (runOn (revStep allRevert) (init [⟨"", 0, 0⟩])
    [.taken 1 "rev" "0" true, .txRead 1 0 true false, .taken 2 "rev" "0" false, .finish 2 false "occurring" none,
     .committed 1 (lg (some 0) 1) 1, .gate 1 true, .finish 1 true "" (some 1),
     .taken 3 "rev" "0" true, .txRead 3 0 true true, .finish 3 false "already_reverted" none])
    = some ([("", 0), ("0", 1)], []) := by decide

/-- a second revert is not accepted: neither without the reservation, nor after the lookup answered "reverted" -/
example : (runOn (revStep allRevert) (init [⟨"", 0, 0⟩])
    [.taken 1 "rev" "0" true, .txRead 1 0 true false, .taken 2 "rev" "0" false, .committed 2 (lg (some 0) 1) 1]).toOption.isNone := by decide
example : (runOn (revStep allRevert) (init [⟨"", 0, 0⟩, ⟨"0", 1, 1⟩])
    [.taken 2 "rev" "0" true, .txRead 2 0 true true, .committed 2 (lg (some 0) 2) 2]).toOption.isNone := by decide

/-- reverts of different transactions do not hinder each other -/
example : view (runOn (revStep allRevert) (init [⟨"", 0, 0⟩, ⟨"", 1, 0⟩])
    [.taken 1 "rev" "0" true, .taken 2 "rev" "1" true, .txRead 1 0 true false, .txRead 2 1 true false,
     .committed 2 (lg (some 1) 2) 2, .committed 1 (lg (some 0) 3) 3, .gate 2 true, .finish 1 true "" (some 3), .finish 2 true "" (some 2)])
    = some ([("", 0), ("", 1), ("1", 2), ("0", 3)], []) := by decide

def p1 : Posting := ⟨"world", "alice", 100, "USD"⟩
def p2 : Posting := ⟨"alice", "bob", 30, "USD"⟩
def p3 : Posting := ⟨"alice", "alice", 5, "EUR"⟩

example : reverse [p1, p2, p3] = [⟨"alice", "alice", 5, "EUR"⟩, ⟨"bob", "alice", 30, "USD"⟩, ⟨"alice", "world", 100, "USD"⟩] := by decide
example : applyAll [p1, p2, p3] (fun _ _ => 0) "alice" "USD" = 70 := by decide
example : applyAll ([p1, p2, p3] ++ reverse [p1, p2, p3]) (fun _ _ => 0) "alice" "USD" = 0 := by decide

end C10
