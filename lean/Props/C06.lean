import Lemmas.EngineAck
import Lemmas.Batcher
/-! C06 — acknowledged means persisted; rejected means no trace.
Statements are about the `Ack` component of model B (`Model/Engine/Ack.lean`): every event sequence it accepts — any
number of requests, any interleaving, any batch boundaries, store failures (`gate n false`), crashes at any point,
whatever requests are previews (`dry`).  Trace validation (`checks/c06.py`) shows the real `Commander` only produces
sequences the component accepts.  The component tags every entry written or queued during the run with the request
that produced it, so "the entry of request a" is a matter of identity. -/
namespace C06
open Engine Engine.Ack

/-- the invariant holds in every reachable state -/
theorem inv_reachable (dry : Nat → Bool) (funding : List LogE) (evs : List Ev) (s : S)
    (h : runOn (step dry) (init funding) evs = .ok s) : Inv dry s :=
  run_inv dry evs _ s (init_inv dry funding) h

/-- **acknowledged ⇒ persisted, with the content answered**: every successful answer of a real write stands for an
entry that is in the store at that moment, and the transaction id answered is the entry's -/
theorem ack_implies_durable (dry : Nat → Bool) (funding : List LogE) (evs : List Ev) (s : S)
    (h : runOn (step dry) (init funding) evs = .ok s) :
    ∀ x ∈ s.acks, x.entry ∈ s.durable ∧ (x.entry.isTx = true → x.txid = x.entry.txid) ∧ dry x.a = false :=
  (inv_reachable dry funding evs s h).acked

/-- … at the very step that answers: `finish a true` of a real write is accepted only if the request's entry (the log
it committed, else the one its idempotency key designated) is persisted *now*, and carries the id answered -/
theorem ack_only_when_durable (dry : Nat → Bool) (funding : List LogE) (evs : List Ev) (s s' : S)
    (h : runOn (step dry) (init funding) evs = .ok s) (a : Nat) (err : String) (t : Option Nat) (hd : dry a = false)
    (hs : step dry s (.finish a true err t) = .ok s') :
    ∃ l ∈ s.durable, s'.acks = ⟨a, l, t⟩ :: s.acks ∧ (l.isTx = true → t = l.txid) ∧
      (∀ l', logOf s a = some l' → l' = l ∧ (a, l) ∈ s.written) := by
  have hi := inv_reachable dry funding evs s h
  have hi' := step_inv dry s _ s' hi hs
  simp only [step] at hs
  split at hs
  · rename_i hdry; rw [hd] at hdry; cases hdry
  · split at hs
    · rename_i l hl
      split at hs
      · cases hs
      · rename_i hw
        split at hs
        · cases hs
        · simp only [Except.ok.injEq] at hs
          subst hs
          have hw' : (a, l) ∈ s.written := by simpa using hw
          refine ⟨l, written_durable hi hw', rfl, (hi'.acked ⟨a, l, t⟩ List.mem_cons_self).2.1, ?_⟩
          intro l' hl'
          rw [hl] at hl'
          cases hl'
          exact ⟨rfl, hw'⟩
    · rename_i hl
      split at hs
      · rename_i l hf
        split at hs
        · cases hs
        · simp only [Except.ok.injEq] at hs
          subst hs
          refine ⟨l, hi.foundOk _ (find_some_mem s.found a l hf), rfl, (hi'.acked ⟨a, l, t⟩ List.mem_cons_self).2.1, ?_⟩
          intro l' hl'
          rw [hl] at hl'; cases hl'
      · cases hs

/-- **the store only grows** (at its end), and no answer is forgotten: what was acknowledged stays persisted whatever
happens afterwards — later writes, store failures, crashes — so every read started after the answer sees the entry -/
theorem ack_stays_durable (dry : Nat → Bool) (funding : List LogE) (evs later : List Ev) (s s' : S)
    (h : runOn (step dry) (init funding) evs = .ok s) (h' : runOn (step dry) s later = .ok s') :
    (∃ t, s'.durable = s.durable ++ t) ∧ ∀ x ∈ s.acks, x ∈ s'.acks ∧ x.entry ∈ s'.durable := by
  have he := run_ext dry later s s' h'
  refine ⟨he.durable, ?_⟩
  intro x hx
  obtain ⟨t, ht⟩ := he.durable
  refine ⟨he.acks x hx, ?_⟩
  rw [ht]
  exact List.mem_append_left _ (ack_implies_durable dry funding evs s h x hx).1

/-- **no entry exists that no request produced, and nothing that was there is lost**: the store is the initial log
followed by entries each committed by a real (non-preview) request of this run; so is what is still queued -/
theorem every_entry_has_producer (dry : Nat → Bool) (funding : List LogE) (evs : List Ev) (s : S)
    (h : runOn (step dry) (init funding) evs = .ok s) :
    s.durable = funding ++ s.written.map (·.2) ∧
    ∀ l ∈ (s.durable ++ s.pending.map (·.2)).drop funding.length, ∃ a, dry a = false ∧ (a, l) ∈ s.mine := by
  have hi := inv_reachable dry funding evs s h
  have hb : s.base = funding := (run_ext dry evs _ s h).base
  have hst : s.durable = funding ++ s.written.map (·.2) := by rw [hi.store, hb]
  refine ⟨hst, ?_⟩
  intro l hl
  rw [hst, List.append_assoc, List.drop_left, ← List.map_append] at hl
  obtain ⟨x, hx, rfl⟩ := List.mem_map.mp hl
  exact ⟨x.1, hi.real x (hi.sub x hx), hi.sub x hx⟩

/-- **a request answered with an error has no entry, now or later**: it committed nothing and never will -/
theorem error_leaves_nothing (dry : Nat → Bool) (funding : List LogE) (evs later : List Ev) (s s' : S)
    (h : runOn (step dry) (init funding) evs = .ok s) (h' : runOn (step dry) s later = .ok s')
    (a : Nat) (ha : a ∈ s.errs) :
    (∀ l, (a, l) ∉ s'.mine) ∧ a ∉ tagsOf (s'.written ++ s'.pending) := by
  have hi' := run_inv dry later s s' (inv_reachable dry funding evs s h) h'
  have ha' := (run_ext dry later s s' h').errs a ha
  refine ⟨hi'.clean a ha', ?_⟩
  intro hm
  obtain ⟨l, hl⟩ := mem_tagsOf.mp hm
  exact hi'.clean a ha' l (hi'.sub _ hl)

/-- … and the machine refuses the answer in the other order: an error after a commit is rejected -/
theorem error_after_commit_rejected (dry : Nat → Bool) (s : S) (a : Nat) (l : LogE) (err : String) (t : Option Nat)
    (hl : logOf s a = some l) : ∃ m, step dry s (.finish a false err t) = .error m :=
  ⟨"ack: error answered after committing a log", by simp [step, hl]⟩

/-- **one log per request, one entry per request**: no request committed twice, and among the persisted and queued
entries of the run no two belong to the same request -/
theorem one_entry_per_request (dry : Nat → Bool) (funding : List LogE) (evs : List Ev) (s : S)
    (h : runOn (step dry) (init funding) evs = .ok s) :
    (tagsOf s.mine).Nodup ∧ (tagsOf (s.written ++ s.pending)).Nodup :=
  ⟨(inv_reachable dry funding evs s h).once, (inv_reachable dry funding evs s h).tags⟩

/-- **exactly that entry**: the log an acknowledged request committed is the entry it was answered with, it is
persisted, and it is the only entry of that request -/
theorem answer_is_the_entry (dry : Nat → Bool) (funding : List LogE) (evs : List Ev) (s : S)
    (h : runOn (step dry) (init funding) evs = .ok s) :
    ∀ x ∈ s.acks, ∀ l, (x.a, l) ∈ s.mine →
      l = x.entry ∧ (x.a, l) ∈ s.written ∧ ∀ l', (x.a, l') ∈ s.written ++ s.pending → l' = l := by
  intro x hx l hl
  have hi := inv_reachable dry funding evs s h
  obtain ⟨h1, h2⟩ := hi.own x hx l hl
  refine ⟨h1, h2, ?_⟩
  intro l' hl'
  have a1 := logOf_of_mem hi (hi.sub _ hl')
  have a2 := logOf_of_mem hi hl
  rw [a1] at a2; cases a2; rfl

/-- **died before persisting ⇒ no trace**: after a crash the queued entries are gone, the store is what it was, and
the requests that produced them have no entry, are never acknowledged, and the machine rejects both their wake-up and
a successful answer — whatever happens later (new writers, further crashes) -/
theorem crash_before_persist_leaves_nothing (dry : Nat → Bool) (funding : List LogE) (evs later : List Ev) (s s₁ s₂ : S)
    (h : runOn (step dry) (init funding) evs = .ok s) (hc : step dry s .crash = .ok s₁)
    (h' : runOn (step dry) s₁ later = .ok s₂) :
    s₁.pending = [] ∧ s₁.durable = s.durable ∧
    ∀ x ∈ s.pending,
      x.1 ∉ tagsOf (s₂.written ++ s₂.pending) ∧ (∀ y ∈ s₂.acks, y.a ≠ x.1) ∧
      (∀ err t, (∃ m, step dry s₂ (.arrive x.1 "done") = .error m) ∧ (∃ m, step dry s₂ (.finish x.1 true err t) = .error m)) := by
  have hi := inv_reachable dry funding evs s h
  have hi₁ := step_inv dry s _ s₁ hi hc
  have hi₂ := run_inv dry later s₁ s₂ hi₁ h'
  have he := run_ext dry later s₁ s₂ h'
  simp only [step, Except.ok.injEq] at hc
  subst hc
  refine ⟨rfl, rfl, ?_⟩
  intro x hx
  have hd : x.1 ∈ s₂.dropped := he.dropped _ (List.mem_append_left _ (List.mem_map.mpr ⟨x, hx, rfl⟩))
  obtain ⟨hm, hn⟩ := hi₂.lost _ hd
  refine ⟨hn, dropped_not_acked hi₂ hd, ?_⟩
  intro err t
  apply unpersisted_rejected hi₂ hm
  intro hw
  apply hn
  rw [tagsOf_append]; exact List.mem_append_left _ hw

/-- **a store failure acknowledges nobody**: after `gate n false` nothing became durable, nothing left the queue, and
no request of the batch (nor any other queued one) can be woken or answered successfully -/
theorem store_failure_never_acks (dry : Nat → Bool) (funding : List LogE) (evs : List Ev) (s s' : S) (n : Nat)
    (h : runOn (step dry) (init funding) evs = .ok s) (hg : step dry s (.gate n false) = .ok s') :
    s' = s ∧ ∀ x ∈ s'.pending, ∀ err t,
      (∃ m, step dry s' (.arrive x.1 "done") = .error m) ∧ (∃ m, step dry s' (.finish x.1 true err t) = .error m) := by
  have hi := inv_reachable dry funding evs s h
  have hs : s' = s := by
    simp only [step] at hg
    split at hg
    · cases hg
    · simp at hg; exact hg.symm
  subst hs
  refine ⟨rfl, ?_⟩
  intro x hx err t
  obtain ⟨hm, hw⟩ := pending_not_written hi hx
  exact unpersisted_rejected hi hm hw err t

/-- a request is woken from the persistence wait only when the log it committed is in the store -/
theorem wake_only_when_durable (dry : Nat → Bool) (funding : List LogE) (evs : List Ev) (s s' : S) (a : Nat)
    (h : runOn (step dry) (init funding) evs = .ok s) (hd : dry a = false)
    (hw : step dry s (.arrive a "done") = .ok s') : ∃ l, logOf s a = some l ∧ (a, l) ∈ s.written ∧ l ∈ s.durable := by
  obtain ⟨l, h1, h2⟩ := wake_requires_durable hw hd
  exact ⟨l, h1, h2, written_durable (inv_reachable dry funding evs s h) h2⟩

/-! non-vacuity.  Requests 1 and 2 write concurrently, one batch persists the first log only; request 1 is answered,
the process dies, request 2's log is lost; request 3 writes after the restart; request 4 is a replay through the
idempotency key of entry 1; request 5 fails. -/
def l0 : LogE := { id := 0, kind := .create, txid := some 0, ik := "", ref := "", reverts := none, postings := [], target := "", metaKey := "", prevId := none, hashOk := true }
def l1 : LogE := { l0 with id := 1, txid := some 1, ik := "k", prevId := some 0 }
def l2 : LogE := { l0 with id := 2, kind := .setMeta, txid := none, prevId := some 1 }
def l2' : LogE := { l0 with id := 2, txid := some 2, prevId := some 1 }
def noDry : Nat → Bool := fun _ => false

def history : List Ev :=
  [.committed 1 l1 1, .committed 2 l2 1, .gate 1 true, .arrive 1 "done", .finish 1 true "" (some 1), .crash,
   .committed 3 l2' 2, .gate 1 true, .arrive 3 "done", .finish 3 true "" (some 2),
   .ikRead 4 "k" (some 1), .finish 4 true "" (some 1), .finish 5 false "insufficient_funds" none]

example : (runOn (step noDry) (init [l0]) history).toOption.map
    (fun s => (s.durable.map (·.id), s.acks.map (fun x => (x.a, x.entry.id)), s.errs, s.dropped))
    = some ([0, 1, 2], [(4, 1), (3, 2), (1, 1)], [5], [2]) := by decide
/-- acknowledged before the batch is persisted: rejected -/
example : (runOn (step noDry) (init [l0]) [.committed 1 l1 1, .finish 1 true "" (some 1)]).toOption.isNone = true := by decide
/-- woken although the store refused the batch: rejected -/
example : (runOn (step noDry) (init [l0]) [.committed 1 l1 1, .gate 1 false, .arrive 1 "done"]).toOption.isNone = true := by decide
/-- answered with another transaction id than the entry's: rejected -/
example : (runOn (step noDry) (init [l0]) [.committed 1 l1 1, .gate 1 true, .finish 1 true "" (some 7)]).toOption.isNone = true := by decide
/-- the request whose log was lost in the crash answers successfully after the restart: rejected -/
example : (runOn (step noDry) (init [l0]) [.committed 2 l2 0, .crash, .committed 3 l2 0, .gate 1 true, .finish 2 true "" none]).toOption.isNone = true := by decide
/-- an error answered after a commit, a second log of one request: rejected -/
example : (runOn (step noDry) (init [l0]) [.committed 1 l1 1, .finish 1 false "boom" none]).toOption.isNone = true := by decide
example : (runOn (step noDry) (init [l0]) [.committed 1 l1 1, .committed 1 l2 1]).toOption.isNone = true := by decide

end C06

/-! ## The components between `commit` and the store: `batching.Batcher` + `job.Runner` (`Model/Batcher.lean`)

The `Ack` component above takes "a request is woken only once the store call that carried its entry returned nil; a
failing call is followed by the death of the process, without a wake-up" as the behaviour of the batcher and of the job
runner.  These theorems state it of the model of `batcher.go` / `jobs.go` itself: for EVERY operation sequence (append /
the store call returns nil / returns an error / Close / Run), EVERY `maxBatchSize`, queues of any length.
`checks/batchlib.py` ties the model to the real `Batcher[int]` + `job.Runner` operation by operation (area `batcher`). -/
namespace C06
open Batcher

/-- **success only once the entry is persisted**: the objects whose callback has run are a prefix of the objects of the
calls that returned nil (which are a prefix of what was appended): callbacks run in append order, and every one of them
belongs to a batch that was handed to the runner function and whose call returned nil -/
theorem ack_only_after_persisted (max : Nat) (ops : List Op) :
    (run max ops).acked <+: (run max ops).persisted ∧
    (run max ops).persisted <+: (run max ops).appended ∧
    (run max ops).persisted = objectsOf true (run max ops).calls ∧
    ∀ x ∈ (run max ops).acked, ∃ b, (b, true) ∈ (run max ops).calls ∧ x ∈ b ∧ b ∈ (run max ops).batches := by
  have h := run_inv max ops
  refine ⟨h.ackPre, ?_, h.callsP, ?_⟩
  · rw [h.conserve]; exact ⟨(run max ops).failed ++ ((run max ops).flight ++ (run max ops).pending), by simp [List.append_assoc]⟩
  · intro x hx
    have hx' : x ∈ (run max ops).persisted := h.ackPre.subset hx
    rw [h.callsP] at hx'
    simp only [objectsOf, List.mem_flatten, List.mem_map, List.mem_filter] at hx'
    obtain ⟨l, ⟨⟨b, ok⟩, ⟨hc, hok⟩, rfl⟩, hxl⟩ := hx'
    have : ok = true := by simpa using hok
    subst this
    exact ⟨b, hc, hxl, h.callsB b true hc⟩

/-- **a failing InsertLogs stops the process instead of acknowledging**: from the moment a call of the runner function
returns an error — whatever happens afterwards — no callback runs any more and no further batch is handed out -/
theorem failure_acks_nothing_and_stops (max : Nat) (ops : List Op) (b : List Nat)
    (hb : (run max ops).inflight = some b) (more : List Op) :
    (run max (ops ++ .fail :: more)).acked = (run max ops).acked ∧
    (run max (ops ++ .fail :: more)).batches = (run max ops).batches ∧
    (run max (ops ++ .fail :: more)).phase ≠ .running := by
  have h := run_inv max ops
  have hp := h.flightPhase (by simp [hb])
  obtain ⟨_, hq⟩ := step_fail_spec (run max ops) b hb hp
  obtain ⟨ha, hbt, _⟩ := step_fail_acked (run max ops)
  obtain ⟨q, a, bt⟩ := runFrom_quiet _ more hq
  have hrun : run max (ops ++ .fail :: more) = runFrom (step (run max ops) .fail) more := by
    simp [run, runFrom, List.foldl_append]
  rw [hrun]
  refine ⟨a.trans ha, bt.trans hbt, ?_⟩
  rcases q with q | q | q <;> simp [q]

/-- … in particular nothing of the failed batch, and nothing queued behind it, is ever acknowledged (objects taken
distinct, as log entries are) -/
theorem failed_batch_never_acked (max : Nat) (ops : List Op) (b : List Nat)
    (hb : (run max ops).inflight = some b) (more : List Op) (hd : (run max ops).appended.Nodup) :
    ∀ x ∈ b ++ (run max ops).pending, x ∉ (run max (ops ++ .fail :: more)).acked := by
  intro x hx hax
  rw [(failure_acks_nothing_and_stops max ops b hb more).1] at hax
  have h := run_inv max ops
  have hxp : x ∈ (run max ops).persisted := h.ackPre.subset hax
  have hc := h.conserve
  rw [flight_some hb, List.append_assoc, List.append_assoc] at hc
  rw [hc] at hd
  have := (List.nodup_append.mp hd).2.2 x hxp x (by
    rcases List.mem_append.mp hx with hx | hx <;> simp [hx])
  exact this rfl

/-- **stopping acknowledges nothing**: `Close` runs no callback and hands out no batch — in any state —, and from then
on, whatever happens (the call in flight returns nil or an error, further appends), no callback runs: an object whose
batch is persisted while the loop is stopping stays unacknowledged (the allowed "died after persistence, before the
answer"), an object that was only queued is neither persisted nor acknowledged -/
theorem stop_acks_nothing_unpersisted (max : Nat) (ops : List Op) (hstarted : (run max ops).phase ≠ .fresh)
    (more : List Op) :
    (step (run max ops) .close).acked = (run max ops).acked ∧
    (run max (ops ++ .close :: more)).acked = (run max ops).acked ∧
    (run max (ops ++ .close :: more)).batches = (run max ops).batches ∧
    (run max (ops ++ .close :: more)).acked <+: (run max (ops ++ .close :: more)).persisted := by
  have h := run_inv max ops
  obtain ⟨ha, hbt, _⟩ := step_close_acked (run max ops)
  have hq : Quiet (step (run max ops) .close) :=
    close_quiet _ (step_inv _ _ h) (step_close_closeCalled _ h hstarted)
  obtain ⟨_, a, bt⟩ := runFrom_quiet _ more hq
  have hrun : run max (ops ++ .close :: more) = runFrom (step (run max ops) .close) more := by
    simp [run, runFrom, List.foldl_append]
  refine ⟨ha, ?_, ?_, (run_inv max _).ackPre⟩
  · rw [hrun]; exact a.trans ha
  · rw [hrun]; exact bt.trans hbt

/-- `Close` in any state whatsoever (reachable or not) runs no callback -/
theorem close_runs_no_callback (s : State) : (step s .close).acked = s.acked := (step_close_acked s).1

/-! non-vacuity: a failing batch (`[1]` fails with `2, 3` queued behind it: nothing acknowledged, the loop is dead, later
operations change nothing); a stop with work queued (`[1]` in flight, `2` queued: `1` is persisted by the return, never
acknowledged; `2` is neither) -/
example : ((run 2 [.start, .append 1, .append 2, .fail, .append 3, .release, .close]).acked,
           (run 2 [.start, .append 1, .append 2, .fail, .append 3, .release, .close]).batches,
           (run 2 [.start, .append 1, .append 2, .fail, .append 3, .release, .close]).phase,
           (run 2 [.start, .append 1, .append 2, .fail, .append 3, .release, .close]).pending)
    = ([], [[1]], .dead, [2, 3]) := by decide
example : ((run 2 [.start, .append 1, .append 2, .close, .release, .release]).acked,
           (run 2 [.start, .append 1, .append 2, .close, .release, .release]).persisted,
           (run 2 [.start, .append 1, .append 2, .close, .release, .release]).pending,
           (run 2 [.start, .append 1, .append 2, .close, .release, .release]).phase)
    = ([], [1], [2], .stopped) := by decide
example : ((run 1 [.start, .append 1, .append 2, .release, .release]).acked) = [1, 2] := by decide

end C06
