import Model.DryParam
import Lemmas.EngineErase
/-! C14 — a dry run changes nothing.
The preview clauses of the component machines of model B.  `World.step` is the product of the components exactly as
trace validation runs them (`Driver/Engine.lean`): `Chain`, `Ack dry`, `Events dry isTx`, the three `Guard`
instances behind their views, `Floor grant`, all looking at the same event.  Statements hold from ANY state of the
product, for every event (sequence) the product accepts.  Trace validation (`checks/c14.py`) shows the real
`Commander` only produces accepted sequences; the twin-run oracle compares histories with and without the previews. -/
namespace C14
open Engine Engine.Preview

/-- the events carrying request id `a`: resume / arrive / finish / the store reads / lock / unlock / committed /
publish / reservation attempts of `a` -/
def ofRequest (a : Nat) : Ev → Bool := Engine.Preview.ofRequest a

/-- **a preview commits nothing and publishes nothing**: the machines reject those events of a dry request -/
theorem preview_commit_rejected (dry isTx : Nat → Bool) (a : Nat) (hd : dry a = true) (l : LogE) (lt : Int)
    (sA : Ack.S) (sE : Events.S) (e : BusEv) :
    (∃ m, Ack.step dry sA (.committed a l lt) = .error m) ∧ (∃ m, Events.step dry isTx sE (.committed a l lt) = .error m) ∧
    (∃ m, Events.step dry isTx sE (.publish a e) = .error m) :=
  ⟨⟨"ack: a preview committed a log", by simp [Ack.step, hd]⟩,
   ⟨"events: a preview committed a log", by simp [Events.step, hd]⟩,
   ⟨"events: a preview published an event", by simp [Events.step, hd]⟩⟩

/-- **every accepted event of a preview is inert**: it is neither a commit nor a publication, and it leaves unchanged
the whole `Chain` state (log, queue, `lastLog`, `lastTXID` — no id is consumed), `Ack`'s store, queue, producers and
answers, `Events`' store, queue, bus, `lastTx` and answers, the guards' logs and the reservations and lookups of the
real requests, and the floor's log -/
theorem dry_run_inert (c : Cfg) (w w' : World) (e : Ev) (a : Nat) (hr : ofRequest a e = true) (hd : c.dry a = true)
    (h : World.step c w e = .ok w') :
    isCommit e = false ∧ isPublish e = false ∧ World.core c w' = World.core c w :=
  world_inert c w w' e a (ofRequest_iff.mp hr) hd h

/-- the same, component by component (each from any state of that component alone) -/
theorem dry_run_inert_components (c : Cfg) (e : Ev) (a : Nat) (hr : ofRequest a e = true) (hd : c.dry a = true) :
    (∀ s s', Ack.step c.dry s e = .ok s' → isCommit e = false ∧ ackCore s' = ackCore s) ∧
    (∀ s s', Events.step c.dry c.isTx s e = .ok s' → isCommit e = false ∧ isPublish e = false ∧ eventsCore s' = eventsCore s) ∧
    (isCommit e = false → ∀ s, Chain.step s e = .ok s) ∧
    (isCommit e = false → ∀ view, ViewOk view → ∀ s s', Guard.step s (view e) = .ok s' → guardCore c.dry s' = guardCore c.dry s) ∧
    (isCommit e = false → ∀ s s', Floor.step c.grant s e = .ok s' → floorCore s' = floorCore s) := by
  have hr' := ofRequest_iff.mp hr
  refine ⟨fun s s' h => ack_inert c.dry s s' e a hr' hd h, fun s s' h => events_inert c.dry c.isTx s s' e a hr' hd h,
    fun hc s => chain_ignores s e a hr' hc, ?_, ?_⟩
  · intro hc view hv s s' h
    exact guard_inert c.dry s s' _ a (hv.1 e a hr' hc) hd h
  · intro hc s s' h
    have := floor_inert c.grant s s' e a hr' hc h
    simp [floorCore, this.1, this.2]

/-- the three guard instances of the driver are such views -/
theorem guard_views_ok (isRevert : Nat → Bool) :
    ViewOk Guard.ikView ∧ ViewOk Guard.refView ∧ ViewOk (Guard.revView isRevert) :=
  ⟨ikView_ok, refView_ok, revView_ok isRevert⟩

/-- **a preview answers what the real write would answer**: a successful preview of a transaction-kind write is
answered with the transaction id of the entry its idempotency key designates, else with the id that was next
(`lastTx + 1`) when it reached its commit point (if it never got there: next now) — and answering changes nothing -/
theorem dry_run_answers_next_id (dry isTx : Nat → Bool) (s s' : Events.S) (a : Nat) (err : String) (t : Option Nat)
    (hd : dry a = true) (htx : isTx a = true) (h : Events.step dry isTx s (.finish a true err t) = .ok s') :
    s' = s ∧ (match Events.entryOf s a with
      | some l => t = l.txid
      | none => t.map (fun (n : Nat) => (n : Int)) = some ((Events.peekOf s a).getD (s.lastTx + 1))) := by
  refine ⟨Events.finish_dry_same hd h, ?_⟩
  simp only [Events.step, hd, if_true, htx, true_and] at h
  split at h
  · rename_i l hl
    split at h
    · cases h
    · rename_i hc; rw [hl]; simpa using hc
  · rename_i hl
    split at h
    · cases h
    · rename_i hc; rw [hl]; simpa using hc

/-- the commit point of a preview records the id that is next at that moment, and nothing else changes -/
theorem preview_peeks_next_id (dry isTx : Nat → Bool) (s s' : Events.S) (a : Nat) (hd : dry a = true)
    (h : Events.step dry isTx s (.arrive a "wait") = .ok s') :
    Events.peekOf s' a = some (s.lastTx + 1) ∧ eventsCore s' = eventsCore s := by
  simp only [Events.step, hd, and_self, if_true, Except.ok.injEq] at h
  subst h
  exact ⟨by simp [Events.peekOf], rfl⟩

/-- … so a preview without a recorded key that reached its commit point when `lastTx = n` is answered `n + 1`,
whatever the other requests commit between that point and its answer -/
theorem dry_run_answers_id_of_commit_point (dry isTx : Nat → Bool) (s₀ s₁ s₂ s₃ : Events.S) (a : Nat) (between : List Ev)
    (err : String) (t : Option Nat) (hd : dry a = true) (htx : isTx a = true)
    (h₁ : Events.step dry isTx s₀ (.arrive a "wait") = .ok s₁)
    (h₂ : runOn (Events.step dry isTx) s₁ between = .ok s₂) (hb : ∀ e ∈ between, e ≠ .arrive a "wait")
    (h₃ : Events.step dry isTx s₂ (.finish a true err t) = .ok s₃) (hno : Events.entryOf s₂ a = none) :
    t.map (fun (n : Nat) => (n : Int)) = some (s₀.lastTx + 1) := by
  have h := (dry_run_answers_next_id dry isTx s₂ s₃ a err t hd htx h₃).2
  rw [hno] at h
  simp only at h
  rw [peek_kept dry isTx a between s₁ s₂ hb h₂, (preview_peeks_next_id dry isTx s₀ s₁ a hd h₁).1] at h
  simpa using h

/-- **a finished preview holds nothing** (guards): after its `finish` — successful or not — no reservation and no
remembered lookup of the request remains, in each of the three guards; the guard's log is untouched -/
theorem dry_run_releases_guard (view : Ev → Guard.GEv) (hv : ViewOk view) (s s' : Guard.S) (a : Nat) (ok : Bool)
    (err : String) (t : Option Nat) (h : Guard.step s (view (.finish a ok err t)) = .ok s') :
    (∀ x ∈ s'.held, x.2 ≠ a) ∧ (∀ x ∈ s'.missed, x.1 ≠ a) ∧ s'.durable = s.durable ∧ s'.pending = s.pending := by
  rw [hv.2] at h
  exact guard_releases s s' a h

/-- **a finished preview holds nothing** (account locks): after its `unlock` none of its balance reads is remembered
and it holds no lock — a hold of the request among the holders could only be one that was still waiting in the queue,
so none if the request was not also queued; the floor's log is untouched -/
theorem dry_run_releases_floor (grant : Nat → Option Int) (s s' : Floor.S) (a : Nat)
    (h : Floor.step grant s (.unlock a) = .ok s') :
    (∀ x ∈ s'.holders, x.a = a → x ∈ s.queue) ∧ (∀ r ∈ s'.reads, r.1 ≠ a) ∧
    ((∀ x ∈ s.queue, x.a ≠ a) → (∀ x ∈ s'.holders, x.a ≠ a) ∧ (∀ x ∈ s'.queue, x.a ≠ a)) ∧
    floorCore s' = floorCore s := by
  obtain ⟨h1, h2, h3, h4, h5⟩ := floor_releases grant s s' a h
  refine ⟨h1, h3, ?_, by simp [floorCore, h4, h5]⟩
  intro hq
  exact ⟨fun x hx hxa => hq x (h1 x hx hxa) hxa, fun x hx => hq x (h2 x hx)⟩

/-- **later history unaffected**: any accepted sequence of events all belonging to previews — any number of
previews, interleaved in any way, successful or failing — leaves the core of the product where it was; whatever
follows starts from the same log, queue, ids, answers, bus and real reservations as if they had not been made -/
theorem later_history_unaffected (c : Cfg) (es : List Ev) (w w' : World)
    (hes : ∀ e ∈ es, previewEv c.dry e = true) (h : runOn (World.step c) w es = .ok w') :
    World.core c w' = World.core c w :=
  world_run_inert c es w w' hes h

/-- the same for each component alone -/
theorem later_history_unaffected_ack (dry : Nat → Bool) (es : List Ev) (s s' : Ack.S)
    (hes : ∀ e ∈ es, previewEv dry e = true) (h : runOn (Ack.step dry) s es = .ok s') : ackCore s' = ackCore s := by
  induction es generalizing s with
  | nil => simp [runOn] at h; subst h; rfl
  | cons e es ih =>
    simp only [runOn] at h
    cases hs : Ack.step dry s e with
    | error m => simp [hs] at h
    | ok s1 =>
      simp only [hs] at h
      rw [ih s1 (fun e' he' => hes e' (List.mem_cons_of_mem _ he')) h]
      have hp := hes e List.mem_cons_self
      unfold previewEv at hp
      cases hr : reqOf e with
      | none => simp [hr] at hp
      | some a => simp only [hr] at hp; exact (ack_inert dry s s1 e a hr hp hs).2

theorem later_history_unaffected_events (dry isTx : Nat → Bool) (es : List Ev) (s s' : Events.S)
    (hes : ∀ e ∈ es, previewEv dry e = true) (h : runOn (Events.step dry isTx) s es = .ok s') :
    eventsCore s' = eventsCore s := by
  induction es generalizing s with
  | nil => simp [runOn] at h; subst h; rfl
  | cons e es ih =>
    simp only [runOn] at h
    cases hs : Events.step dry isTx s e with
    | error m => simp [hs] at h
    | ok s1 =>
      simp only [hs] at h
      rw [ih s1 (fun e' he' => hes e' (List.mem_cons_of_mem _ he')) h]
      have hp := hes e List.mem_cons_self
      unfold previewEv at hp
      cases hr : reqOf e with
      | none => simp [hr] at hp
      | some a => simp only [hr] at hp; exact (events_inert dry isTx s s1 e a hr hp hs).2.2

/-- **as if the previews had never been made** (log, queue, `lastLog`, `lastTXID`): take any history `Ack` accepts —
previews and real writes interleaved in any way, crashes, store failures — and remove every event of a preview:
`Chain` ends exactly where it ended with them (and rejects where it rejected) -/
theorem history_without_previews_chain (dry : Nat → Bool) (es : List Ev) (sA sA' : Ack.S) (s : Chain.S)
    (hA : runOn (Ack.step dry) sA es = .ok sA') :
    runOn Chain.step s (withoutPreviews dry es) = runOn Chain.step s es := by
  apply chain_erase
  intro e he hk
  have hp : previewEv dry e = true := by simpa using hk
  refine ⟨?_, ack_run_no_preview_commit dry es sA sA' hA e he hp⟩
  unfold previewEv at hp
  cases hr : reqOf e with
  | none => simp [hr] at hp
  | some a => rfl

/-- **as if the previews had never been made** (who committed what, what is persisted, who was answered what): the
history without the preview events is accepted by `Ack` too — every check on a real request is decided alike — and
ends with the same store, queue, producers, answers and losses -/
theorem history_without_previews_ack (dry : Nat → Bool) (funding : List LogE) (es : List Ev) (s' : Ack.S)
    (h : runOn (Ack.step dry) (Ack.init funding) es = .ok s') :
    ∃ s'', runOn (Ack.step dry) (Ack.init funding) (withoutPreviews dry es) = .ok s'' ∧ ackCore s'' = ackCore s' :=
  ⟨ackScrub dry s', by simpa [ackScrub_init] using ack_erase dry es _ s' h, rfl⟩

/-- **as if the previews had never been made** (the bus): the history without the preview events is accepted by
`Events` too and ends with the same store, queue, published events, `lastTx` and answers -/
theorem history_without_previews_events (dry isTx : Nat → Bool) (funding : List LogE) (es : List Ev) (s' : Events.S)
    (h : runOn (Events.step dry isTx) (Events.init funding) es = .ok s') :
    ∃ s'', runOn (Events.step dry isTx) (Events.init funding) (withoutPreviews dry es) = .ok s'' ∧
      eventsCore s'' = eventsCore s' :=
  ⟨eventsScrub dry s', by simpa [eventsScrub_init] using events_erase dry isTx es _ s' h, rfl⟩

/-! non-vacuity.  Request 1 is a real create, request 3 a preview of a create that reserves an idempotency key, looks
it up, locks, reads a balance, reaches its commit point, answers the next id and releases everything. -/
def l0 : LogE := { id := 0, kind := .create, txid := some 0, ik := "", ref := "", reverts := none, postings := [], target := "", metaKey := "", prevId := none, hashOk := true }
def l1 : LogE := { l0 with id := 1, txid := some 1, prevId := some 0 }
def cfg : Cfg := { dry := fun a => a == 3, isTx := fun _ => true, isRevert := fun _ => false, grant := fun _ => some 0 }
def w0 : World :=
  { chain := Chain.reinit [l0], ack := Ack.init [l0], events := Events.init [l0],
    ik := Guard.init [⟨"", 0, 0⟩], ref := Guard.init [⟨"", 0, 0⟩], rev := Guard.init [⟨"", 0, 0⟩], floor := Floor.init [l0] }
def preview : List Ev :=
  [.resume 3 "ik-take", .taken 3 "ik" "k" true, .ikRead 3 "k" none, .lock 3 ["alice"] ["alice"], .balRead 3 "alice" "USD" 0,
   .arrive 3 "wait", .arrive 3 "done", .unlock 3, .finish 3 true "" (some 1)]

example : ∀ e ∈ preview, previewEv cfg.dry e = true := by decide
/-- the product accepts the preview; it answered 1 = lastTx + 1, and the real write that follows gets that id -/
example : (runOn (World.step cfg) w0 (preview ++ [.committed 1 l1 1, .gate 1 true])).toOption.map
    (fun w => (w.chain.durable.map (·.txid), w.chain.lastTx, w.ik.held, w.floor.holders.length, w.events.published.length))
    = some ([some 0, some 1], 1, [], 0, 0) := by decide
/-- a preview answered with an id that is not the next one, a preview that commits, a preview that publishes: rejected -/
example : (runOn (World.step cfg) w0 [.arrive 3 "wait", .finish 3 true "" (some 2)]).toOption.isNone = true := by decide
example : (runOn (World.step cfg) w0 [.committed 3 l1 1]).toOption.isNone = true := by decide
example : (runOn (World.step cfg) w0 [.publish 3 (.committed 0 [])]).toOption.isNone = true := by decide

/-- a preview interleaved with a real write; without its events the same log, the same answer -/
def mixed : List Ev :=
  [.arrive 3 "wait", .committed 1 l1 1, .ikRead 3 "k" none, .gate 1 true, .finish 3 true "" (some 1), .arrive 1 "done",
   .finish 1 true "" (some 1)]
example : withoutPreviews cfg.dry mixed = [.committed 1 l1 1, .gate 1 true, .arrive 1 "done", .finish 1 true "" (some 1)] := by
  rfl
example : (runOn (Ack.step cfg.dry) (Ack.init [l0]) mixed).toOption.map (fun s => s.acks.map (·.a)) = some [1] ∧
    (runOn (Ack.step cfg.dry) (Ack.init [l0]) (withoutPreviews cfg.dry mixed)).toOption.map (fun s => s.acks.map (·.a)) = some [1] := by
  decide

/-! ### the preview flag at the API layer -/

/-- the spellings that make a request a preview: yes / true in any case, or 1 — and nothing else among the usual
candidates (the differential of `checks/c14.py` pins the real parsers of both API versions to `isPreview`) -/
theorem preview_flag_spellings :
    (["yes", "YES", "Yes", "yEs", "true", "TRUE", "True", "1"].all DryParam.isPreview = true) ∧
    (["", "0", "no", "false", "y", "t", "on", "01", " yes", "yes ", "2"].all (fun v => !DryParam.isPreview v) = true) := by
  decide +kernel

end C14
