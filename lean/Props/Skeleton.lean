import Model.Engine.Skel
import Model.Engine.SkelWf
import Generated.Commander
/-! Skeleton — what holds of the commander's control flow AS RE-EXTRACTED from the Go sources on this run.

`Generated.Commander.entryPoints` is written by `extract/commander` from `internal/engine/command/*.go` every time a
check runs; `Engine.Skel.paths` enumerates the control paths of one request (every outcome of every action, every
value of every condition).  Part C1 states, for EVERY path of EVERY entry point, the ordering facts the engine
properties rest on (C02 C05 C06 C07 C10 C11 C14 C16); they are evaluated once by the kernel (`wf_generated`) and read
back through `sinceOk_iff` as statements about positions on the path.  A change of the Go control flow that breaks one
of them (unlock deferred in the executor, publication before the wait, commit on the preview branch, Append before
ChainLog, …) changes the generated file and this module stops compiling.

Reading a clause: `Since A B C init q` — every item of kind `A` on `q` comes after an item of kind `B` with no item of
kind `C` in between (or, if `init`, has no `C` before it at all).  `tagged p` is `p` with every channel receive
labelled by what it waits for ("persisted": the channel closed by the callback this request handed to `Batcher.Append`). -/
namespace Skeleton
open Engine.Skel Generated.Commander

-- ------------------------------------------------------------------------------------------------ Since

/-- after `pre`: a `B` was seen and no `C` since, or (`init`) no `C` at all -/
def Armed (B C : Item → Bool) (init : Bool) (pre : Path) : Prop :=
  (init = true ∧ ∀ y ∈ pre, C y = false) ∨ (∃ l b r, pre = l ++ b :: r ∧ B b = true ∧ ∀ y ∈ r, C y = false)

/-- every `A` happens while armed -/
def Since (A B C : Item → Bool) (init : Bool) (p : Path) : Prop :=
  ∀ pre x post, p = pre ++ x :: post → A x = true → Armed B C init pre

theorem armed_nil (B C : Item → Bool) (init : Bool) : Armed B C init [] ↔ init = true := by
  constructor
  · rintro (⟨h, -⟩ | ⟨l, b, r, h, -⟩)
    · exact h
    · cases l <;> cases h
  · intro h; exact .inl ⟨h, by simp⟩

theorem armed_cons (B C : Item → Bool) (init : Bool) (x : Item) (xs : Path) :
    Armed B C init (x :: xs) ↔ Armed B C (B x || (init && !C x)) xs := by
  constructor
  · rintro (⟨hi, hc⟩ | ⟨l, b, r, h, hb, hc⟩)
    · refine .inl ⟨?_, fun y hy => hc y (List.mem_cons_of_mem _ hy)⟩
      have := hc x (List.mem_cons_self ..)
      simp [hi, this]
    · cases l with
      | nil =>
        simp only [List.nil_append, List.cons.injEq] at h
        obtain ⟨rfl, rfl⟩ := h
        exact .inl ⟨by simp [hb], hc⟩
      | cons l0 l' =>
        simp only [List.cons_append, List.cons.injEq] at h
        exact .inr ⟨l', b, r, h.2, hb, hc⟩
  · rintro (⟨hi, hc⟩ | ⟨l, b, r, h, hb, hc⟩)
    · by_cases hbx : B x = true
      · exact .inr ⟨[], x, xs, rfl, hbx, hc⟩
      · simp only [hbx, Bool.false_or, Bool.and_eq_true, Bool.not_eq_eq_eq_not, Bool.not_true] at hi
        refine .inl ⟨hi.1, ?_⟩
        intro y hy
        rcases List.mem_cons.1 hy with rfl | hy
        · exact hi.2
        · exact hc y hy
    · exact .inr ⟨x :: l, b, r, by simp [h], hb, hc⟩

/-- the executable check is the declarative statement -/
theorem sinceOk_iff (A B C : Item → Bool) : ∀ (p : Path) (init : Bool), sinceOk A B C init p = true ↔ Since A B C init p := by
  intro p
  induction p with
  | nil =>
    intro init
    simp only [sinceOk, true_iff]
    intro pre x post h
    cases pre <;> cases h
  | cons x xs ih =>
    intro init
    simp only [sinceOk, Bool.and_eq_true, Bool.or_eq_true, Bool.not_eq_eq_eq_not, Bool.not_true]
    rw [ih]
    constructor
    · rintro ⟨h0, hs⟩ pre y post hp hy
      cases pre with
      | nil =>
        simp only [List.nil_append, List.cons.injEq] at hp
        obtain ⟨rfl, rfl⟩ := hp
        rcases h0 with h0 | h0
        · rw [h0] at hy; cases hy
        · exact (armed_nil B C init).2 h0
      | cons p0 pre' =>
        simp only [List.cons_append, List.cons.injEq] at hp
        obtain ⟨rfl, hp⟩ := hp
        exact (armed_cons B C init x pre').2 (hs pre' y post hp hy)
    · intro h
      refine ⟨?_, ?_⟩
      · by_cases hx : A x = true
        · exact .inr ((armed_nil B C init).1 (h [] x xs rfl hx))
        · exact .inl (by simpa using hx)
      · intro pre y post hp hy
        exact (armed_cons B C init x pre).1 (h (x :: pre) y post (by simp [hp]) hy)

/-- `Since` on the reversed path: every `A` is FOLLOWED by a `B` -/
def Until (A B : Item → Bool) (p : Path) : Prop :=
  ∀ pre x post, p = pre ++ x :: post → A x = true → ∃ b ∈ post, B b = true

theorem until_of_since_reverse (A B : Item → Bool) (p : Path) (h : Since A B never false p.reverse) : Until A B p := by
  intro pre x post hp hx
  have hr : p.reverse = post.reverse ++ x :: pre.reverse := by simp [hp]
  rcases h _ _ _ hr hx with ⟨h, -⟩ | ⟨l, b, r, hl, hb, -⟩
  · cases h
  · refine ⟨b, ?_, hb⟩
    have : b ∈ post.reverse := by rw [hl]; simp
    simpa using this

-- ------------------------------------------------------------------------------------------------ the evaluation

/-- every control path of every entry point of the commander, as extracted on this run, passes every clause -/
theorem wf_generated : wfAll entryPoints = true := by decide +kernel

/-- non-vacuity: there are paths, and some of them commit, wait, publish and answer -/
example : (entryPoints.map (fun e => (paths e.1 e.2).length)).all (· ≥ 20) = true := by decide +kernel
example : entryPoints.all (fun e => (paths e.1 e.2).any (fun p =>
    p.any isAppend && (tagged p).any isWaitPersisted && p.any isPublish && p.contains (.fin true ""))) = true := by decide +kernel
/-- … and the checks are not constantly true: a path that unlocks between commit and wait is refused -/
example : wfPath "CreateTransaction" [.act .lock .ok .direct, .act .muLock .ok .direct, .act .chainLog .ok .direct,
    .act (.append "chained" ["c"]) .ok .direct, .act .muUnlock .ok .deferred, .act .unlock .ok .terminated,
    .act (.wait "c") .ok .direct, .fin true ""] = false := by decide +kernel

theorem all_get {α : Type} (l : List α) (f : α → Bool) (h : l.all f = true) (i : Nat) (x : α) (hx : l[i]? = some x) : f x = true :=
  List.all_eq_true.1 h x (List.mem_of_getElem? hx)

/-- clause number `i` of `clauses`, for a path of the generated skeleton -/
theorem clause (e : String × Stmt) (he : e ∈ entryPoints) (p : Path) (hp : p ∈ paths e.1 e.2)
    (i : Nat) (c : String × (Path → Bool)) (hc : (clauses e.1)[i]? = some c) : c.2 (tagged p) = true := by
  have h := wf_generated
  unfold wfAll at h
  have h1 := List.all_eq_true.1 h e he
  have h2 := List.all_eq_true.1 h1 p hp
  exact all_get _ _ h2 i c hc

section
variable (e : String × Stmt) (he : e ∈ entryPoints) (p : Path) (hp : p ∈ paths e.1 e.2)
include he hp

-- ------------------------------------------------------------------------------------------------ C1

/-- **(i) account locks.**  Balances are read and the script is run under the lock; the lock is released only by
`terminated()`, once, and — if the request committed a log — only after the wait for its persistence returned. -/
theorem locks_span_execution_and_persistence :
    Since isBalanceUse isLockOk isUnlock false (tagged p) ∧
    Since isUnlock isWaitPersisted isAppend true (tagged p) ∧
    (∀ o v, Item.act .unlock o v ∈ tagged p → v = .terminated) ∧
    Since isUnlock isLockOk isUnlock false (tagged p) := by
  refine ⟨(sinceOk_iff ..).1 (clause e he p hp 0 _ rfl), (sinceOk_iff ..).1 (clause e he p hp 1 _ rfl), ?_,
    (sinceOk_iff ..).1 (clause e he p hp 3 _ rfl)⟩
  intro o v hm
  have := List.all_eq_true.1 (clause e he p hp 2 _ rfl) _ hm
  simpa using this

/-- **(ii) reservations.**  The transaction reference is released only by `terminated()`, after the wait if a log was
committed; the idempotency key and the revert target are released after the wait too, and after every lookup, the
locking, the execution and the commit (the revert target also after the publication); nothing is released twice or
without having been taken. -/
theorem reservations_enclose_the_request :
    Since (isRelease .txref) isWaitPersisted isAppend true (tagged p) ∧
    (∀ k o v, Item.act (.release .txref k) o v ∈ tagged p → v = .terminated) ∧
    Since (isRelease .iks) isWaitPersisted isAppend true (tagged p) ∧
    Since isCore never (isRelease .iks) true (tagged p) ∧
    Since (isRelease .reverts) isWaitPersisted isAppend true (tagged p) ∧
    Since (orB isCore isPublish) never (isRelease .reverts) true (tagged p) ∧
    (∀ k ∈ [RefKind.iks, .txref, .reverts], Since (isRelease k) (isTakeOk k) (isRelease k) false (tagged p)) := by
  refine ⟨(sinceOk_iff ..).1 (clause e he p hp 4 _ rfl), ?_, (sinceOk_iff ..).1 (clause e he p hp 6 _ rfl),
    (sinceOk_iff ..).1 (clause e he p hp 7 _ rfl), (sinceOk_iff ..).1 (clause e he p hp 8 _ rfl),
    (sinceOk_iff ..).1 (clause e he p hp 9 _ rfl), ?_⟩
  · intro k o v hm
    have := List.all_eq_true.1 (clause e he p hp 5 _ rfl) _ hm
    simpa using this
  · intro k hk
    exact (sinceOk_iff ..).1 (List.all_eq_true.1 (clause e he p hp 10 _ rfl) k hk)

/-- **(iii) lookups.**  The store is asked for a key / reference / revert target only while the corresponding
reservation is held, and every take, lookup and release of one kind on a path names the same key expression; a revert
commits only after it looked its target up. -/
theorem lookups_under_reservation :
    Since isReadIk (isTakeOk .iks) (isRelease .iks) false (tagged p) ∧
    Since isReadRef (isTakeOk .txref) (isRelease .txref) false (tagged p) ∧
    (e.1 = "RevertTransaction" → Since isReadTx (isTakeOk .reverts) (isRelease .reverts) false (tagged p)) ∧
    (e.1 = "RevertTransaction" → Since isAppend isReadTx never false (tagged p)) ∧
    (∀ k ∈ [RefKind.iks, .txref, .reverts], allSame (keysOf k (tagged p)) = true) := by
  refine ⟨(sinceOk_iff ..).1 (clause e he p hp 11 _ rfl), (sinceOk_iff ..).1 (clause e he p hp 12 _ rfl), ?_, ?_, ?_⟩
  · intro h
    have := clause e he p hp 13 _ rfl
    simp only [h, ne_eq, not_true_eq_false, decide_false, Bool.false_or] at this
    exact (sinceOk_iff ..).1 this
  · intro h
    have := clause e he p hp 14 _ rfl
    simp only [h, ne_eq, not_true_eq_false, decide_false, Bool.false_or] at this
    exact (sinceOk_iff ..).1 this
  · intro k hk
    exact List.all_eq_true.1 (clause e he p hp 15 _ rfl) k hk

/-- **(iv) the commit is one critical section**: transaction-id allocation, stamping, chaining and `Batcher.Append` all
happen under the commander's mutex, in this order, within ONE hold of it (no unlock in between), the appended log is
the one just chained, its callback closes a channel, there is at most one commit on a path, and no scheduling point,
lock request, wait or return lies inside the section. -/
theorem commit_is_one_critical_section :
    Since (orB isCommitStep isPeek) isMuLock isMuUnlock false (tagged p) ∧
    Since (orB isAlloc isStamp) isMuLock (orB (orB isChain isAppend) isMuUnlock) false (tagged p) ∧
    Since isStamp isAlloc isMuUnlock false (tagged p) ∧
    Since isChain (orB isStamp isMuLock) isAlloc false (tagged p) ∧
    Since isChain isMuLock (orB (orB isChain isAppend) isMuUnlock) false (tagged p) ∧
    Since isAppend isChain (orB isAppend isMuUnlock) false (tagged p) ∧
    (∀ l cs o v, Item.act (.append l cs) o v ∈ tagged p → l = "chained" ∧ cs ≠ []) ∧
    Since (orB isAppend isChain) never isAppend true (tagged p) ∧
    Since isSwitch isMuUnlock isMuLock true (tagged p) ∧
    Since isMuLock isMuUnlock isMuLock true (tagged p) := by
  refine ⟨(sinceOk_iff ..).1 (clause e he p hp 16 _ rfl), (sinceOk_iff ..).1 (clause e he p hp 17 _ rfl),
    (sinceOk_iff ..).1 (clause e he p hp 18 _ rfl), (sinceOk_iff ..).1 (clause e he p hp 19 _ rfl),
    (sinceOk_iff ..).1 (clause e he p hp 20 _ rfl), (sinceOk_iff ..).1 (clause e he p hp 21 _ rfl), ?_,
    (sinceOk_iff ..).1 (clause e he p hp 23 _ rfl), (sinceOk_iff ..).1 (clause e he p hp 24 _ rfl),
    (sinceOk_iff ..).1 (clause e he p hp 25 _ rfl)⟩
  intro l cs o v hm
  have := List.all_eq_true.1 (clause e he p hp 22 _ rfl) _ hm
  simp only [Bool.and_eq_true, decide_eq_true_eq, Bool.not_eq_eq_eq_not, Bool.not_true] at this
  refine ⟨this.1, ?_⟩
  intro h
  rw [h] at this
  simp at this

/-- **(v) a preview commits nothing and publishes nothing**: on a path that decided `dry` there is no allocation, no
stamping, no chaining, no append and no publication; and every such step happens only after `dry` was decided false. -/
theorem preview_is_inert :
    (chose (tagged p) "dry" true = true → ∀ x ∈ tagged p, isCommitStep x = false ∧ isPublish x = false) ∧
    Since (orB isCommitStep isPublish) (isChoice "dry" false) never false (tagged p) := by
  refine ⟨?_, (sinceOk_iff ..).1 (clause e he p hp 27 _ rfl)⟩
  intro hd x hx
  have := clause e he p hp 26 _ rfl
  simp only [hd, Bool.not_true, Bool.false_or] at this
  have := List.all_eq_true.1 this x hx
  simpa using this

/-- **(vi) publications.**  Every publication is built, argument by argument, from the payload of the log the entry
point was answered with — the log this request chained (then the wait for its persistence lies between the append and
the publication) or the log the store returned for the idempotency key — after the payload's kind was checked; it is
the publication of this entry point, at most one; for a revert the first argument is the transaction that was looked
up in the store and the payload's reverted id was compared with it. -/
theorem publications_are_faithful :
    Since (publishFrom "chained") isWaitPersisted isAppend false (tagged p) ∧
    (∀ x ∈ tagged p, isPublish x = true → publishFrom "chained" x = true ∨ publishFrom "ikRead" x = true) ∧
    Since (publishFrom "ikRead") isReadIkOk never false (tagged p) ∧
    (∀ x ∈ tagged p, isPublish x = true → isPublishKind (publishKindOf e.1) x = true) ∧
    Since isPublish (isChoice "payload-kind-ok" true) never false (tagged p) ∧
    Since isPublishRevert (isChoice "payload-id=lookup-id" true) never false (tagged p) ∧
    Since isPublishRevert (Item.isOk (fun a => match a with | .readTx _ => true | _ => false)) never false (tagged p) ∧
    Since isPublish never isPublish true (tagged p) := by
  refine ⟨(sinceOk_iff ..).1 (clause e he p hp 28 _ rfl), ?_, (sinceOk_iff ..).1 (clause e he p hp 30 _ rfl), ?_,
    (sinceOk_iff ..).1 (clause e he p hp 32 _ rfl), (sinceOk_iff ..).1 (clause e he p hp 33 _ rfl),
    (sinceOk_iff ..).1 (clause e he p hp 34 _ rfl), (sinceOk_iff ..).1 (clause e he p hp 35 _ rfl)⟩
  · intro x hx hpub
    have := List.all_eq_true.1 (clause e he p hp 29 _ rfl) x hx
    simp only [hpub, Bool.not_true, Bool.false_or, Bool.or_eq_true] at this
    exact this
  · intro x hx hpub
    have := List.all_eq_true.1 (clause e he p hp 31 _ rfl) x hx
    simpa [hpub] using this

/-- **(vi′) the answer.**  What `CreateTransaction` / `RevertTransaction` hand back is the transaction in the payload of
the log the entry point was answered with: the log this request chained (after the wait for its persistence), the log
the store returned for the idempotency key, or — only on a path that decided `dry` — the preview; after the payload's
kind was checked. -/
theorem answer_is_the_entry :
    (∀ x ∈ tagged p, isAnswer x = true →
      answerFrom e.1 "chained" x = true ∨ answerFrom e.1 "ikRead" x = true ∨ answerFrom e.1 "preview" x = true) ∧
    Since (answerFrom e.1 "chained") isWaitPersisted isAppend false (tagged p) ∧
    Since (answerFrom e.1 "preview") (isChoice "dry" true) never false (tagged p) ∧
    Since isAnswer (isChoice "payload-kind-ok" true) never false (tagged p) := by
  refine ⟨?_, (sinceOk_iff ..).1 (clause e he p hp 37 _ rfl), (sinceOk_iff ..).1 (clause e he p hp 38 _ rfl),
    (sinceOk_iff ..).1 (clause e he p hp 39 _ rfl)⟩
  intro x hx ha
  have := List.all_eq_true.1 (clause e he p hp 36 _ rfl) x hx
  simp only [ha, Bool.not_true, Bool.false_or, Bool.or_eq_true] at this
  rcases this with (h | h) | h
  · exact .inl h
  · exact .inr (.inl h)
  · exact .inr (.inr h)

/-- **(vii) after the commit the request waits.**  Between `Batcher.Append` and the return of the wait for
persistence there is no return (with or without error) and no panic; every channel receive waits for the persistence
of the request's own log or for a channel the request closed itself; at most one wait. -/
theorem commit_is_followed_by_the_wait :
    Since (orB isErrFin isPanic) isWaitPersisted isAppend true (tagged p) ∧
    Since isFin isWaitPersisted isAppend true (tagged p) ∧
    (∀ c o v, Item.act (.wait c) o v ∈ tagged p → c = "persisted" ∨ c = "closed") ∧
    Since isWait never isWait true (tagged p) := by
  refine ⟨(sinceOk_iff ..).1 (clause e he p hp 40 _ rfl), (sinceOk_iff ..).1 (clause e he p hp 41 _ rfl), ?_,
    (sinceOk_iff ..).1 (clause e he p hp 43 _ rfl)⟩
  intro c o v hm
  have := List.all_eq_true.1 (clause e he p hp 42 _ rfl) _ hm
  simpa using this

/-- **(viii) nothing is left behind.**  On every path — every error return, every panic, every success — each
reservation that was taken is released later on the path, the account locks are unlocked, the mutex is unlocked; the
path ends with the entry point's return (after a panic: the error its caller answers once the panic has unwound), and
after a panic only deferred calls and registered releases run before it. -/
theorem nothing_left_behind :
    (∀ k ∈ [RefKind.iks, .txref, .reverts], Until (isTakeOk k) (isRelease k) (tagged p)) ∧
    Until isLockOk isUnlock (tagged p) ∧
    Until isMuLock isMuUnlock (tagged p) ∧
    (∃ x, (tagged p).getLast? = some x ∧ isFin x = true) ∧
    Since isDirectOrFin never isPanic true (tagged p) := by
  refine ⟨?_, until_of_since_reverse _ _ _ ((sinceOk_iff ..).1 (clause e he p hp 45 _ rfl)),
    until_of_since_reverse _ _ _ ((sinceOk_iff ..).1 (clause e he p hp 46 _ rfl)), ?_,
    (sinceOk_iff ..).1 (clause e he p hp 48 _ rfl)⟩
  · intro k hk
    exact until_of_since_reverse _ _ _ ((sinceOk_iff ..).1 (List.all_eq_true.1 (clause e he p hp 44 _ rfl) k hk))
  · have h := clause e he p hp 47 _ rfl
    simp only at h
    split at h
    · rename_i x hx
      exact ⟨x, hx, h⟩
    · cases h

/-- **(ix) the idempotency key is recorded**: on a path of a request that carries a key, the log is chained only
after `WithIdempotencyKey` was applied to it. -/
theorem key_is_recorded :
    chose (tagged p) "ik≠''" true = true → Since isChain isSetIk never false (tagged p) := by
  intro h
  have := clause e he p hp 50 _ rfl
  simp only [h, Bool.not_true, Bool.false_or] at this
  exact (sinceOk_iff ..).1 this

end

end Skeleton
