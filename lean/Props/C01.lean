import Lemmas.Funding
import Model.Numscript.Spec
import Lemmas.SpecFloor
import Lemmas.NumLift
/-! C01 — script execution never overdraws an account.
Part 1: the balance primitives every source is built from.  Part 2: `no_overdraw` over `Spec.run` — every
posting of an accepted run leaves its (bounded, non-`world`) source account at or above minus the overdraft the
script text grants it — with the invariant lemmas it is built from (`Lemmas/SpecFloor.lean`), and
`short_sources_reject`. -/
namespace C01
open Num

/-- `withdrawAll` (a bounded source account): takes a non-negative amount, never more than the tracked
balance plus the overdraft, and leaves the tracked balance at `-overdraft` exactly when it takes something -/
theorem withdrawAll_bounded {b b' : Bal} {a : Acct} {s : Asset} {o : Int} {p : Part}
    (h : withdrawAll b a s o = .ok (p, b')) :
    ∃ t, b.get a s = some t ∧ p.acct = a ∧ 0 ≤ p.amt ∧ p.amt = max (t + o) 0 ∧ b'.get a s = some (t - p.amt) ∧
      (p.amt > 0 → b'.get a s = some (-o)) := by
  unfold withdrawAll at h
  cases hb : b.get a s with
  | none => simp [hb] at h
  | some t =>
    simp only [hb] at h
    by_cases hpos : t + o > 0
    · simp only [hpos, if_true, Except.ok.injEq, Prod.mk.injEq] at h
      obtain ⟨rfl, rfl⟩ := h
      refine ⟨t, rfl, rfl, by simp; omega, by simp; omega, ?_, ?_⟩
      · simp [Bal.upd] <;> omega
      · intro _; simp [Bal.upd]
    · simp only [hpos, if_false, Except.ok.injEq, Prod.mk.injEq] at h
      obtain ⟨rfl, rfl⟩ := h
      refine ⟨t, rfl, rfl, by simp, by simp; omega, by simp [hb], ?_⟩
      intro h0; simp at h0

/-- other entries are untouched by `withdrawAll` -/
theorem withdrawAll_frame {b b' : Bal} {a : Acct} {s : Asset} {o : Int} {p : Part}
    (h : withdrawAll b a s o = .ok (p, b')) (a' : Acct) (s' : Asset) (hne : ¬ (a' = a ∧ s' = s)) :
    b'.get a' s' = b.get a' s' := by
  unfold withdrawAll at h
  cases hb : b.get a s with
  | none => simp [hb] at h
  | some t =>
    simp only [hb] at h
    by_cases hpos : t + o > 0
    · simp only [hpos, if_true, Except.ok.injEq, Prod.mk.injEq] at h
      obtain ⟨_, rfl⟩ := h
      simp [Bal.upd, hne]
    · simp only [hpos, if_false, Except.ok.injEq, Prod.mk.injEq] at h
      obtain ⟨_, rfl⟩ := h; rfl

/-- `repay` gives back to the tracked balance exactly what the parts of that account carry -/
theorem repay_amount (b : Bal) (s : Asset) (f : Parts) (x : Acct) (hx : x ≠ "world") (t : Int)
    (hb : b.get x s = some t) : (repay b s f).get x s = some (t + amtOf f x) := by
  induction f generalizing b t with
  | nil => simp [repay, hb]
  | cons p ps ih =>
    unfold repay
    by_cases hw : p.acct = "world"
    · have hpx : p.acct ≠ x := fun e => hx (e ▸ hw)
      simp only [hw, if_true]
      rw [ih b t hb, amtOf_cons]; simp [hpx]
    · simp only [hw, if_false]
      by_cases hpx : p.acct = x
      · subst hpx
        have := ih (b.upd p.acct s ((b.get p.acct s).getD 0 + p.amt)) (t + p.amt) (by simp [Bal.upd, hb])
        rw [this, amtOf_cons]; simp; omega
      · have hne : ¬ (x = p.acct) := fun e => hpx e.symm
        have := ih (b.upd p.acct s ((b.get p.acct s).getD 0 + p.amt)) t (by simp [Bal.upd, hne, hb])
        rw [this, amtOf_cons]; simp [hpx]

/-- a rejected execution yields nothing: `run` returns either a result or an error class, never both -/
theorem rejected_yields_nothing (P : Script) (req : Request) (store : Store) (e : Err)
    (h : run P req store = .error e) : ∀ r, run P req store ≠ .ok r := by
  intro r hr; rw [h] at hr; cases hr

/-! non-vacuity -/
example : ∃ p b', withdrawAll ⟨fun _ _ => some 7⟩ "a" "USD" 3 = .ok (p, b') ∧ p.amt = 10 := ⟨_, _, rfl, rfl⟩

/-! ## Part 2 — the floor over `Spec.run`

`FloorOK g R₀ ps` (`Lemmas/SpecFloor.lean`): walk the postings `ps` in order with a running real balance
(starting from `R₀`, every posting debits its source and credits its destination as it occurs); every posting `p`
whose source is not `world` and whose overdraft is bounded (`g p.src p.asset = some gv`) satisfies
`p.amt = 0 ∨ R p.src p.asset - p.amt ≥ -gv`.

`grants env stmts x A` (`grantsOf` over the source occurrences `stmtOcc`): `none` if some occurrence of `x` as a
source for `A` is the literal `@world` or `allowing unbounded overdraft`, else the largest overdraft among its
occurrences (a bare occurrence counts 0). -/

/-- **`no_overdraw`**: an accepted run never takes a bounded account below minus the overdraft the script grants
it — at no point of the posting sequence, counting the credits the account receives on the way -/
theorem no_overdraw {P : Script} {req : Request} {store : Store} {r : Result} (h : run P req store = .ok r) :
    ∃ env, prepare P req store = .ok env ∧ FloorOK (grants env P.stmts) store.balance r.postings := by
  obtain ⟨env, F, hp, he, hr⟩ := run_inv h
  exact ⟨env, hp, by rw [hr]; exact evalStmts_floor he⟩

/-- the same on the interpreter, for any environment -/
theorem no_overdraw_stmts {env : VEnv} {store : Store} {stmts : List Stmt} {F : Full}
    (h : evalStmts env stmts { st := { bal := initBal store (needed env stmts), postings := [] } } = .ok F) :
    FloorOK (grants env stmts) store.balance F.st.postings := evalStmts_floor h

/-- what `FloorOK` says about one posting in the middle of the sequence -/
theorem floor_at {g : Acct → Asset → Option Int} {R : Acct → Asset → Int} {pre post : List Posting} {p : Posting}
    (h : FloorOK g R (pre ++ p :: post)) (hw : p.src ≠ "world") {gv : Int} (hg : g p.src p.asset = some gv) :
    p.amt = 0 ∨ -gv ≤ realBal R pre p.src p.asset - p.amt :=
  (((FloorOK_append g R pre (p :: post)).mp h).2).1 hw gv hg

/-- every source occurrence is covered by `grants`: an unbounded one makes the account unbounded, a bounded
one's overdraft is at most the grant -/
theorem grants_cover (env : VEnv) (stmts : List Stmt) :
    ∀ o ∈ stmts.flatMap (stmtOcc env), OccOK (grants env stmts) o := grantsOf_ok _

/-! ### the invariant lemmas (each valuable on its own)

`BInv c R b fl`: for every tracked, bounded, non-`world` (x, A): `R x A = T x A + saved x A + fl x A` and
(`T + saved ≥ -bound` or nothing of `x` is in flight); `DInv` adds "the postings so far respect the floor". -/

/-- `withdrawAll` with an overdraft within the bound keeps the invariant; the part it yields enters the flight -/
theorem withdrawAll_keeps {c : Cx} {R : Acct → Asset → Int} {b b' : Bal} {a : Acct} {s : Asset} {o : Int} {p : Part}
    {fl : Acct → Asset → Int} (h : withdrawAll b a s o = .ok (p, b'))
    (hg : a ≠ "world" → ∀ gv, c.g a s = some gv → o ≤ gv) (hi : BInv c R b fl) :
    BInv c R b' (fun x A => fl x A + flOf ⟨s, [p]⟩ x A) ∧ Good c ⟨s, [p]⟩ := withdrawAll_binv h hg hi

/-- `withdrawAlways` on `world` or on an unbounded account keeps the invariant -/
theorem withdrawAlways_keeps {c : Cx} {R : Acct → Asset → Int} {b b' : Bal} {w : Acct} {s : Asset} {n : Int} {p : Part}
    {fl : Acct → Asset → Int} (h : withdrawAlways b w s n = .ok (p, b'))
    (hu : w = "world" ∨ c.g w s = none) (hn : 0 ≤ n) (hi : BInv c R b fl) :
    BInv c R b' (fun x A => fl x A + flOf ⟨s, [p]⟩ x A) ∧ Good c ⟨s, [p]⟩ := withdrawAlways_binv h hu hn hi

/-- … and `withdrawAlways` is only ever applied to the fallback account of a source, which is always an
occurrence that is the literal `@world` or carries `allowing unbounded overdraft` -/
theorem fallback_only_unbounded {env : VEnv} {asset : Asset} {s : Source} {b b' : Bal} {f : Fund} {w : Acct}
    (h : evalSource env asset s b = .ok (f, some w, b')) :
    ∃ o ∈ sourceOcc env asset s, o.acct = w ∧ o.asset = f.asset ∧ o.od = none :=
  evalSource_fb env asset s b b' f (some w) h w rfl

/-- `repay` keeps the invariant; what is repaid leaves the flight -/
theorem repay_keeps {c : Cx} {R : Acct → Asset → Int} {s : Asset} (r : Parts) (b : Bal) (fl : Acct → Asset → Int)
    (hg : Good c ⟨s, r⟩) (hi : BInv c R b fl) : BInv c R (repay b s r) (fun x A => fl x A - flOf ⟨s, r⟩ x A) :=
  repay_binv r b fl hg hi

/-- `take` / `takeMax` / `concat` (through `assemble`) / `reverse` only move amounts between fundings -/
theorem funding_frame (a : Asset) (p : Parts) (n : Int) (x : Acct) (A : Asset) :
    flOf ⟨a, (takeMax p n).1⟩ x A + flOf ⟨a, (takeMax p n).2⟩ x A = flOf ⟨a, p⟩ x A ∧
    (∀ t r, take p n = some (t, r) → flOf ⟨a, t⟩ x A + flOf ⟨a, r⟩ x A = flOf ⟨a, p⟩ x A) ∧
    flOf ⟨a, p.reverse⟩ x A = flOf ⟨a, p⟩ x A ∧
    (∀ k rem r, assemble [k, ⟨a, rem⟩] = .ok r → flOf r x A = flOf k x A + flOf ⟨a, rem⟩ x A) :=
  ⟨flOf_takeMax a p n x A, fun _ _ h => flOf_take h x A, flOf_reverse a p x A, fun _ _ _ h => flOf_pair h x A⟩

/-- **`emit_floor`**: `OP_SEND` of a funding that is (part of what is) in flight: every posting it writes
respects the floor, the invariant is kept, the funding has left the flight -/
theorem emit_floor {c : Cx} {bal0 : Acct → Asset → Int} {d : Acct} {A : Asset} (ps : Parts) (st : St)
    (fl : Acct → Asset → Int) (hi : DInv c bal0 st fl) (hg : Good c ⟨A, ps⟩)
    (hle : ∀ x A', flOf ⟨A, ps⟩ x A' ≤ fl x A') :
    DInv c bal0 (emit d ⟨A, ps⟩ st) (fun x A' => fl x A' - flOf ⟨A, ps⟩ x A') := emit_dinv ps st fl hi hg hle

/-- a source keeps the invariant: what it provides enters the flight, is non-negative and tracked -/
theorem source_keeps (c : Cx) (R : Acct → Asset → Int) {env : VEnv} {asset : Asset} {s : Source} {b b' : Bal}
    {f : Fund} {fb : Option Acct} {fl : Acct → Asset → Int} (h : evalSource env asset s b = .ok (f, fb, b'))
    (hocc : ∀ o ∈ sourceOcc env asset s, OccOK c.g o) (hi : BInv c R b fl) :
    BInv c R b' (fun x A => fl x A + flOf f x A) ∧ Good c f ∧ (∀ w, fb = some w → c.g w f.asset = none) :=
  evalSource_binv c R env asset s b b' f fb fl h hocc hi

/-- a destination keeps the invariant (floor of its postings included): what it receives leaves the flight,
what it hands back enters it -/
theorem dest_keeps (c : Cx) (bal0 : Acct → Asset → Int) {env : VEnv} {d : Dest} {f r : Fund} {st st' : St}
    (h : evalDest env d f st = .ok (r, st')) (hg : Good c f) (fl : Acct → Asset → Int) (hi : DInv c bal0 st fl)
    (hle : ∀ x A, flOf f x A ≤ fl x A) :
    DInv c bal0 st' (fun x A => fl x A - flOf f x A + flOf r x A) ∧ Good c r ∧ r.asset = f.asset :=
  let ⟨h1, h2, h3⟩ := evalDest_dinv c bal0 env d f r st st' h hg
  ⟨h1 fl hi hle, h2, h3⟩

/-- a whole send keeps the invariant, whatever else is in flight -/
theorem send_keeps {c : Cx} {bal0 : Acct → Asset → Int} {env : VEnv} {amt : SendAmt} {src : VSource} {d : Dest}
    {st st' : St} {fl : Acct → Asset → Int} (h : evalSend env amt src d st = .ok st')
    (hocc : ∀ o ∈ sendOcc env amt src, OccOK c.g o) (hfl : ∀ x A, 0 ≤ fl x A) (hi : DInv c bal0 st fl) :
    DInv c bal0 st' fl := evalSend_dinv h hocc hfl hi

/-- every statement (the two `save` forms included) keeps the between-statements invariant -/
theorem stmt_keeps {g : Acct → Asset → Option Int} {K : Acct → Asset → Prop} {bal0 : Acct → Asset → Int}
    {env : VEnv} {s : Stmt} {F F' : Full} (h : evalStmt env s F = .ok F')
    (hocc : ∀ o ∈ stmtOcc env s, OccOK g o) (hi : SInv g K bal0 F.st) : SInv g K bal0 F'.st :=
  evalStmt_sinv h hocc hi

/-! ### sources that cannot cover the amount -/

/-- a bounded source (no fallback account) whose funding holds less than the amount: `insufficient funds` -/
theorem short_source_insufficient {f : Fund} {ma : Asset} {mn : Int} (b : Bal) (hf : NonNeg f.parts)
    (ha : f.asset = ma) (hlt : total f.parts < mn) : takeFromSource none f ma mn b = .error .insufficient :=
  takeFromSource_short b hf ha hlt

/-- **`short_sources_reject`**: if, at some send of the script, the (bounded) sources provide less than the
amount, the whole run is rejected with `insufficient_funds` — no posting, no metadata -/
theorem short_sources_reject {P : Script} {req : Request} {store : Store} {env : VEnv}
    {pre post : List Stmt} {e : Expr} {s : Source} {d : Dest} {F : Full} {a ma : Asset} {mn : Int} {f : Fund} {b1 : Bal}
    (hp : prepare P req store = .ok env) (hc : checkBalanceVars env P.vars = .ok ())
    (hst : P.stmts = pre ++ .send (.mon e) (.src s) d :: post)
    (hpre : evalStmts env pre { st := { bal := initBal store (needed env P.stmts), postings := [] } } = .ok F)
    (hl : leftAsset env e = .ok a) (hs : evalSource env a s F.st.bal = .ok (f, none, b1))
    (hm : evalMon env e = .ok (ma, mn)) (ha : f.asset = ma) (hlt : total f.parts < mn) :
    run P req store = .error .insufficient := by
  apply run_error hp hc
  have hsend : evalStmt env (.send (.mon e) (.src s) d) F = .error .insufficient := by
    simp only [evalStmt, evalSend_short hl hs hm ha hlt]
  have := evalStmts_error_at (post := post) pre _ F hpre hsend
  rw [← hst] at this
  exact this

/-! non-vacuity -/

/-- `send [USD 10] (source = @a allowing overdraft up to [USD 5]  destination = @b)` with 7 on `a` -/
def exScript : Script :=
  { vars := [],
    stmts := [.send (.mon (.mon (.asset "USD") 10))
      (.src (.acct (.acct "a") (.upTo (.mon (.asset "USD") 5)))) (.acct (.acct "b"))] }
def exStore : Store := { balance := fun _ _ => 7, accountMeta := fun _ _ => none }

example : ∃ r, run exScript ⟨[], []⟩ exStore = .ok r ∧ r.postings = [⟨"a", "b", 10, "USD"⟩] := ⟨_, rfl, rfl⟩
/-- the grant the text gives `a` is 5, `b` (never a source) gets 0, and the floor holds: 7 - 10 ≥ -5 -/
example : grants [] exScript.stmts "a" "USD" = some 5 := by decide
example : FloorOK (grants [] exScript.stmts) exStore.balance [⟨"a", "b", 10, "USD"⟩] := by
  have h : grants [] exScript.stmts "a" "USD" = some 5 := by decide
  simp [FloorOK, h, exStore]
/-- `FloorOK` is not vacuous: with a grant of 2 the same posting violates it -/
example : ¬ FloorOK (fun _ _ => some 2) exStore.balance [⟨"a", "b", 10, "USD"⟩] := by
  simp [FloorOK, exStore]
/-- with only 3 on the account the same script is rejected (3 + 5 < 10) -/
example : run exScript ⟨[], []⟩ { exStore with balance := fun _ _ => 3 } = .error .insufficient := rfl
/-- the world literal is an unbounded occurrence -/
example : grants [] [.send (.mon (.mon (.asset "USD") 10)) (.src (.acct (.acct "world") .none)) (.acct (.acct "b"))]
    "world" "USD" = none := by decide

/-! #### the compiled program inherits the floor

`no_overdraw` is about `Spec.run`.  Compiler correctness (`Num.run_eq`, stated as `C08.compile_correct`: for the whole
language the bytecode VM model answers exactly what `Spec.run` answers) carries it to what the engine executes: the
postings the VM model emits for the compiled program respect the same floor.  (That the VM and compiler MODELS are the
Go code rests on the bytecode-equality and VM differentials of C08.) -/

/-- **`no_overdraw_compiled`**: an accepted run of the COMPILED program on the bytecode VM never takes a bounded account
below minus the overdraft the script grants it -/
theorem no_overdraw_compiled {P : Script} {prog : Program} (hc : compile P = .ok prog) (hwf : P.frag2)
    {req : Request} {store : Store} {r : VM.Result} (h : VM.run prog req store = .ok r) :
    ∃ env, prepare P req store = .ok env ∧ FloorOK (grants env P.stmts) store.balance r.postings := by
  obtain ⟨r', h1, h2⟩ := vm_ok_postings hc hwf req store h
  obtain ⟨env, hp, hf⟩ := no_overdraw h1
  exact ⟨env, hp, h2 ▸ hf⟩

end C01
