import Lemmas.Funding
import Model.Numscript.Spec
/-! C01 — script execution never overdraws an account.
Stage 1 (this file, growing): the balance primitives every source is built from.  The full
`no_overdraw` over `Spec.run` is stated in DESIGN.md §5 C01 and is being built on top of these. -/
namespace C01
open Num

/-- `withdrawAll` (a bounded source account): takes a non-negative amount, never more than the tracked
balance plus the overdraft, and leaves the tracked balance at `-overdraft` exactly when it takes something -/
theorem withdrawAll_bounded {b b' : Bal} {a : Acct} {s : Asset} {o : Int} {p : Part}
    (h : withdrawAll b a s o = .ok (p, b')) :
    ∃ t, b.get a s = some t ∧ p.acct = a ∧ 0 ≤ p.amt ∧ p.amt = max (t + o) 0 ∧ b'.get a s = some (t - p.amt) ∧
      (p.amt > 0 → b'.get a s = some (-o)) := by
  unfold withdrawAll at h
  cases hb : b.get a s with
  | none => simp [hb] at h
  | some t =>
    simp only [hb] at h
    by_cases hpos : t + o > 0
    · simp only [hpos, if_true, Except.ok.injEq, Prod.mk.injEq] at h
      obtain ⟨rfl, rfl⟩ := h
      refine ⟨t, rfl, rfl, by simp; omega, by simp; omega, ?_, ?_⟩
      · simp [Bal.upd]; omega
      · intro _; simp [Bal.upd]
    · simp only [hpos, if_false, Except.ok.injEq, Prod.mk.injEq] at h
      obtain ⟨rfl, rfl⟩ := h
      refine ⟨t, rfl, rfl, by simp, by simp; omega, by simp [hb], ?_⟩
      intro h0; simp at h0

/-- other entries are untouched by `withdrawAll` -/
theorem withdrawAll_frame {b b' : Bal} {a : Acct} {s : Asset} {o : Int} {p : Part}
    (h : withdrawAll b a s o = .ok (p, b')) (a' : Acct) (s' : Asset) (hne : ¬ (a' = a ∧ s' = s)) :
    b'.get a' s' = b.get a' s' := by
  unfold withdrawAll at h
  cases hb : b.get a s with
  | none => simp [hb] at h
  | some t =>
    simp only [hb] at h
    by_cases hpos : t + o > 0
    · simp only [hpos, if_true, Except.ok.injEq, Prod.mk.injEq] at h
      obtain ⟨_, rfl⟩ := h
      simp [Bal.upd, hne]
    · simp only [hpos, if_false, Except.ok.injEq, Prod.mk.injEq] at h
      obtain ⟨_, rfl⟩ := h; rfl

/-- `repay` gives back to the tracked balance exactly what the parts of that account carry -/
theorem repay_amount (b : Bal) (s : Asset) (f : Parts) (x : Acct) (hx : x ≠ "world") (t : Int)
    (hb : b.get x s = some t) : (repay b s f).get x s = some (t + amtOf f x) := by
  induction f generalizing b t with
  | nil => simp [repay, hb]
  | cons p ps ih =>
    unfold repay
    by_cases hw : p.acct = "world"
    · have hpx : p.acct ≠ x := fun e => hx (e ▸ hw)
      simp only [hw, if_true]
      rw [ih b t hb, amtOf_cons]; simp [hpx]
    · simp only [hw, if_false]
      by_cases hpx : p.acct = x
      · subst hpx
        have := ih (b.upd p.acct s ((b.get p.acct s).getD 0 + p.amt)) (t + p.amt) (by simp [Bal.upd, hb])
        rw [this, amtOf_cons]; simp; omega
      · have hne : ¬ (x = p.acct) := fun e => hpx e.symm
        have := ih (b.upd p.acct s ((b.get p.acct s).getD 0 + p.amt)) t (by simp [Bal.upd, hne, hb])
        rw [this, amtOf_cons]; simp [hpx]

/-- a rejected execution yields nothing: `run` returns either a result or an error class, never both -/
theorem rejected_yields_nothing (P : Script) (req : Request) (store : Store) (e : Err)
    (h : run P req store = .error e) : ∀ r, run P req store ≠ .ok r := by
  intro r hr; rw [h] at hr; cases hr

/-! non-vacuity -/
example : ∃ p b', withdrawAll ⟨fun _ _ => some 7⟩ "a" "USD" 3 = .ok (p, b') ∧ p.amt = 10 := ⟨_, _, rfl, rfl⟩

end C01
