import Model.Numscript.Spec
import Lemmas.Syntax
import Model.Numscript.VM
import Lemmas.NumResolve
import Lemmas.NumRun
import Lemmas.NumCheck
import Lemmas.NumRunEq
import Lemmas.NumFront
/-! C12 — no script, variable map or ledger state can crash the engine.
Stage 1: at the level of `Spec` (the source-level interpreter).  `Spec.run` is a total Lean function — every
recursion in it (`evalSource`/`evalSources`, `evalDest`/`evalKD`/`evalCaps`/`evalAllot`, `evalStmts`, `resolveVars`)
was accepted by Lean's structural termination checker, so termination for every program, variable map and store is
part of what the kernel checked — and its outcome type has no "crash" alternative.
Stage 2: the bytecode level (model A2: compiler and stack VM with every Go panic site as an explicit outcome):
`vm_terminates`, `compile_never_panics`, `resolve_never_panics` and **`vm_never_panics`** — for every compiled program
of the whole language, every variable map and every store, no panic outcome is reachable (a corollary of
`C08.compile_correct`).  The models are tied to the Go compiler and VM by the differentials of `checks/c12.py`. -/
namespace C12
open Num

/-- every execution ends with a result or with exactly one of the defined error classes -/
theorem outcome_defined (P : Script) (req : Request) (store : Store) :
    (∃ r, run P req store = .ok r) ∨
    (∃ e, run P req store = .error e ∧ e ∈ [Err.compile, .invalidVars, .missingMeta, .resolve, .negativeBalance,
      .insufficient, .invalidScript, .runtimeOther, .scriptFailed, .metaOverride]) := by
  cases h : run P req store with
  | ok r => exact Or.inl ⟨r, rfl⟩
  | error e => exact Or.inr ⟨e, rfl, by cases e <;> simp⟩

/-- an execution leaves nothing behind: the outcome is a function of (program, request, store) alone, so running
anything in between cannot change it -/
theorem run_is_pure (P Q : Script) (req req' : Request) (store store' : Store) :
    (fun (_ : Except Err Result) => run P req store) (run Q req' store') = run P req store := rfl

/-- statements run in order and the first error wins: nothing after a failing statement is evaluated -/
theorem first_error_wins (env : VEnv) (s : Stmt) (ss : List Stmt) (F : Full) (e : Err)
    (h : evalStmt env s F = .error e) : evalStmts env (s :: ss) F = .error e := by
  simp [evalStmts, h]

/-! ### stage 2 — the bytecode VM (model A2) -/

/-- **the VM terminates**: there are no jumps, `Execute` performs at most one `tick` per instruction
(`VM.exec` recurses structurally on the remaining instruction list) -/
theorem vm_terminates (rs : List BVal) (is : List Instr) (m : VM.Machine) : VM.ticks rs is m ≤ is.length := by
  induction is generalizing m with
  | nil => simp [VM.ticks]
  | cons i is ih =>
    simp only [VM.ticks, List.length_cons]
    cases h : VM.step rs i m with
    | ok m' => have := ih m'; simp only []; omega
    | error e => simp
    | panic k => simp

/-- **resolution never panics**: for a COMPILED program, whatever the caller's variable map and the store hold,
`SetVarsFromJSON` (an `Except`: no crash alternative), `ResolveResources` and `ResolveBalances` end with a result
or a defined error — none of their nil dereferences and type assertions (`(*acc).(AccountAddress)`,
`(*ass).(Asset)`, `Resources[i].(Monetary)`, `(*mon).(HasAsset)`) can fail.  Proof: the compiler only ever stores,
inside a resource, addresses of EARLIER resources of the right type (`compile_good`), the names of the plain
variables are pairwise distinct (`compile_varNames_nodup`), and every resolved value has the type of its
resource (`TypedVals`). -/
theorem resolve_never_panics (P : Script) (prog : Program) (hc : compile P = .ok prog) (req : Request) (store : Store)
    (vars : List (String × BVal)) (hv : VM.setVarsFromJSON prog req.vars = .ok vars) :
    (VM.resolveResources prog vars store).isPanic = false ∧
    ∀ R, VM.resolveResources prog vars store = .ok R → (VM.resolveBalances prog R store).isPanic = false := by
  obtain ⟨hwf, hwn⟩ := compile_good hc
  have hvt := setVarsFromJSON_typed (compile_varNames_nodup hc) hv
  have h1 := resolveResources_ok prog vars store hwf hvt
  constructor
  · cases hr : VM.resolveResources prog vars store with
    | ok R => rfl
    | error e => rfl
    | panic k => rw [hr] at h1; exact h1.elim
  · intro R hr
    rw [hr] at h1
    exact (resolveBalances_ok prog R store h1.1 h1.2 hwn).1

/-- **the compiler never crashes**: `VisitExpr` returns a nil `*machine.Address` for number arithmetic, and several
visitors dereference the returned address (`*assetAddr`, `*accAddr`, `*monAddr`); the model makes that dereference
an explicit outcome `nilAddr`, and it is unreachable — every dereference is behind a type test that number
arithmetic fails.  So compiling ends with a program or with a reported error (static rule or size limit). -/
theorem compile_never_panics (P : Script) : compile P ≠ .error .nilAddr := by
  intro h
  have := compile_ck P
  rw [h] at this
  exact this

/-! #### the VM never panics

`vm_never_panics`: for EVERY compiled program (the whole language; side conditions `Script.wellFormed`, see
`C08.compile_correct`: at least one statement — `Execute` indexes `Instructions[0]` —, lists shorter than 2^64, no
portion literal with a zero denominator), EVERY variable map and EVERY store content: none of the explicit panic
outcomes of the VM model (typed pop of the wrong type, pop on an empty stack, `BUMP` out of range, `SAVE`/`repay`
through a missing balance map, nil `Amount`, "stack not empty after execution", unsupported value in
`GetTxMetaJSON`, the type assertions of `ResolveResources`/`ResolveBalances`) is reachable.  It is a corollary of
compiler correctness: `VM.run` of the compiled program is `Spec.run`, whose outcome type has no panic.
`vm_never_panics_partial` is the earlier statement on `Script.frag` (kept). -/
theorem vm_never_panics_partial (P : Script) (prog : Program) (hc : compile P = .ok prog) (hfr : P.frag)
    (req : Request) (store : Store) : (VM.run prog req store).isPanic = false := by
  cases hv : VM.setVarsFromJSON prog req.vars with
  | error e => simp [VM.run, hv, VM.Outcome.isPanic]
  | ok vars =>
    obtain ⟨h1, h2⟩ := resolve_never_panics P prog hc req store vars hv
    cases hr : VM.resolveResources prog vars store with
    | error e => simp [VM.run, hv, hr, VM.Outcome.isPanic]
    | panic k => rw [hr] at h1; simp [VM.Outcome.isPanic] at h1
    | ok R =>
      have h3 := h2 R hr
      cases hb : VM.resolveBalances prog R store with
      | error e => simp [VM.run, hv, hr, hb, VM.Outcome.isPanic]
      | panic k => rw [hb] at h3; simp [VM.Outcome.isPanic] at h3
      | ok r =>
        obtain ⟨vals, B⟩ := r
        obtain ⟨cx, hE, hok⟩ := run_setup hc hv hr hb
        have hrel : Rel B.accts B.keys ({ balances := B } : VM.Machine) { st := { bal := B.bal, postings := [] } } :=
          ⟨rfl, rfl, rfl, rfl, rfl, rfl, rfl, hok⟩
        have hp := vpos_of_resolved hc (frag_tablePos hc hfr) hv hr hb
        have hex := execute_correct hc hfr cx hp hE _ _ hrel
        simp only [VM.run, hv, hr, hb]
        cases hev : evalStmts (envOf prog.resources vals) P.stmts { st := { bal := B.bal, postings := [] } } with
        | error er =>
          rw [hev] at hex
          simp [hex, VM.Outcome.isPanic]
        | ok F =>
          rw [hev] at hex
          obtain ⟨m', hx, hr'⟩ := hex
          simp only [hx, hr'.txMeta, hr'.acctMeta, renderTxMeta_map, renderAcctMeta_map]
          split <;> rfl

/-- **no script, variable map or ledger state can make the VM panic** — the whole language -/
theorem vm_never_panics (P : Script) (prog : Program) (hc : compile P = .ok prog) (hwf : P.frag2)
    (req : Request) (store : Store) : (VM.run prog req store).isPanic = false := by
  have h := run_eq hc hwf req store
  cases hr : VM.run prog req store with
  | ok r => rfl
  | error e => rfl
  | panic k =>
    rw [hr] at h
    cases hs : (Num.run P req store).map Num.Result.obs with
    | ok o => rw [hs] at h; cases h
    | error e => rw [hs] at h; cases h

/-! non-vacuity: the hypotheses are satisfiable by a program with allotments on both sides, an ordered destination
with `kept`, and a portion literal as metadata -/
def exAll : Script :=
  ⟨[], [.send (.mon (.mon (.asset "USD") 9))
          (.allot [(.const ⟨1, 3⟩, .acct (.acct "b") .none), (.remaining, .acct (.acct "world") .none)])
          (.inorder (.cons (.mon (.asset "USD") 2) .kept .nil)
            (.to (.allot (.cons (.const ⟨1, 2⟩) (.to (.acct (.acct "x"))) (.cons .remaining (.to (.acct (.acct "y"))) .nil))))),
        .setTxMeta "p" (.portion ⟨2, 4⟩)]⟩

example : Script.frag2 exAll := ⟨by simp [exAll], by intro s hs; simp [exAll] at hs; rcases hs with rfl | rfl <;> decide⟩
example : (compile exAll).toOption.isSome = true := by decide +kernel

end C12

/-! ### front end (Syntax) -/
/-! Stage 1b: the byte string offered as a script.  `Syntax.lex` / `Syntax.parse` model the ANTLR front end as
driven by `compiler.CompileFull` (tied to it by the accept/reject, token, AST and result differential of
`checks/syntaxlib.py`); `runText` / `runBytes` = decode, lex, parse, `Spec.run`.  All of it is total by
construction (structural recursion, explicit fuel bounded by the input length), so the quantifier
"every byte string" is inside the model.  What stays outside: that the REAL lexer/parser terminate without
panicking on inputs the differential did not sample. -/
namespace C12
open Num Num.Syntax

/-- for EVERY text the outcome is a result or exactly one of the defined error classes -/
theorem outcome_defined_text (t : String) (req : Request) (store : Store) :
    (∃ r, runText t req store = .ok r) ∨
    (∃ e, runText t req store = .error e ∧ e ∈ [Err.compile, .invalidVars, .missingMeta, .resolve, .negativeBalance,
      .insufficient, .invalidScript, .runtimeOther, .scriptFailed, .metaOverride]) := by
  cases h : runText t req store with
  | ok r => exact Or.inl ⟨r, rfl⟩
  | error e => exact Or.inr ⟨e, rfl, by cases e <;> simp⟩

/-- … and for every BYTE string (ill-formed UTF-8 included), as the Go entry point receives it -/
theorem runText_total (bs : List UInt8) (req : Request) (store : Store) :
    (∃ r, runBytes bs req store = .ok r) ∨
    (∃ e, runBytes bs req store = .error e ∧ e ∈ [Err.compile, .invalidVars, .missingMeta, .resolve, .negativeBalance,
      .insufficient, .invalidScript, .runtimeOther, .scriptFailed, .metaOverride]) := by
  cases h : runBytes bs req store with
  | ok r => exact Or.inl ⟨r, rfl⟩
  | error e => exact Or.inr ⟨e, rfl, by cases e <;> simp⟩

/-- **no text, variable map or ledger state can make the VM panic**: for every text (shorter than 2^64 characters)
that the front end and the compiler accept — `front_wellFormed`: the side conditions of `vm_never_panics` hold of
whatever the front end produces -/
theorem vm_never_panics_text (t : String) (P : Script) (h : front t = some P) (hlen : t.toList.length < 18446744073709551616)
    (prog : Program) (hc : compile P = .ok prog) (req : Request) (store : Store) : (VM.run prog req store).isPanic = false :=
  vm_never_panics P prog hc (Num.front_wellFormed (by unfold front at h; exact h) hlen) req store

/-- the lexer makes progress and loses nothing: every token (skipped ones included) is non-empty and the token
texts, in order, concatenate to the input -/
theorem lex_progress (cs : List Char) (ts : List Token) (h : lexAll cs = .ok ts) :
    ts.flatMap (·.text) = cs ∧ ∀ t ∈ ts, t.text ≠ [] :=
  lexLoop_spec cs.length cs ts h

/-- hence at most as many tokens as characters reach the parser, and their total length is bounded by the input -/
theorem lex_length_le (s : String) (ts : List Token) (h : lex s = .ok ts) :
    (ts.map (·.text.length)).sum ≤ s.toList.length ∧ ts.length ≤ s.toList.length := by
  unfold lex lexChars at h
  cases ha : lexAll s.toList with
  | error e => simp [ha] at h
  | ok all =>
    simp only [ha] at h
    injection h with h
    subst h
    obtain ⟨hc, hne⟩ := lex_progress _ _ ha
    have hlen : (all.map (·.text.length)).sum = s.toList.length := by
      rw [← length_flatMap_text, hc]
    have h1 := sum_filter_le all (fun t => !t.kind.skipped)
    refine ⟨by omega, ?_⟩
    have h2 : ∀ l : List Token, (∀ t ∈ l, t.text ≠ []) → l.length ≤ (l.map (·.text.length)).sum := by
      intro l
      induction l with
      | nil => simp
      | cons t r ih =>
        intro hall
        have ht : t.text ≠ [] := hall t (by simp)
        have : 0 < t.text.length := List.length_pos_iff.mpr ht
        have := ih (fun x hx => hall x (List.mem_cons_of_mem _ hx))
        simp; omega
    have h3 := h2 (all.filter (fun t => !t.kind.skipped)) (fun t ht => hne t ((List.mem_filter.mp ht).1))
    omega

/-- maximal munch: the token taken at a position is at least as long as what ANY of the 47 rules matches there,
and it is what one of the rules matches (or nothing matched: length 0, a lexer error) -/
theorem lex_maximal_munch (cs : List Char) :
    (∀ kf ∈ rules, kf.2 cs ≤ (nextToken cs).2) ∧
    ((nextToken cs).2 = 0 ∨ ∃ kf ∈ rules, nextToken cs = (kf.1, kf.2 cs)) := by
  refine ⟨best_ge_rule cs rules _, ?_⟩
  rcases best_is_rule cs rules (.star, 0) with h | h
  · exact Or.inl (by unfold nextToken; rw [h])
  · exact Or.inr h

/-- ties go to the earlier rule of the generated lexer: the kind of the token taken is that of the FIRST rule,
in the lexer's order, that matches the winning length -/
theorem lex_ties_to_earlier_rule (cs : List Char) (h : (nextToken cs).2 ≠ 0) :
    ∃ pre kf post, rules = pre ++ kf :: post ∧ nextToken cs = (kf.1, kf.2 cs) ∧ ∀ g ∈ pre, g.2 cs < (nextToken cs).2 :=
  best_earliest cs rules (.star, 0) (by unfold nextToken at h; simp; omega)

/-! non-vacuity and the tie-breaking order of the generated lexer (`100` NUMBER, `1/2` PORTION, `2/USD` ASSET,
nested comment skipped, a comment that never closes is not a comment) -/
example : (lexChars (chars! "100 1/2 2/USD")).toOption.map (·.map (·.kind)) = some [.number, .portion, .asset] := by decide
example : (lexChars (chars! "/* a /* b */ c */fail")).toOption.map (·.map (·.kind)) = some [.kFail] := by decide
example : (lexChars (chars! "/* a /* b */fail")).toOption.map (·.map (·.kind)) = some [.kFail] := by decide
example : (lexChars (chars! "fail #")).toOption = none := by decide
example : (frontChars (chars! "print 1 + 2\nfail\n")).isSome = true := by decide
example : (frontChars (chars! "print 1 + 2 fail")).isSome = false := by decide

end C12
