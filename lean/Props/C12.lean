import Model.Numscript.Spec
import Model.Numscript.VM
import Lemmas.NumResolve
import Lemmas.NumRun
import Lemmas.NumCheck
/-! C12 — no script, variable map or ledger state can crash the engine.
Stage 1: at the level of `Spec` (the source-level interpreter the compiler+VM are differentially tied to).
`Spec.run` is a total Lean function — every recursion in it (`evalSource`/`evalSources`,
`evalDest`/`evalKD`/`evalCaps`/`evalAllot`, `evalStmts`, `resolveVars`) was accepted by Lean's structural
termination checker, so termination for every program, variable map and store is part of what the kernel
checked — and its outcome type has no "crash" alternative.  The bytecode-level `vm_never_panics` (typed stacks,
explicit panic outcomes) is the planned stage 2 (DESIGN §5 C12). -/
namespace C12
open Num

/-- every execution ends with a result or with exactly one of the defined error classes -/
theorem outcome_defined (P : Script) (req : Request) (store : Store) :
    (∃ r, run P req store = .ok r) ∨
    (∃ e, run P req store = .error e ∧ e ∈ [Err.compile, .invalidVars, .missingMeta, .resolve, .negativeBalance,
      .insufficient, .invalidScript, .runtimeOther, .scriptFailed, .metaOverride]) := by
  cases h : run P req store with
  | ok r => exact Or.inl ⟨r, rfl⟩
  | error e => exact Or.inr ⟨e, rfl, by cases e <;> simp⟩

/-- an execution leaves nothing behind: the outcome is a function of (program, request, store) alone, so running
anything in between cannot change it -/
theorem run_is_pure (P Q : Script) (req req' : Request) (store store' : Store) :
    (fun (_ : Except Err Result) => run P req store) (run Q req' store') = run P req store := rfl

/-- statements run in order and the first error wins: nothing after a failing statement is evaluated -/
theorem first_error_wins (env : VEnv) (s : Stmt) (ss : List Stmt) (F : Full) (e : Err)
    (h : evalStmt env s F = .error e) : evalStmts env (s :: ss) F = .error e := by
  simp [evalStmts, h]

/-! ### stage 2 — the bytecode VM (model A2) -/

/-- **the VM terminates**: there are no jumps, `Execute` performs at most one `tick` per instruction
(`VM.exec` recurses structurally on the remaining instruction list) -/
theorem vm_terminates (rs : List BVal) (is : List Instr) (m : VM.Machine) : VM.ticks rs is m ≤ is.length := by
  induction is generalizing m with
  | nil => simp [VM.ticks]
  | cons i is ih =>
    simp only [VM.ticks, List.length_cons]
    cases h : VM.step rs i m with
    | ok m' => have := ih m'; simp only []; omega
    | error e => simp
    | panic k => simp

/-- **resolution never panics**: for a COMPILED program, whatever the caller's variable map and the store hold,
`SetVarsFromJSON` (an `Except`: no crash alternative), `ResolveResources` and `ResolveBalances` end with a result
or a defined error — none of their nil dereferences and type assertions (`(*acc).(AccountAddress)`,
`(*ass).(Asset)`, `Resources[i].(Monetary)`, `(*mon).(HasAsset)`) can fail.  Proof: the compiler only ever stores,
inside a resource, addresses of EARLIER resources of the right type (`compile_good`), the names of the plain
variables are pairwise distinct (`compile_varNames_nodup`), and every resolved value has the type of its
resource (`TypedVals`). -/
theorem resolve_never_panics (P : Script) (prog : Program) (hc : compile P = .ok prog) (req : Request) (store : Store)
    (vars : List (String × BVal)) (hv : VM.setVarsFromJSON prog req.vars = .ok vars) :
    (VM.resolveResources prog vars store).isPanic = false ∧
    ∀ R, VM.resolveResources prog vars store = .ok R → (VM.resolveBalances prog R store).isPanic = false := by
  obtain ⟨hwf, hwn⟩ := compile_good hc
  have hvt := setVarsFromJSON_typed (compile_varNames_nodup hc) hv
  have h1 := resolveResources_ok prog vars store hwf hvt
  constructor
  · cases hr : VM.resolveResources prog vars store with
    | ok R => rfl
    | error e => rfl
    | panic k => rw [hr] at h1; exact h1.elim
  · intro R hr
    rw [hr] at h1
    exact (resolveBalances_ok prog R store h1.1 h1.2 hwn).1

/-- **the compiler never crashes**: `VisitExpr` returns a nil `*machine.Address` for number arithmetic, and several
visitors dereference the returned address (`*assetAddr`, `*accAddr`, `*monAddr`); the model makes that dereference
an explicit outcome `nilAddr`, and it is unreachable — every dereference is behind a type test that number
arithmetic fails.  So compiling ends with a program or with a reported error (static rule or size limit). -/
theorem compile_never_panics (P : Script) : compile P ≠ .error .nilAddr := by
  intro h
  have := compile_ck P
  rw [h] at this
  exact this

/-! #### the VM never panics

The FULL statement:
```
theorem vm_never_panics (P : Script) (prog : Program) (hc : compile P = .ok prog) (hne : P.stmts ≠ [])
    (req : Request) (store : Store) : (VM.run prog req store).isPanic = false
```
(`P.stmts ≠ []` is a fact of the grammar; `Execute` indexes `Instructions[0]`.)  Proved below for the fragment
`Script.frag` (see `C08.compile_correct_partial`), for EVERY variable map and EVERY store content: none of the
explicit panic outcomes of the VM model (typed pop of the wrong type, pop on an empty stack, `BUMP` out of
range, `SAVE`/`repay` through a missing balance map, nil `Amount`, "stack not empty after execution",
unsupported value in `GetTxMetaJSON`) is reachable.  Missing: the typing argument for source / destination
allotments and ordered destinations (`MAKE_ALLOTMENT`, `ALLOC`, `BUMP n`, `kept`) — observed panic-free by the
differential (model and real VM agree on panic / no panic on every generated case). -/
theorem vm_never_panics_partial (P : Script) (prog : Program) (hc : compile P = .ok prog) (hfr : P.frag)
    (req : Request) (store : Store) : (VM.run prog req store).isPanic = false := by
  cases hv : VM.setVarsFromJSON prog req.vars with
  | error e => simp [VM.run, hv, VM.Outcome.isPanic]
  | ok vars =>
    obtain ⟨h1, h2⟩ := resolve_never_panics P prog hc req store vars hv
    cases hr : VM.resolveResources prog vars store with
    | error e => simp [VM.run, hv, hr, VM.Outcome.isPanic]
    | panic k => rw [hr] at h1; simp [VM.Outcome.isPanic] at h1
    | ok R =>
      have h3 := h2 R hr
      cases hb : VM.resolveBalances prog R store with
      | error e => simp [VM.run, hv, hr, hb, VM.Outcome.isPanic]
      | panic k => rw [hb] at h3; simp [VM.Outcome.isPanic] at h3
      | ok r =>
        obtain ⟨vals, B⟩ := r
        obtain ⟨cx, hE, hok⟩ := run_setup hc hv hr hb
        have hrel : Rel B.accts B.keys ({ balances := B } : VM.Machine) { st := { bal := B.bal, postings := [] } } :=
          ⟨rfl, rfl, rfl, rfl, rfl, rfl, rfl, hok⟩
        have hex := execute_correct hc hfr cx hE _ _ hrel
        simp only [VM.run, hv, hr, hb]
        cases hev : evalStmts (envOf prog.resources vals) P.stmts { st := { bal := B.bal, postings := [] } } with
        | error er =>
          rw [hev] at hex
          simp [hex, VM.Outcome.isPanic]
        | ok F =>
          rw [hev] at hex
          obtain ⟨m', hx, hr'⟩ := hex
          simp only [hx, hr'.txMeta, hr'.acctMeta, renderTxMeta_map, renderAcctMeta_map]
          split <;> rfl

end C12
