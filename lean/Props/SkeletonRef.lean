import Props.Skeleton
import Lemmas.SkelChain
import Lemmas.EngineChain
import Lemmas.SkelAck
import Lemmas.SkelFloor
import Lemmas.EngineFloorStep
import Model.Engine.SkelExec
/-! SkeletonRef — the regenerated skeleton, INTERPRETED, refines the component machines: statements for ALL schedules.

`Props/Skeleton.lean` establishes facts about every control path of the skeleton extracted on this run (C1).  Here
the paths are executed: `Engine.Skel.Sys` (`Model/Engine/SkelSys.lean`) is the commander as a transition system — any
number of requests, each following a control path of `Generated.Commander`, their items interleaved ARBITRARILY (at
every action, which is finer than the scheduling points), a store that persists prefixes of the batcher's queue or
fails, crashes at any moment — and every trace it produces is accepted by a component machine of `Model/Engine`.  The
machines' own theorems (`Props/C05.lean` …) then hold of every run of the interpreted skeleton. -/
namespace SkeletonRef
open Engine Engine.Skel Generated.Commander Skeleton
/-- the control paths a request may follow: those of its entry point in the skeleton extracted on this run -/
def Admitted (j : Sys.Job) (p : Path) : Prop :=
  ∃ e ∈ entryPoints, e.1 = j.ep ∧ ∃ p0 ∈ paths e.1 e.2, p = tagged p0

/-- every admitted path has the commit shape `Chain` needs (`SkelAuto.ChainRef`) -/
theorem admitted_commit_shape (j : Sys.Job) (p : Path) (h : Admitted j p) : (ChainRef.crun .out0 p).isSome = true := by
  obtain ⟨e, he, _, p0, hp0, rfl⟩ := h
  exact clause e he p0 hp0 49 _ rfl

/-- **C05 for every schedule of the regenerated skeleton.**  Whatever the interleaving of the requests' actions, the
batch boundaries, the store failures and the crashes: the trace the system produces is accepted by the `Chain`
machine, whose persisted log and queue are the system's. -/
theorem chain_accepts_every_schedule (store : List LogE) (tr : List Ev) (st : Sys.State)
    (h : Sys.Run Admitted (Sys.init store) tr st) :
    ∃ s, runOn Chain.step (Chain.reinit store) tr = .ok s ∧ s.durable = st.sh.store ∧ s.pending = st.sh.queue.map (·.2) := by
  obtain ⟨s, hs, hi⟩ := ChainRef.run_refines Admitted admitted_commit_shape _ _ _ h _ (ChainRef.init_inv store)
  exact ⟨s, hs, hi.dur, hi.pend⟩

/-- … hence (with `C05.chain_ok`'s invariant) the store and the queue of the interpreted skeleton always hold a gap-free
hash chain with consecutive transaction ids -/
theorem chain_ok_every_schedule (store : List LogE) (h0 : Chain.ChainOK store) (tr : List Ev) (st : Sys.State)
    (h : Sys.Run Admitted (Sys.init store) tr st) : Chain.ChainOK (st.sh.store ++ st.sh.queue.map (·.2)) := by
  obtain ⟨s, hs, hd, hp⟩ := chain_accepts_every_schedule store tr st h
  have hi := runOn_inv Chain.step Chain.Inv Chain.step_inv tr _ s (Chain.reinit_inv store h0) hs
  have := hi.chain
  simpa [Chain.all, hd, hp] using this

-- ------------------------------------------------------------------------------------------------ Ack (C06)

/-- the kind of write of each entry point -/
def epKind : String → Kind
  | "CreateTransaction" => .create
  | "RevertTransaction" => .revert
  | "SaveMeta" => .setMeta
  | _ => .delMeta

/-- every path of the generated skeleton has the order of steps `Ack` needs (`SkelAutoAck`) -/
theorem ack_shape_generated :
    entryPoints.all (fun e => (paths e.1 e.2).all (fun p => (AckRef.arun (epKind e.1) {} (tagged p)).isSome)) = true := by
  decide +kernel

/-- … and the automaton is not trivially accepting: answering before the wait is refused -/
example : (AckRef.arun .create {} [.choose "dry" false, .act .chainLog .ok .direct, .act (.append "chained" ["c"]) .ok .direct,
    .act (.answer (.of "chained" "")) .ok .direct, .fin true ""]).isSome = false := by decide

/-- a request as `Ack` sees it: a path of its entry point, a write of that entry point's kind, `dry` as announced -/
def AdmittedA (dry : Nat → Bool) (j : Sys.Job) (p : Path) : Prop :=
  Admitted j p ∧ j.req.kind = epKind j.ep ∧ j.req.dry = dry j.a

theorem admitted_ack_shape (dry : Nat → Bool) (j : Sys.Job) (p : Path) (h : AdmittedA dry j p) :
    (AckRef.arun j.req.kind {} p).isSome = true ∧ j.req.dry = dry j.a := by
  obtain ⟨⟨e, he, hej, p0, hp0, rfl⟩, hk, hd⟩ := h
  refine ⟨?_, hd⟩
  have h1 := List.all_eq_true.1 ack_shape_generated e he
  have h2 := List.all_eq_true.1 h1 p0 hp0
  rw [hk, ← hej]
  exact h2

/-- **C06 for every schedule of the regenerated skeleton** (interleaving at every action).  From a store in which
metadata logs carry no transaction id: whatever the interleaving, the batch boundaries, the store failures and the
crashes, the trace is accepted by the `Ack` machine — no request commits twice or as a preview, none is woken or
answered before its log is persisted, an answer carries the transaction of the entry it stands for, an error is only
returned by a request that appended nothing — and the machine's store and queue are the system's. -/
theorem ack_accepts_every_schedule (dry : Nat → Bool) (store : List LogE)
    (hk : ∀ l ∈ store, (l.kind = .setMeta ∨ l.kind = .delMeta) → l.txid = none)
    (tr : List Ev) (st : Sys.State) (h : Sys.Run (AdmittedA dry) (Sys.init store) tr st) :
    ∃ s, runOn (Ack.step dry) (Ack.init store) tr = .ok s ∧ s.durable = st.sh.store ∧ s.pending = st.sh.queue := by
  obtain ⟨s, hs, hi⟩ := AckRef.run_refines dry (AdmittedA dry) (admitted_ack_shape dry) _ _ _ h _ (AckRef.init_inv dry store hk)
  exact ⟨s, hs, hi.dur, hi.pend⟩

/-- … hence (with C06's invariant) in every reachable state of the interpreted skeleton every acknowledged write is in
the store, and a request that was answered an error left no log -/
theorem acknowledged_is_persisted_every_schedule (dry : Nat → Bool) (store : List LogE)
    (hk : ∀ l ∈ store, (l.kind = .setMeta ∨ l.kind = .delMeta) → l.txid = none)
    (tr : List Ev) (st : Sys.State) (h : Sys.Run (AdmittedA dry) (Sys.init store) tr st) :
    ∃ s, runOn (Ack.step dry) (Ack.init store) tr = .ok s ∧
      (∀ x ∈ s.acks, x.entry ∈ st.sh.store ∧ dry x.a = false) ∧ (∀ a ∈ s.errs, ∀ l, (a, l) ∉ s.mine) := by
  obtain ⟨s, hs, hd, _⟩ := ack_accepts_every_schedule dry store hk tr st h
  have hi := Ack.run_inv dry tr _ s (Ack.init_inv dry store) hs
  refine ⟨s, hs, fun x hx => ?_, hi.clean⟩
  have := hi.acked x hx
  exact ⟨hd ▸ this.1, this.2.2⟩

-- ------------------------------------------------------------------------------------------------ Floor (C02)

/-- every path of the generated skeleton has the order of steps `Floor` needs (`SkelAutoFloor`) -/
theorem floor_shape_generated :
    entryPoints.all (fun e => (paths e.1 e.2).all (fun p => (FloorRef.frun (AckRef.isTxKind (epKind e.1)) {} (tagged p)).isSome)) = true := by
  decide +kernel

/-- … and the automaton is not trivially accepting: unlocking between the append and the wait is refused, and so is
running the script's commit without having read the balances -/
example : (FloorRef.frun true {} [.act .lock .ok .direct, .act .readBalances .ok .direct, .act (.append "chained" ["c"]) .ok .direct,
    .act .unlock .ok .terminated, .act (.wait "persisted") .ok .direct]).isSome = false := by decide
example : (FloorRef.frun true {} [.act .lock .ok .direct, .act (.append "chained" ["c"]) .ok .direct]).isSome = false := by decide

/-- a request as `Floor` sees it: a path of its entry point, a write of that entry point's kind, and a script result
that stays inside its lock sets and respects the floor against the balances it read (`FloorRef.JobOk`: what §3.4
takes from the Numscript side — C01 proves the floor for `Spec`, the differentials tie `Spec` to the VM) -/
def AdmittedF (grant : Nat → Option Int) (j : Sys.Job) (p : Path) : Prop :=
  Admitted j p ∧ j.req.kind = epKind j.ep ∧ FloorRef.JobOk grant j

theorem admitted_floor_shape (grant : Nat → Option Int) (j : Sys.Job) (p : Path) (h : AdmittedF grant j p) :
    (FloorRef.frun j.isTx {} p).isSome = true ∧ FloorRef.JobOk grant j := by
  obtain ⟨⟨e, he, hej, p0, hp0, rfl⟩, hk, hj⟩ := h
  refine ⟨?_, hj⟩
  have h1 := List.all_eq_true.1 floor_shape_generated e he
  have h2 := List.all_eq_true.1 h1 p0 hp0
  have : j.isTx = AckRef.isTxKind (epKind e.1) := by
    unfold Sys.Job.isTx AckRef.isTxKind
    rw [hk, ← hej]
  rw [this]
  exact h2

/-- **C02 for every schedule of the regenerated skeleton** (interleaving at every action).  Whatever the interleaving
of the requests' actions, the lock grants (the contract of C15: write excludes read and write, FIFO recheck at every
release), the batch boundaries, the store failures and the crashes: the trace is accepted by the `Floor` machine —
balances are read only under a lock covering the account and are the replay of the persisted log, a commit happens
under the lock after the read, the lock is not released while the log is queued — given, for every request, that its
script's result stays inside its lock sets and respects the floor against the balances read. -/
theorem floor_accepts_every_schedule (grant : Nat → Option Int) (store : List LogE)
    (tr : List Ev) (st : Sys.State) (h : Sys.Run (AdmittedF grant) (Sys.init store) tr st) :
    ∃ s, runOn (Floor.step grant) (Floor.init store) tr = .ok s ∧ s.durable.map (·.log) = st.sh.store ∧
      s.pending.map (fun e => (e.by_, e.log)) = st.sh.queue ∧ s.holders = st.sh.holders ∧ s.queue = st.sh.lqueue := by
  obtain ⟨s, hs, hi⟩ := FloorRef.run_refines grant (AdmittedF grant) (admitted_floor_shape grant) _ _ _ h _ (FloorRef.init_inv grant store)
  exact ⟨s, hs, hi.dur, hi.pend, hi.hold, hi.que⟩

/-- … hence (with C02's invariant) in every reachable state of the interpreted skeleton every entry added since the
start — persisted or queued — respects the floor, at its position, against the replay of the entries before it: no
interleaving lets two requests spend the same funds -/
theorem log_floor_every_schedule (grant : Nat → Option Int) (store : List LogE)
    (tr : List Ev) (st : Sys.State) (h : Sys.Run (AdmittedF grant) (Sys.init store) tr st) :
    ∃ s, runOn (Floor.step grant) (Floor.init store) tr = .ok s ∧ s.durable.map (·.log) = st.sh.store ∧
      Floor.floorAt grant (s.durable.take store.length) ((s.durable ++ s.pending).drop store.length) := by
  obtain ⟨s, hs, hd, _⟩ := floor_accepts_every_schedule grant store tr st h
  have hi := runOn_inv (Floor.step grant) (Floor.Inv grant (store.map (fun l => ⟨l, 0⟩))) (fun s e s' => Floor.step_inv s e s') tr _ s
    (Floor.init_inv grant store) hs
  obtain ⟨added, hdu, hfl⟩ := hi.floor
  refine ⟨s, hs, hd, ?_⟩
  have hlen : (store.map (fun l => (⟨l, 0⟩ : Floor.Entry))).length = store.length := by simp
  have h1 : s.durable.take store.length = store.map (fun l => ⟨l, 0⟩) := by
    rw [hdu, ← hlen, List.take_left']; rfl
  have h2 : (s.durable ++ s.pending).drop store.length = added ++ s.pending := by
    rw [hdu, List.append_assoc, ← hlen, List.drop_left']; rfl
  rw [h1, h2]
  exact hfl

-- ------------------------------------------------------------------------------------------------ non-vacuity

/-! The system is not empty: two real paths of the generated `CreateTransaction` run to completion in it — a write with
an idempotency key and a reference that commits, waits for the store and is acknowledged; then a retry with the same
key that finds the log (its first items interleaved with the first request's) and is answered the same transaction. -/

namespace Demo
open Sys

def job1 : Job := { a := 1, ep := "CreateTransaction", req := { kind := .create, dry := false, ik := "k", ref := "r", target := 0, force := false, over := 0 }, postings := [⟨"world", "alice", 10, "USD"⟩], target := "", metaKey := "", r := ["alice"], w := [], bals := [] }
def job2 : Job := { job1 with a := 2 }

def commits (p : Path) : Bool := p.contains (.fin true "") && chose p "ik≠''" true && chose p "ref≠''" true && p.any isAppend
def retries (p : Path) : Bool := p.contains (.fin true "") && chose p "ik≠''" true && p.any isReadIkOk && chose p "dry" false

def cmds (p1 p2 : Path) : List Cmd :=
  let k1 := p1.findIdx isWaitPersisted
  [.arrive job1 p1] ++ List.replicate k1 (.step 1) ++ [.gate 1 true, .arrive job2 p2] ++ List.replicate 3 (.step 2) ++
    List.replicate (p1.length - k1) (.step 1) ++ List.replicate (p2.length - 3) (.step 2)

def finishes (tr : List Ev) : List (Nat × Bool × Option Nat) :=
  tr.filterMap (fun e => match e with | .finish a ok _ t => some (a, ok, t) | _ => none)

def good (r : State × List Ev) : Bool :=
  decide (r.1.sh.store.map (·.txid) = [some 0]) && decide (r.1.sh.queue.length = 0) && decide (r.1.sh.held.length = 0) &&
    decide (finishes r.2 = [(1, true, some 0), (2, true, some 0)])

def ok : Bool :=
  match (paths "CreateTransaction" createTransaction).find? commits, (paths "CreateTransaction" createTransaction).find? retries with
  | some p1, some p2 => (match execAll (init []) (cmds (tagged p1) (tagged p2)) with | some r => good r | none => false)
  | _, _ => false

end Demo

theorem demo_runs : Demo.ok = true := by decide +kernel

theorem admissible_append (adm : Sys.Job → Path → Prop) (cs ds : List Sys.Cmd) (h1 : Sys.admissible adm cs) (h2 : Sys.admissible adm ds) :
    Sys.admissible adm (cs ++ ds) := by
  induction cs with
  | nil => simpa using h2
  | cons c cs ih => cases c <;> simp_all [Sys.admissible]

theorem admissible_steps (adm : Sys.Job → Path → Prop) (n a : Nat) : Sys.admissible adm (List.replicate n (.step a)) := by
  induction n with
  | zero => simp [Sys.admissible]
  | succ n ih => simpa [List.replicate_succ, Sys.admissible] using ih

/-- a run of the interpreted skeleton in which two requests are acknowledged, one entry is persisted, nothing stays reserved -/
example : ∃ tr st, Sys.Run Admitted (Sys.init []) tr st ∧ st.sh.store.length = 1 ∧ st.sh.held = [] ∧
    Demo.finishes tr = [(1, true, some 0), (2, true, some 0)] := by
  have h := demo_runs
  unfold Demo.ok at h
  split at h
  · rename_i p1 p2 h1 h2
    have hm1 := List.mem_of_find?_eq_some h1
    have hm2 := List.mem_of_find?_eq_some h2
    have hep : ("CreateTransaction", createTransaction) ∈ entryPoints := by unfold entryPoints; exact List.mem_cons_self ..
    have a1 : Admitted Demo.job1 (tagged p1) := ⟨_, hep, rfl, p1, hm1, rfl⟩
    have a2 : Admitted Demo.job2 (tagged p2) := ⟨_, hep, rfl, p2, hm2, rfl⟩
    have hadm : Sys.admissible Admitted (Demo.cmds (tagged p1) (tagged p2)) := by
      unfold Demo.cmds
      refine admissible_append _ _ _ (admissible_append _ _ _ (admissible_append _ _ _ (admissible_append _ _ _
        (admissible_append _ _ _ ?_ (admissible_steps _ _ _)) ?_) (admissible_steps _ _ _)) (admissible_steps _ _ _))
        (admissible_steps _ _ _)
      · exact ⟨a1, trivial⟩
      · exact ⟨a2, trivial⟩
    cases hr : Sys.execAll (Sys.init []) (Demo.cmds (tagged p1) (tagged p2)) with
    | none => simp [hr] at h
    | some r =>
      simp only [hr, Demo.good, Bool.and_eq_true, decide_eq_true_eq] at h
      obtain ⟨⟨⟨hs, _⟩, hh⟩, hf⟩ := h
      refine ⟨r.2, r.1, Sys.execAll_sound Admitted _ _ _ _ hadm hr, ?_, ?_, hf⟩
      · have := congrArg List.length hs
        simpa using this
      · exact List.length_eq_zero_iff.1 hh
  · cases h

end SkeletonRef
