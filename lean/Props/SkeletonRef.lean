import Props.Skeleton
import Lemmas.SkelChain
import Lemmas.EngineChain
import Lemmas.SkelAck
/-! SkeletonRef — the regenerated skeleton, INTERPRETED, refines the component machines: statements for ALL schedules.

`Props/Skeleton.lean` establishes facts about every control path of the skeleton extracted on this run (C1).  Here
the paths are executed: `Engine.Skel.Sys` (`Model/Engine/SkelSys.lean`) is the commander as a transition system — any
number of requests, each following a control path of `Generated.Commander`, their items interleaved ARBITRARILY (at
every action, which is finer than the scheduling points), a store that persists prefixes of the batcher's queue or
fails, crashes at any moment — and every trace it produces is accepted by a component machine of `Model/Engine`.  The
machines' own theorems (`Props/C05.lean` …) then hold of every run of the interpreted skeleton. -/
namespace SkeletonRef
open Engine Engine.Skel Generated.Commander Skeleton
/-- the control paths a request may follow: those of its entry point in the skeleton extracted on this run -/
def Admitted (j : Sys.Job) (p : Path) : Prop :=
  ∃ e ∈ entryPoints, e.1 = j.ep ∧ ∃ p0 ∈ paths e.1 e.2, p = tagged p0

/-- every admitted path has the commit shape `Chain` needs (`SkelAuto.ChainRef`) -/
theorem admitted_commit_shape (j : Sys.Job) (p : Path) (h : Admitted j p) : (ChainRef.crun .out0 p).isSome = true := by
  obtain ⟨e, he, _, p0, hp0, rfl⟩ := h
  exact clause e he p0 hp0 49 _ rfl

/-- **C05 for every schedule of the regenerated skeleton.**  Whatever the interleaving of the requests' actions, the
batch boundaries, the store failures and the crashes: the trace the system produces is accepted by the `Chain`
machine, whose persisted log and queue are the system's. -/
theorem chain_accepts_every_schedule (store : List LogE) (tr : List Ev) (st : Sys.State)
    (h : Sys.Run Admitted (Sys.init store) tr st) :
    ∃ s, runOn Chain.step (Chain.reinit store) tr = .ok s ∧ s.durable = st.sh.store ∧ s.pending = st.sh.queue.map (·.2) := by
  obtain ⟨s, hs, hi⟩ := ChainRef.run_refines Admitted admitted_commit_shape _ _ _ h _ (ChainRef.init_inv store)
  exact ⟨s, hs, hi.dur, hi.pend⟩

/-- … hence (with `C05.chain_ok`'s invariant) the store and the queue of the interpreted skeleton always hold a gap-free
hash chain with consecutive transaction ids -/
theorem chain_ok_every_schedule (store : List LogE) (h0 : Chain.ChainOK store) (tr : List Ev) (st : Sys.State)
    (h : Sys.Run Admitted (Sys.init store) tr st) : Chain.ChainOK (st.sh.store ++ st.sh.queue.map (·.2)) := by
  obtain ⟨s, hs, hd, hp⟩ := chain_accepts_every_schedule store tr st h
  have hi := runOn_inv Chain.step Chain.Inv Chain.step_inv tr _ s (Chain.reinit_inv store h0) hs
  have := hi.chain
  simpa [Chain.all, hd, hp] using this

-- ------------------------------------------------------------------------------------------------ Ack (C06)

/-- the kind of write of each entry point -/
def epKind : String → Kind
  | "CreateTransaction" => .create
  | "RevertTransaction" => .revert
  | "SaveMeta" => .setMeta
  | _ => .delMeta

/-- every path of the generated skeleton has the order of steps `Ack` needs (`SkelAutoAck`) -/
theorem ack_shape_generated :
    entryPoints.all (fun e => (paths e.1 e.2).all (fun p => (AckRef.arun (epKind e.1) {} (tagged p)).isSome)) = true := by
  decide +kernel

/-- … and the automaton is not trivially accepting: answering before the wait is refused -/
example : (AckRef.arun .create {} [.choose "dry" false, .act .chainLog .ok .direct, .act (.append "chained" ["c"]) .ok .direct,
    .act (.answer (.of "chained" "")) .ok .direct, .fin true ""]).isSome = false := by decide

/-- a request as `Ack` sees it: a path of its entry point, a write of that entry point's kind, `dry` as announced -/
def AdmittedA (dry : Nat → Bool) (j : Sys.Job) (p : Path) : Prop :=
  Admitted j p ∧ j.req.kind = epKind j.ep ∧ j.req.dry = dry j.a

theorem admitted_ack_shape (dry : Nat → Bool) (j : Sys.Job) (p : Path) (h : AdmittedA dry j p) :
    (AckRef.arun j.req.kind {} p).isSome = true ∧ j.req.dry = dry j.a := by
  obtain ⟨⟨e, he, hej, p0, hp0, rfl⟩, hk, hd⟩ := h
  refine ⟨?_, hd⟩
  have h1 := List.all_eq_true.1 ack_shape_generated e he
  have h2 := List.all_eq_true.1 h1 p0 hp0
  rw [hk, ← hej]
  exact h2

/-- **C06 for every schedule of the regenerated skeleton** (interleaving at every action).  From a store in which
metadata logs carry no transaction id: whatever the interleaving, the batch boundaries, the store failures and the
crashes, the trace is accepted by the `Ack` machine — no request commits twice or as a preview, none is woken or
answered before its log is persisted, an answer carries the transaction of the entry it stands for, an error is only
returned by a request that appended nothing — and the machine's store and queue are the system's. -/
theorem ack_accepts_every_schedule (dry : Nat → Bool) (store : List LogE)
    (hk : ∀ l ∈ store, (l.kind = .setMeta ∨ l.kind = .delMeta) → l.txid = none)
    (tr : List Ev) (st : Sys.State) (h : Sys.Run (AdmittedA dry) (Sys.init store) tr st) :
    ∃ s, runOn (Ack.step dry) (Ack.init store) tr = .ok s ∧ s.durable = st.sh.store ∧ s.pending = st.sh.queue := by
  obtain ⟨s, hs, hi⟩ := AckRef.run_refines dry (AdmittedA dry) (admitted_ack_shape dry) _ _ _ h _ (AckRef.init_inv dry store hk)
  exact ⟨s, hs, hi.dur, hi.pend⟩

/-- … hence (with C06's invariant) in every reachable state of the interpreted skeleton every acknowledged write is in
the store, and a request that was answered an error left no log -/
theorem acknowledged_is_persisted_every_schedule (dry : Nat → Bool) (store : List LogE)
    (hk : ∀ l ∈ store, (l.kind = .setMeta ∨ l.kind = .delMeta) → l.txid = none)
    (tr : List Ev) (st : Sys.State) (h : Sys.Run (AdmittedA dry) (Sys.init store) tr st) :
    ∃ s, runOn (Ack.step dry) (Ack.init store) tr = .ok s ∧
      (∀ x ∈ s.acks, x.entry ∈ st.sh.store ∧ dry x.a = false) ∧ (∀ a ∈ s.errs, ∀ l, (a, l) ∉ s.mine) := by
  obtain ⟨s, hs, hd, _⟩ := ack_accepts_every_schedule dry store hk tr st h
  have hi := Ack.run_inv dry tr _ s (Ack.init_inv dry store) hs
  refine ⟨s, hs, fun x hx => ?_, hi.clean⟩
  have := hi.acked x hx
  exact ⟨hd ▸ this.1, this.2.2⟩

end SkeletonRef
