import Props.Skeleton
import Lemmas.SkelChain
import Lemmas.EngineChain
/-! SkeletonRef — the regenerated skeleton, INTERPRETED, refines the component machines: statements for ALL schedules.

`Props/Skeleton.lean` establishes facts about every control path of the skeleton extracted on this run (C1).  Here
the paths are executed: `Engine.Skel.Sys` (`Model/Engine/SkelSys.lean`) is the commander as a transition system — any
number of requests, each following a control path of `Generated.Commander`, their items interleaved ARBITRARILY (at
every action, which is finer than the scheduling points), a store that persists prefixes of the batcher's queue or
fails, crashes at any moment — and every trace it produces is accepted by a component machine of `Model/Engine`.  The
machines' own theorems (`Props/C05.lean` …) then hold of every run of the interpreted skeleton. -/
namespace SkeletonRef
open Engine Engine.Skel Generated.Commander Skeleton
/-- the control paths a request may follow: those of its entry point in the skeleton extracted on this run -/
def Admitted (j : Sys.Job) (p : Path) : Prop :=
  ∃ e ∈ entryPoints, e.1 = j.ep ∧ ∃ p0 ∈ paths e.1 e.2, p = tagged p0

/-- every admitted path has the commit shape `Chain` needs (`SkelAuto.ChainRef`) -/
theorem admitted_commit_shape (j : Sys.Job) (p : Path) (h : Admitted j p) : (ChainRef.crun .out0 p).isSome = true := by
  obtain ⟨e, he, _, p0, hp0, rfl⟩ := h
  exact clause e he p0 hp0 49 _ rfl

/-- **C05 for every schedule of the regenerated skeleton.**  Whatever the interleaving of the requests' actions, the
batch boundaries, the store failures and the crashes: the trace the system produces is accepted by the `Chain`
machine, whose persisted log and queue are the system's. -/
theorem chain_accepts_every_schedule (store : List LogE) (tr : List Ev) (st : Sys.State)
    (h : Sys.Run Admitted (Sys.init store) tr st) :
    ∃ s, runOn Chain.step (Chain.reinit store) tr = .ok s ∧ s.durable = st.sh.store ∧ s.pending = st.sh.queue.map (·.2) := by
  obtain ⟨s, hs, hi⟩ := ChainRef.run_refines Admitted admitted_commit_shape _ _ _ h _ (ChainRef.init_inv store)
  exact ⟨s, hs, hi.dur, hi.pend⟩

/-- … hence (with `C05.chain_ok`'s invariant) the store and the queue of the interpreted skeleton always hold a gap-free
hash chain with consecutive transaction ids -/
theorem chain_ok_every_schedule (store : List LogE) (h0 : Chain.ChainOK store) (tr : List Ev) (st : Sys.State)
    (h : Sys.Run Admitted (Sys.init store) tr st) : Chain.ChainOK (st.sh.store ++ st.sh.queue.map (·.2)) := by
  obtain ⟨s, hs, hd, hp⟩ := chain_accepts_every_schedule store tr st h
  have hi := runOn_inv Chain.step Chain.Inv Chain.step_inv tr _ s (Chain.reinit_inv store h0) hs
  have := hi.chain
  simpa [Chain.all, hd, hp] using this

end SkeletonRef
