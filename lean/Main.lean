import Driver.Loop
import Driver.Areas
/-! `driver <area>`: reads one JSON input per line on stdin, prints `{"id":…, "out":…}` per line. -/
def main (args : List String) : IO UInt32 := Driver.mainWith "driver" Driver.areas args
