/-! Model I — filter values → SQL text  (C20).

Three parts, all on `List Char` with `String` wrappers at the interface:

1. **bun's literal rendering** (`github.com/uptrace/bun@v1.1.16/schema/dialect.go`):
   `BaseDialect.AppendString` (`quoteBody`, `bunQuote`) and `BaseDialect.AppendJSON` (`jsonBody`) applied to what
   Go's `encoding/json` produces for a `map[string]any` / `[]any` / string (`goJson`).
2. **a PostgreSQL scanner** (`lex`, `shape`) for `standard_conforming_strings = on`, written as a one-character-at-a-time
   state machine whose *control* state (`Ctl`) never contains the text of a literal: the text of literals is moved by
   `push` actions only.  Hence the sequence of token kinds is a function of the control run alone.
3. **the filter renderers** of `internal/storage/ledgerstore` as the REPAIRED code emits them
   (`fixes/c20-address-filter.diff`): `filterAccountAddress`, `filterAccountAddressOnTransactions`, and the query
   contexts of the account / transaction / aggregated-balance / log listings, as lists of `Piece`s
   (code text | quoted literal).

Simplifications of the scanner (none concerns where a quoted literal starts or ends): `b'…'`, `x'…'`, `n'…'` are
scanned like plain strings; `U&'…'` is scanned as identifier `U`, operator `&`, string; numbers are digit/dot runs
(an exponent is scanned as a following identifier); a comment inside the whitespace of a continued string literal
(`'a' -- c\n 'b'`) ends the literal instead of continuing it. -/
namespace SqlText

abbrev Chars := List Char

/-! ## 1. bun: literals -/

def NUL : Char := Char.ofNat 0

/-- the loop of `BaseDialect.AppendString`: NUL dropped, `'` doubled, everything else (backslashes included) copied -/
def quoteBody : Chars → Chars
  | [] => []
  | c :: cs =>
    if c = NUL then quoteBody cs
    else if c = '\'' then '\'' :: '\'' :: quoteBody cs
    else c :: quoteBody cs

/-- the value PostgreSQL reads back from `'` ++ `quoteBody s` ++ `'` -/
def dropNul : Chars → Chars
  | [] => []
  | c :: cs => if c = NUL then dropNul cs else c :: dropNul cs

def bunQuoteL (s : Chars) : Chars := '\'' :: quoteBody s ++ ['\'']

/-- how bun/pgdialect renders a Go `string` argument -/
def bunQuote (s : String) : String := String.ofList (bunQuoteL s.toList)

/-- the loop of `BaseDialect.AppendJSON` over JSON text: `'` doubled, NUL dropped, `\u0000` → `\\u0000`,
any other backslash copied together with the character after it -/
def jsonBody : Chars → Chars
  | [] => []
  | '\\' :: 'u' :: '0' :: '0' :: '0' :: '0' :: t => '\\' :: '\\' :: 'u' :: '0' :: '0' :: '0' :: '0' :: jsonBody t
  | '\\' :: x :: t => '\\' :: x :: jsonBody t
  | c :: t =>
    if c = '\'' then '\'' :: '\'' :: jsonBody t
    else if c = NUL then jsonBody t
    else c :: jsonBody t

/-! ### Go `encoding/json` (Go 1.22+), `Marshal` with HTML escaping -/

def hexDigit (n : Nat) : Char :=
  match n with
  | 0 => '0' | 1 => '1' | 2 => '2' | 3 => '3' | 4 => '4' | 5 => '5' | 6 => '6' | 7 => '7' | 8 => '8' | 9 => '9'
  | 10 => 'a' | 11 => 'b' | 12 => 'c' | 13 => 'd' | 14 => 'e' | _ => 'f'

def goJsonChar (c : Char) : Chars :=
  if c = '"' then ['\\', '"']
  else if c = '\\' then ['\\', '\\']
  else if c = '\n' then ['\\', 'n']
  else if c = '\r' then ['\\', 'r']
  else if c = '\t' then ['\\', 't']
  else if c = Char.ofNat 8 then ['\\', 'b']
  else if c = Char.ofNat 12 then ['\\', 'f']
  else if c.toNat < 32 ∨ c = '<' ∨ c = '>' ∨ c = '&' then
    ['\\', 'u', '0', '0', hexDigit (c.toNat / 16), hexDigit (c.toNat % 16)]
  else if c.toNat = 0x2028 then ['\\', 'u', '2', '0', '2', '8']
  else if c.toNat = 0x2029 then ['\\', 'u', '2', '0', '2', '9']
  else [c]

def goJsonStrBody : Chars → Chars
  | [] => []
  | c :: cs => goJsonChar c ++ goJsonStrBody cs

def goJsonStr (s : Chars) : Chars := '"' :: goJsonStrBody s ++ ['"']

def digitChar (d : Nat) : Char :=
  match d % 10 with
  | 0 => '0' | 1 => '1' | 2 => '2' | 3 => '3' | 4 => '4' | 5 => '5' | 6 => '6' | 7 => '7' | 8 => '8' | _ => '9'

def natDigitsAux : Nat → Nat → Chars → Chars
  | 0, _, acc => acc
  | f + 1, n, acc => if n / 10 = 0 then digitChar n :: acc else natDigitsAux f (n / 10) (digitChar n :: acc)

/-- decimal digits of `n` (`%d`) -/
def natDigits (n : Nat) : Chars := natDigitsAux (n + 1) n []

def intDigits : Int → Chars
  | .ofNat n => natDigits n
  | .negSucc n => '-' :: natDigits (n + 1)

/-- a decoded JSON value as the query contexts receive it (`any`).  Numbers: integers only (a `float64` with an
integral value below 1e21 is printed without exponent by both `encoding/json` and bun).  Object fields are given in
the order Go writes them (sorted by key). -/
inductive JV where
  | null
  | bool (b : Bool)
  | num (n : Int)
  | str (s : Chars)
  | arr (xs : List JV)
  | obj (kvs : List (Chars × JV))

mutual
def goJson : JV → Chars
  | .null => ['n', 'u', 'l', 'l']
  | .bool true => ['t', 'r', 'u', 'e']
  | .bool false => ['f', 'a', 'l', 's', 'e']
  | .num n => intDigits n
  | .str s => goJsonStr s
  | .arr xs => '[' :: goJsonList xs ++ [']']
  | .obj kvs => '{' :: goJsonFields kvs ++ ['}']
def goJsonList : List JV → Chars
  | [] => []
  | x :: xs => goJson x ++ goJsonListTail xs
def goJsonListTail : List JV → Chars
  | [] => []
  | x :: xs => ',' :: goJson x ++ goJsonListTail xs
def goJsonFields : List (Chars × JV) → Chars
  | [] => []
  | (k, v) :: kvs => goJsonStr k ++ ':' :: goJson v ++ goJsonFieldsTail kvs
def goJsonFieldsTail : List (Chars × JV) → Chars
  | [] => []
  | (k, v) :: kvs => ',' :: goJsonStr k ++ ':' :: goJson v ++ goJsonFieldsTail kvs
end

/-! ## 2. PostgreSQL scanner -/

inductive Kind where
  | ident (s : String)     -- identifier or key word, as written
  | qident (s : String)    -- "…"
  | str                    -- '…'
  | estr                   -- E'…'
  | dstr                   -- $tag$…$tag$
  | num
  | param (s : String)     -- $1
  | op (s : String)
  | punct (c : Char)       -- ( ) [ ] , ; . : and any other single character
  | typecast               -- ::
  | bad (why : String)     -- unterminated literal / comment
deriving DecidableEq, Repr, Inhabited

/-- a token: its kind and, for literals, their text -/
abbrev Tok := Kind × String

def shape (ts : List Tok) : List Kind := ts.map Prod.fst

/-- control state of the scanner.  No constructor carries the text of a literal. -/
inductive Ctl where
  | dflt
  | ident (acc : Chars)
  | num
  | op (acc : Chars)
  | colon
  | inStr (e : Bool)                 -- inside '…' (e: E'…', backslash escapes)
  | strBs                            -- E'…\
  | strQ (e : Bool)                  -- a quote seen inside a string: end, or first half of ''
  | strWs (e : Bool) (nl : Bool)     -- whitespace after the closing quote (a newline in it lets the literal continue)
  | qid (acc : Chars)
  | qidQ (acc : Chars)
  | lineCmt
  | bc (depth : Nat)
  | bcSlash (depth : Nat)
  | bcStar (depth : Nat)
  | dollar
  | param (acc : Chars)
  | dolTag (acc : Chars)
  | dolBody (tag : Chars) (pend : Option Chars)
deriving DecidableEq, Repr, Inhabited

inductive Act where
  | push (c : Char)      -- append to the text of the literal being read
  | emit (k : Kind)      -- token finished; its text is what was pushed since the previous emit
deriving DecidableEq, Repr

inductive CClass where
  | space | quote | dquote | dollar | colon | digit | istart | opc | other
deriving DecidableEq, Repr

def isSpaceC (c : Char) : Bool := c = ' ' || c = '\t' || c = '\n' || c = '\r' || c = Char.ofNat 12 || c = Char.ofNat 11
def isNewlineC (c : Char) : Bool := c = '\n' || c = '\r'
def isIdentStart (c : Char) : Bool := c.isAlpha || c = '_' || 128 ≤ c.toNat
def isOpChar (c : Char) : Bool :=
  c = '+' || c = '-' || c = '*' || c = '/' || c = '<' || c = '>' || c = '=' || c = '~' || c = '!' || c = '@' ||
  c = '#' || c = '%' || c = '^' || c = '&' || c = '|' || c = '`' || c = '?'
def isOpSpecial (c : Char) : Bool :=
  c = '~' || c = '!' || c = '@' || c = '#' || c = '%' || c = '^' || c = '&' || c = '|' || c = '`' || c = '?'

def classOf (c : Char) : CClass :=
  if isSpaceC c then .space
  else if c = '\'' then .quote
  else if c = '"' then .dquote
  else if c = '$' then .dollar
  else if c = ':' then .colon
  else if c.isDigit then .digit
  else if isIdentStart c then .istart
  else if isOpChar c then .opc
  else .other

/-- a character met at a token boundary -/
def stepD (c : Char) : Ctl × List Act :=
  match classOf c with
  | .space => (.dflt, [])
  | .quote => (.inStr false, [])
  | .dquote => (.qid [], [])
  | .dollar => (.dollar, [])
  | .colon => (.colon, [])
  | .digit => (.num, [.push c])
  | .istart => (.ident [c], [])
  | .opc => (.op [c], [])
  | .other => (.dflt, [.emit (.punct c)])

/-- PostgreSQL: an operator of several characters without one of `~ ! @ # % ^ & | \` ?` cannot end in `+` or `-`:
the trailing `+`/`-` characters are scanned again as operators of their own -/
def stripPM (acc : Chars) : Chars × Chars :=
  let r := acc.reverse
  let tail := (r.takeWhile (fun c => c = '+' || c = '-'))
  let keep := acc.length - tail.length
  if keep = 0 then (acc.take 1, acc.drop 1) else (acc.take keep, acc.drop keep)

def opToks (acc : Chars) : List Act :=
  if acc.isEmpty then []
  else if acc.any isOpSpecial || acc.length ≤ 1 then [.emit (.op (String.ofList acc))]
  else
    let (core, rest) := stripPM acc
    .emit (.op (String.ofList core)) :: rest.map (fun c => .emit (.op (String.ofList [c])))

def flushThen (k : Kind) (c : Char) : Ctl × List Act :=
  let (s, as) := stepD c
  (s, .emit k :: as)

def isEPrefix (acc : Chars) : Bool := acc = ['e'] || acc = ['E']
def isPlainStrPrefix (acc : Chars) : Bool :=
  acc = ['b'] || acc = ['B'] || acc = ['x'] || acc = ['X'] || acc = ['n'] || acc = ['N']

def stepIdent (acc : Chars) (c : Char) : Ctl × List Act :=
  if c = '\'' && isEPrefix acc then (.inStr true, [])
  else if c = '\'' && isPlainStrPrefix acc then (.inStr false, [])
  else if isIdentStart c || c.isDigit || c = '$' then (.ident (acc ++ [c]), [])
  else flushThen (.ident (String.ofList acc)) c

def strKind (e : Bool) : Kind := if e then .estr else .str

def pushAll (cs : Chars) : List Act := cs.map .push

def step : Ctl → Char → Ctl × List Act
  | .dflt, c => stepD c
  | .ident acc, c => stepIdent acc c
  | .num, c => if c.isDigit || c = '.' then (.num, [.push c]) else flushThen .num c
  | .op acc, c =>
    if c = '-' && acc.getLast? = some '-' then (.lineCmt, opToks acc.dropLast)
    else if c = '*' && acc.getLast? = some '/' then (.bc 1, opToks acc.dropLast)
    else if isOpChar c then (.op (acc ++ [c]), [])
    else
      let (s, as) := stepD c
      (s, opToks acc ++ as)
  | .colon, c =>
    if c = ':' then (.dflt, [.emit .typecast])
    else if c = '=' then (.dflt, [.emit (.op ":=")])
    else flushThen (.punct ':') c
  | .inStr e, c =>
    if c = '\'' then (.strQ e, [])
    else if c = '\\' && e then (.strBs, [.push c])
    else (.inStr e, [.push c])
  | .strBs, c => (.inStr true, [.push c])
  | .strQ e, c =>
    if c = '\'' then (.inStr e, [.push '\''])
    else if isSpaceC c then (.strWs e (isNewlineC c), [])
    else flushThen (strKind e) c
  | .strWs e nl, c =>
    if isSpaceC c then (.strWs e (nl || isNewlineC c), [])
    else if c = '\'' && nl then (.inStr e, [])
    else flushThen (strKind e) c
  | .qid acc, c => if c = '"' then (.qidQ acc, []) else (.qid (acc ++ [c]), [])
  | .qidQ acc, c => if c = '"' then (.qid (acc ++ ['"']), []) else flushThen (.qident (String.ofList acc)) c
  | .lineCmt, c => if isNewlineC c then (.dflt, []) else (.lineCmt, [])
  | .bc d, c => if c = '/' then (.bcSlash d, []) else if c = '*' then (.bcStar d, []) else (.bc d, [])
  | .bcSlash d, c => if c = '*' then (.bc (d + 1), []) else if c = '/' then (.bcSlash d, []) else (.bc d, [])
  | .bcStar d, c =>
    if c = '/' then (if d ≤ 1 then (.dflt, []) else (.bc (d - 1), []))
    else if c = '*' then (.bcStar d, []) else (.bc d, [])
  | .dollar, c =>
    if c.isDigit then (.param [c], [])
    else if isIdentStart c then (.dolTag [c], [])
    else if c = '$' then (.dolBody [] none, [])
    else flushThen (.punct '$') c
  | .param acc, c => if c.isDigit then (.param (acc ++ [c]), []) else flushThen (.param (String.ofList acc)) c
  | .dolTag acc, c =>
    if c = '$' then (.dolBody acc none, [])
    else if isIdentStart c || c.isDigit then (.dolTag (acc ++ [c]), [])
    else
      let (s, as) := stepIdent acc c
      (s, .emit (.punct '$') :: as)
  | .dolBody tag none, c => if c = '$' then (.dolBody tag (some []), []) else (.dolBody tag none, [.push c])
  | .dolBody tag (some p), c =>
    if c = '$' then
      (if p = tag then (.dflt, [.emit .dstr]) else (.dolBody tag (some []), .push '$' :: pushAll p))
    else if (isIdentStart c || (c.isDigit && !p.isEmpty)) then (.dolBody tag (some (p ++ [c])), [])
    else (.dolBody tag none, .push '$' :: pushAll p ++ [.push c])

/-- end of input -/
def finish : Ctl → List Act
  | .dflt => []
  | .ident acc => [.emit (.ident (String.ofList acc))]
  | .num => [.emit .num]
  | .op acc => opToks acc
  | .colon => [.emit (.punct ':')]
  | .inStr _ => [.emit (.bad "unterminated string")]
  | .strBs => [.emit (.bad "unterminated string")]
  | .strQ e => [.emit (strKind e)]
  | .strWs e _ => [.emit (strKind e)]
  | .qid _ => [.emit (.bad "unterminated quoted identifier")]
  | .qidQ acc => [.emit (.qident (String.ofList acc))]
  | .lineCmt => []
  | .bc _ => [.emit (.bad "unterminated comment")]
  | .bcSlash _ => [.emit (.bad "unterminated comment")]
  | .bcStar _ => [.emit (.bad "unterminated comment")]
  | .dollar => [.emit (.punct '$')]
  | .param acc => [.emit (.param (String.ofList acc))]
  | .dolTag acc => [.emit (.punct '$'), .emit (.ident (String.ofList acc))]
  | .dolBody _ _ => [.emit (.bad "unterminated dollar-quoted string")]

/-- feed characters: final control state and the actions performed, in order -/
def run : Ctl → Chars → Ctl × List Act
  | s, [] => (s, [])
  | s, c :: cs =>
    let r := step s c
    let r' := run r.1 cs
    (r'.1, r.2 ++ r'.2)

/-- all actions of scanning `cs` to the end from state `s` -/
def acts (s : Ctl) (cs : Chars) : List Act :=
  let r := run s cs
  r.2 ++ finish r.1

/-- turn actions into tokens: the text of a token is what was pushed since the previous emit -/
def interp : Chars → List Act → List Tok
  | _, [] => []
  | acc, .push c :: as => interp (acc ++ [c]) as
  | acc, .emit k :: as => (k, String.ofList acc) :: interp [] as

def emitted : List Act → List Kind
  | [] => []
  | .push _ :: as => emitted as
  | .emit k :: as => k :: emitted as

def lexFrom (s : Ctl) (cs : Chars) : List Tok := interp [] (acts s cs)
def lexL (cs : Chars) : List Tok := lexFrom .dflt cs

/-- the PostgreSQL scanner -/
def lex (s : String) : List Tok := lexL s.toList

/-! ## 3. renderers -/

inductive Piece where
  | code (s : Chars)     -- SQL text written by the program
  | lit (body : Chars)   -- a quoted literal: `'` body `'`
deriving DecidableEq, Repr

def Piece.chars : Piece → Chars
  | .code s => s
  | .lit b => '\'' :: b ++ ['\'']

def flat : List Piece → Chars
  | [] => []
  | p :: ps => p.chars ++ flat ps

inductive Rej where
  | invalid     -- errInvalidQuery  (HTTP 400 in v2, and in v1 after the repair)
  | error       -- a plain error (HTTP 500)
  | panic       -- logsQueryBuilder panics on an unknown key (HTTP 500 through the Recoverer middleware)
deriving DecidableEq, Repr

/-- `strings.Split(s, ":")` -/
def splitColonAux : Chars → Chars → List Chars
  | cur, [] => [cur]
  | cur, c :: cs => if c = ':' then cur :: splitColonAux [] cs else splitColonAux (cur ++ [c]) cs
def splitColon (s : Chars) : List Chars := splitColonAux [] s

def isWordC (c : Char) : Bool := c.isAlphanum || c = '_'

/-- `^[a-zA-Z0-9_]+(?:-[a-zA-Z0-9_]+)*$` (`ledger.AccountSegmentRegex`, anchored) -/
def segAux : Bool → Chars → Bool
  | prevWord, [] => prevWord
  | prevWord, c :: cs =>
    if isWordC c then segAux true cs
    else if c = '-' && prevWord then segAux false cs
    else false
def validSegment (s : Chars) : Bool := segAux false s

/-- `checkAccountAddressFilter` (the repair): every non-empty segment is a valid account segment -/
def acceptedSegs (segs : List Chars) : Bool := segs.all (fun s => s.isEmpty || validSegment s)
def accepted (a : Chars) : Bool := acceptedSegs (splitColon a)

def joinColon : List Chars → Chars
  | [] => []
  | [s] => s
  | s :: ss => s ++ ':' :: joinColon ss

/-- the harmless twin of an address pattern: every character of every segment becomes `a` -/
def harmlessSeg (s : Chars) : Chars := s.map (fun _ => 'a')
def harmlessAddr (a : Chars) : Chars := joinColon ((splitColon a).map harmlessSeg)

/-- `K_array @@ ('$[i] == "seg"')::jsonpath` for every non-empty segment, from position `i` on -/
def segParts (key : Chars) : Nat → List Chars → List Piece
  | _, [] => []
  | i, s :: ss =>
    if s.isEmpty then segParts key (i + 1) ss
    else .code (" and ".toList ++ key ++ "_array @@ (".toList)
      :: .lit ("$[".toList ++ natDigits i ++ "] == \"".toList ++ s ++ ['"'])
      :: .code ")::jsonpath".toList :: segParts key (i + 1) ss

/-- `filterAccountAddress(address, key)` after the repair -/
def addressPieces (a key : Chars) : Except Rej (List Piece) :=
  let segs := splitColon a
  if !acceptedSegs segs then .error .invalid
  else if segs.any List.isEmpty then
    .ok (.code ("jsonb_array_length(".toList ++ key ++ "_array) = ".toList ++ natDigits segs.length) :: segParts key 0 segs)
  else .ok [.code (key ++ " = ".toList), .lit a]

/-- the JSON object `{"i":"seg",…,"n":null}` that `filterAccountAddressOnTransactions` marshals: keys are the decimal
positions as strings, written by `encoding/json` in string order -/
def segFields : Nat → List Chars → List (Chars × Chars)
  | _, [] => []
  | i, s :: ss => if s.isEmpty then segFields (i + 1) ss else (natDigits i, '"' :: s ++ ['"']) :: segFields (i + 1) ss

def charsLe (a b : Chars) : Bool := !(b < a)

def fieldText : List (Chars × Chars) → Chars
  | [] => []
  | (k, v) :: r => '"' :: k ++ '"' :: ':' :: v ++ (match r with | [] => [] | _ => ',' :: fieldText r)

/-- insertion sort by key (the keys are distinct) -/
def insertField (f : Chars × Chars) : List (Chars × Chars) → List (Chars × Chars)
  | [] => [f]
  | g :: r => if charsLe f.1 g.1 then f :: g :: r else g :: insertField f r
def sortFields : List (Chars × Chars) → List (Chars × Chars)
  | [] => []
  | f :: r => insertField f (sortFields r)

def txArrayJson (segs : List Chars) : Chars :=
  let fields := sortFields (segFields 0 segs ++ [(natDigits segs.length, "null".toList)])
  '[' :: '{' :: fieldText fields ++ ['}', ']']

/-- `filterAccountAddressOnTransactions(address, source, destination)` after the repair -/
def addressOnTxPieces (a : Chars) (source destination : Bool) : Except Rej (List Piece) :=
  let segs := splitColon a
  if !acceptedSegs segs then .error .invalid
  else
    let (sc, dc, data) :=
      if segs.any List.isEmpty then ("sources_arrays @> ".toList, "destinations_arrays @> ".toList, txArrayJson segs)
      else ("sources @> ".toList, "destinations @> ".toList, '[' :: '"' :: a ++ ['"', ']'])
    .ok ((if source then [.code sc, .lit data] else []) ++
         (if source && destination then [Piece.code " or ".toList] else []) ++
         (if destination then [.code dc, .lit data] else []))

def renderPieces (r : Except Rej (List Piece)) : Except Rej String := r.map (fun ps => String.ofList (flat ps))

/-- `filterAccountAddress` as text -/
def renderAddress (a k : String) : Except Rej String := renderPieces (addressPieces a.toList k.toList)
/-- `filterAccountAddressOnTransactions` as text -/
def renderAddressOnTx (a : String) (source destination : Bool) : Except Rej String :=
  renderPieces (addressOnTxPieces a.toList source destination)
def harmless (a : String) : String := String.ofList (harmlessAddr a.toList)

/-- how bun renders one `?` argument of type `any` coming out of a decoded JSON body (or a v1 string parameter) -/
def argPiece : JV → Piece
  | .null => .code "NULL".toList
  | .bool true => .code "TRUE".toList
  | .bool false => .code "FALSE".toList
  | .num n => .code (intDigits n)
  | .str s => .lit (quoteBody s)
  | v => .lit (jsonBody (goJson v))

inductive Endpoint where
  | accounts | transactions | balances | logs
deriving DecidableEq, Repr

/-- a filter key as the query contexts classify it -/
inductive FKey where
  | address | account | source | destination
  | metadata (k : Chars)          -- `metadata[k]`
  | balanceOf (asset : Chars)     -- `balance[asset]`
  | balance
  | reference | timestamp | date
  | unknown
deriving DecidableEq, Repr

/-- `query.DefaultComparisonOperatorsMapping` (a missing key yields the empty string) -/
def opSql (op : String) : Chars :=
  if op = "$match" then ['='] else if op = "$gte" then ['>', '='] else if op = "$gt" then ['>']
  else if op = "$lte" then ['<', '='] else if op = "$lt" then ['<'] else []

def balanceHead : Chars := "(\n\t\t\t\tselect balance_from_volumes(post_commit_volumes)\n\t\t\t\tfrom moves\n\t\t\t\twhere ".toList
def balanceTailPre : Chars := "\n\t\t\t\torder by seq desc\n\t\t\t\tlimit 1\n\t\t\t) ".toList
/-- the balance conditions compare with the operator of the filter (`query.DefaultComparisonOperatorsMapping`) -/
def balanceTail (op : String) : Chars := balanceTailPre ++ opSql op ++ [' ']

/-- the column a metadata filter is applied to; `pit`: the request carries a point in time -/
def metadataColumn (ep : Endpoint) (pit : Bool) : Chars :=
  match ep, pit with
  | .accounts, true => "accounts_metadata.metadata".toList
  | .accounts, false => "metadata".toList
  | .transactions, true => "transactions_metadata.metadata".toList
  | .transactions, false => "metadata".toList
  | .balances, true => "am.metadata".toList
  | .balances, false => "accounts.metadata".toList
  | .logs, _ => []

def isStr : JV → Option Chars
  | .str s => some s
  | _ => none

/-- one `{op:{key:value}}` leaf through the query context of listing `ep` (ledger name `ledger`) -/
def leafPieces (ep : Endpoint) (pit : Bool) (ledger : Chars) (key : FKey) (op : String) (v : JV) : Except Rej (List Piece) :=
  match ep, key with
  | .accounts, .address =>
    if op ≠ "$match" then .error .error
    else match isStr v with
      | some a => addressPieces a "accounts.address".toList
      | none => .error .invalid
  | .balances, .address =>
    if op ≠ "$match" then .error .invalid
    else match isStr v with
      | some a => addressPieces a "account_address".toList
      | none => .error .invalid
  | .transactions, .account =>
    if op ≠ "$match" then .error .invalid
    else match isStr v with
      | some a => addressOnTxPieces a true true
      | none => .error .invalid
  | .transactions, .source =>
    if op ≠ "$match" then .error .error
    else match isStr v with
      | some a => addressOnTxPieces a true false
      | none => .error .invalid
  | .transactions, .destination =>
    if op ≠ "$match" then .error .error
    else match isStr v with
      | some a => addressOnTxPieces a false true
      | none => .error .invalid
  | .logs, .metadata _ => .error .panic
  | _, .metadata k =>
    if op ≠ "$match" then .error .invalid
    else .ok [.code (metadataColumn ep pit ++ " @> ".toList), .lit (jsonBody (goJson (.obj [(k, v)])))]
  | .accounts, .balanceOf asset =>
    .ok [.code (balanceHead ++ "asset = ".toList), .lit (quoteBody asset),
         .code " and account_address = accounts.address and ledger = ".toList, .lit (quoteBody ledger),
         .code (balanceTail op), argPiece v]
  | .accounts, .balance =>
    .ok [.code (balanceHead ++ "account_address = accounts.address and ledger = ".toList), .lit (quoteBody ledger),
         .code (balanceTail op), argPiece v]
  | .transactions, .reference => .ok [.code ("reference ".toList ++ opSql op ++ [' ']), argPiece v]
  | .transactions, .timestamp => .ok [.code ("timestamp ".toList ++ opSql op ++ [' ']), argPiece v]
  | .logs, .date => .ok [.code ("date ".toList ++ opSql op ++ [' ']), argPiece v]
  | .logs, _ => .error .panic
  | _, _ => .error .invalid

/-- `query.Builder` -/
inductive Expr where
  | leaf (key : FKey) (op : String) (v : JV)
  | set (isAnd : Bool) (items : List Expr)
  | not (e : Expr)

mutual
def exprPieces (ep : Endpoint) (pit : Bool) (ledger : Chars) : Expr → Except Rej (List Piece)
  | .leaf k op v => leafPieces ep pit ledger k op v
  | .set _ [] => .ok [.code "1 = 1".toList]
  | .set isAnd (e :: es) =>
    match exprPieces ep pit ledger e with
    | .error r => .error r
    | .ok ps =>
      match setTail ep pit ledger isAnd es with
      | .error r => .error r
      | .ok qs => .ok (.code ['('] :: ps ++ qs)
  | .not e =>
    match exprPieces ep pit ledger e with
    | .error r => .error r
    | .ok ps => .ok (.code "not (".toList :: ps ++ [.code [')']])
def setTail (ep : Endpoint) (pit : Bool) (ledger : Chars) (isAnd : Bool) : List Expr → Except Rej (List Piece)
  | [] => .ok [.code [')']]
  | e :: es =>
    match exprPieces ep pit ledger e with
    | .error r => .error r
    | .ok ps =>
      match setTail ep pit ledger isAnd es with
      | .error r => .error r
      | .ok qs => .ok (.code (if isAnd then ") and (".toList else ") or (".toList) :: ps ++ qs)
end

/-- the `where` text a filter contributes to the statement (what `qb.Build` returns with its arguments inlined by bun) -/
def renderFilter (ep : Endpoint) (pit : Bool) (ledger : String) (e : Expr) : Except Rej String :=
  renderPieces (exprPieces ep pit ledger.toList e)

/-! ### the harmless twin of a value: every character of every string becomes `a` -/

def harmlessChars (s : Chars) : Chars := s.map (fun _ => 'a')

mutual
def harmlessJV : JV → JV
  | .str s => .str (harmlessChars s)
  | .arr xs => .arr (harmlessJVs xs)
  | .obj kvs => .obj (harmlessFields kvs)
  | v => v
def harmlessJVs : List JV → List JV
  | [] => []
  | x :: xs => harmlessJV x :: harmlessJVs xs
def harmlessFields : List (Chars × JV) → List (Chars × JV)
  | [] => []
  | (k, v) :: kvs => (harmlessChars k, harmlessJV v) :: harmlessFields kvs
end

/-- address-like keys keep the `:` separators of their value -/
def isAddressKey : FKey → Bool
  | .address | .account | .source | .destination => true
  | _ => false

def harmlessValue (key : FKey) (v : JV) : JV :=
  match isAddressKey key, v with
  | true, .str a => .str (harmlessAddr a)
  | _, v => harmlessJV v

def harmlessKey : FKey → FKey
  | .metadata k => .metadata (harmlessChars k)
  | .balanceOf a => .balanceOf (harmlessChars a)
  | k => k

mutual
def harmlessExpr : Expr → Expr
  | .leaf k op v => .leaf (harmlessKey k) op (harmlessValue k v)
  | .set isAnd es => .set isAnd (harmlessExprs es)
  | .not e => .not (harmlessExpr e)
def harmlessExprs : List Expr → List Expr
  | [] => []
  | e :: es => harmlessExpr e :: harmlessExprs es
end

/-! ### regular expressions of the query contexts (Go `regexp`, leftmost-first, `.` does not match a newline) -/

def startsWith : Chars → Chars → Option Chars
  | [], s => some s
  | _ :: _, [] => none
  | p :: ps, c :: cs => if p = c then startsWith ps cs else none

/-- the part of `s` before its first newline -/
def lineOf : Chars → Chars
  | [] => []
  | c :: cs => if c = '\n' then [] else c :: lineOf cs

/-- longest prefix of `l` that is followed by `]`, i.e. `l` up to its last `]` (none if there is no `]`) -/
def uptoLastBracket (l : Chars) : Option Chars :=
  match (l.reverse.dropWhile (fun c => c ≠ ']')) with
  | [] => none
  | _ :: r => some r.reverse

/-- first match of `prefix\[(.+)\]` (`minLen = 1`) or `prefix\[(.*)\]` (`minLen = 0`) in `s`: the captured group -/
def bracketKeyAux (pre : Chars) (minLen : Nat) : Nat → Chars → Option Chars
  | 0, _ => none
  | fuel + 1, s =>
    match s with
    | [] => none
    | _ :: rest =>
      match startsWith pre s with
      | some after =>
        match uptoLastBracket (lineOf after) with
        | some g => if minLen ≤ g.length then some g else bracketKeyAux pre minLen fuel rest
        | none => bracketKeyAux pre minLen fuel rest
      | none => bracketKeyAux pre minLen fuel rest

def metadataKeyOf (s : Chars) : Option Chars := bracketKeyAux "metadata[".toList 1 (s.length + 1) s
def balanceKeyOf (s : Chars) : Option Chars := bracketKeyAux "balance[".toList 0 (s.length + 1) s

/-- the `switch` at the top of each query context -/
def classifyKey (ep : Endpoint) (key : String) : FKey :=
  let ks := key.toList
  match ep with
  | .accounts =>
    if key = "address" then .address
    else match metadataKeyOf ks with
      | some k => .metadata k
      | none => match balanceKeyOf ks with
        | some a => .balanceOf a
        | none => if key = "balance" then .balance else .unknown
  | .transactions =>
    if key = "reference" then .reference else if key = "timestamp" then .timestamp
    else if key = "account" then .account else if key = "source" then .source
    else if key = "destination" then .destination
    else match metadataKeyOf ks with
      | some k => .metadata k
      | none => .unknown
  | .balances =>
    if key = "address" then .address
    else match metadataKeyOf ks with
      | some k => .metadata k
      | none => .unknown
  | .logs => if key = "date" then .date else .unknown

end SqlText
