/-! Model of the two generic components between the commander's `commit` and the store:
`batching.Batcher[T]` (internal/engine/utils/batching/batcher.go) and `job.Runner` with ONE worker
(internal/engine/utils/job/jobs.go), as the commander builds them: `NewBatcher(store.InsertLogs, 1, maxBatchSize)`.

What is Go state and what is ghost state
* `pending`   = `Batcher.pending` (under `Batcher.mu`), oldest first;
* `inflight`  = the job the single worker is running: the batch `nextBatch` cut, handed to the runner function
                (`InsertLogs`), whose call has not returned yet;
* `phase`     = where `Runner.Run` is: not called yet (`fresh`); in its `select` loop (`running`); in the stop
                branch, inside `w.StopAndWait()`, waiting for the worker (`stopping`); returned (`stopped`);
                left by the panic that a failing runner function raises (`dead`);
* `blocked`   = `Append` calls parked in `Runner.Next()` (the send on the unbuffered `newJobsAvailable`: it only
                completes while `Run` is in its `select`), `closeCalled` / `closeReturned` = the `Close()` call;
* ghost: `appended` (every object ever given to `Append`, in order), `batches` (every batch handed to the runner
  function, oldest first), `calls` (the calls that returned, with their verdict), `persisted` / `failed` (the
  objects of the calls that returned nil / an error), `acked` (objects whose callback has run, in order).

The transitions are what one operation of the harness causes once the component is quiescent again
(`harness/batcher.go`):
* `append x`  — `Append(x, cb)`: `pending = append(pending, x)`, then `Next()`.  In the `select` loop `Next` is
                received at once; if the worker is parked (`parkedWorkers > 0`, here: nothing in flight) the loop
                calls `nextJob` = `nextBatch` and hands the job to the worker.  In every other phase the call stays
                parked in `Next` (the object IS in `pending`).
* `start`     — `go Run(ctx)`: the parked `Next` calls are received one by one; the first one cuts a batch.
* `release`   — the runner function returns nil: the worker sends the job on `terminatedJobs`; the loop calls
                `job.Terminated()` (every callback of the batch, in order), then `nextJob`: the next batch, or the
                worker is parked.  In the stop branch nobody reads `terminatedJobs`: the batch is persisted, no
                callback runs, `Run` and `Close` return.
* `fail`      — the runner function returns an error: the worker panics, the panic is forwarded through `jobsErrors`
                and re-raised by the loop: `Run` dies; no callback, no further batch.  In the stop branch the error
                stays in the buffered channel: `Run` and `Close` return, no callback.
* `close`     — `Close()`: the loop takes the stop request, closes `jobs`, waits for the worker (`StopAndWait`), returns
                without looking at `pending`.  After the loop died nobody receives the request: the call never returns.
                Not issued before `start` nor a second time (both would block for ever without touching anything).

`nextBatch` = at most `max` objects from the FRONT of `pending`, the rest stays, in order (`take` / `drop`): both
branches of the Go function (`len > max`: `pending[:max]`, `pending[max:]`; else everything, a fresh empty queue).
Core-only Lean (the driver links this file). -/
namespace Batcher

inductive Phase where
  | fresh | running | stopping | stopped | dead
deriving DecidableEq, Repr, Inhabited

inductive Op where
  | append (x : Nat)
  | release
  | fail
  | close
  | start
deriving DecidableEq, Repr, Inhabited

structure State where
  max : Nat
  appended : List Nat := []
  pending : List Nat := []
  inflight : Option (List Nat) := none
  batches : List (List Nat) := []
  calls : List (List Nat × Bool) := []
  persisted : List Nat := []
  failed : List Nat := []
  acked : List Nat := []
  phase : Phase := .fresh
  blocked : Nat := 0
  appendsReturned : Nat := 0
  closeCalled : Bool := false
  closeReturned : Bool := false
deriving Repr, DecidableEq, Inhabited

def init (max : Nat) : State := { max := max }

/-- the objects of the batch in flight (none: the empty list) -/
def State.flight (s : State) : List Nat := s.inflight.getD []

/-- `nextJob` when the worker has nothing to do: `nextBatch` cuts at most `max` objects from the front of the queue and
the job goes to the worker; nothing queued: `nil`, the worker (stays) parked -/
def cut (s : State) : State :=
  if s.pending = [] then s
  else { s with inflight := some (s.pending.take s.max),
                pending := s.pending.drop s.max,
                batches := s.batches ++ [s.pending.take s.max] }

def step (s : State) : Op → State
  | .append x =>
    let s1 := { s with appended := s.appended ++ [x], pending := s.pending ++ [x] }
    match s.phase with
    | .running =>
      let s2 := { s1 with appendsReturned := s1.appendsReturned + 1 }
      if s.inflight.isNone then cut s2 else s2
    | _ => { s1 with blocked := s1.blocked + 1 }
  | .start =>
    match s.phase with
    | .fresh => cut { s with phase := .running, blocked := 0, appendsReturned := s.appendsReturned + s.blocked }
    | _ => s
  | .release =>
    match s.inflight, s.phase with
    | some b, .running =>
      cut { s with inflight := none, calls := s.calls ++ [(b, true)], persisted := s.persisted ++ b, acked := s.acked ++ b }
    | some b, .stopping =>
      { s with inflight := none, calls := s.calls ++ [(b, true)], persisted := s.persisted ++ b, phase := .stopped, closeReturned := true }
    | _, _ => s
  | .fail =>
    match s.inflight, s.phase with
    | some b, .running =>
      { s with inflight := none, calls := s.calls ++ [(b, false)], failed := s.failed ++ b, phase := .dead }
    | some b, .stopping =>
      { s with inflight := none, calls := s.calls ++ [(b, false)], failed := s.failed ++ b, phase := .stopped, closeReturned := true }
    | _, _ => s
  | .close =>
    if s.closeCalled then s else
    match s.phase with
    | .running =>
      if s.inflight.isNone then { s with closeCalled := true, closeReturned := true, phase := .stopped }
      else { s with closeCalled := true, phase := .stopping }
    | .dead => { s with closeCalled := true }
    | _ => s

def runFrom (s : State) (ops : List Op) : State := ops.foldl step s

def run (max : Nat) (ops : List Op) : State := runFrom (init max) ops

/-! ### what the harness observes of one operation (the driver prints this next to the real component's record) -/

inductive Ev where
  | ret (b : List Nat) (ok : Bool)   -- the runner function's call returns (with the batch it was given)
  | ack (x : Nat)                    -- a callback runs
  | batch (b : List Nat)             -- the runner function is entered with this batch
deriving DecidableEq, Repr, Inhabited

/-- is the operation carried out at all in this state (the harness makes the same decision from what it has observed:
nothing to release or fail, `Run` or `Close` already called, `Close` before `Run`) -/
def applies (s : State) : Op → Bool
  | .append _ => true
  | .start => s.phase == .fresh
  | .release => s.inflight.isSome
  | .fail => s.inflight.isSome
  | .close => !s.closeCalled && s.phase != .fresh

/-- the events between the operation and the next quiescent state, in order -/
def events (s : State) (op : Op) : List Ev :=
  let s' := step s op
  let returned : List Ev := match op, s.inflight with
    | .release, some b => [.ret b true]
    | .fail, some b => [.ret b false]
    | _, _ => []
  let acks : List Ev := (s'.acked.drop s.acked.length).map .ack
  let handed : List Ev := (s'.batches.drop s.batches.length).map .batch
  returned ++ acks ++ handed

end Batcher
