/-! Model G — `ProcessBulk` / `bulkHandler` (internal/api/v2/{bulk,controllers_bulk}.go).

An element is abstracted to what decides the control flow: which action it names (or an unknown one),
whether its `data` decodes for that action, and what the backend answers when called.  The backend is a
parameter (`ok : Nat → Bool`, indexed by the element's position) — the real one is the engine. -/
namespace Bulk

inductive Action | create | addMeta | revert | delMeta | unknown
deriving DecidableEq, Repr, Inhabited

structure Elem where
  action : Action
  parses : Bool          -- `data` decodes into the request type of `action`
deriving DecidableEq, Repr, Inhabited

/-- the answer given for one element -/
inductive Res
  | ok (a : Action)      -- responseType = the action
  | err                  -- responseType = "ERROR"
deriving DecidableEq, Repr, Inhabited

structure Out where
  results : List Res     -- one per processed element, in order
  calls   : List Nat     -- positions of the elements handed to the backend, in call order
  failed  : Bool         -- `errorsInBulk`
deriving DecidableEq, Repr, Inhabited

/-- does element `e` at position `i` fail?  Unknown action, undecodable data, or a backend error. -/
def fails (ok : Nat → Bool) (i : Nat) (e : Elem) : Bool :=
  e.action == .unknown || !e.parses || !ok i

/-- is the backend called for this element? -/
def called (e : Elem) : Bool := e.action != .unknown && e.parses

/-- the answer given to element `e` at position `i` -/
def answer (ok : Nat → Bool) (i : Nat) (e : Elem) : Res := if fails ok i e then .err else .ok e.action

/-- `ProcessBulk` from position `i` on: answer the element, then stop (failure without
continue-on-failure) or go on. -/
def go (ok : Nat → Bool) (cont : Bool) : Nat → List Elem → Out
  | _, [] => ⟨[], [], false⟩
  | i, e :: es =>
    let r := if fails ok i e && !cont then ⟨[], [], false⟩ else go ok cont (i + 1) es
    ⟨answer ok i e :: r.results, (if called e then [i] else []) ++ r.calls, fails ok i e || r.failed⟩


/-- `sharedapi.QueryParamBool(r, "continueOnFailure")`: the value of the query parameter, lower-cased, is `1` or `true`;
`none` = the parameter is absent (a bare `?continueOnFailure` has the empty value). -/
def contFlag : Option String → Bool
  | none => false
  | some v => v.toLower == "1" || v.toLower == "true"

def processBulk (ok : Nat → Bool) (cont : Bool) (es : List Elem) : Out := go ok cont 0 es

/-- HTTP status written by `bulkHandler` -/
def status (o : Out) : Nat := if o.failed then 400 else 200

/-- number of elements processed: all of them, or up to and including the first failing one -/
def processed (ok : Nat → Bool) (cont : Bool) : Nat → List Elem → Nat
  | _, [] => 0
  | i, e :: es => if fails ok i e && !cont then 1 else 1 + processed ok cont (i + 1) es

end Bulk
