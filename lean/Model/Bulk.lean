/-! Model G — `ProcessBulk` / `bulkHandler` (internal/api/v2/{bulk,controllers_bulk}.go).

An element is abstracted to what decides the control flow: which action it names (or an unknown one),
whether its `data` decodes for that action, and what the backend answers when called.  The backend is a
parameter (`ok : Nat → Bool`, indexed by the element's position) — the real one is the engine. -/
namespace Bulk

inductive Action | create | addMeta | revert | delMeta | unknown
deriving DecidableEq, Repr, Inhabited

structure Elem where
  action : Action
  parses : Bool          -- `data` decodes into the request type of `action`
deriving DecidableEq, Repr, Inhabited

/-- the answer given for one element -/
inductive Res
  | ok (a : Action)      -- responseType = the action
  | err                  -- responseType = "ERROR"
deriving DecidableEq, Repr, Inhabited

structure Out where
  results : List Res     -- one per processed element, in order
  calls   : List Nat     -- positions of the elements handed to the backend, in call order
  failed  : Bool         -- `errorsInBulk`
deriving DecidableEq, Repr, Inhabited

/-- does element `e` at position `i` fail?  Unknown action, undecodable data, or a backend error. -/
def fails (ok : Nat → Bool) (i : Nat) (e : Elem) : Bool :=
  e.action == .unknown || !e.parses || !ok i

/-- is the backend called for this element? -/
def called (e : Elem) : Bool := e.action != .unknown && e.parses

/-- the answer given to element `e` at position `i` -/
def answer (ok : Nat → Bool) (i : Nat) (e : Elem) : Res := if fails ok i e then .err else .ok e.action

/-- `ProcessBulk` from position `i` on: answer the element, then stop (failure without
continue-on-failure) or go on. -/
def go (ok : Nat → Bool) (cont : Bool) : Nat → List Elem → Out
  | _, [] => ⟨[], [], false⟩
  | i, e :: es =>
    let r := if fails ok i e && !cont then ⟨[], [], false⟩ else go ok cont (i + 1) es
    ⟨answer ok i e :: r.results, (if called e then [i] else []) ++ r.calls, fails ok i e || r.failed⟩


/-- `sharedapi.QueryParamBool(r, "continueOnFailure")`: the value of the query parameter, lower-cased, is `1` or `true`;
`none` = the parameter is absent (a bare `?continueOnFailure` has the empty value). -/
def contFlag : Option String → Bool
  | none => false
  | some v => v.toLower == "1" || v.toLower == "true"

def processBulk (ok : Nat → Bool) (cont : Bool) (es : List Elem) : Out := go ok cont 0 es

/-- HTTP status written by `bulkHandler` -/
def status (o : Out) : Nat := if o.failed then 400 else 200

/-- number of elements processed: all of them, or up to and including the first failing one -/
def processed (ok : Nat → Bool) (cont : Bool) : Nat → List Elem → Nat
  | _, [] => 0
  | i, e :: es => if fails ok i e && !cont then 1 else 1 + processed ok cont (i + 1) es

/-! ### what an element looks like on the wire, and what the backend answers

`Elem.parses` and the function `ok` above are all that decides the control flow of `ProcessBulk`.  The two maps below say
where they come from for the element bodies the differential sends (`harness/bulk.go`): `decodes` is the verdict of the
`json.Unmarshal` calls `ProcessBulk` makes BEFORE it calls the backend (an element that does not decode is answered `ERROR`
and never executed); `Ans` is the answer of the backend call itself (for a transaction given as a script the engine
compiles the script first: `engine.Ledger.CreateTransaction` → `Commander.exec` → `NewErrNoScript` / `NewErrCompilationFailed`). -/

/-- the body shapes of the `data` field (the names are those of the harness; `other` = an ordinary body of the action) -/
inductive Body
  | other            -- well-formed for the action: postings / a target with an id of the right kind / an id
  | script           -- CREATE_TRANSACTION given as a Numscript that compiles (with or without variables)
  | scriptBroken     -- … as a Numscript that does not compile, or whose variables are missing
  | both             -- non-empty postings AND a script
  | neither          -- no postings and no script (also `{"postings":[]}`, `{"script":{"plain":""}}`, `null`)
  | null             -- the JSON value `null`
  | noData           -- no `data` member at all
  | wrongShape       -- a JSON value of another kind (`7`)
  | badField         -- an object with a member of the wrong type for the request struct
  | noTarget         -- metadata actions: no `targetId`
  | txIdNotNumber    -- metadata actions: `targetType` TRANSACTION with a string / fractional id
  | looseId          -- metadata actions: an id the decoder lets through although the target has no such id
                     -- (ACCOUNT with a number / object / empty string, TRANSACTION with `null` or a negative number,
                     -- an unknown or missing `targetType`)
  | idNotNumber      -- REVERT_TRANSACTION: `id` a string or a fraction
  | noId             -- REVERT_TRANSACTION: no `id` (the backend is called with a nil id)
  | flagNotBool      -- REVERT_TRANSACTION: `force` is not a boolean
deriving DecidableEq, Repr, Inhabited

/-- do the `json.Unmarshal` calls `ProcessBulk` makes for action `a` accept this body?  (`null` decodes into the zero
request; for the metadata actions the zero request has no `targetId`, which the second `Unmarshal` refuses) -/
def decodes (a : Action) (b : Body) : Bool :=
  match b with
  | .wrongShape | .badField | .noData => false
  | .noTarget | .txIdNotNumber => !(a == .addMeta || a == .delMeta)
  | .idNotNumber | .flagNotBool => !(a == .revert)
  | .null => !(a == .addMeta || a == .delMeta)
  | _ => true

/-- what the handler's error mapping looks at in the error a backend call returned -/
structure BErr where
  insufficient : Bool   -- `machine.IsInsufficientFundError`
  command      : Bool   -- `engine.IsCommandError`
  saveNotFound : Bool   -- `command.IsSaveMetaError(err, TRANSACTION_NOT_FOUND)`
  delNotFound  : Bool   -- `command.IsDeleteMetaError(err, TRANSACTION_NOT_FOUND)`
deriving DecidableEq, Repr, Inhabited

/-- the answer of one backend call -/
inductive Ans
  | ok
  | err (e : BErr)
deriving DecidableEq, Repr, Inhabited

def Ans.isOk : Ans → Bool
  | .ok => true
  | .err _ => false

/-- an error of the engine that is none of the classes the handlers single out (NO_SCRIPT, COMPILATION_FAILED, CONFLICT,
NO_POSTINGS, a revert error, a Numscript run-time error other than insufficient funds …): a command error -/
def BErr.plainCommand : BErr := ⟨false, true, false, false⟩

/-- the engine in front of the scripted answer: a transaction without script is refused (`NewErrNoScript`), one whose
script does not compile too (`NewErrCompilationFailed`), before anything else happens; `both` is executed from its
postings (`ToRunScript` drops the script) -/
def engineAns (a : Action) (b : Body) (scripted : Ans) : Ans :=
  if a == .create && (b == .scriptBroken || b == .neither || b == .null) then .err BErr.plainCommand else scripted

/-- the `errorCode` of a result: the switch after each backend call; before the call every failure is `VALIDATION` -/
def backendCode (a : Action) (e : BErr) : String :=
  match a with
  | .create => if e.insufficient then "INSUFFICIENT_FUND" else if e.command then "VALIDATION" else "INTERNAL"
  | .addMeta => if e.saveNotFound then "NOT_FOUND" else "INTERNAL"
  | .revert => if e.command then "VALIDATION" else "INTERNAL"
  | .delMeta => if e.delNotFound then "NOT_FOUND" else "INTERNAL"
  | .unknown => "VALIDATION"

/-- the error code answered for element `e` at position `i` (`""` = no error) -/
def codeOf (back : Nat → Ans) (i : Nat) (e : Elem) : String :=
  if !called e then "VALIDATION" else
  match back i with
  | .ok => ""
  | .err b => backendCode e.action b

/-- the error codes of the results, computed along `go` with `ok i = (back i).isOk` -/
def goCodes (back : Nat → Ans) (cont : Bool) : Nat → List Elem → List String
  | _, [] => []
  | i, e :: es =>
    codeOf back i e :: (if fails (fun k => (back k).isOk) i e && !cont then [] else goCodes back cont (i + 1) es)

end Bulk
