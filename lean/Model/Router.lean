/-! Model H — the HTTP router of `internal/api` and its read-only gate (C19).

What is modelled (and nothing more than the property needs):

* `api.ReadOnly` (`read_only.go`): a middleware that lets a request through iff its method string is *exactly* one of
  the pass methods (`GET`, `OPTIONS`, `HEAD`), by string comparison — `readOnlyGate`; `gateOf pass` is the same gate over
  the pass list regenerated from the source.
* chi: a mux runs its `Use`d middlewares **before** routing; routing never changes the method; `Route`/`Mount` hang a
  sub-mux below a pattern prefix (once a mount is entered there is no way back); `Group`/`With` only add inline
  middlewares.  Matching is segment-wise (`{param}` matches one segment, the empty one only when more path follows),
  static beats param beats mount catch-all, per method; the 405-hint is sticky (`rctx.methodNotAllowed`).
* `cors` (go-chi/cors, default options): an `OPTIONS` request that carries `Access-Control-Request-Method` is answered
  by the middleware itself (`preflight`), no handler runs.
* `backend.LedgerMiddleware`: answers 404 itself when the `{ledger}` URL parameter is empty (`ledger`); where it is
  `Use`d on a mux (v1) this happens before that mux routes.

The route table, the middleware stacks and the gate's pass list are NOT written here: they are regenerated from the Go
sources into `Generated/Routes.lean` on every run.  Core Lean only. -/
namespace Router

inductive MwKind | gate | cors | ledger | other
deriving DecidableEq, Repr

inductive MwCond | always | ifReadOnly
deriving DecidableEq, Repr

/-- one middleware of a mux' `Use` stack -/
structure Mw where
  name : String
  kind : MwKind
  cond : MwCond
  writes : Bool
deriving DecidableEq, Repr

/-- a mux, identified by the chain of mount patterns leading to it (`[]` = the mux `api.NewRouter` returns) -/
structure Mux where
  chain : List String
  mws : List Mw
deriving DecidableEq, Repr

structure Route where
  version : String
  method : String
  mounts : List String
  pattern : String
  handler : String
  /-- the handler, or an inline middleware in front of it, can reach
  `CreateTransaction|RevertTransaction|SaveMeta|DeleteMetadata` in the package call graph -/
  writes : Bool
deriving DecidableEq, Repr

structure Config where
  pass : List String
  muxes : List Mux
  routes : List Route

structure Request where
  method : String
  /-- the path chi routes on (`URL.RawPath` when set, else `URL.Path`) -/
  path : String
  /-- the request carries a non-empty `Access-Control-Request-Method` header -/
  preflight : Bool := false
deriving Repr

inductive Result
  | rejected | preflight | notFound | methodNotAllowed | reached (r : Route)
deriving DecidableEq, Repr

def Result.writes : Result → Bool
  | .reached r => r.writes
  | _ => false

/-- `api.ReadOnly`: `r.Method != "GET" && r.Method != "OPTIONS" && r.Method != "HEAD"` → 400 READ_ONLY -/
def readOnlyGate (m : String) : Bool := m == "GET" || m == "OPTIONS" || m == "HEAD"

/-- the gate over a regenerated pass list -/
def gateOf (pass : List String) (m : String) : Bool := pass.contains m

/-- the method names chi knows (`methodMap`); any other method string is answered 405 by the first mux -/
def chiMethods : List String := ["CONNECT", "DELETE", "GET", "HEAD", "OPTIONS", "PATCH", "POST", "PUT", "TRACE"]

-- ---------------------------------------------------------------- middleware stacks

inductive MwOutcome | pass | rejected | preflight | notFound
deriving DecidableEq, Repr

def Mw.active (w : Mw) (ro : Bool) : Bool :=
  match w.cond with
  | .always => true
  | .ifReadOnly => ro

/-- `noLedger`: the `{ledger}` URL parameter bound so far is empty (or none is bound) -/
def runMws (pass : List String) (ro : Bool) (req : Request) (noLedger : Bool) : List Mw → MwOutcome
  | [] => .pass
  | w :: ws =>
    if w.active ro then
      match w.kind with
      | .gate => if gateOf pass req.method then runMws pass ro req noLedger ws else .rejected
      | .cors => if req.method == "OPTIONS" && req.preflight then .preflight else runMws pass ro req noLedger ws
      | .ledger => if noLedger then .notFound else runMws pass ro req noLedger ws
      | .other => runMws pass ro req noLedger ws
    else runMws pass ro req noLedger ws

/-- the first middleware of the stack that can answer by itself (inactive ones and pass-through ones skipped) is the gate -/
def gateFirst (ro : Bool) : List Mw → Bool
  | [] => false
  | w :: ws =>
    if w.active ro then
      match w.kind with
      | .gate => true
      | .cors => false
      | .ledger => false
      | .other => gateFirst ro ws
    else gateFirst ro ws

def mwsOf (cfg : Config) (chain : List String) : List Mw :=
  match cfg.muxes.find? (fun m => m.chain == chain) with
  | some m => m.mws
  | none => []

/-- the gate is mounted on the top-level mux, in front of everything that could answer, when `ro` -/
def gateInstalled (cfg : Config) (ro : Bool) : Bool := gateFirst ro (mwsOf cfg [])

-- ---------------------------------------------------------------- path matching

def splitSlashAux : List Char → List Char → List (List Char)
  | [], cur => [cur.reverse]
  | c :: cs, cur => if c == '/' then cur.reverse :: splitSlashAux cs [] else splitSlashAux cs (c :: cur)

/-- `/a//b` ↦ `["a","","b"]`, `/` ↦ `[""]`; a path that does not start with `/` matches nothing -/
def segsOf (p : String) : Option (List String) :=
  match p.toList with
  | '/' :: cs => some ((splitSlashAux cs []).map String.ofList)
  | _ => none

def isParam (s : String) : Bool :=
  match s.toList with
  | '{' :: cs => cs.getLast? == some '}'
  | _ => false

/-- `last`: the path segment is the last one (chi: a param never matches an empty remaining path) -/
def segMatch (pat seg : String) (last : Bool) : Bool :=
  if isParam pat then !(seg.isEmpty && last) else pat == seg

def matchFull : List String → List String → Bool
  | [], [] => true
  | p :: ps, s :: ss => segMatch p s ss.isEmpty && matchFull ps ss
  | _, _ => false

def matchPrefix : List String → List String → Option (List String)
  | [], ss => some ss
  | p :: ps, s :: ss => if segMatch p s ss.isEmpty then matchPrefix ps ss else none
  | _ :: _, [] => none

/-- segments of a mount pattern; `Mount("/")` only registers the catch-all -/
def mountSegs (m : String) : List String :=
  if m == "/" || m == "" then [] else (segsOf m).getD []

/-- the path handed to the sub-mux: `"/" ++ remainder` -/
def mountRest (m : String) (segs : List String) : Option (List String) :=
  match matchPrefix (mountSegs m) segs with
  | some [] => some [""]
  | r => r

def keyOf (ps : List String) : List Nat := ps.map (fun p => if isParam p then 1 else 2)

def keyLt : List Nat → List Nat → Bool
  | [], [] => false
  | [], _ :: _ => true
  | _ :: _, [] => false
  | a :: as, b :: bs => a < b || (a == b && keyLt as bs)

def maxKey (ks : List (List Nat)) : Option (List Nat) :=
  ks.foldl (fun acc k => match acc with
    | none => some k
    | some a => if keyLt a k then some k else some a) none

def patKey (pattern : String) : List Nat := keyOf ((segsOf pattern).getD [])
def mountKey (m : String) : List Nat := keyOf (mountSegs m) ++ [0]

def patMatches (pattern : String) (segs : List String) : Bool :=
  match segsOf pattern with
  | some ps => matchFull ps segs
  | none => false

-- ---------------------------------------------------------------- routing, one mux level at a time

/-- does binding the mount pattern `m` to the front of `segs` bind `{ledger}`, and to what? -/
def ledgerBinding (m : String) (segs : List String) : Option String :=
  ((mountSegs m).zip segs).findSome? (fun (p, s) => if p == "{ledger}" then some s else none)

/-- what one mux decides for a routing path -/
inductive Pick
  | direct (r : Route)                  -- an endpoint of this mux, registered for the request's method
  | mount (m : String) (flag : Bool)    -- continue in the sub-mux mounted at `m`; `flag`: a more specific endpoint matched the path but not the method
  | fail (flag : Bool)                  -- nothing; `flag`: some endpoint matched the path but not the method
deriving Repr

/-- `rs`: the routes below the current mux (those with `mounts.length = depth` are its own endpoints) -/
def pickAt (method : String) (rs : List Route) (depth : Nat) (segs : List String) : Pick :=
  let dm := rs.filter (fun r => r.mounts.length == depth && patMatches r.pattern segs)
  let ok := dm.filter (fun r => r.method == method)
  let flaggers := dm.filter (fun r => !(ok.any (fun o => o.pattern == r.pattern)))
  let deeper := rs.filter (fun r => depth < r.mounts.length)
  let mnames := (deeper.filterMap (fun r => r.mounts[depth]?)).eraseDups
  let mcands := mnames.filter (fun m => (mountRest m segs).isSome)
  let kd := maxKey (ok.map (fun r => patKey r.pattern))
  let km := maxKey (mcands.map mountKey)
  let direct (k : List Nat) : Pick :=
    match ok.find? (fun r => patKey r.pattern == k) with
    | some r => .direct r
    | none => .fail false
  let mount (k : List Nat) : Pick :=
    match mcands.find? (fun m => mountKey m == k) with
    | some m => .mount m (flaggers.any (fun r => keyLt k (patKey r.pattern)))
    | none => .fail false
  match kd, km with
  | some k, none => direct k
  | some k, some k' => if keyLt k k' then mount k' else direct k
  | none, some k' => mount k'
  | none, none => .fail (!flaggers.isEmpty)

/-- `rs`: the routes below the current mux; `chain`: its mount chain; `segs`: the routing path; `mna`: chi's sticky 405
hint; `noLedger`: no non-empty `{ledger}` parameter bound so far -/
def routeAt (cfg : Config) (ro : Bool) (req : Request) :
    Nat → List Route → List String → List String → Bool → Bool → Result
  | 0, _, _, _, mna, _ => if mna then .methodNotAllowed else .notFound
  | fuel + 1, rs, chain, segs, mna, noLedger =>
    match pickAt req.method rs chain.length segs with
    | .direct r => .reached r
    | .fail flag => if mna || flag then .methodNotAllowed else .notFound
    | .mount m flag =>
      let noLedger' := match ledgerBinding m segs with
        | some s => s.isEmpty
        | none => noLedger
      match runMws cfg.pass ro req noLedger' (mwsOf cfg (chain ++ [m])) with
      | .rejected => .rejected
      | .preflight => .preflight
      | .notFound => .notFound
      | .pass =>
        routeAt cfg ro req fuel (rs.filter (fun r => r.mounts[chain.length]? == some m)) (chain ++ [m])
          ((mountRest m segs).getD [""]) (mna || flag) noLedger'

def fuelOf (cfg : Config) : Nat := (cfg.routes.map (fun r => r.mounts.length)).foldl max 0 + 1

/-- one request through `api.NewRouter(…, readOnly := ro)` -/
def dispatch (cfg : Config) (ro : Bool) (req : Request) : Result :=
  match runMws cfg.pass ro req true (mwsOf cfg []) with
  | .rejected => .rejected
  | .preflight => .preflight
  | .notFound => .notFound
  | .pass =>
    if !chiMethods.contains req.method then .methodNotAllowed else
    match segsOf req.path with
    | none => .notFound
    | some segs => routeAt cfg ro req (fuelOf cfg) cfg.routes [] segs false true

/-- the pattern chi reports for a route (`RoutePatterns` joined, mount wildcards removed) -/
def trimSlash (m : String) : String :=
  match m.toList.reverse with
  | '/' :: cs => String.ofList cs.reverse
  | _ => m

def Route.full (r : Route) : String := String.join (r.mounts.map trimSlash) ++ r.pattern

end Router
