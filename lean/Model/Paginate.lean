/-! Model F — pagination (`libs/bun/bunpaginate/{pagination_column,pagination_offset,iterate}.go`).

`UsingColumn` / `UsingOffset` add `WHERE (id op ?) / ORDER BY id dir / LIMIT n / OFFSET m` to a caller-supplied
select and post-process the rows they get back.  The database is modelled by a tiny evaluator (`select`) over an
abstract table: a list of rows with a unique pagination column `id`; the caller's own `WHERE` is the predicate
`keep`.  Everything the Go code can do is kept, including the two places where it panics and the SQL error for a
column the table does not have (`Res`).  Page size 0 is *not* excluded here (see `pageCol`: an empty page that
says `hasMore` with a cursor that does not advance) — the property quantifies over page sizes ≥ 1 only. -/
namespace Paginate

inductive Order | asc | desc
deriving DecidableEq, Repr, Inhabited

/-- `Order.Reverse` -/
def Order.rev : Order → Order
  | .asc => .desc
  | .desc => .asc

structure Row where
  id  : Int          -- the pagination column (unique)
  grp : Int          -- some other column the caller's filter may look at
deriving DecidableEq, Repr, Inhabited

/-! ### the database: `SELECT * FROM tbl WHERE pred ORDER BY id o [LIMIT lim] [OFFSET off]` -/

/-- does `a` sort at or before `b` under `ORDER BY id o`? -/
def Order.le (o : Order) (a b : Int) : Bool :=
  match o with
  | .asc => decide (a ≤ b)
  | .desc => decide (b ≤ a)

def insertBy (o : Order) (r : Row) : List Row → List Row
  | [] => [r]
  | x :: xs => if o.le r.id x.id then r :: x :: xs else x :: insertBy o r xs

/-- `ORDER BY id o` (insertion sort; the table may be stored in any order) -/
def orderBy (o : Order) : List Row → List Row
  | [] => []
  | r :: rs => insertBy o r (orderBy o rs)

def limit (lim : Option Nat) (rs : List Row) : List Row :=
  match lim with
  | none => rs
  | some k => rs.take k

def select (tbl : List Row) (pred : Row → Bool) (o : Order) (lim : Option Nat) (off : Nat) : List Row :=
  limit lim ((orderBy o (tbl.filter pred)).drop off)

/-! ### queries, pages -/

/-- `ColumnPaginatedQuery[F]`; `F` is whatever the endpoint carries along (filters, options) -/
structure ColQuery (F : Type) where
  pageSize     : Nat
  bottom       : Option Int
  column       : String
  paginationID : Option Int
  order        : Order
  filters      : F
  reverse      : Bool
deriving DecidableEq, Repr, Inhabited

/-- `OffsetPaginatedQuery[F]` -/
structure OffQuery (F : Type) where
  offset   : Nat
  order    : Order
  pageSize : Nat
  filters  : F
deriving DecidableEq, Repr, Inhabited

/-- `api.Cursor` before the two queries are turned into tokens -/
structure Page (Q : Type) where
  data     : List Row
  hasMore  : Bool
  previous : Option Q
  next     : Option Q
deriving DecidableEq, Repr, Inhabited

inductive Res (Q : Type)
  | ok (p : Page Q)
  | sqlError            -- the database refused the statement (unknown column)
  | panic               -- index out of range / nil dereference in `UsingColumn`
deriving DecidableEq, Repr, Inhabited

/-- the name of the only column the model table can be paginated on -/
def idColumn : String := "id"

/-- the `WHERE` clause `UsingColumn` adds -/
def bound {F} (q : ColQuery F) (x : Int) : Bool :=
  match q.paginationID with
  | none => true
  | some p =>
    if q.reverse then
      match q.order with
      | .asc => decide (x < p)
      | .desc => decide (x > p)
    else
      match q.order with
      | .asc => decide (x ≥ p)
      | .desc => decide (x ≤ p)

/-- the part of `UsingColumn` after `sb.Scan`: `rows` is what the database returned, in the order returned -/
def pageRows {F} (q : ColQuery F) (rows : List Row) : Res (ColQuery F) :=
  let ids := rows.map (·.id)
  -- `if query.Bottom == nil { query.Bottom = first id fetched }`
  let bottom := match q.bottom with
    | some b => some b
    | none => ids.head?
  let qb := { q with bottom := bottom }
  let hasMore := decide (rows.length > q.pageSize)
  let kept := if hasMore then rows.dropLast else rows
  if q.reverse then
    let next := some { qb with reverse := false }
    if hasMore then
      -- `paginationIDs[len(paginationIDs)-2]`
      if 2 ≤ ids.length then
        match ids[ids.length - 2]? with
        | some p => .ok ⟨kept.reverse, true, some { qb with paginationID := some p }, next⟩
        | none => .panic
      else .panic
    else .ok ⟨kept.reverse, true, none, next⟩
  else
    -- `paginationIDs[len(paginationIDs)-1]`
    let next := if hasMore then ids.getLast?.map (fun p => { qb with paginationID := some p }) else none
    match q.paginationID with
    | none => .ok ⟨kept, next.isSome, none, next⟩
    | some p =>
      match bottom with
      | none => .panic        -- `query.PaginationID.Cmp(query.Bottom)` with a nil bottom
      | some b =>
        let prev :=
          if (q.order == .asc && decide (p > b)) || (q.order == .desc && decide (p < b))
          then some { qb with reverse := true } else none
        .ok ⟨kept, next.isSome, prev, next⟩

/-- `UsingColumn` over the table `tbl`, the caller's select keeping the rows that satisfy `keep` -/
def pageCol {F} (tbl : List Row) (keep : Row → Bool) (q : ColQuery F) : Res (ColQuery F) :=
  if q.column != idColumn then .sqlError else
  let order := if q.reverse then q.order.rev else q.order
  pageRows q (select tbl (fun r => keep r && bound q r.id) order (some (q.pageSize + 1)) 0)

/-- `UsingOffset`; the caller's select already carries `ORDER BY id sbOrder` -/
def pageOff {F} (tbl : List Row) (keep : Row → Bool) (sbOrder : Order) (q : OffQuery F) : Page (OffQuery F) :=
  let rows := select tbl keep sbOrder (if q.pageSize > 0 then some (q.pageSize + 1) else none) q.offset
  let previous := if q.offset > 0 then some { q with offset := q.offset - q.pageSize } else none
  if q.pageSize != 0 && decide (rows.length > q.pageSize) then
    ⟨rows.dropLast, true, previous, some { q with offset := q.offset + q.pageSize }⟩
  else ⟨rows, false, previous, none⟩

/-! ### following cursors (`Iterate`, or a client that sends `next` back)

`step` evaluates one query, `xfer` is the trip of a query through a cursor token and back
(`Cursor.decode ∘ Cursor.encode`; `some` when tokens are not modelled).  `none` = the walk did not end within
`fuel` pages, a page could not be computed, or a cursor was refused. -/
def walk {Q} (step : Q → Option (Page Q)) (xfer : Q → Option Q) : Nat → Q → Option (List (Page Q))
  | 0, _ => none
  | fuel + 1, q =>
    match step q with
    | none => none
    | some pg =>
      if pg.hasMore then
        match pg.next with
        | none => none
        | some nq =>
          match xfer nq with
          | none => none
          | some q' => (walk step xfer fuel q').map (pg :: ·)
      else some [pg]

/-- the same, following `previous` until there is none -/
def walkBack {Q} (step : Q → Option (Page Q)) (xfer : Q → Option Q) : Nat → Q → Option (List (Page Q))
  | 0, _ => none
  | fuel + 1, q =>
    match step q with
    | none => none
    | some pg =>
      match pg.previous with
      | none => some [pg]
      | some pq =>
        match xfer pq with
        | none => none
        | some q' => (walkBack step xfer fuel q').map (pg :: ·)

def stepCol {F} (tbl : List Row) (keep : Row → Bool) (q : ColQuery F) : Option (Page (ColQuery F)) :=
  match pageCol tbl keep q with
  | .ok pg => some pg
  | _ => none

def stepOff {F} (tbl : List Row) (keep : Row → Bool) (sbOrder : Order) (q : OffQuery F) : Option (Page (OffQuery F)) :=
  some (pageOff tbl keep sbOrder q)

/-- the first request of a column-paginated list (`NewGetTransactionsQuery`, `NewGetLogsQuery`) -/
def firstCol {F} (ps : Nat) (o : Order) (f : F) : ColQuery F :=
  { pageSize := ps, bottom := none, column := idColumn, paginationID := none, order := o, filters := f, reverse := false }

/-- the first request of an offset-paginated list (`NewGetAccountsQuery`) -/
def firstOff {F} (ps : Nat) (o : Order) (f : F) : OffQuery F :=
  { offset := 0, order := o, pageSize := ps, filters := f }

/-- the rows a list is expected to show, in the list's order -/
def listing (tbl : List Row) (keep : Row → Bool) (o : Order) : List Row := orderBy o (tbl.filter keep)

def allData {Q} (pages : List (Page Q)) : List Row := pages.flatMap (·.data)

/-- `pg'` links back to `pg`: the `previous` token of `pg'` is accepted and shows the rows of `pg`, and the `next`
token of the page so reached is accepted and shows `pg'` again -/
def LinksBack {Q} (step : Q → Option (Page Q)) (xfer : Q → Option Q) (pg pg' : Page Q) : Prop :=
  ∃ pq pq' r, pg'.previous = some pq ∧ xfer pq = some pq' ∧ step pq' = some r ∧ r.data = pg.data ∧
    ∃ nq nq' r', r.next = some nq ∧ xfer nq = some nq' ∧ step nq' = some r' ∧ r'.data = pg'.data

/-- every page of a walk links back to the page before it -/
def Linked {Q} (step : Q → Option (Page Q)) (xfer : Q → Option Q) (pages : List (Page Q)) : Prop :=
  ∀ k pg pg', pages[k]? = some pg → pages[k + 1]? = some pg' → LinksBack step xfer pg pg'

end Paginate
