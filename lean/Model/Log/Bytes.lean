import Model.Log.Json
/-! Model D, byte level — the text Go's `encoding/json` writes for a tree (`json.Marshal`, and `Encoder.Encode`
which appends a newline).  Compact form, no spaces; strings escaped the way `appendString` does with
`escapeHTML = true` (the default of both `Marshal` and `Encoder`):
`"` and `\` by backslash, `\b \f \n \r \t` by their short forms, other bytes below 0x20 and `<`, `>`, `&` as
`\u00XX` (lower-case hex), U+2028 / U+2029 as `\\u2028` / `\\u2029`, everything else (0x7f, `/`, non-ASCII)
verbatim in UTF-8.  Integers are written in decimal whatever their size. -/
namespace LogM

def hexDigit (n : Nat) : Char :=
  match n with
  | 0 => '0' | 1 => '1' | 2 => '2' | 3 => '3' | 4 => '4' | 5 => '5' | 6 => '6' | 7 => '7'
  | 8 => '8' | 9 => '9' | 10 => 'a' | 11 => 'b' | 12 => 'c' | 13 => 'd' | 14 => 'e' | _ => 'f'

def escapeChar (c : Char) : List Char :=
  if c = '"' then ['\\', '"']
  else if c = '\\' then ['\\', '\\']
  else if c.toNat = 8 then ['\\', 'b']
  else if c.toNat = 12 then ['\\', 'f']
  else if c = '\n' then ['\\', 'n']
  else if c = '\r' then ['\\', 'r']
  else if c = '\t' then ['\\', 't']
  else if c.toNat < 32 ∨ c = '<' ∨ c = '>' ∨ c = '&' then
    ['\\', 'u', '0', '0', hexDigit (c.toNat / 16), hexDigit (c.toNat % 16)]
  else if c.toNat = 0x2028 then ['\\', 'u', '2', '0', '2', '8']
  else if c.toNat = 0x2029 then ['\\', 'u', '2', '0', '2', '9']
  else [c]

def encodeStr (s : String) : List Char := '"' :: (s.toList.flatMap escapeChar ++ ['"'])

def intChars (n : Int) : List Char := (toString n).toList

mutual
def encodeC : Json → List Char
  | .null => ['n', 'u', 'l', 'l']
  | .bool true => ['t', 'r', 'u', 'e']
  | .bool false => ['f', 'a', 'l', 's', 'e']
  | .num n => intChars n
  | .str s => encodeStr s
  | .arr xs => '[' :: (encodeList xs ++ [']'])
  | .obj fs => '{' :: (encodeFields fs ++ ['}'])
def encodeList : JsonList → List Char
  | .nil => []
  | .cons x .nil => encodeC x
  | .cons x xs => encodeC x ++ ',' :: encodeList xs
def encodeFields : JsonFields → List Char
  | .nil => []
  | .cons k v .nil => encodeStr k ++ ':' :: encodeC v
  | .cons k v fs => encodeStr k ++ ':' :: (encodeC v ++ ',' :: encodeFields fs)
end

/-- `json.Marshal` as text -/
def encodeText (j : Json) : String := String.ofList (encodeC j)

/-- `json.Marshal` -/
def encode (j : Json) : List UInt8 := (encodeText j).toUTF8.toList

/-- `json.NewEncoder(w).Encode(v)`: the value, then a newline -/
def encodeLine (j : Json) : List UInt8 := encode j ++ [10]

end LogM
