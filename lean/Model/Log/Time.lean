/-! Model D — `ledger.Time` (internal/time.go): RFC 3339 text, microsecond rounding, normalisation to UTC.

A Go `time.Time` is an instant plus a location.  What the log encoding can observe of it is the civil
reading in its own zone plus the zone offset, so that is the representation here: `parseRaw` stores the
fields it reads verbatim (`time.Parse` builds `Date(y,m,d,h,mi,s,ns,UTC)`, subtracts the offset and attaches
`FixedZone(offset)` — the reading in that zone is the text again) and `format` prints them.  Calendar
arithmetic is needed where Go does arithmetic on the instant: the carry of `Round(Microsecond)` and `UTC()`
(`ParseTime` converts every timestamp it accepts to UTC, so a timestamp written with an offset is re-read at
offset 0: `toUTC` = `Time.ofUnix ∘ Time.unixSec`, days ↔ civil date by `civilFromDays` / `daysFromCivil`;
Lemmas/LogCalendar.lean proves that these are well-formed dates and inverse to each other for every day number).

`time.Parse(RFC3339Nano, …)` = fast path `parseRFC3339` ∪ the generic layout parser; the union accepts strict
RFC 3339 plus a comma as fraction separator, a one-digit hour, an offset hour of 24 and an offset minute of 60 (Go 1.23
`src/time/format.go`, `format_rfc3339.go`).  -/
namespace LogM

structure Time where
  year : Int
  month : Nat
  day : Nat
  hour : Nat
  min : Nat
  sec : Nat
  nanos : Nat
  off : Int          -- zone offset, seconds east of UTC
deriving DecidableEq, Repr, Inhabited

/-- the zero `time.Time` (a field that is absent from the JSON keeps it) -/
def Time.zero : Time := ⟨1, 1, 1, 0, 0, 0, 0, 0⟩

inductive TimeErr | syntax | range | unreadable
deriving DecidableEq, Repr

/-! ### digits -/

def digitChar : Nat → Char
  | 0 => '0' | 1 => '1' | 2 => '2' | 3 => '3' | 4 => '4'
  | 5 => '5' | 6 => '6' | 7 => '7' | 8 => '8' | _ => '9'

def digitVal (c : Char) : Option Nat :=
  if c = '0' then some 0 else if c = '1' then some 1 else if c = '2' then some 2 else if c = '3' then some 3
  else if c = '4' then some 4 else if c = '5' then some 5 else if c = '6' then some 6 else if c = '7' then some 7
  else if c = '8' then some 8 else if c = '9' then some 9 else none

def pad2 (n : Nat) : List Char := [digitChar (n / 10 % 10), digitChar (n % 10)]

/-- `appendInt(b, year, 4)`: zero-padded to four digits, longer when needed, sign first -/
def padYear (y : Int) : List Char :=
  if 0 ≤ y ∧ y < 10000 then
    let n := y.toNat
    [digitChar (n / 1000 % 10), digitChar (n / 100 % 10), digitChar (n / 10 % 10), digitChar (n % 10)]
  else if y < 0 then
    let s := (Nat.toDigits 10 (-y).toNat)
    '-' :: (List.replicate (4 - s.length) '0' ++ s)
  else Nat.toDigits 10 y.toNat

def num2 : List Char → Option (Nat × List Char)
  | a :: b :: rest =>
    match digitVal a, digitVal b with
    | some x, some y => some (x * 10 + y, rest)
    | _, _ => none
  | _ => none

/-- `getnum(s, false)`: one or two digits (the generic parser reads the hour this way) -/
def num12 : List Char → Option (Nat × List Char)
  | a :: rest =>
    match digitVal a with
    | none => none
    | some x =>
      match rest with
      | b :: rest' =>
        match digitVal b with
        | some y => some (x * 10 + y, rest')
        | none => some (x, rest)
      | [] => some (x, rest)
  | [] => none

def num4 : List Char → Option (Nat × List Char)
  | a :: b :: c :: d :: rest =>
    match digitVal a, digitVal b, digitVal c, digitVal d with
    | some x, some y, some z, some w => some (x * 1000 + y * 100 + z * 10 + w, rest)
    | _, _, _, _ => none
  | _ => none

def expect (c : Char) : List Char → Option (List Char)
  | x :: rest => if x = c then some rest else none
  | [] => none

/-! ### fraction of a second -/

/-- the nine digits of `n < 10^9`, most significant first -/
def digits9 (n : Nat) : List Nat :=
  [n / 100000000 % 10, n / 10000000 % 10, n / 1000000 % 10, n / 100000 % 10, n / 10000 % 10,
   n / 1000 % 10, n / 100 % 10, n / 10 % 10, n % 10]

/-- drop trailing zeros -/
def trimZ : List Nat → List Nat
  | [] => []
  | d :: ds => match trimZ ds with
    | [] => if d = 0 then [] else [d]
    | r :: rs => d :: r :: rs

/-- `appendNano` for the layout `.999999999`: nothing when zero, else `.` and the digits without trailing zeros -/
def fmtFrac (nanos : Nat) : List Char :=
  if nanos = 0 then [] else '.' :: (trimZ (digits9 nanos)).map digitChar

/-- the leading run of digits (values) and what follows -/
def spanDigits : List Char → List Nat × List Char
  | [] => ([], [])
  | c :: cs => match digitVal c with
    | some d => let r := spanDigits cs; (d :: r.1, r.2)
    | none => ([], c :: cs)

/-- `parseNanoseconds`: the first `w` digits, right-padded with zeros, as a number (excess digits are dropped, not rounded) -/
def fracVal : List Nat → Nat → Nat
  | _, 0 => 0
  | [], _ + 1 => 0
  | d :: ds, w + 1 => d * 10 ^ w + fracVal ds w

/-- optional fraction: `.` or `,` followed by at least one digit -/
def parseFrac (cs : List Char) : Nat × List Char :=
  match cs with
  | sep :: c :: rest =>
    if (sep = '.' ∨ sep = ',') ∧ (digitVal c).isSome then
      let r := spanDigits (c :: rest)
      (fracVal r.1 9, r.2)
    else (0, cs)
  | _ => (0, cs)

/-! ### zone -/

/-- Go's `offset / 60` (truncating) -/
def zoneMinutes (off : Int) : Int :=
  if off < 0 then - (((-off).toNat / 60 : Nat) : Int) else ((off.toNat / 60 : Nat) : Int)

def fmtZone (off : Int) : List Char :=
  if off = 0 then ['Z'] else
  let z := zoneMinutes off
  let a := z.natAbs
  (if z < 0 then '-' else '+') :: (pad2 (a / 60) ++ ':' :: pad2 (a % 60))

/-- `Z`, or sign hh `:` mm with hh ≤ 24 and mm ≤ 60 (what the generic parser lets through); nothing may follow -/
def parseZone (cs : List Char) : Except TimeErr Int :=
  match cs with
  | ['Z'] => .ok 0
  | sg :: rest =>
    match num2 rest with
    | none => .error .syntax
    | some (hh, rest) =>
    match expect ':' rest with
    | none => .error .syntax
    | some rest =>
    match num2 rest with
    | none => .error .syntax
    | some (mm, rest) =>
      if rest ≠ [] then .error .syntax
      else if ¬ (sg = '+' ∨ sg = '-') then .error .syntax
      else if hh > 24 ∨ mm > 60 then .error .range
      else
        let o : Int := ((hh * 60 + mm) * 60 : Nat)
        .ok (if sg = '-' then -o else o)
  | [] => .error .syntax

/-! ### calendar -/

def isLeap (y : Int) : Bool := y % 4 = 0 ∧ (y % 100 ≠ 0 ∨ y % 400 = 0)

def daysIn (m : Nat) (y : Int) : Nat :=
  if m = 2 then (if isLeap y then 29 else 28)
  else if m = 4 ∨ m = 6 ∨ m = 9 ∨ m = 11 then 30 else 31

/-- `time.Format(RFC3339Nano)` -/
def fmtChars (t : Time) : List Char :=
  padYear t.year ++ '-' :: (pad2 t.month ++ '-' :: (pad2 t.day ++ 'T' :: (pad2 t.hour ++ ':' :: (pad2 t.min ++ ':' ::
    (pad2 t.sec ++ (fmtFrac t.nanos ++ fmtZone t.off))))))

def formatTime (t : Time) : String := String.ofList (fmtChars t)

/-- `time.Parse(RFC3339Nano, s)` -/
def parseRaw (cs : List Char) : Except TimeErr Time :=
  match num4 cs with
  | none => .error .syntax
  | some (y, cs) =>
  match expect '-' cs with
  | none => .error .syntax
  | some cs =>
  match num2 cs with
  | none => .error .syntax
  | some (mo, cs) =>
  match expect '-' cs with
  | none => .error .syntax
  | some cs =>
  match num2 cs with
  | none => .error .syntax
  | some (d, cs) =>
  match expect 'T' cs with
  | none => .error .syntax
  | some cs =>
  match num12 cs with
  | none => .error .syntax
  | some (h, cs) =>
  match expect ':' cs with
  | none => .error .syntax
  | some cs =>
  match num2 cs with
  | none => .error .syntax
  | some (mi, cs) =>
  match expect ':' cs with
  | none => .error .syntax
  | some cs =>
  match num2 cs with
  | none => .error .syntax
  | some (s, cs) =>
    if mo < 1 ∨ 12 < mo ∨ d < 1 ∨ daysIn mo y < d ∨ 23 < h ∨ 59 < mi ∨ 59 < s then .error .range
    else
      let fr := parseFrac cs
      match parseZone fr.2 with
      | .error e => .error e
      | .ok off => .ok ⟨y, mo, d, h, mi, s, fr.1, off⟩

/-! ### arithmetic on the instant (only off the round-trip path) -/

/-- days since 1970-01-01 of a civil date (proleptic Gregorian) -/
def daysFromCivil (y : Int) (m d : Nat) : Int :=
  let y' : Int := if m ≤ 2 then y - 1 else y
  let era : Int := y' / 400
  let yoe : Int := y' - era * 400
  let mp : Int := if m > 2 then (m : Int) - 3 else (m : Int) + 9
  let doy : Int := (153 * mp + 2) / 5 + (d : Int) - 1
  let doe : Int := yoe * 365 + yoe / 4 - yoe / 100 + doy
  era * 146097 + doe - 719468

def civilFromDays (z0 : Int) : Int × Nat × Nat :=
  let z := z0 + 719468
  let era : Int := z / 146097
  let doe : Int := z - era * 146097
  let yoe : Int := (doe - doe / 1460 + doe / 36524 - doe / 146096) / 365
  let y : Int := yoe + era * 400
  let doy : Int := doe - (365 * yoe + yoe / 4 - yoe / 100)
  let mp : Int := (5 * doy + 2) / 153
  let d : Int := doy - (153 * mp + 2) / 5 + 1
  let m : Int := if mp < 10 then mp + 3 else mp - 9
  (if m ≤ 2 then y + 1 else y, m.toNat, d.toNat)

/-- seconds since the Unix epoch of the instant denoted by `t` -/
def Time.unixSec (t : Time) : Int :=
  daysFromCivil t.year t.month t.day * 86400 + (t.hour * 3600 + t.min * 60 + t.sec : Nat) - t.off

/-- the reading, at offset `off`, of the instant `secs` seconds (+ `nanos`) after the epoch -/
def Time.ofUnix (secs : Int) (nanos : Nat) (off : Int) : Time :=
  let l := secs + off
  let days := l / 86400
  let r := (l % 86400).toNat
  let c := civilFromDays days
  ⟨c.1, c.2.1, c.2.2, r / 3600, r / 60 % 60, r % 60, nanos, off⟩

/-- one second later, on the civil reading (the zone offset is fixed, so this is `t.Add(time.Second)`) -/
def addSecond (t : Time) : Time :=
  if t.sec < 59 then { t with sec := t.sec + 1 }
  else if t.min < 59 then { t with sec := 0, min := t.min + 1 }
  else if t.hour < 23 then { t with sec := 0, min := 0, hour := t.hour + 1 }
  else if t.day < daysIn t.month t.year then { t with sec := 0, min := 0, hour := 0, day := t.day + 1 }
  else if t.month < 12 then { t with sec := 0, min := 0, hour := 0, day := 1, month := t.month + 1 }
  else { t with sec := 0, min := 0, hour := 0, day := 1, month := 1, year := t.year + 1 }

/-- `t.Round(time.Microsecond)`: to the nearest microsecond of the instant, halves up; a time that is on a
microsecond is returned as it is.  Go rounds the absolute time; with a fixed offset that is the same as rounding
the nanosecond field and carrying a full second into the civil fields. -/
def roundMicro (t : Time) : Time :=
  let r := t.nanos % 1000
  if r = 0 then t
  else if 2 * r < 1000 then { t with nanos := t.nanos - r }
  else if t.nanos - r + 1000 < 1000000000 then { t with nanos := t.nanos - r + 1000 }
  else addSecond { t with nanos := 0 }

/-- `t.UTC()` -/
def toUTC (t : Time) : Time :=
  if t.off = 0 then t else Time.ofUnix t.unixSec t.nanos 0

/-- what `ParseTime` refuses after rounding and conversion to UTC (repaired code): a year that `Format` would print in
a form `time.Parse` cannot read (signed: before year 0; five digits: after 9999).  Both can arise from the conversion
(`0000-01-01T00:00:00+01:00`, `9999-12-31T23:59:59-01:00`), the second also from the rounding. -/
def readable (t : Time) : Bool := 0 ≤ t.year ∧ t.year ≤ 9999

/-- `ledger.ParseTime` (also `Time.UnmarshalJSON` once the quotes are off): parse, round to the microsecond, convert to
UTC (the instant is kept, the offset the client wrote is not), refuse what could not be read back -/
def parseTime (s : String) : Except TimeErr Time :=
  match parseRaw s.toList with
  | .error e => .error e
  | .ok t =>
    let t' := toUTC (roundMicro t)
    if readable t' then .ok t' else .error .unreadable

/-- the times that come back unchanged: UTC, on a microsecond, fields in range, four-digit year.
(`accepted_wf` in Props/C13: everything `parseTime` accepts is of this kind; so is everything `Now()` produces.) -/
def TimeWF (t : Time) : Prop :=
  0 ≤ t.year ∧ t.year ≤ 9999 ∧ 1 ≤ t.month ∧ t.month ≤ 12 ∧ 1 ≤ t.day ∧ t.day ≤ daysIn t.month t.year ∧
  t.hour ≤ 23 ∧ t.min ≤ 59 ∧ t.sec ≤ 59 ∧ t.nanos < 1000000000 ∧ t.nanos % 1000 = 0 ∧ t.off = 0

instance (t : Time) : Decidable (TimeWF t) := by unfold TimeWF; infer_instance

end LogM
