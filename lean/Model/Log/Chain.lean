import Model.Log.Encode
import Model.Log.Bytes
/-! Model D — the hash chain (`ChainedLog.ComputeHash`, `Log.ChainLog`, `ChainLogs` in internal/log.go).

`ComputeHash(previous)` feeds a SHA-256 digest through a `json.Encoder`: first, when there is a previous log, the
JSON of its `Hash` (`[]byte` → base64 text, `null` for a nil slice) and a newline; then the JSON of the log *as it
is at that moment* and a newline — that JSON contains the `id` and `hash` fields with their then-current values.
`ChainLog` calls it on a fresh `ChainedLog{Log: l, ID: 0}` (hash nil) and only afterwards sets `ID = previous.ID + 1`:
the hashed text therefore always says `"id":0,"hash":null`, i.e. the hash covers type, data, date and idempotency
key (and the previous hash), not the id.  The hash function is a parameter. -/
namespace LogM

abbrev Hash := List UInt8 → List UInt8

/-- the bytes the digest receives -/
def hashInput (prev : Option CLog) (c : CLog) : List UInt8 :=
  (match prev with
   | none => []
   | some p => encodeLine (hashJ p.hash)) ++ encodeLine (toJson c)

/-- `c.ComputeHash(prev)`: the new value of `c.Hash` -/
def computeHash (H : Hash) (prev : Option CLog) (c : CLog) : List UInt8 := H (hashInput prev c)

/-- the id `ChainLog` assigns: 0 for the first entry, else the previous id + 1 -/
def nextId : Option CLog → Int
  | none => 0
  | some p => p.id + 1

/-- `l.ChainLog(prev)` -/
def chainLog (H : Hash) (prev : Option CLog) (l : Log) : CLog :=
  let c0 : CLog := ⟨l, 0, none⟩
  ⟨l, nextId prev, some (computeHash H prev c0)⟩

/-- `ChainLogs(logs...)` continued from `prev` -/
def chainFrom (H : Hash) (prev : Option CLog) : List Log → List CLog
  | [] => []
  | l :: ls => let c := chainLog H prev l; c :: chainFrom H (some c) ls

def chainLogs (H : Hash) (ls : List Log) : List CLog := chainFrom H none ls

/-- re-verification of one stored entry against its predecessor: chain its content again, compare hash and id -/
def verifies (H : Hash) (prev : Option CLog) (c : CLog) : Bool :=
  let r := chainLog H prev c.log
  r.hash == c.hash && r.id == c.id

/-- a reader of the stored chain: decode every entry from its JSON form and re-verify it against the decoded
predecessor -/
def verifyStored (H : Hash) (prev : Option CLog) : List Json → Bool
  | [] => true
  | j :: js =>
    match fromJson j with
    | .error _ => false
    | .ok c => verifies H prev c && verifyStored H (some c) js

end LogM
