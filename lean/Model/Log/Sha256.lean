/-! SHA-256 (FIPS 180-4) over a byte list, written from the standard; tied to `crypto/sha256` by the differential
of checks/c13.py (random inputs, all padding boundaries).  The theorems of C13 keep the hash function abstract. -/
namespace LogM.Sha256

def K : Array UInt32 := #[
  0x428a2f98, 0x71374491, 0xb5c0fbcf, 0xe9b5dba5, 0x3956c25b, 0x59f111f1, 0x923f82a4, 0xab1c5ed5,
  0xd807aa98, 0x12835b01, 0x243185be, 0x550c7dc3, 0x72be5d74, 0x80deb1fe, 0x9bdc06a7, 0xc19bf174,
  0xe49b69c1, 0xefbe4786, 0x0fc19dc6, 0x240ca1cc, 0x2de92c6f, 0x4a7484aa, 0x5cb0a9dc, 0x76f988da,
  0x983e5152, 0xa831c66d, 0xb00327c8, 0xbf597fc7, 0xc6e00bf3, 0xd5a79147, 0x06ca6351, 0x14292967,
  0x27b70a85, 0x2e1b2138, 0x4d2c6dfc, 0x53380d13, 0x650a7354, 0x766a0abb, 0x81c2c92e, 0x92722c85,
  0xa2bfe8a1, 0xa81a664b, 0xc24b8b70, 0xc76c51a3, 0xd192e819, 0xd6990624, 0xf40e3585, 0x106aa070,
  0x19a4c116, 0x1e376c08, 0x2748774c, 0x34b0bcb5, 0x391c0cb3, 0x4ed8aa4a, 0x5b9cca4f, 0x682e6ff3,
  0x748f82ee, 0x78a5636f, 0x84c87814, 0x8cc70208, 0x90befffa, 0xa4506ceb, 0xbef9a3f7, 0xc67178f2]

def H0 : Array UInt32 := #[0x6a09e667, 0xbb67ae85, 0x3c6ef372, 0xa54ff53a, 0x510e527f, 0x9b05688c, 0x1f83d9ab, 0x5be0cd19]

@[inline] def rotr (x : UInt32) (n : UInt32) : UInt32 := (x >>> n) ||| (x <<< (32 - n))

/-- message ‖ 0x80 ‖ zeros ‖ bit length (64 bits, big endian); the total is a multiple of 64 bytes -/
def pad (msg : List UInt8) : Array UInt8 :=
  let len := msg.length
  let k := (119 - len % 64) % 64
  let bits := len * 8
  let lenBytes : List UInt8 := (List.range 8).map fun i => UInt8.ofNat (bits / 256 ^ (7 - i) % 256)
  (msg ++ [0x80] ++ List.replicate k 0 ++ lenBytes).toArray

def word (p : Array UInt8) (i : Nat) : UInt32 :=
  (p[i]!.toUInt32 <<< 24) ||| (p[i+1]!.toUInt32 <<< 16) ||| (p[i+2]!.toUInt32 <<< 8) ||| p[i+3]!.toUInt32

def compress (h : Array UInt32) (p : Array UInt8) (blk : Nat) : Array UInt32 := Id.run do
  let mut w : Array UInt32 := Array.replicate 64 0
  for t in [0:16] do
    w := w.set! t (word p (blk * 64 + 4 * t))
  for t in [16:64] do
    let x := w[t-15]!
    let y := w[t-2]!
    let s0 := rotr x 7 ^^^ rotr x 18 ^^^ (x >>> 3)
    let s1 := rotr y 17 ^^^ rotr y 19 ^^^ (y >>> 10)
    w := w.set! t (w[t-16]! + s0 + w[t-7]! + s1)
  let mut a := h[0]!
  let mut b := h[1]!
  let mut c := h[2]!
  let mut d := h[3]!
  let mut e := h[4]!
  let mut f := h[5]!
  let mut g := h[6]!
  let mut hh := h[7]!
  for t in [0:64] do
    let S1 := rotr e 6 ^^^ rotr e 11 ^^^ rotr e 25
    let ch := (e &&& f) ^^^ ((~~~ e) &&& g)
    let t1 := hh + S1 + ch + K[t]! + w[t]!
    let S0 := rotr a 2 ^^^ rotr a 13 ^^^ rotr a 22
    let maj := (a &&& b) ^^^ (a &&& c) ^^^ (b &&& c)
    let t2 := S0 + maj
    hh := g; g := f; f := e; e := d + t1; d := c; c := b; b := a; a := t1 + t2
  return #[h[0]! + a, h[1]! + b, h[2]! + c, h[3]! + d, h[4]! + e, h[5]! + f, h[6]! + g, h[7]! + hh]

def sha256 (msg : List UInt8) : List UInt8 := Id.run do
  let p := pad msg
  let mut h := H0
  for blk in [0:p.size / 64] do
    h := compress h p blk
  let mut out : List UInt8 := []
  for x in h.toList.reverse do
    out := (x >>> 24).toUInt8 :: (x >>> 16).toUInt8 :: (x >>> 8).toUInt8 :: x.toUInt8 :: out
  return out

def hexNibble (n : Nat) : Char := if n < 10 then Char.ofNat (48 + n) else Char.ofNat (87 + n)

def hex (bs : List UInt8) : String :=
  String.ofList (bs.flatMap fun b => [hexNibble (b.toNat / 16), hexNibble (b.toNat % 16)])

end LogM.Sha256
