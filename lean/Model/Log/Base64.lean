/-! Model D — `encoding/base64` StdEncoding as `encoding/json` uses it for `[]byte` (the `hash` field). -/
namespace LogM

def b64Table : List Char :=
  ['A','B','C','D','E','F','G','H','I','J','K','L','M','N','O','P','Q','R','S','T','U','V','W','X','Y','Z',
   'a','b','c','d','e','f','g','h','i','j','k','l','m','n','o','p','q','r','s','t','u','v','w','x','y','z',
   '0','1','2','3','4','5','6','7','8','9','+','/']

def b64Char (i : Nat) : Char := b64Table.getD i 'A'

def b64Val (c : Char) : Option Nat :=
  let i := b64Table.idxOf c
  if i < 64 then some i else none

/-- three bytes → four characters; a rest of one or two bytes is padded with `=` -/
def b64Enc : List UInt8 → List Char
  | a :: b :: c :: rest =>
    let n := a.toNat * 65536 + b.toNat * 256 + c.toNat
    b64Char (n / 262144) :: b64Char (n / 4096 % 64) :: b64Char (n / 64 % 64) :: b64Char (n % 64) :: b64Enc rest
  | [a, b] =>
    let n := a.toNat * 65536 + b.toNat * 256
    [b64Char (n / 262144), b64Char (n / 4096 % 64), b64Char (n / 64 % 64), '=']
  | [a] =>
    let n := a.toNat * 65536
    [b64Char (n / 262144), b64Char (n / 4096 % 64), '=', '=']
  | [] => []

/-- padded decoding, groups of four; padding only in the last group (line breaks, which Go skips, never occur in a
marshalled hash and are not modelled) -/
def b64Dec : List Char → Option (List UInt8)
  | [] => some []
  | c0 :: c1 :: c2 :: c3 :: rest =>
    match b64Val c0, b64Val c1 with
    | some v0, some v1 =>
      if c2 = '=' then
        if c3 = '=' ∧ rest = [] then some [UInt8.ofNat ((v0 * 262144 + v1 * 4096) / 65536)] else none
      else match b64Val c2 with
        | none => none
        | some v2 =>
          if c3 = '=' then
            if rest = [] then
              let n := v0 * 262144 + v1 * 4096 + v2 * 64
              some [UInt8.ofNat (n / 65536), UInt8.ofNat (n / 256 % 256)]
            else none
          else match b64Val c3 with
            | none => none
            | some v3 =>
              match b64Dec rest with
              | none => none
              | some bs =>
                let n := v0 * 262144 + v1 * 4096 + v2 * 64 + v3
                some (UInt8.ofNat (n / 65536) :: UInt8.ofNat (n / 256 % 256) :: UInt8.ofNat (n % 256) :: bs)
    | _, _ => none
  | _ => none

end LogM
