import Model.Log.Json
import Model.Log.Time
import Model.Log.Base64
/-! Model D, tree level — a chained log entry and its JSON form (internal/log.go, transaction.go, posting.go).

`toJson` follows Go's `encoding/json` for `ledger.ChainedLog`: struct fields in declaration order (embedded
structs first: `Log` inside `ChainedLog`, `TransactionData` inside `Transaction`), `reference` has `omitempty`,
`Projected` is `json:"-"`, `LogType` marshals as its name, `Time` as RFC 3339 text, `*big.Int` as the bare
number, `[]byte` as base64 text (`null` when nil), maps with sorted keys (`null` when nil), slices as arrays
(`null` when nil).

`fromJson` follows `ChainedLog.UnmarshalJSON`: the outer object is decoded with `data` kept raw, then
`HydrateLog` picks the payload type from `type`; `SetMetadataLogPayload.UnmarshalJSON` (and, in the repaired
code, `DeleteMetadataLogPayload.UnmarshalJSON`) decode `targetId` by target type: a JSON string for an account,
`strconv.ParseUint(raw, 10, 64)` for a transaction.

What a Go value can hold but no log written by the system contains (nil `*big.Int`, nil `*Transaction`, a
`targetId` of another JSON shape for an account) has no representation in `CLog`; `fromJson` answers
`Err.unmodelled` there — never `ok`. -/
namespace LogM

/-- `metadata.Metadata` = `map[string]string`; `none` is the nil map.  A Go map has one value per key and is
written with sorted keys: `MapWF` below. -/
abbrev Meta := Option (List (String × String))
/-- `map[string]metadata.Metadata` -/
abbrev AccMeta := Option (List (String × Meta))

structure Posting where
  source : String
  destination : String
  amount : Int
  asset : String
deriving DecidableEq, Repr, Inhabited

/-- `ledger.Transaction` (= `TransactionData` + id + reverted) -/
structure Tx where
  postings : Option (List Posting)     -- `none`: nil slice
  metadata : Meta
  timestamp : Time
  reference : String
  id : Int
  reverted : Bool
deriving DecidableEq, Repr, Inhabited

/-- `targetId any`: an account address or a transaction id -/
inductive TargetId
  | account (address : String)
  | tx (id : Int)
deriving DecidableEq, Repr, Inhabited

inductive Payload
  | newTx (tx : Tx) (accountMetadata : AccMeta)
  | reverted (revertedTransactionID : Int) (tx : Tx)
  | setMeta (targetType : String) (target : TargetId) (metadata : Meta)
  | delMeta (targetType : String) (target : TargetId) (key : String)
deriving DecidableEq, Repr, Inhabited

inductive LogType | setMetadata | newTransaction | revertedTransaction | deleteMetadata
deriving DecidableEq, Repr, Inhabited

/-- `ledger.Log`; `Type` always agrees with the payload (the `New…Log` constructors set both) -/
structure Log where
  data : Payload
  date : Time
  idempotencyKey : String
deriving DecidableEq, Repr, Inhabited

/-- `ledger.ChainedLog` -/
structure CLog where
  log : Log
  id : Int
  hash : Option (List UInt8)           -- `none`: nil slice (before `ComputeHash`)
deriving DecidableEq, Repr, Inhabited

inductive Err
  | panic (msg : String)               -- the decoder panics
  | error (what : String)              -- the decoder returns an error
  | unmodelled (what : String)         -- decodes to a Go value outside `CLog` (see the header)
deriving DecidableEq, Repr, Inhabited

def Payload.logType : Payload → LogType
  | .newTx .. => .newTransaction
  | .reverted .. => .revertedTransaction
  | .setMeta .. => .setMetadata
  | .delMeta .. => .deleteMetadata

/-- `LogType.String` -/
def LogType.name : LogType → String
  | .setMetadata => "SET_METADATA"
  | .newTransaction => "NEW_TRANSACTION"
  | .revertedTransaction => "REVERTED_TRANSACTION"
  | .deleteMetadata => "DELETE_METADATA"

/-- `LogTypeFromString` (panics on anything else) -/
def LogType.ofName (s : String) : Except Err LogType :=
  if s = "SET_METADATA" then .ok .setMetadata
  else if s = "NEW_TRANSACTION" then .ok .newTransaction
  else if s = "REVERTED_TRANSACTION" then .ok .revertedTransaction
  else if s = "DELETE_METADATA" then .ok .deleteMetadata
  else .error (.panic "invalid log type")

/-! ### Go maps as association lists -/

/-- `m[k] = v` on the sorted representation -/
def insertKV {α} (k : String) (v : α) : List (String × α) → List (String × α)
  | [] => [(k, v)]
  | (k', v') :: rest =>
    if k < k' then (k, v) :: (k', v') :: rest
    else if k = k' then (k, v) :: rest
    else (k', v') :: insertKV k v rest

/-- decoding a JSON object into a Go map: entries in order, a later duplicate replaces; read back in key order -/
def normMap {α} (l : List (String × α)) : List (String × α) :=
  l.foldl (fun acc kv => insertKV kv.1 kv.2 acc) []

/-- the list is what a Go map shows: keys strictly increasing (bytewise = by code point) -/
def MapWF {α} [DecidableEq α] (l : List (String × α)) : Prop := normMap l = l

instance {α} [DecidableEq α] (l : List (String × α)) : Decidable (MapWF l) := by unfold MapWF; infer_instance

/-! ### encoding -/

def timeJ (t : Time) : Json := .str (formatTime t)

def metaJ : Meta → Json
  | none => .null
  | some kvs => .mkObj (kvs.map fun kv => (kv.1, .str kv.2))

def accMetaJ : AccMeta → Json
  | none => .null
  | some l => .mkObj (l.map fun kv => (kv.1, metaJ kv.2))

def postingJ (p : Posting) : Json :=
  .mkObj [("source", .str p.source), ("destination", .str p.destination), ("amount", .num p.amount), ("asset", .str p.asset)]

def postingsJ : Option (List Posting) → Json
  | none => .null
  | some ps => .mkArr (ps.map postingJ)

def txJ (t : Tx) : Json :=
  .mkObj ([("postings", postingsJ t.postings), ("metadata", metaJ t.metadata), ("timestamp", timeJ t.timestamp)]
    ++ (if t.reference = "" then [] else [("reference", .str t.reference)])
    ++ [("id", .num t.id), ("reverted", .bool t.reverted)])

def targetJ : TargetId → Json
  | .account a => .str a
  | .tx id => .num id

def payloadJ : Payload → Json
  | .newTx tx am => .mkObj [("transaction", txJ tx), ("accountMetadata", accMetaJ am)]
  | .reverted rid tx => .mkObj [("revertedTransactionID", .num rid), ("transaction", txJ tx)]
  | .setMeta tt tg md => .mkObj [("targetType", .str tt), ("targetId", targetJ tg), ("metadata", metaJ md)]
  | .delMeta tt tg key => .mkObj [("targetType", .str tt), ("targetId", targetJ tg), ("key", .str key)]

def hashJ : Option (List UInt8) → Json
  | none => .null
  | some bs => .str (String.ofList (b64Enc bs))

/-- `json.Marshal(chainedLog)` as a tree -/
def toJson (c : CLog) : Json :=
  .mkObj [("type", .str c.log.data.logType.name), ("data", payloadJ c.log.data), ("date", timeJ c.log.date),
    ("idempotencyKey", .str c.log.idempotencyKey), ("id", .num c.id), ("hash", hashJ c.hash)]

/-! ### decoding -/

def mapME {α β} (f : α → Except Err β) : List α → Except Err (List β)
  | [] => .ok []
  | x :: xs =>
    match f x with
    | .error e => .error e
    | .ok y =>
      match mapME f xs with
      | .error e => .error e
      | .ok ys => .ok (y :: ys)

/-- a `string` field: absent or `null` leaves the zero value -/
def optStr (what : String) : Option Json → Except Err String
  | none => .ok ""
  | some .null => .ok ""
  | some (.str s) => .ok s
  | some _ => .error (.error what)

/-- a `*big.Int` field -/
def reqInt (what : String) : Option Json → Except Err Int
  | some (.num n) => .ok n
  | none => .error (.unmodelled (what ++ ": nil *big.Int"))
  | some .null => .error (.unmodelled (what ++ ": nil *big.Int"))
  | some _ => .error (.error what)

def optBool (what : String) : Option Json → Except Err Bool
  | none => .ok false
  | some .null => .ok false
  | some (.bool b) => .ok b
  | some _ => .error (.error what)

/-- `Time.UnmarshalJSON`: only a JSON string is taken, and it goes through `ParseTime` -/
def timeOfJson : Option Json → Except Err Time
  | none => .ok Time.zero
  | some (.str s) =>
    match parseTime s with
    | .ok t => .ok t
    | .error _ => .error (.error "time")
  | some _ => .error (.error "invalid date format")

def metaEntry (kv : String × Json) : Except Err (String × String) :=
  match kv.2 with
  | .str s => .ok (kv.1, s)
  | .null => .ok (kv.1, "")
  | _ => .error (.error "metadata value")

def metaOfJson : Option Json → Except Err Meta
  | none => .ok none
  | some .null => .ok none
  | some (.obj fs) =>
    match mapME metaEntry fs.toList with
    | .error e => .error e
    | .ok kvs => .ok (some (normMap kvs))
  | some _ => .error (.error "metadata")

def accMetaEntry (kv : String × Json) : Except Err (String × Meta) :=
  match metaOfJson (some kv.2) with
  | .error e => .error e
  | .ok m => .ok (kv.1, m)

def accMetaOfJson : Option Json → Except Err AccMeta
  | none => .ok none
  | some .null => .ok none
  | some (.obj fs) =>
    match mapME accMetaEntry fs.toList with
    | .error e => .error e
    | .ok l => .ok (some (normMap l))
  | some _ => .error (.error "accountMetadata")

def postingOfJson : Json → Except Err Posting
  | .obj fs =>
    match optStr "source" (fs.get? "source"), optStr "destination" (fs.get? "destination"),
          reqInt "amount" (fs.get? "amount"), optStr "asset" (fs.get? "asset") with
    | .ok s, .ok d, .ok a, .ok asset => .ok ⟨s, d, a, asset⟩
    | .error e, _, _, _ => .error e
    | _, .error e, _, _ => .error e
    | _, _, .error e, _ => .error e
    | _, _, _, .error e => .error e
  | _ => .error (.error "posting")

def postingsOfJson : Option Json → Except Err (Option (List Posting))
  | none => .ok none
  | some .null => .ok none
  | some (.arr xs) =>
    match mapME postingOfJson xs.toList with
    | .error e => .error e
    | .ok ps => .ok (some ps)
  | some _ => .error (.error "postings")

def txOfJson : Option Json → Except Err Tx
  | some (.obj fs) =>
    match postingsOfJson (fs.get? "postings"), metaOfJson (fs.get? "metadata"), timeOfJson (fs.get? "timestamp"),
          optStr "reference" (fs.get? "reference"), reqInt "id" (fs.get? "id"), optBool "reverted" (fs.get? "reverted") with
    | .ok ps, .ok md, .ok ts, .ok ref, .ok id, .ok rv => .ok ⟨ps, md, ts, ref, id, rv⟩
    | .error e, _, _, _, _, _ => .error e
    | _, .error e, _, _, _, _ => .error e
    | _, _, .error e, _, _, _ => .error e
    | _, _, _, .error e, _, _ => .error e
    | _, _, _, _, .error e, _ => .error e
    | _, _, _, _, _, .error e => .error e
  | none => .error (.unmodelled "nil *Transaction")
  | some .null => .error (.unmodelled "nil *Transaction")
  | some _ => .error (.error "transaction")

def upAscii (c : Char) : Char := if 'a' ≤ c ∧ c ≤ 'z' then Char.ofNat (c.toNat - 32) else c
/-- `strings.ToUpper` on the ASCII letters (the two names it is compared with are ASCII) -/
def upper (s : String) : String := String.ofList (s.toList.map upAscii)

/-- how `targetId` is decoded once the target type is known (`SetMetadataLogPayload.UnmarshalJSON`; the repaired
`DeleteMetadataLogPayload.UnmarshalJSON` is the same): account → `json.Unmarshal(raw, &id)` with `id` an `any`;
transaction → `strconv.ParseUint(string(raw), 10, 64)`; any other target type panics. -/
def targetOfJson (targetType : String) (raw : Option Json) : Except Err TargetId :=
  if upper targetType = "ACCOUNT" then
    match raw with
    | none => .error (.error "targetId: unexpected end of JSON input")
    | some (.str s) => .ok (.account s)
    | some _ => .error (.unmodelled "account targetId that is not a string")
  else if upper targetType = "TRANSACTION" then
    match raw with
    | some (.num n) => if 0 ≤ n ∧ n < 18446744073709551616 then .ok (.tx n) else .error (.error "targetId: ParseUint")
    | _ => .error (.error "targetId: ParseUint")
  else .error (.panic "unknown type")

/-- `HydrateLog` (repaired: with the `DELETE_METADATA` case) -/
def payloadOfJson (ty : LogType) (raw : Option Json) : Except Err Payload :=
  match raw with
  | none => .error (.error "data: unexpected end of JSON input")
  | some (.obj fs) =>
    match ty with
    | .newTransaction =>
      match txOfJson (fs.get? "transaction"), accMetaOfJson (fs.get? "accountMetadata") with
      | .ok tx, .ok am => .ok (.newTx tx am)
      | .error e, _ => .error e
      | _, .error e => .error e
    | .revertedTransaction =>
      match reqInt "revertedTransactionID" (fs.get? "revertedTransactionID"), txOfJson (fs.get? "transaction") with
      | .ok rid, .ok tx => .ok (.reverted rid tx)
      | .error e, _ => .error e
      | _, .error e => .error e
    | .setMetadata =>
      match optStr "targetType" (fs.get? "targetType"), metaOfJson (fs.get? "metadata") with
      | .ok tt, .ok md =>
        match targetOfJson tt (fs.get? "targetId") with
        | .ok tg => .ok (.setMeta tt tg md)
        | .error e => .error e
      | .error e, _ => .error e
      | _, .error e => .error e
    | .deleteMetadata =>
      match optStr "targetType" (fs.get? "targetType"), optStr "key" (fs.get? "key") with
      | .ok tt, .ok key =>
        match targetOfJson tt (fs.get? "targetId") with
        | .ok tg => .ok (.delMeta tt tg key)
        | .error e => .error e
      | .error e, _ => .error e
      | _, .error e => .error e
  | some _ => .error (.unmodelled "data that is not an object")

/-- `LogType.UnmarshalJSON`; an absent field leaves the zero value, which is `SET_METADATA` -/
def logTypeOfJson : Option Json → Except Err LogType
  | none => .ok .setMetadata
  | some (.str s) => LogType.ofName s
  | some _ => .error (.error "type")

/-- `[]byte`: base64 text, or `null` -/
def hashOfJson : Option Json → Except Err (Option (List UInt8))
  | none => .ok none
  | some .null => .ok none
  | some (.str s) =>
    match b64Dec s.toList with
    | some bs => .ok (some bs)
    | none => .error (.error "hash: illegal base64 data")
  | some _ => .error (.error "hash")

/-- `ChainedLog.UnmarshalJSON` -/
def fromJson : Json → Except Err CLog
  | .obj fs =>
    match logTypeOfJson (fs.get? "type"), timeOfJson (fs.get? "date"), optStr "idempotencyKey" (fs.get? "idempotencyKey"),
          reqInt "id" (fs.get? "id"), hashOfJson (fs.get? "hash") with
    | .ok ty, .ok date, .ok ik, .ok id, .ok hash =>
      match payloadOfJson ty (fs.get? "data") with
      | .ok p => .ok ⟨⟨p, date, ik⟩, id, hash⟩
      | .error e => .error e
    | .error e, _, _, _, _ => .error e
    | _, .error e, _, _, _ => .error e
    | _, _, .error e, _, _ => .error e
    | _, _, _, .error e, _ => .error e
    | _, _, _, _, .error e => .error e
  | _ => .error (.error "log")

/-! ### the stored row (`ledgerstore.Logs`, written by `InsertLogs`, read by `Logs.ToCore`) -/

structure Row where
  ledger : String
  id : Int
  type : String
  hash : Option (List UInt8)
  date : Time
  data : Json                          -- `json.Marshal(log.Data)`
  idempotencyKey : String

/-- the row `InsertLogs` builds for a chained log -/
def toRow (ledger : String) (c : CLog) : Row :=
  ⟨ledger, c.id, c.log.data.logType.name, c.hash, c.log.date, payloadJ c.log.data, c.log.idempotencyKey⟩

/-- `Logs.ToCore`: `HydrateLog(LogTypeFromString(type), data)`, the date converted to UTC -/
def toCore (r : Row) : Except Err CLog :=
  match LogType.ofName r.type with
  | .error e => .error e
  | .ok ty =>
    match payloadOfJson ty (some r.data) with
    | .error e => .error e
    | .ok p => .ok ⟨⟨p, toUTC r.date, r.idempotencyKey⟩, r.id, r.hash⟩

/-! ### well-formedness: exactly what the decoder preserves -/

def MetaWF : Meta → Prop
  | none => True
  | some kvs => MapWF kvs

instance (m : Meta) : Decidable (MetaWF m) := by unfold MetaWF; split <;> infer_instance

def AccMetaWF : AccMeta → Prop
  | none => True
  | some l => MapWF l ∧ ∀ kv ∈ l, MetaWF kv.2

instance (m : AccMeta) : Decidable (AccMetaWF m) := by unfold AccMetaWF; split <;> infer_instance

def TxWF (t : Tx) : Prop := MetaWF t.metadata ∧ TimeWF t.timestamp

instance (t : Tx) : Decidable (TxWF t) := by unfold TxWF; infer_instance

/-- the target type names its kind of id; a transaction id fits `uint64` (`ParseUint(…, 10, 64)`) -/
def TargetWF (targetType : String) : TargetId → Prop
  | .account _ => targetType = "ACCOUNT"
  | .tx id => targetType = "TRANSACTION" ∧ 0 ≤ id ∧ id < 18446744073709551616

instance (tt : String) (t : TargetId) : Decidable (TargetWF tt t) := by unfold TargetWF; split <;> infer_instance

def PayloadWF : Payload → Prop
  | .newTx tx am => TxWF tx ∧ AccMetaWF am
  | .reverted _ tx => TxWF tx
  | .setMeta tt tg md => TargetWF tt tg ∧ MetaWF md
  | .delMeta tt tg _ => TargetWF tt tg

instance (p : Payload) : Decidable (PayloadWF p) := by unfold PayloadWF; split <;> infer_instance

def LogWF (l : Log) : Prop := PayloadWF l.data ∧ TimeWF l.date

instance (l : Log) : Decidable (LogWF l) := by unfold LogWF; infer_instance

/-- nothing is asked of the id, of the hash, of any string, of any amount or of the number of postings -/
def WF (c : CLog) : Prop := LogWF c.log

instance (c : CLog) : Decidable (WF c) := by unfold WF; infer_instance

end LogM
