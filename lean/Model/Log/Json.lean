/-! Model D, part 1 — the JSON trees that occur in stored log entries.

Objects keep their fields in order (Go emits struct fields in declaration order and map keys sorted);
numbers are arbitrary-precision integers (`*big.Int` is written verbatim, no other number occurs in a
log entry).  Nested recursion is kept structural through the mutual `Json / JsonList / JsonFields`. -/
namespace LogM

mutual
inductive Json where
  | null
  | bool (b : Bool)
  | num (n : Int)
  | str (s : String)
  | arr (xs : JsonList)
  | obj (fs : JsonFields)
inductive JsonList where
  | nil
  | cons (x : Json) (xs : JsonList)
inductive JsonFields where
  | nil
  | cons (k : String) (v : Json) (fs : JsonFields)
end

instance : Inhabited Json := ⟨.null⟩

def JsonList.ofList : List Json → JsonList
  | [] => .nil
  | x :: xs => .cons x (JsonList.ofList xs)

def JsonList.toList : JsonList → List Json
  | .nil => []
  | .cons x xs => x :: xs.toList

def JsonFields.ofList : List (String × Json) → JsonFields
  | [] => .nil
  | (k, v) :: fs => .cons k v (JsonFields.ofList fs)

def JsonFields.toList : JsonFields → List (String × Json)
  | .nil => []
  | .cons k v fs => (k, v) :: fs.toList

/-- value of the first field named `k` (written logs never repeat a key) -/
def JsonFields.get? (k : String) : JsonFields → Option Json
  | .nil => none
  | .cons k' v fs => if k' = k then some v else fs.get? k

def Json.mkObj (l : List (String × Json)) : Json := .obj (JsonFields.ofList l)
def Json.mkArr (l : List Json) : Json := .arr (JsonList.ofList l)

@[simp] theorem JsonList.toList_ofList (l : List Json) : (JsonList.ofList l).toList = l := by
  induction l with
  | nil => rfl
  | cons x xs ih => simp [JsonList.ofList, JsonList.toList, ih]

@[simp] theorem JsonFields.toList_ofList (l : List (String × Json)) : (JsonFields.ofList l).toList = l := by
  induction l with
  | nil => rfl
  | cons x xs ih => obtain ⟨k, v⟩ := x; simp [JsonFields.ofList, JsonFields.toList, ih]

@[simp] theorem JsonFields.get?_ofList_nil (k : String) : (JsonFields.ofList []).get? k = none := rfl

@[simp] theorem JsonFields.get?_ofList_cons (k k' : String) (v : Json) (l : List (String × Json)) :
    (JsonFields.ofList ((k', v) :: l)).get? k = if k' = k then some v else (JsonFields.ofList l).get? k := rfl

end LogM
