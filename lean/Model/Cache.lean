/-! Model of `command.Compiler` (engine/command/compiler.go): a compilation cache keyed by a digest of the
script text, over an abstract cache with ARBITRARY eviction (gcache LFU is not modelled: after any `set`, any
subset of the entries may be gone). -/
namespace Cache

variable {Text Key Prog : Type} [DecidableEq Key]

/-- the cache content: association list key ↦ program -/
abbrev Store (Key Prog : Type) := List (Key × Prog)

def get (c : Store Key Prog) (k : Key) : Option Prog := (c.find? (·.1 = k)).map (·.2)

/-- `Compiler.Compile`: look the digest up; on a miss compile and store (only successful compilations are
stored).  `keep` is the eviction oracle: which of the entries survive the insertion. -/
def cachedCompile (H : Text → Key) (compile : Text → Option Prog) (keep : Store Key Prog → Store Key Prog)
    (c : Store Key Prog) (t : Text) : Option Prog × Store Key Prog :=
  match get c (H t) with
  | some p => (some p, c)
  | none =>
    match compile t with
    | none => (none, c)
    | some p => (some p, keep ((H t, p) :: c))

end Cache
