import Model.SqlText
/-! What a filter MEANS, and how the database READS the `where` text built for it  (C04, quantifier "every filter").

`Model.SqlText` renders a filter expression (`Expr`: leaf | `$and`/`$or` set | `$not`) to SQL text, piece by piece
(`exprPieces`, the model of `libs/query` `set.Build` / `not.Build` and of the `ContextFn` leaf renderers of the
ledger store; tied to the real SQL text by C20's differential and by the `filtersem` stream of `checks/c04.py`).
This file adds the two readings C04 needs about that text:

* `Expr.sem` — the INTENDED meaning of a filter: `$not` is negation, `$and` conjunction, `$or` disjunction, an empty
  set is true (the code renders `1 = 1`), and a leaf means the boolean combination of opaque atomic SQL conditions its
  renderer is meant to emit (`leafSkel`: an account match on transactions is `source-condition OR destination-condition`;
  an address pattern with wildcard segments is `length-condition AND segment-condition AND …`; every other leaf is ONE
  condition).  Atomic conditions are identified by their token text.
* `boolParse` — a precedence-aware reading of a token sequence as PostgreSQL's grammar reads a boolean expression:
  parentheses, then `NOT`, then `AND`, then `OR`.  Everything between connectives at parenthesis depth 0 of the current
  group is an opaque atom (string literals are single tokens of the scanner `SqlText.lex`, sub-selects and function
  calls sit in parentheses: neither is searched for connectives).  A parenthesised operand is a boolean group unless
  it is a sub-select.  Shapes the reading does not know (`NOT` inside an atom as in `is not null`, `BETWEEN … AND`,
  `CASE`, an empty operand, unbalanced parentheses) yield `none`.  TRUSTED: this is my model of PostgreSQL's grammar for NOT / AND / OR.

The tokens are those of the scanner model itself: `pieceToks ps` is `SqlText.lexL` applied to every piece. -/
namespace FilterSem
open SqlText

/-! ## tokens as the boolean reading sees them -/

inductive Cls where
  | lp | rp | knot | kand | kor
  | refused      -- `between` (its `and` is not a connective), `case`: shapes this reading does not know
  | other
deriving DecidableEq, Repr

def lowerChars (s : String) : Chars := s.toList.map Char.toLower

/-- key words are case-insensitive identifiers (bun writes `AND`, the query builder `and`) -/
def cls (t : Tok) : Cls :=
  match t.1 with
  | .punct c => if c = '(' then .lp else if c = ')' then .rp else .other
  | .ident s =>
    let l := lowerChars s
    if l = ['n', 'o', 't'] then .knot else if l = ['a', 'n', 'd'] then .kand else if l = ['o', 'r'] then .kor
    else if l = ['b', 'e', 't', 'w', 'e', 'e', 'n'] ∨ l = ['c', 'a', 's', 'e'] then .refused else .other
  | _ => .other

def isOrC : Cls → Bool
  | .kor => true
  | _ => false
def isAndC : Cls → Bool
  | .kand => true
  | _ => false
def isConn : Cls → Bool
  | .knot | .kand | .kor | .refused => true
  | _ => false
def never : Cls → Bool := fun _ => false

/-- walk over tokens from parenthesis depth `d`: the depth reached, or `none` when a `)` has no partner or a token
whose class satisfies `p` stands at depth 0 -/
def scanTop (p : Cls → Bool) : Nat → List Tok → Option Nat
  | d, [] => some d
  | d, t :: r =>
    if cls t = .lp then scanTop p (d + 1) r
    else if cls t = .rp then (if d = 0 then none else scanTop p (d - 1) r)
    else if d = 0 ∧ p (cls t) = true then none
    else scanTop p d r

/-- balanced parentheses and no `p`-token at depth 0 -/
def topFree (p : Cls → Bool) (ts : List Tok) : Bool := scanTop p 0 ts == some 0
def bal (ts : List Tok) : Bool := topFree never ts

/-- cut at the `p`-tokens of depth 0 (depth counted from `d`; `cur`: the part collected so far) -/
def splitGo (p : Cls → Bool) : Nat → List Tok → List Tok → List (List Tok)
  | _, cur, [] => [cur]
  | d, cur, t :: r =>
    if cls t = .lp then splitGo p (d + 1) (cur ++ [t]) r
    else if cls t = .rp then splitGo p (d - 1) (cur ++ [t]) r
    else if d = 0 ∧ p (cls t) = true then cur :: splitGo p 0 [] r
    else splitGo p d (cur ++ [t]) r

def splitTop (p : Cls → Bool) (ts : List Tok) : List (List Tok) := splitGo p 0 [] ts

/-- `( inner )` where the first parenthesis closes at the very end: `inner` -/
def stripGroup : List Tok → Option (List Tok)
  | [] => none
  | t :: r =>
    if cls t = .lp then
      match r.getLast? with
      | some u => if cls u = .rp ∧ bal r.dropLast = true then some r.dropLast else none
      | none => none
    else none

def startsSelect : List Tok → Bool
  | [] => false
  | t :: _ =>
    match t.1 with
    | .ident s => decide (lowerChars s = ['s', 'e', 'l', 'e', 'c', 't'])
    | _ => false

/-! ## boolean trees -/

inductive BTree where
  | tt
  | atom (ts : List Tok)
  | not (t : BTree)
  | and (l r : BTree)
  | or (l r : BTree)
deriving DecidableEq, Repr

def BTree.eval (asg : List Tok → Bool) : BTree → Bool
  | .tt => true
  | .atom ts => asg ts
  | .not t => !(t.eval asg)
  | .and l r => l.eval asg && r.eval asg
  | .or l r => l.eval asg || r.eval asg

def mkAnd : List BTree → BTree
  | [] => .tt
  | [t] => t
  | t :: ts => .and t (mkAnd ts)
def mkOr : List BTree → BTree
  | [] => .tt
  | [t] => t
  | t :: ts => .or t (mkOr ts)

def allSome {α : Type} : List (Option α) → Option (List α)
  | [] => some []
  | none :: _ => none
  | some a :: r => (allSome r).map (a :: ·)

/-- the text `1 = 1` (what `set.Build` writes for an empty `$and` / `$or`) is the constant true -/
def oneEqOne : List Tok := [(.num, "1"), (.op "=", ""), (.num, "1")]

/-! ## the reading -/

/-- an operand that is not a boolean group: one opaque condition — provided its parentheses balance and no connective
(`NOT` included: `is not null`, `not in` …, and `between` / `case`, are shapes this reading refuses) stands at its depth 0 -/
def atomOf (ts : List Tok) : Option BTree :=
  if ts.isEmpty then none
  else if topFree isConn ts then some (if ts = oneEqOne then .tt else .atom ts)
  else none

/-- primary: a parenthesised boolean group (read by `rec`), or an atom -/
def parsePrim (rec : List Tok → Option BTree) (ts : List Tok) : Option BTree :=
  match stripGroup ts with
  | some inner => if startsSelect inner then atomOf ts else rec inner
  | none => atomOf ts

/-- `NOT` binds tighter than `AND` and `OR`: it applies to the operand that follows, up to the next connective of
depth 0 -/
def parseOperand (rec : List Tok → Option BTree) : List Tok → Option BTree
  | [] => none
  | t :: r => if cls t = .knot then (parseOperand rec r).map .not else parsePrim rec (t :: r)

/-- `AND` binds tighter than `OR` -/
def parseConj (rec : List Tok → Option BTree) (ts : List Tok) : Option BTree :=
  (allSome ((splitTop isAndC ts).map (parseOperand rec))).map mkAnd

def parseDisj (rec : List Tok → Option BTree) (ts : List Tok) : Option BTree :=
  (allSome ((splitTop isOrC ts).map (parseConj rec))).map mkOr

/-- `fuel` bounds the nesting of boolean groups -/
def parseG : Nat → List Tok → Option BTree
  | 0, _ => none
  | f + 1, ts => parseDisj (parseG f) ts

/-- the boolean structure of a token sequence under SQL operator precedence -/
def boolParse (ts : List Tok) : Option BTree := parseG (ts.length + 1) ts

/-- the reading of SQL text -/
def boolParseSql (sql : String) : Option BTree := boolParse (lex sql)

/-! ## the tokens of a rendering -/

/-- the scanner's tokens of every piece (a quoted literal with a quote-safe body is one `.str` token) -/
def pieceToks : List Piece → List Tok
  | [] => []
  | p :: ps => lexL p.chars ++ pieceToks ps

/-! ## the intended meaning -/

/-- the two column tests and the literal of `filterAccountAddressOnTransactions` -/
def txCols (a : Chars) : Chars × Chars × Chars :=
  let segs := splitColon a
  if segs.any List.isEmpty then ("sources_arrays @> ".toList, "destinations_arrays @> ".toList, txArrayJson segs)
  else ("sources @> ".toList, "destinations @> ".toList, '[' :: '"' :: a ++ ['"', ']'])

/-- `account = a` on transactions: `a` is a source OR `a` is a destination -/
def addrOnTxSkel (a : Chars) : BTree :=
  let (sc, dc, data) := txCols a
  .or (.atom (pieceToks [.code sc, .lit data])) (.atom (pieceToks [.code dc, .lit data]))

/-- one condition per non-empty segment of an address pattern: `K_array @@ ('$[i] == "seg"')::jsonpath` -/
def segAtoms (key : Chars) : Nat → List Chars → List BTree
  | _, [] => []
  | i, s :: ss =>
    if s.isEmpty then segAtoms key (i + 1) ss
    else .atom (pieceToks [.code (key ++ "_array @@ (".toList),
                           .lit ("$[".toList ++ natDigits i ++ "] == \"".toList ++ s ++ ['"']),
                           .code ")::jsonpath".toList]) :: segAtoms key (i + 1) ss

/-- `address = a` on a column `key`: an exact match, or — with wildcard (empty) segments — the number of segments
AND every given segment at its position -/
def addressSkel (a key : Chars) : BTree :=
  let segs := splitColon a
  if segs.any List.isEmpty then
    mkAnd (.atom (lexL ("jsonb_array_length(".toList ++ key ++ "_array) = ".toList ++ natDigits segs.length))
            :: segAtoms key 0 segs)
  else .atom (pieceToks [.code (key ++ " = ".toList), .lit a])

/-- the boolean skeleton a leaf is meant to contribute; every leaf other than the address matches is ONE condition,
named by the tokens of its rendering -/
def leafSkel (ep : Endpoint) (pit : Bool) (ledger : Chars) (key : FKey) (op : String) (v : JV) : BTree :=
  match ep, key, isStr v with
  | .accounts, .address, some a => addressSkel a "accounts.address".toList
  | .balances, .address, some a => addressSkel a "account_address".toList
  | .transactions, .account, some a => addrOnTxSkel a
  | _, _, _ =>
    match leafPieces ep pit ledger key op v with
    | .ok ps => .atom (pieceToks ps)
    | .error _ => .tt

mutual
/-- **what the filter asks for**, under an assignment of truth values to the atomic conditions -/
def sem (ep : Endpoint) (pit : Bool) (ledger : Chars) (asg : List Tok → Bool) : Expr → Bool
  | .leaf k op v => (leafSkel ep pit ledger k op v).eval asg
  | .set _ [] => true
  | .set isAnd (e :: es) =>
    if isAnd then sem ep pit ledger asg e && semTail ep pit ledger asg true es
    else sem ep pit ledger asg e || semTail ep pit ledger asg false es
  | .not e => !(sem ep pit ledger asg e)
def semTail (ep : Endpoint) (pit : Bool) (ledger : Chars) (asg : List Tok → Bool) (isAnd : Bool) : List Expr → Bool
  | [] => isAnd
  | e :: es =>
    if isAnd then sem ep pit ledger asg e && semTail ep pit ledger asg isAnd es
    else sem ep pit ledger asg e || semTail ep pit ledger asg isAnd es
end

mutual
/-- the same meaning as a tree (for the driver: compared with the reading of the captured SQL) -/
def skel (ep : Endpoint) (pit : Bool) (ledger : Chars) : Expr → BTree
  | .leaf k op v => leafSkel ep pit ledger k op v
  | .set _ [] => .tt
  | .set isAnd (e :: es) =>
    if isAnd then mkAnd (skel ep pit ledger e :: skels ep pit ledger es)
    else mkOr (skel ep pit ledger e :: skels ep pit ledger es)
  | .not e => .not (skel ep pit ledger e)
def skels (ep : Endpoint) (pit : Bool) (ledger : Chars) : List Expr → List BTree
  | [] => []
  | e :: es => skel ep pit ledger e :: skels ep pit ledger es
end

/-! ## the statement's own `where`: bun writes every `Where(...)` call as one parenthesised conjunct -/

def tokAND : Tok := (.ident "AND", "")
def tokLP : Tok := (.punct '(', "")
def tokRP : Tok := (.punct ')', "")

def paren (ts : List Tok) : List Tok := tokLP :: ts ++ [tokRP]

/-- `(c₁) AND (c₂) AND … AND (cₙ)` -/
def whereToks : List (List Tok) → List Tok
  | [] => []
  | [c] => paren c
  | c :: cs => paren c ++ tokAND :: whereToks cs

/-- one opaque condition, as `atomOf` accepts it, that is neither a group nor the constant -/
def isAtomToks (ts : List Tok) : Bool :=
  !ts.isEmpty && topFree isConn ts && (stripGroup ts).isNone && !startsSelect ts && decide (ts ≠ oneEqOne)

/-! ## all truth assignments over the atoms of a tree (for executable comparisons) -/

def BTree.atoms : BTree → List (List Tok)
  | .tt => []
  | .atom ts => [ts]
  | .not t => t.atoms
  | .and l r => l.atoms ++ r.atoms
  | .or l r => l.atoms ++ r.atoms

/-- every assignment that makes exactly a sublist of `as` true -/
def assignments : List (List Tok) → List (List Tok → Bool)
  | [] => [fun _ => false]
  | a :: as => (assignments as).flatMap (fun f => [f, fun x => if x = a then true else f x])

/-- the two trees agree under every assignment of their atoms -/
def equivalent (s t : BTree) : Bool :=
  (assignments ((s.atoms ++ t.atoms).eraseDups)).all (fun f => s.eval f == t.eval f)

end FilterSem
