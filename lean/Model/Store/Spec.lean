/-! Model E, specification side (C04): **the replay of the log**.

`replay : List CLog → View` is the independent fold the property speaks about.  It is deliberately *not* shaped like
the implementation (the SQL projection keeps running totals in `moves.post_commit_volumes`, patches later-dated rows,
keeps revision tables): the replay only *records* what the log says — one `Move` per posting side, one `TxRec` per
transaction, one `AcctRec` per account, metadata as a list of dated revisions — and every figure a read endpoint may
report is a *query* over that record (a filtered sum, a lookup).

Conventions
* dates are integers (microseconds); a log's `date` is its insertion date; a transaction's `timestamp` is its
  effective date (it may lie before or after the log date);
* amounts are naturals of any size; balances are integers;
* metadata is an association list with unique keys (`Meta.set` erases the key first);
* `View = ledger name → LedgerState`: one fold over ALL logs of a bucket, the log's `ledger` field selects the entry
  that changes (ledger independence is then a theorem, not a definition: `C04.replay_ledger_independent`).

Core-only (the driver is a `lean_exe`). -/
namespace Store

abbrev Meta := List (String × String)

namespace Meta
def get (m : Meta) (k : String) : Option String := m.lookup k
def erase (m : Meta) (k : String) : Meta := m.filter (fun kv => kv.1 != k)
def set (m : Meta) (k v : String) : Meta := (k, v) :: erase m k
/-- `m || new` of jsonb objects: keys of `new` win -/
def merge (m new : Meta) : Meta := new.foldl (fun acc kv => set acc kv.1 kv.2) m
end Meta

structure Posting where
  source : String
  destination : String
  asset : String
  amount : Nat
deriving DecidableEq, Repr, Inhabited

structure Tx where
  id : Nat
  postings : List Posting
  metadata : Meta
  timestamp : Int
  reference : String
deriving DecidableEq, Repr, Inhabited

inductive Target where
  | account (address : String)
  | transaction (id : Nat)
deriving DecidableEq, Repr, Inhabited

inductive Payload where
  | newTx (tx : Tx) (accountMeta : List (String × Meta))
  | revert (revertedId : Nat) (tx : Tx)
  | setMeta (target : Target) (m : Meta)
  | delMeta (target : Target) (key : String)
deriving DecidableEq, Repr, Inhabited

/-- a log entry as far as the projection is concerned -/
structure CLog where
  ledger : String
  id : Nat
  date : Int
  ik : String := ""
  payload : Payload
deriving DecidableEq, Repr, Inhabited

-- ---------------------------------------------------------------- what the replay records

structure Move where
  account : String
  asset : String
  amount : Nat
  isSource : Bool
  insertedAt : Int
  effective : Int
  txId : Nat
deriving DecidableEq, Repr, Inhabited

structure RevertInfo where
  at_ : Int        -- date of the REVERTED_TRANSACTION log
  effective : Int  -- timestamp of the revert transaction
  by_ : Nat        -- id of the revert transaction
deriving DecidableEq, Repr, Inhabited

structure TxRec where
  tx : Tx
  insertedAt : Int
  reverted : Option RevertInfo
  metaHist : List (Int × Meta)   -- newest first
deriving DecidableEq, Repr, Inhabited

structure AcctRec where
  address : String
  firstSeen : Int
  metaHist : List (Int × Meta)   -- newest first
deriving DecidableEq, Repr, Inhabited

structure LedgerState where
  moves : List Move := []
  txs : List TxRec := []
  accts : List AcctRec := []
  logs : List CLog := []
deriving DecidableEq, Repr, Inhabited

def histCurrent (h : List (Int × Meta)) : Meta :=
  match h with
  | [] => []
  | e :: _ => e.2

-- ---------------------------------------------------------------- one log entry

def postingMoves (d eff : Int) (txId : Nat) (p : Posting) : List Move :=
  [ { account := p.source, asset := p.asset, amount := p.amount, isSource := true, insertedAt := d, effective := eff, txId := txId },
    { account := p.destination, asset := p.asset, amount := p.amount, isSource := false, insertedAt := d, effective := eff, txId := txId } ]

def txMoves (d : Int) (tx : Tx) : List Move := tx.postings.flatMap (postingMoves d tx.timestamp tx.id)

def hasAcct (as : List AcctRec) (a : String) : Bool := as.any (fun r => r.address == a)

/-- first usage creates the account (empty metadata) -/
def touch (as : List AcctRec) (a : String) (d : Int) : List AcctRec :=
  if hasAcct as a then as else as ++ [{ address := a, firstSeen := d, metaHist := [(d, [])] }]

/-- a new revision `f current` dated `d` on account `a` (which must exist for anything to happen) -/
def reviseAcct (as : List AcctRec) (a : String) (d : Int) (f : Meta → Meta) : List AcctRec :=
  as.map (fun r => if r.address == a then { r with metaHist := (d, f (histCurrent r.metaHist)) :: r.metaHist } else r)

def reviseTx (ts : List TxRec) (id : Nat) (d : Int) (f : Meta → Meta) : List TxRec :=
  ts.map (fun r => if r.tx.id == id then { r with metaHist := (d, f (histCurrent r.metaHist)) :: r.metaHist } else r)

def postingAccounts (ps : List Posting) : List String := ps.flatMap (fun p => [p.source, p.destination])

def touchAll (as : List AcctRec) (addrs : List String) (d : Int) : List AcctRec :=
  addrs.foldl (fun acc a => touch acc a d) as

def setAcctMeta (as : List AcctRec) (a : String) (d : Int) (m : Meta) : List AcctRec :=
  reviseAcct (touch as a d) a d (fun cur => Meta.merge cur m)

def applyAccountMeta (as : List AcctRec) (am : List (String × Meta)) (d : Int) : List AcctRec :=
  am.foldl (fun acc km => setAcctMeta acc km.1 d km.2) as

/-- a transaction enters the record: its moves, its record, the accounts it uses -/
def insertTx (st : LedgerState) (d : Int) (tx : Tx) : LedgerState :=
  { st with
    moves := st.moves ++ txMoves d tx
    txs := st.txs ++ [{ tx := tx, insertedAt := d, reverted := none, metaHist := [(d, tx.metadata)] }]
    accts := touchAll st.accts (postingAccounts tx.postings) d }

/-- the first REVERTED_TRANSACTION log that targets a transaction marks it -/
def markReverted (ts : List TxRec) (id : Nat) (info : RevertInfo) : List TxRec :=
  ts.map (fun r => if r.tx.id == id && r.reverted.isNone then { r with reverted := some info } else r)

def applyPayload (st : LedgerState) (d : Int) : Payload → LedgerState
  | .newTx tx am =>
    let st1 := insertTx st d tx
    { st1 with accts := applyAccountMeta st1.accts am d }
  | .revert rid tx =>
    let st1 := insertTx st d tx
    { st1 with txs := markReverted st1.txs rid { at_ := d, effective := tx.timestamp, by_ := tx.id } }
  | .setMeta (.account a) m => { st with accts := setAcctMeta st.accts a d m }
  | .setMeta (.transaction id) m => { st with txs := reviseTx st.txs id d (fun cur => Meta.merge cur m) }
  | .delMeta (.account a) k => { st with accts := reviseAcct st.accts a d (fun cur => Meta.erase cur k) }
  | .delMeta (.transaction id) k => { st with txs := reviseTx st.txs id d (fun cur => Meta.erase cur k) }

def stepLedger (st : LedgerState) (log : CLog) : LedgerState :=
  let st1 := applyPayload st log.date log.payload
  { st1 with logs := st1.logs ++ [log] }

/-- replay of the logs of ONE ledger (the `ledger` field is not looked at) -/
def replayLedgerFrom (st : LedgerState) (logs : List CLog) : LedgerState := logs.foldl stepLedger st
def replayLedger (logs : List CLog) : LedgerState := replayLedgerFrom {} logs

/-- the state of every ledger of a bucket -/
abbrev View := String → LedgerState

def step (v : View) (log : CLog) : View :=
  fun l => if l = log.ledger then stepLedger (v l) log else v l

def replayFrom (v : View) (logs : List CLog) : View := logs.foldl step v
/-- **the replay**: one fold over all log entries of the bucket, in order -/
def replay (logs : List CLog) : View := replayFrom (fun _ => {}) logs

-- ---------------------------------------------------------------- queries (what read endpoints report)

/-- a selection of moves by insertion date and effective date (current: everything; point in time: `insertedAt ≤ t`;
by effective date: `effective ≤ d`) -/
abbrev When := Int → Int → Bool
def When.always : When := fun _ _ => true
def When.insertedBy (t : Int) : When := fun i _ => decide (i ≤ t)
def When.effectiveBy (d : Int) : When := fun _ e => decide (e ≤ d)

def sel (w : When) (a asset : String) (src : Bool) (m : Move) : Bool :=
  m.account == a && m.asset == asset && m.isSource == src && w m.insertedAt m.effective

def volume (ms : List Move) (w : When) (a asset : String) (src : Bool) : Nat :=
  ((ms.filter (sel w a asset src)).map (·.amount)).sum

def input (st : LedgerState) (w : When) (a asset : String) : Nat := volume st.moves w a asset false
def output (st : LedgerState) (w : When) (a asset : String) : Nat := volume st.moves w a asset true

/-- the balance, computed on its own as a signed running sum (that it is `input - output` is a theorem) -/
def signed (w : When) (a asset : String) (m : Move) : Int :=
  if m.account == a && m.asset == asset && w m.insertedAt m.effective then
    (if m.isSource then - (m.amount : Int) else (m.amount : Int)) else 0
def balance (st : LedgerState) (w : When) (a asset : String) : Int :=
  st.moves.foldl (fun acc m => acc + signed w a asset m) 0

def accounts (st : LedgerState) : List String := st.accts.map (·.address)
def assets (st : LedgerState) : List String := (st.moves.map (·.asset)).eraseDups

/-- aggregated volumes of an asset over the accounts selected by `keep` -/
def aggregatedInput (st : LedgerState) (w : When) (keep : String → Bool) (asset : String) : Nat :=
  (((accounts st).filter keep).map (fun a => input st w a asset)).sum
def aggregatedOutput (st : LedgerState) (w : When) (keep : String → Bool) (asset : String) : Nat :=
  (((accounts st).filter keep).map (fun a => output st w a asset)).sum

def findTx (st : LedgerState) (id : Nat) : Option TxRec := st.txs.find? (fun r => r.tx.id == id)
def findTxByReference (st : LedgerState) (ref : String) : Option TxRec := st.txs.find? (fun r => r.tx.reference == ref)
def lastTx (st : LedgerState) : Option TxRec := st.txs.getLast?
def txMeta (r : TxRec) : Meta := histCurrent r.metaHist
def findAcct (st : LedgerState) (a : String) : Option AcctRec := st.accts.find? (fun r => r.address == a)
def acctMeta (st : LedgerState) (a : String) : Meta :=
  match findAcct st a with
  | some r => histCurrent r.metaHist
  | none => []
def lastLog (st : LedgerState) : Option CLog := st.logs.getLast?
def logWithIk (st : LedgerState) (ik : String) : Option CLog := st.logs.find? (fun l => l.ik == ik)
def countTxs (st : LedgerState) : Nat := st.txs.length
def countAccounts (st : LedgerState) : Nat := st.accts.length
def countLogs (st : LedgerState) : Nat := st.logs.length
def revertTargets (logs : List CLog) : List Nat :=
  logs.filterMap (fun l => match l.payload with | .revert rid _ => some rid | _ => none)

-- ---------------------------------------------------------------- the record as of an insertion date

def histAsOf (t : Int) (h : List (Int × Meta)) : List (Int × Meta) := h.filter (fun e => decide (e.1 ≤ t))

def TxRec.asOf (t : Int) (r : TxRec) : TxRec :=
  { r with
    reverted := match r.reverted with
      | some i => if i.at_ ≤ t then some i else none
      | none => none
    metaHist := histAsOf t r.metaHist }

def AcctRec.asOf (t : Int) (r : AcctRec) : AcctRec := { r with metaHist := histAsOf t r.metaHist }

/-- everything the record contained at insertion date `t` -/
def LedgerState.asOf (t : Int) (st : LedgerState) : LedgerState :=
  { moves := st.moves.filter (fun m => decide (m.insertedAt ≤ t))
    txs := (st.txs.filter (fun r => decide (r.insertedAt ≤ t))).map (TxRec.asOf t)
    accts := (st.accts.filter (fun r => decide (r.firstSeen ≤ t))).map (AcctRec.asOf t)
    logs := st.logs.filter (fun l => decide (l.date ≤ t)) }

end Store
