import Model.Store.Project
/-! C04 stage 2: exhaustive enumeration of SMALL histories, run through the generated projection and compared with the replay.
Used by the check on every run (evidence: how many histories, which classes of discrepancy, a minimal witness per class) and
as the search that produces a concrete log sequence when a stage-2 proof obligation stops checking.

Alphabet: ledger `l` (all entry kinds) and ledger `m` (a transaction a→b, a metadata write), accounts a, b (c only as a target
of script metadata), one asset, amount 1, log dates 10, 20, 30, …; transaction timestamps: 5 (before everything), the log
date, 1000 (after everything). -/
namespace StoreSql.Search
open Store

structure St where
  logs : List CLog := []          -- newest first
  n : Nat := 0                    -- entries so far (bucket wide); date of the next one is 10 * (n + 1)
  nl : Nat := 0                   -- log ids of ledger l
  nm : Nat := 0
  txsL : List Tx := []            -- transactions of ledger l, oldest first
  txsM : Nat := 0

def mkTx (id : Nat) (ps : List Posting) (ts : Int) : Tx := { id := id, postings := ps, metadata := [], timestamp := ts, reference := "" }

def reversed (tx : Tx) : List Posting := tx.postings.reverse.map (fun p => { p with source := p.destination, destination := p.source })

def pushL (s : St) (p : Payload) (tx : Option Tx) : St :=
  { s with logs := { ledger := "l", id := s.nl, date := 10 * (s.n + 1), payload := p } :: s.logs, n := s.n + 1, nl := s.nl + 1,
           txsL := match tx with | some t => s.txsL ++ [t] | none => s.txsL }

def pushM (s : St) (p : Payload) (isTx : Bool) : St :=
  { s with logs := { ledger := "m", id := s.nm, date := 10 * (s.n + 1), payload := p } :: s.logs, n := s.n + 1, nm := s.nm + 1,
           txsM := if isTx then s.txsM + 1 else s.txsM }

def extensions (s : St) : List St :=
  let d : Int := 10 * (s.n + 1)
  let id := s.txsL.length
  let stamps : List Int := [5, d, 1000]
  let sends : List St := [("a", "b"), ("b", "a"), ("a", "a")].flatMap (fun sd => stamps.map (fun ts =>
    let tx := mkTx id [⟨sd.1, sd.2, "X", 1⟩] ts
    pushL s (.newTx tx []) (some tx)))
  let scripted : List St := ["a", "c"].map (fun who =>
    let tx := mkTx id [⟨"a", "b", "X", 1⟩] d
    pushL s (.newTx tx [(who, [("k", "v")])]) (some tx))
  let reverts : List St := (s.txsL.take 2).flatMap (fun t => [5, d].map (fun ts =>
    let tx := mkTx id (reversed t) ts
    pushL s (.revert t.id tx) (some tx)))
  let metas : List St :=
    [pushL s (.setMeta (.account "a") [("k", "v")]) none, pushL s (.setMeta (.account "a") [("k", "w")]) none,
     pushL s (.delMeta (.account "a") "k") none] ++
    (if s.txsL.isEmpty then [] else
      [pushL s (.setMeta (.transaction 0) [("k", "v")]) none, pushL s (.delMeta (.transaction 0) "k") none])
  let other : List St :=
    [pushM s (.newTx (mkTx s.txsM [⟨"a", "b", "X", 1⟩] d) []) true, pushM s (.setMeta (.account "a") [("k", "m")]) false]
  sends ++ scripted ++ reverts ++ metas ++ other

def grow : Nat → List St → List St
  | 0, acc => acc
  | k + 1, acc => acc ++ grow k (acc.flatMap extensions)

/-- every history of 1 … `depth` entries (each prefix appears as its own history) -/
def histories : Nat → List (List CLog)
  | 0 => []
  | d + 1 => (grow d (extensions {})).map (fun s => s.logs.reverse)

end StoreSql.Search
