/-! Model E, implementation side (C04): **the meaning of the SQL subset** that `0-init-schema.sql` uses.

THIS FILE IS TRUSTED BASE.  `extract/plpgsql` only transliterates syntax (one Lean definition per function / trigger of
the schema, in `Generated/Schema.lean`, regenerated on every run); what a construct *means* is written here, once, and is
my reading of the PostgreSQL documentation — nothing in the sandbox can execute SQL to confirm it.

Reading of PostgreSQL fixed here
* a table is the list of its rows in insertion (`seq`) order; `bigserial` counts from 1; an `update` keeps positions;
* SQL `null` is `Val.null`; comparisons and boolean connectives are three-valued (`Val.eq`, `Val.and`, …); a `where` / `if`
  / `on conflict … where` condition selects only on `true` (`truthy`): `null` and `false` both mean "not selected";
* arithmetic on `null` is `null`;
* `select … into v` WITHOUT `strict`: the first row in `order by` order is assigned; when no row is returned the targets
  are set to `null` (every field of a composite target) and `found` becomes false (PL/pgSQL, "Executing a Command with a
  Single-Row Result"); `order by … desc` sorts `null` first (`null` is larger than every value);
* `insert … on conflict (cols) do update set … where c`: when a row with equal `cols` exists it is updated if `c` is true
  (with `table.col` naming the existing row) and left alone otherwise; nothing is inserted (the sequence value PostgreSQL
  burns in that case is not modelled: only the order of `seq` values is ever used);
* `after insert` / `after update … for each row` triggers run once per affected row, after the statement, with `new` the
  row as written; triggers on one table and event fire in name order;
* `jsonb`: objects are key-unique, equality and `@>` ignore key order; `||` lets the right operand win; `-` removes a key;
  `->` yields `null` on a missing key; `->>` yields text.  Arrays under `@>` are only compared for equality (the schema
  applies `@>` to metadata objects).

Devices that keep the model free of string parsing (and kernel-evaluable for `decide`)
* `Val.numtext n`  — "the text that is the decimal rendering of `n`" (`j ->> k` on a JSON number; `::numeric` gives `n` back);
* `J.time w o` / `Val.tstext w o` — "the RFC 3339 text of wall-clock `w` µs at UTC offset `o` µs".  `::timestamp [without
  time zone]` yields `w`: PostgreSQL silently ignores a zone designation in a literal typed `timestamp without time zone`
  (Date/Time Types, 8.5.1.3) — DESIGN §6 #25 lives here;
* `Val.jsontext j` — "the text rendering of JSON value `j`" (`jsonb_pretty`, `->>` on an object): never equal to a literal
  that is not JSON.

Core-only. -/
namespace Sql

inductive J where
  | null
  | bool (b : Bool)
  | num (n : Int)
  | str (s : String)
  | time (wall off : Int)
  | arr (xs : List J)
  | obj (kvs : List (String × J))
deriving Repr, Inhabited

namespace J
def lookup (k : String) : List (String × J) → Option J
  | [] => none
  | (k', v) :: rest => if k' == k then some v else lookup k rest

mutual
/-- semantic equality: objects are compared as finite maps (both directions, so key order does not matter) -/
def beq : J → J → Bool
  | .null, .null => true
  | .bool a, .bool b => a == b
  | .num a, .num b => a == b
  | .str a, .str b => a == b
  | .time a o, .time b p => a == b && o == p
  | .arr a, .arr b => beqList a b
  | .obj a, .obj b => a.length == b.length && subKvs a b
  | _, _ => false
def beqList : List J → List J → Bool
  | [], [] => true
  | x :: xs, y :: ys => beq x y && beqList xs ys
  | _, _ => false
/-- every binding of the first object is in the second, with an equal value -/
def subKvs : List (String × J) → List (String × J) → Bool
  | [], _ => true
  | (k, x) :: xs, b => (match lookup k b with | some y => beq x y | none => false) && subKvs xs b
end
instance : BEq J := ⟨beq⟩

mutual
/-- `a @> b` -/
def contains : J → J → Bool
  | a, .obj kvs => (match a with | .obj as => containsKvs as kvs | _ => false)
  | a, .arr ys => (match a with | .arr xs => beqList xs ys | _ => false)
  | a, .null => (match a with | .null => true | _ => false)
  | a, .bool y => (match a with | .bool x => x == y | _ => false)
  | a, .num y => (match a with | .num x => x == y | _ => false)
  | a, .str y => (match a with | .str x => x == y | _ => false)
  | a, .time y p => (match a with | .time x o => x == y && o == p | _ => false)
def containsKvs (as : List (String × J)) : List (String × J) → Bool
  | [] => true
  | (k, y) :: ys => (match lookup k as with | some x => contains x y | none => false) && containsKvs as ys
end

def removeKey (k : String) (kvs : List (String × J)) : List (String × J) := kvs.filter (fun kv => kv.1 != k)
/-- `a || b` on objects: bindings of `b` win -/
def concatKvs (a b : List (String × J)) : List (String × J) := a.filter (fun kv => (lookup kv.1 b).isNone) ++ b
end J

inductive Val where
  | null
  | bool (b : Bool)
  | int (i : Int)
  | text (s : String)
  | numtext (n : Int)
  | ts (t : Int)
  | tstext (wall off : Int)
  | json (j : J)
  | jsontext (j : J)
  | vol (inputs outputs : Val)
deriving Repr, Inhabited

namespace Val
def beq : Val → Val → Bool
  | .null, .null => true
  | .bool a, .bool b => a == b
  | .int a, .int b => a == b
  | .text a, .text b => a == b
  | .numtext a, .numtext b => a == b
  | .numtext a, .text b => toString a == b
  | .text a, .numtext b => a == toString b
  | .ts a, .ts b => a == b
  | .tstext a o, .tstext b p => a == b && o == p
  | .json a, .json b => a == b
  | .jsontext a, .jsontext b => a == b
  | .vol a b, .vol c d => beq a c && beq b d
  | _, _ => false
instance : BEq Val := ⟨beq⟩

def isNullB : Val → Bool
  | .null => true
  | .vol a b => isNullB a && isNullB b      -- a row value is null iff all its fields are
  | _ => false

def truthy : Val → Bool
  | .bool true => true
  | _ => false

-- ---- three-valued logic
def not : Val → Val
  | .bool b => .bool (!b)
  | _ => .null
def and : Val → Val → Val
  | .bool false, _ => .bool false
  | _, .bool false => .bool false
  | .bool true, .bool true => .bool true
  | _, _ => .null
def or : Val → Val → Val
  | .bool true, _ => .bool true
  | _, .bool true => .bool true
  | .bool false, .bool false => .bool false
  | _, _ => .null
def isNull (a : Val) : Val := .bool (isNullB a)
def isNotNull (a : Val) : Val := .bool (!isNullB a)

def eq (a b : Val) : Val := if isNullB a || isNullB b then .null else .bool (a == b)
def ne (a b : Val) : Val := not (eq a b)

/-- order of the types that are ever compared with `<` in the schema: numbers and timestamps -/
def lt? : Val → Val → Option Bool
  | .int a, .int b => some (decide (a < b))
  | .ts a, .ts b => some (decide (a < b))
  | _, _ => none
def lt (a b : Val) : Val := match lt? a b with | some r => .bool r | none => .null
def gt (a b : Val) : Val := lt b a
def le (a b : Val) : Val := not (lt b a)
def ge (a b : Val) : Val := not (lt a b)

-- ---- arithmetic, jsonb, casts
def add : Val → Val → Val
  | .int a, .int b => .int (a + b)
  | _, _ => .null
/-- `-`: numeric subtraction, or removal of a key from a jsonb object -/
def sub : Val → Val → Val
  | .int a, .int b => .int (a - b)
  | .json (.obj kvs), .text k => .json (.obj (J.removeKey k kvs))
  | _, _ => .null
/-- `||` on jsonb objects -/
def concat : Val → Val → Val
  | .json (.obj a), .json (.obj b) => .json (.obj (J.concatKvs a b))
  | _, _ => .null
/-- `@>` -/
def containsJ : Val → Val → Val
  | .json a, .json b => .bool (J.contains a b)
  | _, _ => .null
def keyOf : Val → Option String
  | .text s => some s
  | .numtext n => some (toString n)
  | _ => none
/-- `->` -/
def arrow (a k : Val) : Val :=
  match a, keyOf k with
  | .json (.obj kvs), some key => (match J.lookup key kvs with | some v => .json v | none => .null)
  | _, _ => .null
/-- `->>` -/
def arrowText (a k : Val) : Val :=
  match arrow a k with
  | .json (.str s) => .text s
  | .json (.num n) => .numtext n
  | .json (.time w o) => .tstext w o
  | .json .null => .null
  | .json j => .jsontext j
  | _ => .null
def coalesce (a b : Val) : Val := if isNullB a then b else a
def castNumeric : Val → Val
  | .int i => .int i
  | .numtext n => .int n
  | _ => .null
/-- `::timestamp [without time zone]`: the zone designation of the text is ignored -/
def castTimestamp : Val → Val
  | .ts t => .ts t
  | .tstext w _ => .ts w
  | _ => .null
def castVarchar : Val → Val
  | .text s => .text s
  | .numtext n => .numtext n
  | _ => .null
def castJsonb : Val → Val
  | .json j => .json j
  | .jsontext j => .json j
  | _ => .null
def castVolumes : Val → Val
  | .vol a b => .vol a b
  | _ => .vol .null .null
/-- `(v).inputs`, `(v).outputs` -/
def field (name : String) : Val → Val
  | .vol a b => if name == "inputs" then a else if name == "outputs" then b else .null
  | _ => .null
/-- `v.inputs = x` on a PL/pgSQL composite variable -/
def setField (name : String) (v x : Val) : Val :=
  match v with
  | .vol a b => if name == "inputs" then .vol x b else if name == "outputs" then .vol a x else .vol a b
  | _ => if name == "inputs" then .vol x .null else if name == "outputs" then .vol .null x else .vol .null .null
def jsonbPretty : Val → Val
  | .json j => .jsontext j
  | _ => .null
end Val

-- ---------------------------------------------------------------- functions of PostgreSQL the schema calls

def splitOnColon (cs : List Char) (cur : List Char) : List String :=
  match cs with
  | [] => [String.ofList cur.reverse]
  | c :: rest => if c == ':' then String.ofList cur.reverse :: splitOnColon rest [] else splitOnColon rest (c :: cur)

/-- `to_json(string_to_array(a, ':'))` -/
def addressArray : Val → Val
  | .text s => .json (.arr ((splitOnColon s.toList []).map J.str))
  | _ => .null

def explodeSegments : Nat → List String → List (String × J)
  | n, [] => [(toString n, J.null)]
  | n, s :: rest => (toString n, J.str s) :: explodeSegments (n + 1) rest

/-- `explode_address('a:b')` = `{"0":"a","1":"b","2":null}` (a `language sql` function of the schema built on window
functions; translated by name) -/
def explodeAddress : Val → Val
  | .text s => .json (.obj (explodeSegments 0 (splitOnColon s.toList [])))
  | _ => .null

/-- `jsonb_array_elements(a)` -/
def jsonbArrayElements : Val → List Val
  | .json (.arr xs) => xs.map Val.json
  | _ => []

/-- `jsonb_each_text(o)` assigned to `(varchar, jsonb)` loop variables: a value that is itself JSON comes back as that JSON
(print-then-parse of a jsonb value is the identity); a string value would have to be JSON text to be assignable -/
def jsonbEachText : Val → List (Val × Val)
  | .json (.obj kvs) => kvs.map (fun kv => (Val.text kv.1, match kv.2 with | .str s => Val.text s | j => Val.json j))
  | _ => []

/-- `(select to_jsonb(array_agg(f v)) from jsonb_array_elements(a) v)` -/
def aggElements (f : Val → Val) (a : Val) : Val :=
  match a with
  | .json (.arr xs) =>
    if xs.isEmpty then .null else
    .json (.arr (xs.map (fun x => match f (Val.json x) with
      | .text s => J.str s | .numtext n => J.num n | .json j => j | _ => J.null)))
  | _ => .null

-- ---------------------------------------------------------------- relational combinators

abbrev truthy := Val.truthy

/-- one `order by` key -/
structure Key (R : Type) where
  get : R → Val
  desc : Bool

/-- strict "sorts before" for one key; `null` is larger than everything -/
def keyBefore (desc : Bool) (a b : Val) : Bool :=
  let lt : Val → Val → Bool := fun x y =>
    match Val.isNullB x, Val.isNullB y with
    | true, _ => false
    | false, true => true
    | false, false => (Val.lt? x y).getD false
  if desc then lt b a else lt a b

def lexBefore {R : Type} : List (Key R) → R → R → Bool
  | [], _, _ => false
  | k :: ks, a, b =>
    if keyBefore k.desc (k.get a) (k.get b) then true
    else if keyBefore k.desc (k.get b) (k.get a) then false
    else lexBefore ks a b

def pickBest {R : Type} (before : R → R → Bool) : Option R → List R → Option R
  | best, [] => best
  | none, r :: rs => pickBest before (some r) rs
  | some b, r :: rs => pickBest before (if before r b then some r else some b) rs

/-- `select … from rows where pred order by keys limit 1` -/
def selectFirst {R : Type} (rows : List R) (pred : R → Val) (keys : List (Key R)) : Option R :=
  pickBest (lexBefore keys) none (rows.filter (fun r => truthy (pred r)))

/-- a select-list expression of the (at most one) returned row; `null` when there is none -/
def col {R : Type} (res : Option R) (f : R → Val) : Val :=
  match res with
  | some r => f r
  | none => .null

structure Table (DB R : Type) where
  rows : DB → List R
  setRows : DB → List R → DB
  nextSeq : DB → Nat
  setNextSeq : DB → Nat → DB
  setSeq : R → Val → R

/-- `insert into t … values …` (the row gets the next `seq`) -/
def insertRow {DB R : Type} (t : Table DB R) (db : DB) (row : R) : DB × R :=
  let row := t.setSeq row (Val.int (t.nextSeq db))
  (t.setNextSeq (t.setRows db (t.rows db ++ [row])) (t.nextSeq db + 1), row)

/-- `update t set … where pred`; second component: the rows as written (for the row-level triggers) -/
def updateWhere {DB R : Type} (t : Table DB R) (db : DB) (pred : R → Val) (upd : R → R) : DB × List R :=
  (t.setRows db ((t.rows db).map (fun r => if truthy (pred r) then upd r else r)),
   ((t.rows db).filter (fun r => truthy (pred r))).map upd)

/-- `insert … on conflict (cols) do update set … where cond` -/
inductive Upserted (R : Type) where
  | inserted (row : R)
  | updated (rows : List R)

def upsertRow {DB R : Type} (t : Table DB R) (db : DB) (row : R) (conflict : R → Bool) (cond : R → Val) (upd : R → R) :
    DB × Upserted R :=
  if (t.rows db).any conflict then
    let r := updateWhere t db (fun r => if conflict r then cond r else Val.bool false) upd
    (r.1, .updated r.2)
  else
    let r := insertRow t db row
    (r.1, .inserted r.2)

/-- row-level `after` triggers: once per affected row, in order -/
def fireEach {DB R : Type} (f : DB → R → DB) (db : DB) (rows : List R) : DB := rows.foldl f db

def forEach {S A : Type} (xs : List A) (body : A → S → S) (s : S) : S := xs.foldl (fun s x => body x s) s

end Sql
