import Model.Store.Spec
import Model.Store.Sql
import Generated.Schema
/-! Model E, the bridge (C04 stage 2): a log entry of the specification (`Store.CLog`) as the row the real store COPYs into
`logs` (`logRow`, following `ledgerstore.InsertLogs` and the JSON encoding of `internal/log.go`), the projection of a log
sequence by the GENERATED trigger chain (`project`), and the comparison of what the projected tables hold with
`Store.replay` (`discrepancies`) — clause by clause of `projection_refines_replay`.

`discrepancies` is executable: the driver runs it on the generated histories of every check run and on an exhaustive
enumeration of small histories; `Props/C04.lean` evaluates it in the kernel on concrete witnesses. -/
namespace StoreSql
open Store Sql Schema

def metaJ (m : Meta) : J := .obj (m.map (fun kv => (kv.1, J.str kv.2)))

def postingJ (p : Posting) : J :=
  .obj [("source", .str p.source), ("destination", .str p.destination), ("amount", .num p.amount), ("asset", .str p.asset)]

/-- `off`: the UTC offset (µs) carried by the timestamp TEXT of the stored payload; the instant is `tx.timestamp`, the text
shows the wall-clock `tx.timestamp + off`.  `ParseTime` converts to UTC (Props/C13 `accepted_wf`: every accepted timestamp has
offset 0) and `Time.MarshalJSON` prints what it is given, so everything the engine stores has `off = 0`; the check feeds this
parameter with the offset it OBSERVES in the text the real code marshals. -/
def txJ (off : Int) (tx : Tx) : J :=
  .obj ([("postings", .arr (tx.postings.map postingJ)), ("metadata", metaJ tx.metadata), ("timestamp", .time (tx.timestamp + off) off)]
    ++ (if tx.reference == "" then [] else [("reference", .str tx.reference)])
    ++ [("id", .num tx.id), ("reverted", .bool false)])

def targetJ : Target → List (String × J)
  | .account a => [("targetType", .str "ACCOUNT"), ("targetId", .str a)]
  | .transaction id => [("targetType", .str "TRANSACTION"), ("targetId", .num id)]

def payloadJ (off : Int) : Payload → J
  | .newTx tx am => .obj [("transaction", txJ off tx), ("accountMetadata", .obj (am.map (fun km => (km.1, metaJ km.2))))]
  | .revert rid tx => .obj [("revertedTransactionID", .num rid), ("transaction", txJ off tx)]
  | .setMeta t m => .obj (targetJ t ++ [("metadata", metaJ m)])
  | .delMeta t k => .obj (targetJ t ++ [("key", .str k)])

def typeName : Payload → String
  | .newTx .. => "NEW_TRANSACTION" | .revert .. => "REVERTED_TRANSACTION" | .setMeta .. => "SET_METADATA" | .delMeta .. => "DELETE_METADATA"

def logRow (off : Int) (l : CLog) : LogsRow :=
  { seq := .null, ledger := .text l.ledger, id := .int l.id, type := .text (typeName l.payload), hash := .null, date := .ts l.date,
    data := .json (payloadJ off l.payload), idempotency_key := if l.ik == "" then .null else .text l.ik }

/-- one `INSERT` into `logs` (the `insert_log` trigger runs `handle_log`) -/
def stepDB (off : Int) (db : DB) (l : CLog) : DB := (insert_logs db (logRow off l)).1

/-- the tables after the log sequence has been inserted, entry by entry; each entry comes with the UTC offset (µs) its
stored transaction timestamp text carries (0: UTC — what `Now()` and `ParseTime` produce) -/
def projectO (lo : List (CLog × Int)) : DB := lo.foldl (fun db x => stepDB x.2 db x.1) {}
def projectFrom (off : Int) (db : DB) (logs : List CLog) : DB := logs.foldl (stepDB off) db
def project (logs : List CLog) : DB := projectFrom 0 {} logs

-- ---------------------------------------------------------------- reading the tables the way the read side does

def tText (s : String) : Val := .text s

/-- the move with the greatest `seq` of (ledger, account, asset) — what `get_all_account_volumes` / the balance filters /
`GetAggregatedBalances` pick -/
def lastMove (db : DB) (l a x : String) : Option MovesRow :=
  selectFirst db.moves (fun r => Val.and (Val.and (Val.eq r.ledger (tText l)) (Val.eq r.account_address (tText a))) (Val.eq r.asset (tText x)))
    [{ get := fun r => r.seq, desc := true }]

/-- the move that is last by (effective_date, seq) among those dated `≤ d` — what `get_all_account_effective_volumes` picks -/
def lastEffectiveMove (db : DB) (l a x : String) (d : Int) : Option MovesRow :=
  selectFirst db.moves (fun r => Val.and (Val.and (Val.and (Val.eq r.ledger (tText l)) (Val.eq r.account_address (tText a))) (Val.eq r.asset (tText x)))
      (Val.le r.effective_date (.ts d)))
    [{ get := fun r => r.effective_date, desc := true }, { get := fun r => r.seq, desc := true }]

/-- the point-in-time read by insertion date: among the rows with `insertion_date ≤ t`, the one with the greatest `seq` — what
`get_all_account_volumes(_before)` and `GetAggregatedBalances` (with a PIT) pick, to read `post_commit_volumes` -/
def lastMoveAsOf (db : DB) (l a x : String) (t : Int) : Option MovesRow :=
  selectFirst db.moves (fun r => Val.and (Val.and (Val.and (Val.eq r.ledger (tText l)) (Val.eq r.account_address (tText a))) (Val.eq r.asset (tText x)))
      (Val.le r.insertion_date (.ts t)))
    [{ get := fun r => r.seq, desc := true }]

/-- the MIXED read: rows cut on `effective_date ≤ t`, the latest BY SEQ (to read `post_commit_volumes`, the insertion-order totals) —
what `get_account_balance(_before)` does (DESIGN §6 #22) and what a `GetAggregatedBalances` filtering its PIT on `effective_date` would do -/
def lastMoveDatedBySeq (db : DB) (l a x : String) (t : Int) : Option MovesRow :=
  selectFirst db.moves (fun r => Val.and (Val.and (Val.and (Val.eq r.ledger (tText l)) (Val.eq r.account_address (tText a))) (Val.eq r.asset (tText x)))
      (Val.le r.effective_date (.ts t)))
    [{ get := fun r => r.seq, desc := true }]

def volPair (i o : Nat) : Val := .vol (.int i) (.int o)

def pairs (ms : List Move) : List (String × String) := (ms.map (fun m => (m.account, m.asset))).eraseDups

/-- (i) the latest move of every (account, asset) carries the running totals of the replay -/
def volumesBad (db : DB) (l : String) (st : LedgerState) : List (String × String) :=
  (pairs st.moves).filter (fun ax =>
    !(col (lastMove db l ax.1 ax.2) (fun r => r.post_commit_volumes) ==
      volPair (input st When.always ax.1 ax.2) (output st When.always ax.1 ax.2)))

/-- (ii) for every effective date `d` that occurs, the move last by (effective_date, seq) among those dated `≤ d` carries the
effective volumes at `d` -/
def effectiveBad (db : DB) (l : String) (st : LedgerState) : List (String × String × Int) :=
  ((pairs st.moves).flatMap (fun ax =>
    (((st.moves.filter (fun m => m.account == ax.1 && m.asset == ax.2)).map (·.effective)).eraseDups).map (fun d => (ax.1, ax.2, d)))).filter
    (fun axd =>
      !(col (lastEffectiveMove db l axd.1 axd.2.1 axd.2.2) (fun r => r.post_commit_effective_volumes) ==
        volPair (input st (When.effectiveBy axd.2.2) axd.1 axd.2.1) (output st (When.effectiveBy axd.2.2) axd.1 axd.2.1)))

def isNullVolumes (v : Val) : Bool := Val.isNullB v

/-- the rows of one ledger -/
def txRows (db : DB) (l : String) : List TransactionsRow := db.transactions.filter (fun r => r.ledger == tText l)
def acctRows (db : DB) (l : String) : List AccountsRow := db.accounts.filter (fun r => r.ledger == tText l)
def moveRows (db : DB) (l : String) : List MovesRow := db.moves.filter (fun r => r.ledger == tText l)

/-- distinct successive values, oldest first; a leading empty object is dropped when something follows -/
def canonHist : List J → List J
  | [] => []
  | x :: rest =>
    let d := rest.foldl (fun (acc : List J × J) y => if y == acc.2 then acc else (acc.1 ++ [y], y)) ([x], x)
    match d.1 with
    | (.obj []) :: y :: more => y :: more
    | other => other

def insertByRevision (r : Val × J) : List (Val × J) → List (Val × J)
  | [] => [r]
  | x :: xs => if (Val.lt? r.1 x.1).getD false then r :: x :: xs else x :: insertByRevision r xs

def sortByRevision (rows : List (Val × J)) : List J := (rows.foldl (fun acc r => insertByRevision r acc) []).map (·.2)

def jOf : Val → J
  | .json j => j
  | _ => .null

def txHistSql (db : DB) (r : TransactionsRow) : List J :=
  canonHist (sortByRevision ((db.transactions_metadata.filter (fun h => h.transactions_seq == r.seq)).map (fun h => (h.revision, jOf h.metadata))))
def acctHistSql (db : DB) (r : AccountsRow) : List J :=
  canonHist (sortByRevision ((db.accounts_metadata.filter (fun h => h.accounts_seq == r.seq)).map (fun h => (h.revision, jOf h.metadata))))
def histSpec (h : List (Int × Meta)) : List J := canonHist (h.reverse.map (fun e => metaJ e.2))

/-- (iii)+(iv) one transaction row against its record: identity, effective date, reference, current metadata, revisions,
`reverted_at` set iff the record is reverted -/
def txRowBad (db : DB) (row : TransactionsRow) (rec : TxRec) : List String :=
  (if row.id == .int rec.tx.id then [] else ["id"]) ++
  (if row.timestamp == .ts rec.tx.timestamp then [] else ["timestamp"]) ++
  (if row.reference == (if rec.tx.reference == "" then Val.null else .text rec.tx.reference) then [] else ["reference"]) ++
  (if jOf row.metadata == metaJ (txMeta rec) then [] else ["metadata"]) ++
  (if J.beqList (txHistSql db row) (histSpec rec.metaHist) then [] else ["metadata-history"]) ++
  (if (!Val.isNullB row.reverted_at) == rec.reverted.isSome then [] else ["reverted"])

def zipBad (f : TransactionsRow → TxRec → List String) : List TransactionsRow → List TxRec → List (String × Nat)
  | [], [] => []
  | a :: as, b :: bs => (f a b).map (fun s => (s, b.tx.id)) ++ zipBad f as bs
  | _, _ => [("count", 0)]

def acctRowBad (db : DB) (row : AccountsRow) (rec : AcctRec) : List String :=
  (if row.address == tText rec.address then [] else ["address"]) ++
  (if jOf row.metadata == metaJ (histCurrent rec.metaHist) then [] else ["metadata"]) ++
  (if J.beqList (acctHistSql db row) (histSpec rec.metaHist) then [] else ["metadata-history"])

/-- accounts are matched by address (the tables list them in `seq` order, the record in order of first use) -/
def acctsBad (db : DB) (l : String) (st : LedgerState) : List String :=
  (if (acctRows db l).length == st.accts.length then [] else ["count"]) ++
  st.accts.flatMap (fun rec =>
    match (acctRows db l).find? (fun row => row.address == tText rec.address) with
    | some row => acctRowBad db row rec
    | none => ["missing"])

structure Disc where
  ledger : String
  cls : String
  account : String := ""
  asset : String := ""
  date : Int := 0
  tx : Nat := 0
deriving Repr, DecidableEq, Inhabited

/-- every clause of `projection_refines_replay` for one ledger; `[]` means the tables say what the replay says -/
def discrepanciesOf (db : DB) (l : String) (st : LedgerState) : List Disc :=
  let v := volumesBad db l st
  let e := effectiveBad db l st
  let isNull := fun (axd : String × String × Int) =>
    isNullVolumes (col (lastEffectiveMove db l axd.1 axd.2.1 axd.2.2) (fun r => r.post_commit_effective_volumes))
  (if (moveRows db l).length == st.moves.length then [] else [{ ledger := l, cls := "moves-count" }]) ++
  v.map (fun ax => { ledger := l, cls := "volumes", account := ax.1, asset := ax.2 }) ++
  e.map (fun axd => { ledger := l, cls := if isNull axd then "effective-volumes-null" else "effective-volumes",
                      account := axd.1, asset := axd.2.1, date := axd.2.2 }) ++
  (zipBad (txRowBad db) (txRows db l) st.txs).map (fun s => { ledger := l, cls := "transaction-" ++ s.1, tx := s.2 }) ++
  (acctsBad db l st).map (fun s => { ledger := l, cls := "account-" ++ s })

def ledgersOf (logs : List CLog) : List String := (logs.map (·.ledger)).eraseDups

def discrepanciesO (lo : List (CLog × Int)) : List Disc :=
  let logs := lo.map (·.1)
  let db := projectO lo
  let v := replay logs
  (ledgersOf logs).flatMap (fun l => discrepanciesOf db l (v l))

def discrepancies (logs : List CLog) : List Disc := discrepanciesO (logs.map (fun l => (l, 0)))

-- ---------------------------------------------------------------- the hypothesis of `projection_refines_replay`

/-- no key twice -/
def distinctKeys : Meta → Bool
  | [] => true
  | kv :: rest => !(rest.any (fun x => x.1 == kv.1)) && distinctKeys rest

/-- the metadata maps an entry carries (transaction metadata, the maps of the script's account metadata, the map of a SET_METADATA)
are maps: no key twice.  That is what a JSON object in `jsonb` and a Go `map[string]string` are; `Store.Meta` and `Sql.J.obj` are
association lists and could say otherwise. -/
def wellFormedLog (l : CLog) : Bool :=
  match l.payload with
  | .newTx tx am => distinctKeys tx.metadata && am.all (fun km => distinctKeys km.2)
  | .revert _ tx => distinctKeys tx.metadata
  | .setMeta _ m => distinctKeys m
  | .delMeta _ _ => true

/-- **`WellFormedHistory`**, the only hypothesis of `C04.projection_refines_replay`: every metadata map of every entry has distinct
keys.  Nothing is asked of ids, dates, revert targets or metadata targets. -/
def wellFormedHistory (logs : List CLog) : Bool := logs.all wellFormedLog

-- ---------------------------------------------------------------- shapes of history on which the projection USED TO differ
/-! Diagnostic only: before the repairs of `insert_move`, `insert_posting` (0-init-schema.sql) and `ParseTime` these three shapes
were the recorded findings F24 / F29 / F25; nothing is excused by them any more (`smallScopeOk` asks for `discrepancies = []`).
The classification stays so that a discrepancy, should one come back, is reported with the shape of history it sits on. -/

structure ShapeState where
  seen : List String := []                       -- accounts that exist
  moves : List (String × String × Int) := []     -- (account, asset, effective date) of the moves so far
  selfFresh : List (String × String) := []
  backdated : List (String × String) := []

/-- one side of a posting, as `insert_move` sees it: `existed` is the `_account_exists` flag `insert_posting` computed
BEFORE it upserted the two accounts -/
def shapeSide (ts : Int) (c asset : String) (existed : Bool) (s : ShapeState) : ShapeState :=
  let earlier := s.moves.filter (fun m => m.1 == c && m.2.1 == asset)
  let back := existed && !earlier.isEmpty && !(earlier.any (fun m => decide (m.2.2 ≤ ts)))
  { s with moves := s.moves ++ [(c, asset, ts)], backdated := if back then s.backdated ++ [(c, asset)] else s.backdated }

def shapePosting (ts : Int) (s : ShapeState) (p : Posting) : ShapeState :=
  let srcSeen := s.seen.contains p.source
  let dstSeen := s.seen.contains p.destination
  let s := if p.source == p.destination && !srcSeen then { s with selfFresh := s.selfFresh ++ [(p.source, p.asset)] } else s
  let s := shapeSide ts p.source p.asset srcSeen s
  let s := shapeSide ts p.destination p.asset dstSeen s
  { s with seen := s.seen ++ [p.source, p.destination] }

def shapeStep (s : ShapeState) (l : CLog) : ShapeState :=
  match l.payload with
  | .newTx tx am => let s := tx.postings.foldl (shapePosting tx.timestamp) s; { s with seen := s.seen ++ am.map (·.1) }
  | .revert _ tx => tx.postings.foldl (shapePosting tx.timestamp) s
  | .setMeta (.account a) _ => { s with seen := s.seen ++ [a] }
  | _ => s

def shapes (logs : List CLog) (l : String) : ShapeState := (logs.filter (fun x => x.ledger == l)).foldl shapeStep {}

/-- the shape of history that explains a discrepancy, if any:
* `volumes` / `effective-volumes` on (account, asset): a posting from a NEW account to itself (`insert_posting` computes both
  `_exists` flags before creating the account, so the second move starts again from zero);
* `effective-volumes-null`: a move dated before every existing move of that account and asset (`insert_move`'s second
  `select … into` finds no row and leaves NULLs — DESIGN §6 #24);
* `transaction-timestamp` (and effective-dated figures of that ledger): a transaction whose timestamp text carries a UTC
  offset — `::timestamp without time zone` files it under its wall-clock time (DESIGN §6 #25); explained per ledger -/
def explanation (lo : List (CLog × Int)) (d : Disc) : String :=
  let logs := lo.map (·.1)
  let sh := shapes logs d.ledger
  let offsetTx := lo.any (fun x => x.1.ledger == d.ledger && x.2 != 0 &&
    (match x.1.payload with | .newTx .. => true | .revert .. => true | _ => false))
  if offsetTx && (d.cls == "transaction-timestamp" || d.cls == "effective-volumes" || d.cls == "effective-volumes-null") then
    "timestamp written with a non-UTC offset"
  else if (d.cls == "volumes" || d.cls == "effective-volumes") && sh.selfFresh.contains (d.account, d.asset) then "posting from a new account to itself"
  else if d.cls == "effective-volumes-null" && sh.backdated.contains (d.account, d.asset) then "move dated before all existing moves"
  else "unexplained"

/-- (v) frame, step by step: inserting an entry of ledger `l` leaves every row of every other ledger exactly as it was -/
def otherRows (db : DB) (l : String) : List TransactionsRow × List TransactionsMetadataRow × List AccountsRow × List AccountsMetadataRow × List MovesRow :=
  (db.transactions.filter (fun r => !(r.ledger == tText l)), db.transactions_metadata.filter (fun r => !(r.ledger == tText l)),
   db.accounts.filter (fun r => !(r.ledger == tText l)), db.accounts_metadata.filter (fun r => !(r.ledger == tText l)),
   db.moves.filter (fun r => !(r.ledger == tText l)))

def frameBadFrom (db : DB) : List CLog → List Nat
  | [] => []
  | l :: ls =>
    let db' := stepDB 0 db l
    (if otherRows db' l.ledger == otherRows db l.ledger then [] else [l.id]) ++ frameBadFrom db' ls

def frameBad (logs : List CLog) : List Nat := frameBadFrom {} logs

-- ---------------------------------------------------------------- stage 2g: `get_account_balance(_ledger, _account, _asset, _before)`

/-- the single SELECT of the `language sql` function `get_account_balance`, transcribed by hand (the translator does not
cover read functions): latest move BY SEQ among those with `effective_date <= _before`, reading `post_commit_volumes` -/
def getAccountBalance (db : DB) (l a x : String) (before : Option Int) : Val :=
  col (selectFirst db.moves
        (fun r => Val.and (Val.and (Val.and
            (match before with | none => Val.bool true | some b => Val.le r.effective_date (.ts b))
            (Val.eq r.account_address (tText a))) (Val.eq r.asset (tText x))) (Val.eq r.ledger (tText l)))
        [{ get := fun r => r.seq, desc := true }])
      (fun r => Val.sub (Val.field "inputs" r.post_commit_volumes) (Val.field "outputs" r.post_commit_volumes))

end StoreSql
