/-! Model C — the account lock manager `DefaultLocker` (internal/engine/command/lock.go,
libs/collectionutils/linked_list.go).

What is Go state and what is ghost state
* `t.rl`  = `readLocks  map[string]*atomic.Int64` as an association list account → count
* `t.wl`  = `writeLocks map[string]struct{}` as a list used as a set
* `queue` = `intents` (the linked list, FIFO)
* ghost: `live` (requests whose `tryLock` succeeded and whose `unlock` has not run: they own what is in the
  tables), `pending` (ids in `live` that were granted by `recheck` — `acquired` is closed — but whose `Lock`
  call has not left the `select` yet), `cancelled` (contexts that are done), `aborted` (`Lock` returned the
  context error), `seen` (ids are the identity of the `*lockIntent`; one `Lock` call per id), `log` (which
  `tryLock` call site granted a request).

The transitions are the atomic sections of the Go code (everything between `mu.Lock()` and `mu.Unlock()`
is one transition):
* `arrive r`    — `Lock` up to the `select`: `tryLock`, else `intents.Append`.  A new arrival does NOT look at
                  the queue: it may overtake waiting intents.  The context is not consulted here.
* `release id`  — the `Unlock` closure: `intent.unlock` then `recheck` (scan the queue front to back, grant
                  every intent that is compatible with the tables *as updated so far*, remove it, close `acquired`).
* `cancel id`   — `id`'s context becomes done.
* `wake id b`   — `id`'s goroutine leaves the `select`.  Only `acquired` ready → returns the unlock function;
                  only `ctx.Done()` ready → gives up; both ready → Go chooses pseudo-randomly, `b` is that choice.

`fixed = true` is the repaired cancellation path (fixes/c15-lock-cancel.diff: under the mutex; if `acquired`
is already closed the granted accounts are given back by `unlock` + `recheck`, else the intent is removed);
`fixed = false` is the code as found (the intent is "removed" without looking at `acquired`: a granted
request that takes the `ctx.Done()` branch returns the error and its accounts stay in the tables).
Core-only Lean (the driver links this file). -/
namespace Lock

abbrev Acct := String

structure Req where
  id    : Nat
  read  : List Acct
  write : List Acct
deriving Repr, DecidableEq, Inhabited

/-! ### the two tables -/

abbrev RTable := List (Acct × Nat)
abbrev WTable := List Acct

/-- `readLocks[a]` (0 when the key is absent) -/
def rget : RTable → Acct → Nat
  | [], _ => 0
  | (b, n) :: t, a => if b = a then n else rget t a

/-- `_, ok := readLocks[a]` -/
def rhas : RTable → Acct → Bool
  | [], _ => false
  | (b, _) :: t, a => if b = a then true else rhas t a

/-- `readLocks[a]` created at 0 if absent, then `Add(1)` -/
def rinc : RTable → Acct → RTable
  | [], a => [(a, 1)]
  | (b, n) :: t, a => if b = a then (b, n + 1) :: t else (b, n) :: rinc t a

/-- `if readLocks[a].Add(-1) == 0 { delete(readLocks, a) }`.  (An absent key would be a nil dereference in
Go; `C15.release_never_nil` shows a holder's read accounts are always present.) -/
def rdec : RTable → Acct → RTable
  | [], _ => []
  | (b, n) :: t, a => if b = a then (if n ≤ 1 then t else (b, n - 1) :: t) else (b, n) :: rdec t a

def winsert (w : WTable) (a : Acct) : WTable := if w.contains a then w else a :: w
def wdel (w : WTable) (a : Acct) : WTable := w.filter (fun b => b != a)

structure Tables where
  rl : RTable
  wl : WTable
deriving Repr, Inhabited

/-- the test at the top of `tryLock`: no read account is write-locked, no write account is locked at all.
An account in both sets of the same request, duplicates and empty sets need no special case. -/
def compatible (t : Tables) (r : Req) : Bool :=
  r.read.all (fun a => !t.wl.contains a) &&
  r.write.all (fun a => !rhas t.rl a && !t.wl.contains a)

/-- the second half of `tryLock` -/
def acquire (t : Tables) (r : Req) : Tables :=
  { rl := r.read.foldl rinc t.rl, wl := r.write.foldl winsert t.wl }

/-- `lockIntent.unlock` -/
def unlock (t : Tables) (r : Req) : Tables :=
  { rl := r.read.foldl rdec t.rl, wl := r.write.foldl wdel t.wl }

/-! ### state -/

inductive Origin | direct | recheck
deriving Repr, DecidableEq, Inhabited

structure State where
  t         : Tables
  queue     : List Req
  live      : List Req
  pending   : List Nat
  cancelled : List Nat
  aborted   : List Nat
  seen      : List Nat
  log       : List (Nat × Origin)
deriving Repr, Inhabited

def init : State :=
  { t := ⟨[], []⟩, queue := [], live := [], pending := [], cancelled := [], aborted := [], seen := [], log := [] }

/-- requests whose `Lock` call has returned an unlock function that has not been called yet -/
def holders (s : State) : List Req :=
  s.live.filter (fun h => !s.pending.contains h.id && !s.aborted.contains h.id)

/-- take the (first) request with this id out of a list -/
def extract (id : Nat) : List Req → Option (Req × List Req)
  | [] => none
  | h :: t =>
    if h.id = id then some (h, t) else
      match extract id t with
      | none => none
      | some (x, r) => some (x, h :: r)

/-- a successful `tryLock` of `r` -/
def grant (s : State) (r : Req) (o : Origin) : State :=
  { s with t := acquire s.t r, live := r :: s.live, log := (r.id, o) :: s.log }

/-- the `recheck` loop over the not yet visited nodes; `s.queue` collects the intents that stay -/
def recheckGo (s : State) : List Req → State
  | [] => s
  | r :: rs =>
    if compatible s.t r then
      recheckGo { grant s r .recheck with pending := r.id :: s.pending } rs
    else
      recheckGo { s with queue := s.queue ++ [r] } rs

def recheck (s : State) : State := recheckGo { s with queue := [] } s.queue

/-! ### transitions -/

inductive Branch | grant | ctx
deriving Repr, DecidableEq, Inhabited

inductive Op
  | arrive (r : Req)
  | release (id : Nat)
  | cancel (id : Nat)
  | wake (id : Nat) (b : Branch)
deriving Repr, DecidableEq, Inhabited

inductive Out
  | acquired        -- arrive: `Lock` returns the unlock function at once
  | queued          -- arrive: the intent was appended, the caller blocks in the `select`
  | released        -- release: accounts given back, queue rechecked
  | cancelled       -- cancel
  | returnedUnlock  -- wake: `Lock` returns (unlock, nil)
  | returnedErr     -- wake: `Lock` returns (nil, context error)
  | blocked         -- wake of a goroutine with no ready case: nothing happens
  | rejected        -- not an event of the system (id used twice, release by a non-holder, …)
deriving Repr, DecidableEq, Inhabited

def arrive (s : State) (r : Req) : State × Out :=
  if s.seen.contains r.id then (s, .rejected) else
  let s := { s with seen := r.id :: s.seen }
  if compatible s.t r then (grant s r .direct, .acquired)
  else ({ s with queue := s.queue ++ [r] }, .queued)

/-- only the owner of an unlock function can call it: the request is live, its `Lock` call has returned
(not pending) and did not return an error (not aborted).  The closure is called at most once (assumption
on callers; a second call would corrupt the tables in Go). -/
def release (s : State) (id : Nat) : State × Out :=
  if s.pending.contains id || s.aborted.contains id then (s, .rejected) else
  match extract id s.live with
  | none => (s, .rejected)
  | some (h, rest) => (recheck { s with t := unlock s.t h, live := rest }, .released)

def cancel (s : State) (id : Nat) : State × Out :=
  ({ s with cancelled := id :: s.cancelled }, .cancelled)

def wake (fixed : Bool) (s : State) (id : Nat) (b : Branch) : State × Out :=
  if s.pending.contains id then
    if s.cancelled.contains id && b == .ctx then
      -- both cases were ready and the `ctx.Done()` branch was taken
      if fixed then
        match extract id s.live with
        | none => (s, .rejected)
        | some (h, rest) =>
          (recheck { s with t := unlock s.t h, live := rest,
                            pending := s.pending.filter (fun x => x != id), aborted := id :: s.aborted },
           .returnedErr)
      else
        -- as found: RemoveValue finds nothing, the error is returned, the accounts stay locked
        ({ s with pending := s.pending.filter (fun x => x != id), aborted := id :: s.aborted }, .returnedErr)
    else
      ({ s with pending := s.pending.filter (fun x => x != id) }, .returnedUnlock)
  else
    match extract id s.queue with
    | none => (s, .rejected)
    | some (_, rest) =>
      if s.cancelled.contains id then ({ s with queue := rest, aborted := id :: s.aborted }, .returnedErr)
      else (s, .blocked)

def stepG (fixed : Bool) (s : State) : Op → State × Out
  | .arrive r => arrive s r
  | .release id => release s id
  | .cancel id => cancel s id
  | .wake id b => wake fixed s id b

/-- the repaired code -/
def step (s : State) (o : Op) : State × Out := stepG true s o
/-- the code as found -/
def stepOrig (s : State) (o : Op) : State × Out := stepG false s o

def runG (fixed : Bool) (s : State) : List Op → State
  | [] => s
  | o :: os => runG fixed (stepG fixed s o).1 os

def run (s : State) (ops : List Op) : State := runG true s ops

def Reachable (s : State) : Prop := ∃ ops, s = run init ops

/-! ### vocabulary of the property -/

/-- two requests conflict when one writes an account the other reads or writes -/
def conflict (x y : Req) : Bool :=
  x.write.any (fun a => y.read.contains a || y.write.contains a) ||
  y.write.any (fun a => x.read.contains a || x.write.contains a)

def weight (s : State) : Nat := s.live.length + s.queue.length

/-- one round of "a holder releases": the `k`-th live request (any choice function) first leaves its `select`
if it is still in there, then calls its unlock function -/
def releaseOne (s : State) (h : Req) : State :=
  let s1 := if s.pending.contains h.id then (step s (.wake h.id .grant)).1 else s
  (step s1 (.release h.id)).1

def drainRun (pick : State → Nat) : Nat → State → State
  | 0, s => s
  | n + 1, s =>
    match s.live[pick s % s.live.length]? with
    | none => s
    | some h => drainRun pick n (releaseOne s h)

end Lock
