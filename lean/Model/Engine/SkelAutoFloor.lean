import Model.Engine.Base
import Model.Engine.Skel
import Model.Engine.SkelSys
/-! SkelAutoFloor — what the `Floor` machine (C02) needs from the order of a request's own steps: the account locks are
requested at most once and before any commit; balances are read once, under the lock, before the commit; a log that
carries a transaction is appended under the lock after the balances were read; the lock is released only when nothing
of the request is still queued — it appended nothing, or the wait for persistence returned.  Core Lean only. -/
namespace Engine.Skel.FloorRef
open Engine Engine.Skel

inductive FTok | lockOk | unlock | readOk | chain | appendC | appendX | waitP | badYield | other
deriving DecidableEq, Repr

def ftok : Item → FTok
  | .act .lock .ok _ => .lockOk
  | .act .unlock _ _ => .unlock
  | .act .readBalances .ok _ => .readOk
  | .act .chainLog _ _ => .chain
  | .act (.append o _) _ _ => if o = "chained" then .appendC else .appendX
  | .act (.wait c) _ _ => if c = "persisted" then .waitP else .other
  | .act (.yield pt) _ _ => if pt = "lock-granted" then .badYield else .other
  | _ => .other

inductive LockPh | none | held | released
deriving DecidableEq, Repr

structure FPh where
  lock : LockPh := .none
  read : Bool := false
  committed : Bool := false
  waited : Bool := false
deriving DecidableEq, Repr

/-- `tx`: the entry point writes a transaction (create / revert) -/
def fstep (tx : Bool) (ph : FPh) : FTok → Option FPh
  | .other => some ph
  | .chain => some ph
  | .lockOk => if ph.lock = .none ∧ ph.committed = false then some { ph with lock := .held } else none
  | .unlock => if ph.lock = .held ∧ (ph.committed = false ∨ ph.waited = true) then some { ph with lock := .released } else none
  | .readOk => if ph.lock = .held ∧ ph.committed = false ∧ ph.read = false then some { ph with read := true } else none
  | .appendC =>
    if ph.committed = false ∧ (if tx then ph.lock = .held ∧ ph.read = true else ph.lock = .none) then some { ph with committed := true }
    else none
  | .appendX => none
  | .waitP => if ph.committed then some { ph with waited := true } else none
  | .badYield => none

def frun (tx : Bool) : FPh → Path → Option FPh
  | ph, [] => some ph
  | ph, x :: xs => match fstep tx ph (ftok x) with
    | some ph' => frun tx ph' xs
    | none => none

end Engine.Skel.FloorRef
