import Model.Engine.Skel
import Model.Engine.SkelAuto
/-! Well-formedness of control paths of the commander skeleton: the clauses (C1) as executable checks.

Almost every clause has the shape "an item of kind `A` only occurs while *armed*: after an item of kind `B` with no item
of kind `C` since (or, when `init`, from the start with no `C` so far)" — `sinceOk A B C init`; its declarative reading
`Since` and the equivalence are in `Props/Skeleton.lean`.  Clauses about the end of a path ("whatever was taken is
released") are the same check on the reversed path.

`tagWaits` resolves what a channel receive waits for: the callback handed to `Batcher.Append` earlier on the path closes
that channel ("persisted"), the request closed it itself ("closed": the preview's channel), or neither ("unknown:…").
Core Lean only. -/
namespace Engine.Skel

def sinceOk (A B C : Item → Bool) : Bool → Path → Bool
  | _, [] => true
  | armed, x :: xs => (!A x || armed) && sinceOk A B C (B x || (armed && !C x)) xs

/-- replace the channel of every `wait` by what the receive waits for -/
def tagWaits (pending closed : List String) : Path → Path
  | [] => []
  | .act (.append l cs) o v :: xs => .act (.append l cs) o v :: tagWaits (cs ++ pending) closed xs
  | .act (.chanClose c) o v :: xs => .act (.chanClose c) o v :: tagWaits pending (c :: closed) xs
  | .act (.wait c) o v :: xs =>
    .act (.wait (if pending.contains c then "persisted" else if closed.contains c then "closed" else "unknown:" ++ c)) o v
      :: tagWaits pending closed xs
  | x :: xs => x :: tagWaits pending closed xs

def tagged (p : Path) : Path := tagWaits [] [] p

-- ---------------------------------------------------------------------------------------- kinds of items

def never : Item → Bool := fun _ => false

def isTakeOk (k : RefKind) : Item → Bool
  | .act (.take k' _) .ok _ => k' = k
  | _ => false
def isRelease (k : RefKind) : Item → Bool
  | .act (.release k' _) _ _ => k' = k
  | _ => false
def isLockOk : Item → Bool
  | .act .lock .ok _ => true
  | _ => false
def isUnlock : Item → Bool
  | .act .unlock _ _ => true
  | _ => false
def isBalanceUse : Item → Bool
  | .act .readBalances _ _ => true
  | .act .vmRun _ _ => true
  | _ => false
def isReadIk : Item → Bool
  | .act (.readIk _) _ _ => true
  | _ => false
def isReadIkOk : Item → Bool
  | .act (.readIk _) .ok _ => true
  | _ => false
def isReadRef : Item → Bool
  | .act (.readRef _) _ _ => true
  | _ => false
def isReadTx : Item → Bool
  | .act (.readTx _) _ _ => true
  | _ => false
def isAppend : Item → Bool
  | .act (.append _ _) _ _ => true
  | _ => false
def isChain : Item → Bool
  | .act .chainLog _ _ => true
  | _ => false
def isAlloc : Item → Bool
  | .act .allocTxid _ _ => true
  | _ => false
def isStamp : Item → Bool
  | .act .stampTxid _ _ => true
  | _ => false
def isPeek : Item → Bool
  | .act .peekTxid _ _ => true
  | _ => false
def isMuLock : Item → Bool
  | .act .muLock _ _ => true
  | _ => false
def isMuUnlock : Item → Bool
  | .act .muUnlock _ _ => true
  | _ => false
def isWaitPersisted : Item → Bool
  | .act (.wait "persisted") _ _ => true
  | _ => false
def isWait : Item → Bool
  | .act (.wait _) _ _ => true
  | _ => false
def isYield : Item → Bool
  | .act (.yield _) _ _ => true
  | _ => false
def isPublish : Item → Bool
  | .act (.publish _ _) _ _ => true
  | _ => false
def isSetIk : Item → Bool
  | .act .setIk _ _ => true
  | _ => false
def isErrFin : Item → Bool
  | .fin false _ => true
  | _ => false
def isFin : Item → Bool
  | .fin _ _ => true
  | _ => false
def isPanic : Item → Bool
  | .panic _ => true
  | _ => false
def isChoice (atom : String) (v : Bool) : Item → Bool
  | .choose a b => a = atom && b = v
  | _ => false
/-- what a commit consists of -/
def isCommitStep (x : Item) : Bool := isAlloc x || isStamp x || isChain x || isAppend x
/-- the steps of a request that its reservations have to enclose: lookups, locking, execution, commit, the wait -/
def isCore (x : Item) : Bool :=
  isReadIk x || isReadRef x || isReadTx x || isLockOk x || isBalanceUse x || isCommitStep x || isWait x
/-- a point at which another request may run, or the request is over -/
def isSwitch (x : Item) : Bool := isYield x || isWait x || isFin x || isLockOk x

/-- a step of the request's own code (not a deferred call, not a registered release), or its successful return -/
def isDirectOrFin : Item → Bool
  | .act _ _ .direct => true
  | .fin true _ => true
  | _ => false

def orB (f g : Item → Bool) : Item → Bool := fun x => f x || g x

-- ---------------------------------------------------------------------------------------- publications

/-- what each publication must be built from: (origin class, selector path) per argument, where the origin class "log"
stands for the log the entry point was answered with and "txRead" for the transaction looked up in the store -/
def publishShape : String → Option (List (String × String))
  | "CommittedTransactions" => some [("log", ".Data.(ledger.NewTransactionLogPayload).Transaction"),
                                     ("log", ".Data.(ledger.NewTransactionLogPayload).AccountMetadata")]
  | "RevertedTransaction" => some [("txRead", ""), ("log", ".Data.(ledger.RevertedTransactionLogPayload).RevertTransaction")]
  | "SavedMetadata" => some [("log", ".Data.(ledger.SetMetadataLogPayload).TargetType"),
                             ("log", ".Data.(ledger.SetMetadataLogPayload).TargetID"),
                             ("log", ".Data.(ledger.SetMetadataLogPayload).Metadata")]
  | "DeletedMetadata" => some [("log", ".Data.(ledger.DeleteMetadataLogPayload).TargetType"),
                               ("log", ".Data.(ledger.DeleteMetadataLogPayload).TargetID"),
                               ("log", ".Data.(ledger.DeleteMetadataLogPayload).Key")]
  | _ => none

/-- the publication is built, argument by argument, from the payload of a log of origin `o` (and the looked-up
transaction where the bus expects the reverted one) -/
def publishFrom (o : String) : Item → Bool
  | .act (.publish k args) _ _ =>
    match publishShape k with
    | some sh => args = sh.map (fun (c, path) => Prov.of (if c = "log" then o else c) path)
    | none => false
  | _ => false

/-- what each entry point answers with: a field of the payload of the log it was answered with -/
def answerShape : String → Option String
  | "CreateTransaction" => some ".Data.(ledger.NewTransactionLogPayload).Transaction"
  | "RevertTransaction" => some ".Data.(ledger.RevertedTransactionLogPayload).RevertTransaction"
  | _ => none

def isAnswer : Item → Bool
  | .act (.answer _) _ _ => true
  | _ => false

def answerFrom (ep o : String) : Item → Bool
  | .act (.answer v) _ _ => (match answerShape ep with | some path => v = Prov.of o path | none => false)
  | _ => false

def isPublishRevert : Item → Bool
  | .act (.publish "RevertedTransaction" _) _ _ => true
  | _ => false

/-- which entry point publishes what -/
def publishKindOf : String → String
  | "CreateTransaction" => "CommittedTransactions"
  | "RevertTransaction" => "RevertedTransaction"
  | "SaveMeta" => "SavedMetadata"
  | "DeleteMetadata" => "DeletedMetadata"
  | _ => "?"

def isPublishKind (k : String) : Item → Bool
  | .act (.publish k' _) _ _ => k' = k
  | _ => false

-- ---------------------------------------------------------------------------------------- keys

def keysOf (k : RefKind) : Path → List String
  | [] => []
  | .act (.take k' key) _ _ :: xs => if k' = k then key :: keysOf k xs else keysOf k xs
  | .act (.release k' key) _ _ :: xs => if k' = k then key :: keysOf k xs else keysOf k xs
  | .act (.readIk key) _ _ :: xs => if k = .iks then key :: keysOf k xs else keysOf k xs
  | .act (.readRef key) _ _ :: xs => if k = .txref then key :: keysOf k xs else keysOf k xs
  | _ :: xs => keysOf k xs

def allSame : List String → Bool
  | [] => true
  | x :: xs => xs.all (· = x)

-- ---------------------------------------------------------------------------------------- the clauses

/-- the clauses, by name; every one is a check on the tagged path `q` (and its reverse for the "at the end" ones) -/
def clauses (ep : String) : List (String × (Path → Bool)) := [
  -- (i) account locks
  ("lockBeforeRead", sinceOk isBalanceUse isLockOk isUnlock false),
  ("lockSpansWait", sinceOk isUnlock isWaitPersisted isAppend true),
  ("unlockByTerminated", fun q => q.all (fun x => match x with | .act .unlock _ v => v = .terminated | _ => true)),
  ("unlockOnce", sinceOk isUnlock isLockOk isUnlock false),
  -- (ii) reservations
  ("refSpansWait", sinceOk (isRelease .txref) isWaitPersisted isAppend true),
  ("refByTerminated", fun q => q.all (fun x => match x with | .act (.release .txref _) _ v => v = .terminated | _ => true)),
  ("ikSpansWait", sinceOk (isRelease .iks) isWaitPersisted isAppend true),
  ("ikEncloses", sinceOk isCore never (isRelease .iks) true),
  ("revertSpansWait", sinceOk (isRelease .reverts) isWaitPersisted isAppend true),
  ("revertEncloses", sinceOk (orB isCore isPublish) never (isRelease .reverts) true),
  ("releaseOnce", fun q => [RefKind.iks, .txref, .reverts].all (fun k => sinceOk (isRelease k) (isTakeOk k) (isRelease k) false q)),
  -- (iii) lookups under the reservation, with the reservation's key
  ("ikLookupReserved", sinceOk isReadIk (isTakeOk .iks) (isRelease .iks) false),
  ("refLookupReserved", sinceOk isReadRef (isTakeOk .txref) (isRelease .txref) false),
  ("revertLookupReserved", fun q => ep ≠ "RevertTransaction" || sinceOk isReadTx (isTakeOk .reverts) (isRelease .reverts) false q),
  ("revertLooksUp", fun q => ep ≠ "RevertTransaction" || sinceOk isAppend isReadTx never false q),
  ("sameKeys", fun q => [RefKind.iks, .txref, .reverts].all (fun k => allSame (keysOf k q))),
  -- (iv) the commit is one critical section: allocate, stamp, chain, append
  ("commitInMutex", sinceOk (orB isCommitStep isPeek) isMuLock isMuUnlock false),
  ("allocFirst", sinceOk (orB isAlloc isStamp) isMuLock (orB (orB isChain isAppend) isMuUnlock) false),
  ("stampAfterAlloc", sinceOk isStamp isAlloc isMuUnlock false),
  ("allocStamped", sinceOk isChain (orB isStamp isMuLock) isAlloc false),
  ("chainOnce", sinceOk isChain isMuLock (orB (orB isChain isAppend) isMuUnlock) false),
  ("appendAfterChain", sinceOk isAppend isChain (orB isAppend isMuUnlock) false),
  ("appendsTheChained", fun q => q.all (fun x => match x with | .act (.append l cs) _ _ => l = "chained" && !cs.isEmpty | _ => true)),
  ("oneCommit", sinceOk (orB isAppend isChain) never isAppend true),
  ("noSwitchInMutex", sinceOk isSwitch isMuUnlock isMuLock true),
  ("mutexNotNested", sinceOk isMuLock isMuUnlock isMuLock true),
  -- (v) previews
  ("dryCommitsNothing", fun q => !chose q "dry" true || q.all (fun x => !(isCommitStep x || isPublish x))),
  ("commitIsNotDry", sinceOk (orB isCommitStep isPublish) (isChoice "dry" false) never false),
  -- (vi) publications
  ("publishAfterDurable", sinceOk (publishFrom "chained") isWaitPersisted isAppend false),
  ("publishFromReturnedLog", fun q => q.all (fun x => !isPublish x || publishFrom "chained" x || publishFrom "ikRead" x)),
  ("publishFoundIsStored", sinceOk (publishFrom "ikRead") isReadIkOk never false),
  ("publishOwnKind", fun q => q.all (fun x => !isPublish x || isPublishKind (publishKindOf ep) x)),
  ("publishKindChecked", sinceOk isPublish (isChoice "payload-kind-ok" true) never false),
  ("revertIdCompared", sinceOk isPublishRevert (isChoice "payload-id=lookup-id" true) never false),
  ("revertedIsLookedUp", sinceOk isPublishRevert (Item.isOk (fun a => match a with | .readTx _ => true | _ => false)) never false),
  ("publishOnce", sinceOk isPublish never isPublish true),
  ("answerFromReturnedLog", fun q => q.all (fun x => !isAnswer x || answerFrom ep "chained" x || answerFrom ep "ikRead" x || answerFrom ep "preview" x)),
  ("answerAfterDurable", sinceOk (answerFrom ep "chained") isWaitPersisted isAppend false),
  ("answerPreviewOnlyDry", sinceOk (answerFrom ep "preview") (isChoice "dry" true) never false),
  ("answerKindChecked", sinceOk isAnswer (isChoice "payload-kind-ok" true) never false),
  -- (vii) after the commit the request waits
  ("noErrorBetweenCommitAndWait", sinceOk (orB isErrFin isPanic) isWaitPersisted isAppend true),
  ("noReturnBetweenCommitAndWait", sinceOk isFin isWaitPersisted isAppend true),
  ("waitsKnown", fun q => q.all (fun x => match x with | .act (.wait c) _ _ => c = "persisted" || c = "closed" | _ => true)),
  ("waitOnce", sinceOk isWait never isWait true),
  -- (viii) nothing is left behind: at the end of every path (read backwards) whatever was taken has been released
  ("allReleased", fun q => [RefKind.iks, .txref, .reverts].all (fun k => sinceOk (isTakeOk k) (isRelease k) never false q.reverse)),
  ("allUnlocked", fun q => sinceOk isLockOk isUnlock never false q.reverse),
  ("mutexReleased", fun q => sinceOk isMuLock isMuUnlock never false q.reverse),
  ("ends", fun q => (match q.getLast? with | some x => isFin x | none => false)),
  ("panicEnds", sinceOk isDirectOrFin never isPanic true),
  -- what the refinement proofs need, as automata (Model/Engine/SkelAuto.lean)
  ("automaton:chain", fun q => (ChainRef.crun .out0 q).isSome),
  -- (ix) the key is recorded on the log
  ("ikRecorded", fun q => !chose q "ik≠''" true || sinceOk isChain isSetIk never false q)
]

def failing (ep : String) (p : Path) : List String :=
  ((clauses ep).filter (fun c => !c.2 (tagged p))).map (·.1)

def wfPath (ep : String) (p : Path) : Bool := (clauses ep).all (fun c => c.2 (tagged p))

def wfAll (eps : List (String × Stmt)) : Bool := eps.all (fun e => (paths e.1 e.2).all (wfPath e.1))

end Engine.Skel
