import Model.Engine.Base
/-! Component `Guard` (C07 idempotency keys, C11 references, C10 revert targets): a reservation taken in memory, a
lookup in the store, the commit, and the release only once the log is persisted.  One machine, three instances. -/
namespace Engine.Guard
open Engine

/-- the events a guard looks at -/
inductive GEv
  | take (a : Nat) (k : String) (ok : Bool)
  | read (a : Nat) (k : String) (found : Bool)
  | commit (a : Nat) (k : String) (id : Nat)      -- a log with key k ("" = none)
  | gate (n : Nat) (ok : Bool)
  | finish (a : Nat)
  | crash
  | other
deriving Repr

structure Entry where
  key : String
  id : Nat
  by_ : Nat
deriving Repr, DecidableEq

structure S where
  held : List (String × Nat)      -- reservation ↦ holder
  missed : List (Nat × String)    -- request looked the key up in the store and found nothing
  durable : List Entry
  pending : List Entry
deriving Repr

def init (durable : List Entry) : S := { held := [], missed := [], durable := durable, pending := [] }

def isHeld (s : S) (k : String) : Bool := s.held.any (·.1 = k)

/-- `read`: besides holding the reservation and agreeing with the persisted log, a lookup is not made by a request
whose own entry with that key is still queued — otherwise `take; read(miss); commit; read(miss); commit` would be
accepted (the second lookup misses because the first entry is not persisted yet) and label two entries with one key. -/
def step (s : S) : GEv → Except String S
  | .take a k ok =>
    if ok then (if isHeld s k then .error s!"guard: {k} reserved twice" else .ok { s with held := (k, a) :: s.held })
    else (if isHeld s k then .ok s else .error s!"guard: {k} refused although free")
  | .read a k found =>
    if (k, a) ∉ s.held then .error s!"guard: lookup of {k} without the reservation"
    else if found ≠ s.durable.any (·.key = k) then .error s!"guard: lookup of {k} disagrees with the persisted log"
    else if s.pending.any (fun e => e.by_ = a ∧ e.key = k) then .error s!"guard: lookup of {k} by the request whose own entry with it is not yet persisted"
    else if found then .ok s else .ok { s with missed := (a, k) :: s.missed }
  | .commit a k id =>
    if k = "" then .ok { s with pending := s.pending ++ [⟨k, id, a⟩] }
    else if (k, a) ∉ s.held then .error s!"guard: commit of {k} without the reservation"
    else if (a, k) ∉ s.missed then .error s!"guard: commit of {k} without a lookup that missed"
    else .ok { s with pending := s.pending ++ [⟨k, id, a⟩], missed := s.missed.filter (· ≠ (a, k)) }
  | .gate n ok =>
    if n = 0 ∨ n > s.pending.length then .error "guard: batch larger than what is pending"
    else if ok then .ok { s with durable := s.durable ++ s.pending.take n, pending := s.pending.drop n }
    else .ok s
  | .finish a =>
    if s.pending.any (fun e => e.by_ = a ∧ e.key ≠ "") then .error "guard: reservation released before the log was persisted"
    else .ok { s with held := s.held.filter (·.2 ≠ a), missed := s.missed.filter (·.1 ≠ a) }
  | .crash => .ok { s with held := [], missed := [], pending := [] }
  | .other => .ok s

def keyed (s : S) (k : String) : List Entry := (s.durable ++ s.pending).filter (·.key = k)

structure Inv (s : S) : Prop where
  /-- **at most once**: a non-empty key labels at most one entry, persisted or not -/
  uniq : ∀ k, k ≠ "" → (keyed s k).length ≤ 1
  heldNodup : (s.held.map (·.1)).Nodup
  /-- a pending keyed entry is still protected by its producer's reservation -/
  protected_ : ∀ e ∈ s.pending, e.key ≠ "" → (e.key, e.by_) ∈ s.held
  /-- a request that looked a key up and missed holds it, and no entry carries it (entries without a key do not count) -/
  fresh : ∀ x ∈ s.missed, (x.2, x.1) ∈ s.held ∧ (x.2 ≠ "" → keyed s x.2 = [])

/-- instances: which events each guard sees -/
def ikView : Ev → GEv
  | .taken a "ik" k ok => .take a k ok
  | .ikRead a k found => .read a k found.isSome
  | .committed a l _ => .commit a l.ik l.id
  | .gate n ok => .gate n ok
  | .finish a _ _ _ => .finish a
  | .crash => .crash
  | _ => .other

def refView : Ev → GEv
  | .taken a "ref" k ok => .take a k ok
  | .refRead a k found => .read a k found
  | .committed a l _ => .commit a l.ref l.id
  | .gate n ok => .gate n ok
  | .finish a _ _ _ => .finish a
  | .crash => .crash
  | _ => .other

def revKey : Option Nat → String
  | none => ""
  | some t => toString t

/-- `isRevert a` tells the requests that are reverts (only their transaction lookups are guard lookups) -/
def revView (isRevert : Nat → Bool) : Ev → GEv
  | .taken a "rev" k ok => .take a k ok
  | .txRead a t _ reverted => if isRevert a then .read a (toString t) reverted else .other
  | .committed a l _ => .commit a (revKey l.reverts) l.id
  | .gate n ok => .gate n ok
  | .finish a _ _ _ => .finish a
  | .crash => .crash
  | _ => .other

end Engine.Guard
