import Model.Engine.Base
/-! Component `Chain` (C05): the commander's position in the log (`lastLog`, `lastTXID`), the batcher queue and the
durable log.  `commander.commit` = allocate tx id + chain + append, one critical section; `Init` after a crash. -/
namespace Engine.Chain
open Engine

structure S where
  durable : List LogE
  pending : List LogE          -- handed to the batcher, not yet persisted (in-flight batch ++ queue), in order
  last : Option Nat            -- id of commander.lastLog
  lastTx : Int                 -- commander.lastTXID
deriving Repr

def all (s : S) : List LogE := s.durable ++ s.pending

def countTx (ls : List LogE) : Nat := (ls.filter (·.isTx)).length

/-- `Commander.Init`: from the store alone -/
def reinit (durable : List LogE) : S :=
  { durable := durable, pending := [],
    last := durable.getLast?.map (·.id),
    lastTx := (countTx durable : Int) - 1 }

def nextId (s : S) : Nat := match s.last with | none => 0 | some i => i + 1

def step (s : S) : Ev → Except String S
  | .committed _ l lastTx' =>
    if l.id ≠ nextId s then .error s!"chain: log id {l.id}, expected {nextId s}"
    else if l.prevId ≠ s.last then .error "chain: hash computed over another predecessor"
    else if !l.hashOk then .error "chain: hash is not the digest of (previous hash, content)"
    else match l.txid with
      | some t =>
        if (t : Int) ≠ s.lastTx + 1 then .error s!"chain: transaction id {t}, expected {s.lastTx + 1}"
        else if lastTx' ≠ s.lastTx + 1 then .error "chain: lastTXID not advanced by one"
        else .ok { s with pending := s.pending ++ [l], last := some l.id, lastTx := s.lastTx + 1 }
      | none =>
        if lastTx' ≠ s.lastTx then .error "chain: lastTXID changed by a log without transaction"
        else .ok { s with pending := s.pending ++ [l], last := some l.id }
  | .gate n ok =>
    if n = 0 ∨ n > s.pending.length then .error s!"chain: batch of {n} with {s.pending.length} pending"
    else if ok then .ok { s with durable := s.durable ++ s.pending.take n, pending := s.pending.drop n }
    else .ok s
  | .crash => .ok (reinit s.durable)
  | _ => .ok s

/-- ids are the positions, every hash is the digest of its predecessor's hash and its own content -/
def idsOk : Nat → List LogE → Prop
  | _, [] => True
  | i, l :: ls => l.id = i ∧ l.hashOk = true ∧ l.prevId = (if i = 0 then none else some (i - 1)) ∧ idsOk (i + 1) ls

/-- transaction ids are 0,1,2,… in log order -/
def txOk : Nat → List LogE → Prop
  | _, [] => True
  | k, l :: ls => match l.txid with
    | some t => t = k ∧ txOk (k + 1) ls
    | none => txOk k ls

def ChainOK (ls : List LogE) : Prop := idsOk 0 ls ∧ txOk 0 ls

structure Inv (s : S) : Prop where
  chain : ChainOK (all s)
  last : s.last = (all s).getLast?.map (·.id)
  lastTx : s.lastTx = (countTx (all s) : Int) - 1

end Engine.Chain
