import Model.Engine.Skel
import Model.Engine.SkelWf
import Model.Engine.SkelSys
/-! SkelAutoEvents — what the `Events` machine (C16, and the preview clauses of C14) needs from the ORDER of a request's
own steps, as an automaton over the items of a control path (the pattern of `SkelAuto.ChainRef`).

The state is a record of flags; `estep` refuses an item when a flag the item relies on is not set:

* a commit (`append`) and a publication come after `dry = false` was decided; a `peekTxid` after `dry = true`;
* the appended log is the chained one, chained once, and — for the entry points that create a transaction — stamped;
* a publication of the own log comes after the append and after the wait for its persistence; a publication of the log
  found for the idempotency key after that lookup succeeded and after the payload's kind (and, for a revert, the
  reverted id) was compared, with nothing appended; its kind is the entry point's;
* `fin true` of a real write comes after a publication; of a preview of a transaction-kind entry point after an
  `answer` built from the found log, or — nothing found — from the preview, whose `peekTxid` lies in the same
  scheduling segment as `yield "wait"` (the point at which `Events` records the id that is next);
* an allocated transaction id is appended before the request can be descheduled.

A decision the request's own data contradicts (`tx≠nil` against the entry point's kind; `dry` decided twice with
different values) makes the rest of the path unreachable: `dead`.  Core Lean only. -/
namespace Engine.Skel.EventsRef
open Engine.Skel Engine.Skel.Sys

/-- the preview's `peekTxid`: not done | done in the current segment | the segment ended at `yield "wait"` -/
inductive Pk | no | inSeg | recorded
deriving DecidableEq, Repr

/-- what the last `answer` was built from -/
inductive Ans | no | chained | ikRead | preview
deriving DecidableEq, Repr

structure EPh where
  dead : Bool := false          -- the path contradicts the request's own data: nothing more to check
  dry : Option Bool := none     -- how `dry` was decided
  al : Bool := false            -- a transaction id is allocated and not yet appended
  tx : Bool := false            -- the transaction-id register is written
  ch : Bool := false            -- a log is chained
  app : Bool := false           -- … and appended
  dur : Bool := false           -- … and the wait for its persistence is over
  fnd : Bool := false           -- the store returned a log for the idempotency key
  kOk : Bool := false           -- … whose kind was compared with the request's
  idOk : Bool := false          -- … whose reverted id was compared with the request's
  pk : Pk := .no
  pub : Bool := false           -- an event was published
  ans : Ans := .no
deriving DecidableEq, Repr

def isTxEp (ep : String) : Bool := ep = "CreateTransaction" || ep = "RevertTransaction"

/-- the kind of log each entry point writes -/
def kindOfEp (ep : String) : Option Kind :=
  if ep = "CreateTransaction" then some .create
  else if ep = "RevertTransaction" then some .revert
  else if ep = "SaveMeta" then some .setMeta
  else if ep = "DeleteMetadata" then some .delMeta
  else none

def ansOf (o : String) : Ans := if o = "chained" then .chained else if o = "ikRead" then .ikRead else .preview

def estep' (ep : String) (ph : EPh) : Item → Option EPh
  | .act (.yield pt) _ _ =>
    if ph.al then none
    else match ph.pk with
      | .no => some ph
      | .inSeg => if pt = "wait" then some { ph with pk := .recorded } else none
      | .recorded => if pt = "wait" then none else some ph
  | .fin ok _ =>
    if ph.al || ph.pk = .inSeg then none
    else if !ok then some ph
    else match ph.dry with
      | none => none
      | some false => if ph.pub && (ph.app || ph.fnd) then some ph else none
      | some true =>
        if ph.app then none
        else if !isTxEp ep then some ph
        else if ph.fnd then (if ph.ans = .ikRead then some ph else none)
        else if ph.ans = .preview && ph.pk = .recorded then some ph else none
  | .act (.readIk _) .ok _ =>
    if ph.pub || ph.ans != .no then none else some { ph with fnd := true, kOk := false, idOk := false }
  | .act .allocTxid _ _ => if ph.al then none else some { ph with al := true }
  | .act .stampTxid _ _ => if ph.pk = .no && ph.ans = .no then some { ph with tx := true } else none
  | .act .peekTxid _ _ =>
    if ph.dry = some true && !ph.al && ph.ans = .no then some { ph with tx := true, pk := .inSeg } else none
  | .act .chainLog _ _ => if !ph.app && (ph.tx || !isTxEp ep) then some { ph with ch := true } else none
  | .act (.append o _) _ _ =>
    if o = "chained" && ph.dry = some false && ph.ch && !ph.app && !ph.pub && ph.pk = .no then some { ph with app := true, al := false } else none
  | .act (.wait c) _ _ => if c = "persisted" && ph.app then some { ph with dur := true } else some ph
  | .act (.publish k args) _ _ =>
    if ph.dry = some false && k = publishKindOf ep then
      if publishOrigin args = "chained" then (if ph.app && ph.dur then some { ph with pub := true } else none)
      else if publishOrigin args = "ikRead" then
        (if !ph.app && ph.fnd && ph.kOk && (ep != "RevertTransaction" || ph.idOk) then some { ph with pub := true } else none)
      else none
    else none
  | .act (.answer v) _ _ => some { ph with ans := ansOf (provOrigin v) }
  | .choose atom b =>
    if atom = "dry" then
      (match ph.dry with
       | none => some { ph with dry := some b }
       | some b' => if b = b' then some ph else some { ph with dead := true })
    else if atom = "tx≠nil" then (if b = isTxEp ep then some ph else some { ph with dead := true })
    else if atom = "payload-kind-ok" then (if b && ph.fnd && !ph.ch then some { ph with kOk := true } else some ph)
    else if atom = "payload-id=lookup-id" then (if b && ph.fnd && !ph.ch then some { ph with idOk := true } else some ph)
    else some ph
  | _ => some ph

def estep (ep : String) (ph : EPh) (x : Item) : Option EPh := if ph.dead then some ph else estep' ep ph x

def erun (ep : String) : EPh → Path → Option EPh
  | ph, [] => some ph
  | ph, x :: xs => match estep ep ph x with
    | some ph' => erun ep ph' xs
    | none => none

/-- where a path may stop (also without returning: a panic): nothing allocated is left unappended, no peek is left
unrecorded -/
def efinal (ph : EPh) : Bool := ph.dead || (!ph.al && ph.pk != .inSeg)

def eacc : Option EPh → Bool
  | some ph => efinal ph
  | none => false

def eaccepts (ep : String) (p : Path) : Bool := eacc (erun ep {} p)

end Engine.Skel.EventsRef
