import Model.Engine.Skel
/-! SkelAutoGuard — what the `Guard` machine (C07 idempotency keys, C11 references, C10 revert targets) needs from the
ORDER of a request's own steps, as one small automaton over the items of a control path, instantiated per view.

Per view `v` the items that matter are classified into tokens (`gtok`): the reservation attempt of the view's kind, its
release, the store lookup of the view (hit / miss; for the revert view the lookup's answer "reverted" is only known from
the later `choose "reverted"`), the steps that decide whether the committed log carries a key of the view (`setIk`; the
`ref≠''` decision), `chainLog`, `append`, the wait for persistence, the scheduling points and the return.

The automaton (`gstep`) tracks, for the one key of the view's kind a request works with:
* `hold`   — `idle`, or `on r sys`: the reservation was granted (`Guard` keeps it until the request's `finish`), `r` says
             how far the protocol went (`held` → `looked` (revert view: looked up, answer not yet decided) → `missed` (the
             lookup found nothing: a commit of the key is licensed) → `spent` (committed)), `sys` says whether the
             referencer still holds it (false after the `release`: the request is in the WINDOW between its release and
             its `finish`, during which `Guard` still counts the key as reserved);
* `may`    — the log this request chains may carry a key of this view;
* `dirty`  — it appended a log and has not yet waited for its persistence.
It rejects: a lookup without the reservation or after the own append, a second reservation, a release of what is not
held, an append of a possibly keyed log without a lookup that missed, a SCHEDULING POINT INSIDE THE WINDOW (so that
under the yield-point discipline nobody else runs between a release and the `finish`), a return with the reservation
still in the referencer or before the wait for persistence.  A path is accepted (`gacc`) when it ends with nothing held.
Core Lean only. -/
namespace Engine.Skel.GuardRef
open Engine.Skel

/-- the three instances of `Guard` -/
inductive VId | ik | ref | rev
deriving DecidableEq, Repr

def VId.all : List VId := [.ik, .ref, .rev]

/-- the kind of reservation the instance is about -/
def VId.K : VId → RefKind
  | .ik => .iks | .ref => .txref | .rev => .reverts

inductive GTok
  | takeOk | takeNo | release
  | hit | miss            -- the lookup of the idempotency key / the reference: found / not found
  | look | missTx         -- the revert's lookup of its target: found (whether reverted is decided later) / not found
  | unrev                 -- the revert decided `reverted = false`
  | setKey                -- `WithIdempotencyKey`
  | empty                 -- decided `ref≠'' = false`
  | chain | append | waitP | yield | fin | other
deriving DecidableEq, Repr

/-- the token of an item for view `v` in entry point `ep` (only a revert's `GetTransaction` is a guard lookup) -/
def gtok (v : VId) (ep : String) : Item → GTok
  | .act (.yield _) _ _ => .yield
  | .fin _ _ => .fin
  | .act (.take k _) o _ => if k = v.K then (if o = .ok then .takeOk else .takeNo) else .other
  | .act (.release k _) _ _ => if k = v.K then .release else .other
  | .act (.readIk _) o _ =>
    if v = .ik then (match o with | .ok => .hit | .notFound => .miss | .fail => .other) else .other
  | .act (.readRef _) o _ =>
    if v = .ref then (match o with | .ok => .hit | .notFound => .miss | .fail => .other) else .other
  | .act (.readTx _) o _ =>
    if v = .rev ∧ ep = "RevertTransaction" then (match o with | .ok => .look | .notFound => .missTx | .fail => .other) else .other
  | .act .setIk _ _ => if v = .ik then .setKey else .other
  | .choose atom b =>
    if v = .ref ∧ atom = "ref≠''" ∧ b = false then .empty
    else if v = .rev ∧ ep = "RevertTransaction" ∧ atom = "reverted" ∧ b = false then .unrev
    else .other
  | .act .chainLog _ _ => .chain
  | .act (.append _ _) _ _ => .append
  | .act (.wait c) _ _ => if c = "persisted" then .waitP else .other
  | _ => .other

inductive Res | held | looked | missed | spent
deriving DecidableEq, Repr

inductive Hold
  | idle
  | on (r : Res) (sys : Bool)
deriving DecidableEq, Repr

structure GPh where
  hold : Hold
  may : Bool
  dirty : Bool
deriving DecidableEq, Repr

/-- released, not yet finished -/
def window : Hold → Bool
  | .on _ false => true
  | _ => false

/-- the referencer holds the key -/
def sysOf : Hold → Bool
  | .on _ s => s
  | .idle => false

/-- (revert view) the target was found in the store -/
def seenOf : Hold → Bool
  | .on .looked _ | .on .missed _ | .on .spent _ => true
  | _ => false

def gstep (ph : GPh) : GTok → Option GPh
  | .other => some ph
  | .chain => some ph
  | .takeNo => some ph
  | .takeOk => (match ph.hold with
    | .idle => some { ph with hold := .on .held true }
    | _ => none)
  | .release => (match ph.hold with
    | .on r true => some { ph with hold := .on r false }
    | _ => none)
  | .hit => (match ph.hold with
    | .on _ _ => if ph.dirty then none else some ph
    | .idle => none)
  | .miss => (match ph.hold with
    | .on .held s => if ph.dirty then none else some { ph with hold := .on .missed s }
    | .on .missed s => if ph.dirty then none else some { ph with hold := .on .missed s }
    | _ => none)
  | .look => (match ph.hold with
    | .on .held s => if ph.dirty then none else some { ph with hold := .on .looked s }
    | _ => none)
  | .missTx => (match ph.hold with
    | .on _ _ => if ph.dirty then none else some ph
    | .idle => none)
  | .unrev => (match ph.hold with
    | .on .looked s => some { ph with hold := .on .missed s }
    | _ => some ph)
  | .setKey => some { ph with may := true }
  | .empty => some { ph with may := false }
  | .append =>
    if ph.may then (match ph.hold with
      | .on .missed s => some { ph with hold := .on .spent s, dirty := true }
      | _ => none)
    else some { ph with dirty := true }
  | .waitP => some { ph with dirty := false }
  | .yield => if window ph.hold then none else some ph
  | .fin =>
    if ph.dirty then none else (match ph.hold with
      | .idle => some ph
      | .on _ false => some { ph with hold := .idle }
      | .on _ true => none)

def grun (v : VId) (ep : String) : GPh → Path → Option GPh
  | ph, [] => some ph
  | ph, x :: xs => match gstep ph (gtok v ep x) with
    | some ph' => grun v ep ph' xs
    | none => none

/-- may the log of a request of this entry point carry a key of the view?  (idempotency key: only once `setIk` ran) -/
def ginit (v : VId) (ep : String) : GPh :=
  { hold := .idle, dirty := false,
    may := match v with
      | .ik => false
      | .ref => decide (ep = "CreateTransaction")
      | .rev => decide (ep = "RevertTransaction") }

/-- the rest of a path is accepted from `ph`: every step is allowed and nothing is held at the end -/
def gacc (v : VId) (ep : String) (ph : GPh) (p : Path) : Bool :=
  match grun v ep ph p with
  | some ph' => decide (ph'.hold = .idle)
  | none => false

/-- a path of entry point `ep` is accepted for all three views -/
def gaccAll (ep : String) (p : Path) : Bool := VId.all.all (fun v => gacc v ep (ginit v ep) p)

end Engine.Skel.GuardRef
