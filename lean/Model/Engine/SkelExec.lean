import Model.Engine.SkelSys
/-! SkelExec — an executable scheduler for `SkelSys`: a list of commands (a request arrives with a path, the request of
actor `a` executes its next item, the store answers for a batch, the process crashes) is run step by step; every
successful execution is a `Sys.Run` (`execAll_sound`).  Used for the non-vacuity examples of `Props/SkeletonRef.lean`:
real paths of the generated skeleton do run to completion in the model.  Core Lean only. -/
namespace Engine.Skel.Sys
open Engine

inductive Cmd
  | arrive (j : Job) (p : Path)
  | step (a : Nat)
  | gate (n : Nat) (ok : Bool)
  | crash
deriving Repr

/-- the first live process of actor `a` that has something to do, with what stands before and after it -/
def splitAt (a : Nat) : List Proc → Option (List Proc × Proc × List Proc)
  | [] => none
  | p :: ps =>
    if p.job.a = a ∧ p.alive = true ∧ !p.todo.isEmpty then some ([], p, ps)
    else match splitAt a ps with
      | some (pre, q, post) => some (p :: pre, q, post)
      | none => none

theorem splitAt_spec (a : Nat) (ps pre post : List Proc) (q : Proc) (h : splitAt a ps = some (pre, q, post)) :
    ps = pre ++ q :: post ∧ q.alive = true ∧ q.todo ≠ [] := by
  induction ps generalizing pre with
  | nil => simp [splitAt] at h
  | cons p ps ih =>
    simp only [splitAt] at h
    split at h
    · rename_i hc
      simp only [Option.some.injEq, Prod.mk.injEq] at h
      obtain ⟨rfl, rfl, rfl⟩ := h
      refine ⟨rfl, hc.2.1, ?_⟩
      intro he
      simp [he] at hc
    · split at h
      · rename_i pre' q' post' hs
        simp only [Option.some.injEq, Prod.mk.injEq] at h
        obtain ⟨rfl, rfl, rfl⟩ := h
        obtain ⟨h1, h2, h3⟩ := ih pre' hs
        exact ⟨by rw [h1]; rfl, h2, h3⟩
      · cases h

def execCmd (st : State) : Cmd → Option (State × List Ev)
  | .arrive j p => if st.procs.all (fun q => q.job.a ≠ j.a) then some (⟨st.sh, st.procs ++ [⟨j, {}, [], true, p⟩]⟩, []) else none
  | .step a =>
    match splitAt a st.procs with
    | some (pre, q, post) =>
      (match q.todo with
       | x :: rest =>
         if enabled st.sh q.job q.regs x ∧ blocked st.sh q.job.a = false then
           some (⟨effSh st.sh q.job q.regs x, pre ++ ⟨q.job, effRg st.sh q.job q.regs x, q.done ++ [x], true, rest⟩ :: post⟩,
                 evsOf st.sh q.job q.regs x)
         else none
       | [] => none)
    | none => none
  | .gate n ok =>
    if 0 < n ∧ n ≤ st.sh.queue.length then some (if ok then ⟨persist st.sh n, st.procs⟩ else st, [.gate n ok]) else none
  | .crash => some (⟨restart st.sh.store, st.procs.map (fun p => { p with alive := false, todo := [] })⟩, [.crash])

def execAll : State → List Cmd → Option (State × List Ev)
  | st, [] => some (st, [])
  | st, c :: cs =>
    match execCmd st c with
    | some (st1, evs) => (match execAll st1 cs with
      | some (st2, tr) => some (st2, evs ++ tr)
      | none => none)
    | none => none

def admissible (adm : Job → Path → Prop) : List Cmd → Prop
  | [] => True
  | .arrive j p :: cs => adm j p ∧ admissible adm cs
  | _ :: cs => admissible adm cs

theorem execCmd_sound (adm : Job → Path → Prop) (st st' : State) (c : Cmd) (evs : List Ev)
    (hadm : admissible adm [c]) (h : execCmd st c = some (st', evs)) : Step adm st evs st' := by
  cases c with
  | arrive j p =>
    simp only [execCmd] at h
    split at h
    · rename_i hf
      simp only [Option.some.injEq, Prod.mk.injEq] at h
      obtain ⟨rfl, rfl⟩ := h
      refine Step.arrive st j p ?_ hadm.1
      intro q hq
      have := List.all_eq_true.1 hf q hq
      simpa using this
    · cases h
  | step a =>
    simp only [execCmd] at h
    split at h
    · rename_i pre q post hs
      obtain ⟨hp, hal, _⟩ := splitAt_spec a st.procs pre post q hs
      split at h
      · rename_i x rest htodo
        split at h
        · rename_i hen
          simp only [Option.some.injEq, Prod.mk.injEq] at h
          obtain ⟨rfl, rfl⟩ := h
          have hq : q = ⟨q.job, q.regs, q.done, true, x :: rest⟩ := by
            cases q; simp_all
          rw [hq] at hp
          exact Step.item st pre post q.job q.regs q.done x rest hp hen.1 hen.2
        · cases h
      · cases h
    · cases h
  | gate n ok =>
    simp only [execCmd] at h
    split at h
    · rename_i hc
      simp only [Option.some.injEq, Prod.mk.injEq] at h
      obtain ⟨rfl, rfl⟩ := h
      exact Step.gate st n ok hc.1 hc.2
    · cases h
  | crash =>
    simp only [execCmd, Option.some.injEq, Prod.mk.injEq] at h
    obtain ⟨rfl, rfl⟩ := h
    exact Step.crash st

theorem run_trans (adm : Job → Path → Prop) (st st1 st2 : State) (tr1 tr2 : List Ev)
    (h1 : Run adm st tr1 st1) (h2 : Run adm st1 tr2 st2) : Run adm st (tr1 ++ tr2) st2 := by
  induction h2 with
  | nil => simpa using h1
  | cons sta stb evs tr _ hstep ih =>
    rw [← List.append_assoc]
    exact Run.cons _ _ _ _ _ ih hstep

/-- whatever the executable scheduler does is a run of the system -/
theorem execAll_sound (adm : Job → Path → Prop) (cs : List Cmd) :
    ∀ (st st' : State) (tr : List Ev), admissible adm cs → execAll st cs = some (st', tr) → Run adm st tr st' := by
  induction cs with
  | nil =>
    intro st st' tr _ h
    simp only [execAll, Option.some.injEq, Prod.mk.injEq] at h
    obtain ⟨rfl, rfl⟩ := h
    exact Run.nil _
  | cons c cs ih =>
    intro st st' tr hadm h
    simp only [execAll] at h
    split at h
    · rename_i st1 evs hc
      split at h
      · rename_i st2 tr2 hr
        simp only [Option.some.injEq, Prod.mk.injEq] at h
        obtain ⟨rfl, rfl⟩ := h
        have ha1 : admissible adm [c] := by cases c <;> simp_all [admissible]
        have ha2 : admissible adm cs := by cases c <;> simp_all [admissible]
        have hstep := execCmd_sound adm st st1 c evs ha1 hc
        have hrun1 : Run adm st ([] ++ evs) st1 := Run.cons _ _ _ _ _ (Run.nil st) hstep
        simp only [List.nil_append] at hrun1
        exact run_trans adm st st1 st2 evs tr2 hrun1 (ih st1 st2 tr2 ha2 hr)
      · cases h
    · cases h

end Engine.Skel.Sys
