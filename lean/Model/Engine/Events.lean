import Model.Engine.Base
/-! Component `Events` (C16) and the preview clauses (C14): an event is published only for a persisted entry and
carries its content; every acknowledged real write has been published; a preview commits and publishes nothing and
is answered with the id the next transaction would get. -/
namespace Engine.Events
open Engine

structure S where
  durable : List LogE
  pending : List LogE
  mine : List (Nat × LogE)
  found : List (Nat × Nat)
  published : List BusEv
  lastTx : Int
  acked : List (Nat × LogE)       -- successful answers of real writes: request ↦ the entry it was answered for
  peeked : List (Nat × Int)       -- preview ↦ the transaction id that was next when it reached its commit point
deriving Repr

def countTx (ls : List LogE) : Nat := (ls.filter (·.isTx)).length

def init (durable : List LogE) : S :=
  { durable := durable, pending := [], mine := [], found := [], published := [], lastTx := (countTx durable : Int) - 1,
    acked := [], peeked := [] }

/-- does the event describe this entry? (for a revert: which transaction was reverted, which one reverts it) -/
def describes (e : BusEv) (l : LogE) : Bool :=
  match e with
  | .committed t ps => l.kind = .create && l.txid = some t && l.postings = ps
  | .reverted rd rv => l.kind = .revert && l.reverts = some rd && l.txid = some rv
  | .savedMeta t k => l.kind = .setMeta && l.target = t && l.metaKey = k
  | .deletedMeta t k => l.kind = .delMeta && l.target = t && l.metaKey = k

def entryOf (s : S) (a : Nat) : Option LogE :=
  match (s.mine.find? (·.1 = a)).map (·.2) with
  | some l => some l
  | none => match (s.found.find? (·.1 = a)).map (·.2) with
    | some id => s.durable.find? (·.id = id)
    | none => none

/-- the id a preview saw as the next one when it reached its commit point (`AppendLog` peeks it there; other
requests may commit between that point and the preview's answer) -/
def peekOf (s : S) (a : Nat) : Option Int := (s.peeked.find? (·.1 = a)).map (·.2)

def step (dry : Nat → Bool) (isTxKind : Nat → Bool) (s : S) : Ev → Except String S
  | .arrive a pt =>
    if pt = "wait" ∧ dry a then .ok { s with peeked := (a, s.lastTx + 1) :: s.peeked } else .ok s
  | .committed a l lt =>
    if dry a then .error "events: a preview committed a log"
    else .ok { s with mine := (a, l) :: s.mine, pending := s.pending ++ [l], lastTx := lt }
  | .gate n ok =>
    if n = 0 ∨ n > s.pending.length then .error "events: batch larger than what is pending"
    else if ok then .ok { s with durable := s.durable ++ s.pending.take n, pending := s.pending.drop n }
    else .ok s
  | .crash => .ok { s with pending := [], lastTx := (countTx s.durable : Int) - 1 }
  | .ikRead a _ (some id) => .ok { s with found := (a, id) :: s.found }
  | .publish a e =>
    if dry a then .error "events: a preview published an event"
    else if s.durable.any (describes e) then
      match entryOf s a with
      | some l =>
        if describes e l ∧ l ∈ s.durable then .ok { s with published := e :: s.published }
        else .error "events: the event does not describe the persisted entry of the request that published it"
      | none => .error "events: an event published by a request without an entry"
    else .error "events: an event without a persisted entry carrying that content"
  | .finish a true _ txid =>
    if dry a then
      -- a preview answers what the real write would answer: the entry its idempotency key designates, else the next id
      match entryOf s a with
      | some l => if isTxKind a ∧ txid ≠ l.txid then .error "events: a preview with a recorded key was not answered with that entry" else .ok s
      | none =>
        if isTxKind a ∧ txid.map (fun (t : Nat) => (t : Int)) ≠ some ((peekOf s a).getD (s.lastTx + 1)) then .error "events: a preview was not answered with the next transaction id" else .ok s
    else match entryOf s a with
      | some l =>
        if s.published.any (fun e => describes e l) then .ok { s with acked := (a, l) :: s.acked }
        else .error "events: acknowledged but never published"
      | none => .error "events: success without an entry"
  | _ => .ok s

structure Inv (dry : Nat → Bool) (s : S) : Prop where
  /-- every event put on the bus corresponds to a persisted entry and carries its content -/
  faithful : ∀ e ∈ s.published, ∃ l ∈ s.durable, describes e l = true
  /-- every successfully answered real write has a published event describing its entry -/
  ackedPub : ∀ x ∈ s.acked, dry x.1 = false ∧ ∃ e ∈ s.published, describes e x.2 = true
  /-- previews commit nothing -/
  real : ∀ x ∈ s.mine, dry x.1 = false

end Engine.Events
