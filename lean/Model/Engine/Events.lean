import Model.Engine.Base
/-! Component `Events` (C16) and the preview clauses (C14): an event is published only for a persisted entry and
carries its content; every acknowledged real write has been published; a preview commits and publishes nothing and
is answered with the id the next transaction would get. -/
namespace Engine.Events
open Engine

structure S where
  durable : List LogE
  pending : List LogE
  mine : List (Nat × LogE)
  found : List (Nat × Nat)
  published : List BusEv
  lastTx : Int
deriving Repr

def countTx (ls : List LogE) : Nat := (ls.filter (·.isTx)).length

def init (durable : List LogE) : S :=
  { durable := durable, pending := [], mine := [], found := [], published := [], lastTx := (countTx durable : Int) - 1 }

/-- does the event describe this entry? (for a revert: which transaction was reverted, which one reverts it) -/
def describes (e : BusEv) (l : LogE) : Bool :=
  match e with
  | .committed t ps => l.kind = .create && l.txid = some t && l.postings = ps
  | .reverted rd rv => l.kind = .revert && l.reverts = some rd && l.txid = some rv
  | .savedMeta t k => l.kind = .setMeta && l.target = t && l.metaKey = k
  | .deletedMeta t k => l.kind = .delMeta && l.target = t && l.metaKey = k

def entryOf (s : S) (a : Nat) : Option LogE :=
  match (s.mine.find? (·.1 = a)).map (·.2) with
  | some l => some l
  | none => match (s.found.find? (·.1 = a)).map (·.2) with
    | some id => s.durable.find? (·.id = id)
    | none => none

def step (dry : Nat → Bool) (isTxKind : Nat → Bool) (s : S) : Ev → Except String S
  | .committed a l lt =>
    if dry a then .error "events: a preview committed a log"
    else .ok { s with mine := (a, l) :: s.mine, pending := s.pending ++ [l], lastTx := lt }
  | .gate n ok =>
    if n = 0 ∨ n > s.pending.length then .error "events: batch larger than what is pending"
    else if ok then .ok { s with durable := s.durable ++ s.pending.take n, pending := s.pending.drop n }
    else .ok s
  | .crash => .ok { s with pending := [], lastTx := (countTx s.durable : Int) - 1 }
  | .ikRead a _ (some id) => .ok { s with found := (a, id) :: s.found }
  | .publish a e =>
    if dry a then .error "events: a preview published an event"
    else if s.durable.any (describes e) then .ok { s with published := e :: s.published }
    else .error "events: an event without a persisted entry carrying that content"
  | .finish a true _ txid =>
    if dry a then
      -- a preview answers what the real write would answer: the entry its idempotency key designates, else the next id
      match entryOf s a with
      | some l => if isTxKind a ∧ txid ≠ l.txid then .error "events: a preview with a recorded key was not answered with that entry" else .ok s
      | none =>
        if isTxKind a ∧ txid.map (fun (t : Nat) => (t : Int)) ≠ some (s.lastTx + 1) then .error "events: a preview was not answered with the next transaction id" else .ok s
    else match entryOf s a with
      | some l => if s.published.any (fun e => describes e l) then .ok s else .error "events: acknowledged but never published"
      | none => .error "events: success without an entry"
  | _ => .ok s

structure Inv (s : S) : Prop where
  /-- every event put on the bus corresponds to a persisted entry and carries its content -/
  faithful : ∀ e ∈ s.published, ∃ l ∈ s.durable, describes e l = true

end Engine.Events
