import Model.Engine.Base
/-! Component `Floor` (C02): account locks held from before the balances are read until the log is persisted, so that
at its position in the log every accepted transaction's sources hold what the script was run against.

Two clauses exist for the invariant (`Lemmas/EngineFloor.lean`, J7 (c) "a recorded read of a write-locked account is
current for durable ++ pending"): a request does not read balances while its own log is still queued (the store would
answer without it), and a commit consumes the committer's recorded reads (they are stale once its own postings are in
the log; a further commit needs fresh ones). -/
namespace Engine.Floor
open Engine

structure Hold where
  a : Nat
  r : List Acct
  w : List Acct
deriving Repr, DecidableEq

structure Entry where
  log : LogE
  by_ : Nat
deriving Repr

structure S where
  durable : List Entry
  pending : List Entry
  holders : List Hold
  queue : List Hold
  reads : List (Nat × Acct × String × Int)     -- balances read from the store by a request
deriving Repr

def init (durable : List LogE) : S :=
  { durable := durable.map (fun l => ⟨l, 0⟩), pending := [], holders := [], queue := [], reads := [] }

def conflict (x y : Hold) : Bool :=
  x.w.any (fun v => y.r.contains v || y.w.contains v) || y.w.any (fun v => x.r.contains v || x.w.contains v)

def compatible (hs : List Hold) (x : Hold) : Bool := hs.all (fun h => !conflict x h)

/-- FIFO recheck after a release -/
def recheck : List Hold → List Hold → List Hold × List Hold
  | hs, [] => (hs, [])
  | hs, q :: qs =>
    if compatible hs q then recheck (hs ++ [q]) qs
    else let r := recheck hs qs; (r.1, q :: r.2)

def balanceOf (ls : List Entry) (x : Acct) (asset : String) : Int :=
  ls.foldl (fun acc e => e.log.postings.foldl (fun acc p =>
    if p.asset = asset then (if p.dst = x then acc + p.amt else acc) - (if p.src = x then p.amt else 0) else acc) acc) 0

/-- the floor of C01 for one posting list: walking it in order from balances `bal`, no bounded source is taken below
`-grant` (`none` = unbounded: forced revert) -/
def floorOk (grant : Option Int) (bal : Acct → String → Int) : List Posting → Bool
  | [] => true
  | p :: ps =>
    let ok := p.src = "world" || p.amt = 0 || (match grant with | none => true | some g => decide (bal p.src p.asset - p.amt ≥ -g))
    ok && floorOk grant (fun x s => if s = p.asset then (if x = p.dst then bal x s + p.amt else bal x s) - (if x = p.src then p.amt else 0) else bal x s) ps

def readOf (s : S) (a : Nat) (x : Acct) (asset : String) : Option Int :=
  (s.reads.find? (fun r => r.1 = a ∧ r.2.1 = x ∧ r.2.2.1 = asset)).map (·.2.2.2)

def holdOf (s : S) (a : Nat) : Option Hold := s.holders.find? (·.a = a)

def step (grant : Nat → Option Int) (s : S) : Ev → Except String S
  | .lock a r w =>
    let h : Hold := ⟨a, r, w⟩
    if compatible s.holders h then .ok { s with holders := s.holders ++ [h] } else .ok { s with queue := s.queue ++ [h] }
  | .resume a pt =>
    if pt = "lock-granted" ∧ (holdOf s a).isNone then .error "floor: resumed as granted while the lock model still queues it" else .ok s
  | .unlock a =>
    if s.pending.any (·.by_ = a) then .error "floor: accounts unlocked before the log was persisted"
    else
      let r := recheck (s.holders.filter (·.a ≠ a)) s.queue
      .ok { s with holders := r.1, queue := r.2, reads := s.reads.filter (·.1 ≠ a) }
  | .balRead a x asset v =>
    if x = "world" then .ok s else
    if s.pending.any (·.by_ = a) then .error "floor: balance read while the request's own log is not yet persisted" else
    match holdOf s a with
    | none => .error "floor: balance read without holding the account locks"
    | some h =>
      if !(h.r.contains x || h.w.contains x) then .error s!"floor: balance of {x} read without a lock on it"
      else if v ≠ balanceOf s.durable x asset then .error s!"floor: store answered {v} for {x}, the persisted log says {balanceOf s.durable x asset}"
      else .ok { s with reads := (a, x, asset, v) :: s.reads }
  | .committed a l _ =>
    match holdOf s a with
    | none => if l.postings.isEmpty then .ok { s with pending := s.pending ++ [⟨l, a⟩] } else .error "floor: transaction committed without holding locks"
    | some h =>
      if !(l.postings.all (fun p => (p.src = "world" || h.w.contains p.src) && (p.dst = "world" || h.r.contains p.dst || h.w.contains p.dst)))
      then .error "floor: a posting touches an account outside the lock sets"
      else if !(l.postings.all (fun p => p.src = "world" || (readOf s a p.src p.asset).isSome))
      then .error "floor: a source whose balance was not read"
      else if !floorOk (grant a) (fun x asset => (readOf s a x asset).getD 0) l.postings
      then .error "floor: the postings overdraw the balances the script was run against"
      else .ok { s with pending := s.pending ++ [⟨l, a⟩], reads := s.reads.filter (·.1 ≠ a) }   -- the reads are consumed: a further commit needs fresh ones
  | .gate n ok =>
    if n = 0 ∨ n > s.pending.length then .error "floor: batch larger than what is pending"
    else if ok then .ok { s with durable := s.durable ++ s.pending.take n, pending := s.pending.drop n }
    else .ok s
  | .crash => .ok { s with pending := [], holders := [], queue := [], reads := [] }
  | _ => .ok s

/-- every entry, at its position, respects the floor against the replay of the entries before it -/
def floorAt (grant : Nat → Option Int) : List Entry → List Entry → Prop
  | _, [] => True
  | before, e :: rest =>
    floorOk (grant e.by_) (fun x asset => balanceOf before x asset) e.log.postings = true ∧ floorAt grant (before ++ [e]) rest

end Engine.Floor
