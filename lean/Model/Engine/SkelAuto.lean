import Model.Engine.Skel
/-! SkelAuto — what each component machine needs from the ORDER of a request's own steps, as a small automaton over the
items of a control path.  `Model/Engine/SkelWf.lean` evaluates them on every path of the regenerated skeleton (clauses
"automaton:…"); `Lemmas/Skel*.lean` prove that a system whose requests follow accepted paths refines the machine.
Core Lean only. -/
namespace Engine.Skel.ChainRef
open Engine.Skel

/-! `Chain` (C05): the shape of the commit.  Under the commander's mutex, `allocTxid → stampTxid → chainLog → append(the
chained log)`, or `chainLog → append` for a log without transaction, at most once; a preview's `peekTxid` in a section
of its own, after which nothing is committed. -/

inductive CTok | muLock | muUnlock | alloc | stamp | chain | appendC | appendX | peek | other
deriving DecidableEq, Repr

def ctok : Item → CTok
  | .act .muLock _ _ => .muLock
  | .act .muUnlock _ _ => .muUnlock
  | .act .allocTxid _ _ => .alloc
  | .act .stampTxid _ _ => .stamp
  | .act .chainLog _ _ => .chain
  | .act (.append o _) _ _ => if o = "chained" then .appendC else .appendX
  | .act .peekTxid _ _ => .peek
  | _ => .other

/-- where a request is with respect to the commit section -/
inductive CPh | out0 | in0 | inP | inA | inS | inC (t : Bool) | inD | out1 | outP
deriving DecidableEq, Repr

def cstep : CPh → CTok → Option CPh
  | ph, .other => some ph
  | .out0, .muLock => some .in0
  | .in0, .muUnlock => some .out0
  | .inP, .muUnlock => some .outP
  | .inD, .muUnlock => some .out1
  | .in0, .alloc => some .inA
  | .inA, .stamp => some .inS
  | .in0, .chain => some (.inC false)
  | .inS, .chain => some (.inC true)
  | .inC _, .appendC => some .inD
  | .in0, .peek => some .inP
  | _, _ => none

def crun : CPh → Path → Option CPh
  | ph, [] => some ph
  | ph, x :: xs => match cstep ph (ctok x) with
    | some ph' => crun ph' xs
    | none => none

end Engine.Skel.ChainRef
