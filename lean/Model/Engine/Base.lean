/-! Model B — the commander protocol as observed: the vocabulary shared by the component models.

A run of the real `Commander` under the deterministic scheduler is a sequence of *events* (`Ev`): every step of every
request between two scheduling points, every read of the store with its result, every lock/unlock, every committed
log with its content, every release of the persistence gate, every published event, every crash/restart.  Each
component model (`Chain`, `Ack`, `Guard`, `Floor`, `Events`) is a small state machine that *accepts or rejects* the
next event (`step : S → Ev → Except String S`) — rejecting is how a deviation of the code from the protocol shows up
in trace validation — and the property theorems are invariants of these machines over ALL event sequences they
accept. -/
namespace Engine

abbrev Acct := String

structure Posting where
  src : Acct
  dst : Acct
  amt : Int
  asset : String
deriving Repr, DecidableEq, Inhabited

inductive Kind | create | revert | setMeta | delMeta
deriving Repr, DecidableEq, Inhabited

/-- a chained log as the protocol sees it -/
structure LogE where
  id : Nat
  kind : Kind
  txid : Option Nat          -- for logs carrying a transaction
  ik : String
  ref : String               -- transaction reference ("" = none)
  reverts : Option Nat       -- target of a revert
  postings : List Posting
  target : String            -- metadata target (rendered)
  metaKey : String           -- metadata key / value rendering (content identity for metadata logs)
  prevId : Option Nat        -- id of the log whose hash was digested before this one's content
  hashOk : Bool              -- hash = digest(json(prev.hash) ++ json(content with id 0, hash null)), recomputed independently
deriving Repr, DecidableEq, Inhabited

def LogE.isTx (l : LogE) : Bool := l.txid.isSome

/-- a request as submitted -/
structure Req where
  kind : Kind
  dry : Bool
  ik : String
  ref : String
  target : Nat               -- revert / transaction-metadata target
  force : Bool
  over : Int                 -- overdraft the script grants its source (0 = none)
deriving Repr, DecidableEq, Inhabited

/-- what is put on the bus -/
inductive BusEv
  | committed (txid : Nat) (postings : List Posting)
  | reverted (revertedId : Nat) (revertId : Nat)
  | savedMeta (target : String) (metaKey : String)
  | deletedMeta (target : String) (metaKey : String)
deriving Repr, DecidableEq, Inhabited

inductive Ev
  | resume (a : Nat) (pt : String)                  -- the scheduler lets request `a` run from point `pt`
  | arrive (a : Nat) (pt : String)                  -- … until it parks at `pt`
  | finish (a : Nat) (ok : Bool) (err : String) (txid : Option Nat)
  | gate (n : Nat) (ok : Bool)                      -- the store answers InsertLogs for a batch of n logs
  | ikRead (a : Nat) (key : String) (found : Option Nat)
  | refRead (a : Nat) (ref : String) (found : Bool)
  | txRead (a : Nat) (txid : Nat) (found reverted : Bool)
  | balRead (a : Nat) (acct : Acct) (asset : String) (value : Int)
  | lock (a : Nat) (r w : List Acct)
  | unlock (a : Nat)
  | committed (a : Nat) (log : LogE) (lastTx : Int)
  | publish (a : Nat) (e : BusEv)
  | taken (a : Nat) (what : String) (key : String) (ok : Bool)   -- a reservation attempt: what ∈ {"ik","ref","rev"}
  | crash
deriving Repr, Inhabited

/-- run a component over a list of events -/
def runOn {S : Type} (step : S → Ev → Except String S) : S → List Ev → Except String S
  | s, [] => .ok s
  | s, e :: es => match step s e with
    | .error m => .error m
    | .ok s' => runOn step s' es

theorem runOn_append {S : Type} (step : S → Ev → Except String S) (s : S) (es fs : List Ev) :
    runOn step s (es ++ fs) = (match runOn step s es with | .error m => .error m | .ok s' => runOn step s' fs) := by
  induction es generalizing s with
  | nil => simp [runOn]
  | cons e es ih =>
    simp only [List.cons_append, runOn]
    cases step s e with
    | error m => rfl
    | ok s' => exact ih s'

/-- an invariant preserved by every accepted step holds after every accepted run -/
theorem runOn_inv {S : Type} (step : S → Ev → Except String S) (Inv : S → Prop)
    (hstep : ∀ s e s', Inv s → step s e = .ok s' → Inv s') :
    ∀ (es : List Ev) (s s' : S), Inv s → runOn step s es = .ok s' → Inv s' := by
  intro es
  induction es with
  | nil => intro s s' hi h; simp [runOn] at h; subst h; exact hi
  | cons e es ih =>
    intro s s' hi h
    simp only [runOn] at h
    cases hs : step s e with
    | error m => simp [hs] at h
    | ok s1 => simp only [hs] at h; exact ih s1 s' (hstep s e s1 hi hs) h

end Engine
