/-! Skel — the statement language of the regenerated commander skeleton, and its semantics.

`extract/commander` (go/ast) rewrites, on every run, the four entry points of `internal/engine/command`
(`CreateTransaction`, `RevertTransaction`, `SaveMeta`, `DeleteMetadata`) into `Generated/Commander.lean`: one `Stmt`
per entry point, calls to functions and closures of the package inlined as `scope`s.  This file is the hand-written
half: the language and what a skeleton *means* — the set of control paths of one request (`paths`), each a list of
`Item`s: the protocol actions in the order the request performs them (deferred ones at the exit of their function,
`keepUntilTerminated` registrations when `terminated()` runs), the abstract conditions it decided, how it ended.

Nondeterminism: every action that has a result the code can look at has several `Outcome`s (the environment's answer);
every named condition (`atom`: a fact about the request or about an earlier answer, e.g. "dry", "ik≠''", "reverted")
is chosen when first tested and *remembered* for the rest of the path; `err`-tests read the outcome of the most recent
action or call (the translator refuses a test of an error value that is not the fresh one).

A few values are followed through assignments and returns (`env`): channels (so that `wait` knows whose `close` it
waits for), the chained log (so that `append` and the publications know which log they are about), the looked-up
transaction and the request's own parameters.  An origin is a string: "chained", "ikRead", "txRead", "preview",
"chan:<variable>", "req:<parameter>".

Core Lean only. -/
namespace Engine.Skel

inductive RefKind | iks | txref | reverts
deriving DecidableEq, Repr, Inhabited

/-- where a value comes from: a followed variable (after resolution: its origin) and the selector path applied to it -/
inductive Prov
  | of (x : String) (path : String)
  | other (src : String)
deriving DecidableEq, Repr, Inhabited

inductive Act
  | yield (pt : String)
  | take (k : RefKind) (key : String)
  | release (k : RefKind) (key : String)
  | readIk (key : String)          -- store.ReadLogWithIdempotencyKey
  | readRef (key : String)         -- store.GetTransactionByReference
  | readTx (key : String)          -- store.GetTransaction
  | compile | setVars | resolve    -- compiler.Compile, SetVarsFromJSON, ResolveResources (the source of the lock sets)
  | lock | unlock                  -- locker.Lock, the Unlock it returned
  | readBalances | vmRun           -- ResolveBalances, vm.Run
  | terminated                     -- executionContext.terminated(): runs what keepUntilTerminated registered, LIFO
  | setIk                          -- log.WithIdempotencyKey(parameters.IdempotencyKey)
  | peekTxid                       -- lastTXID + 1 read, nothing allocated
  | muLock | muUnlock              -- commander.mu
  | allocTxid                      -- lastTXID := lastTXID + 1
  | stampTxid                      -- tx.ID := lastTXID
  | chainLog                       -- lastLog := log.ChainLog(lastLog)
  | append (log : String) (closes : List String)   -- Batcher.Append(log, callback); the callback closes these channels
  | chanClose (c : String)
  | wait (c : String)              -- <-c
  | publish (kind : String) (args : List Prov)
  | answer (v : Prov)              -- the value the entry point returns to its caller (besides the error)
deriving DecidableEq, Repr, Inhabited

inductive Val
  | var (x : String)
  | site (s : String)
  | nil
deriving DecidableEq, Repr, Inhabited

inductive Cond
  | atom (name : String)
  | opaque (src : String)          -- a condition the translator does not know: free at every evaluation
  | ok                             -- the most recent action / call returned no error
  | notFound                       -- … returned the store's not-found error
  | not (c : Cond)
  | and (c d : Cond)
  | or (c d : Cond)
deriving DecidableEq, Repr, Inhabited

inductive Ret
  | ok
  | err (cls : String)
  | same                           -- `return …, err` / `return f(…)`: the outcome of the most recent call stands
deriving DecidableEq, Repr, Inhabited

inductive Stmt
  | skip
  | act (a : Act)
  | assign (x : String) (v : Val)
  | seq (s t : Stmt)
  | ite (c : Cond) (t e : Stmt)
  | ret (r : Ret)
  | defer (as : List Act)          -- runs when the enclosing `scope` is left, LIFO
  | keep (as : List Act)           -- keepUntilTerminated(func() { as })
  | scope (name : String) (s : Stmt)   -- an inlined call of a function / closure of the package
  | panic (why : String)
deriving Repr, Inhabited

/-- a statement list as the generator writes it -/
def block : List Stmt → Stmt
  | [] => .skip
  | [s] => s
  | s :: ss => .seq s (block ss)

-- ------------------------------------------------------------------------------------------------ paths

inductive Outcome | ok | notFound | fail
deriving DecidableEq, Repr, Inhabited

/-- how an action came to run -/
inductive Via | direct | deferred | terminated
deriving DecidableEq, Repr, Inhabited

inductive Item
  | act (a : Act) (o : Outcome) (via : Via)
  | choose (atom : String) (v : Bool)
  | fin (ok : Bool) (cls : String)          -- the entry point returned
  | panic (why : String)
deriving DecidableEq, Repr, Inhabited

abbrev Path := List Item

/-- the answers the environment can give -/
def outcomesOf : Act → List Outcome
  | .take _ _ => [.ok, .fail]
  | .readIk _ => [.ok, .notFound, .fail]
  | .readRef _ => [.ok, .notFound, .fail]
  | .readTx _ => [.ok, .notFound, .fail]
  | .compile => [.ok, .fail]
  | .setVars => [.ok, .fail]
  | .resolve => [.ok, .fail]
  | .lock => [.ok, .fail]
  | .readBalances => [.ok, .fail]
  | .vmRun => [.ok, .fail]
  | _ => [.ok]

/-- does the action have a result the code can test? (it then becomes "the most recent call") -/
def setsLast (a : Act) : Bool := (outcomesOf a).length > 1

structure St where
  env : List (String × String) := []       -- followed variable ↦ origin
  vals : List (String × Bool) := []        -- atoms decided so far
  last : Outcome := .ok
  cls : String := ""                       -- error class of the most recent failed call
  kept : List (List Act) := []             -- onTerminated, most recent first
  tr : List Item := []                     -- most recent first
deriving Repr, Inhabited

def lookup (env : List (String × String)) (x : String) : String :=
  match env.find? (·.1 = x) with
  | some p => p.2
  | none => "?" ++ x

def resolveProv (env : List (String × String)) : Prov → Prov
  | .of x p => .of (lookup env x) p
  | .other s => .other s

/-- replace followed variables by their origins -/
def resolve (env : List (String × String)) : Act → Act
  | .append l cs => .append (lookup env l) (cs.map (lookup env))
  | .chanClose c => .chanClose (lookup env c)
  | .wait c => .wait (lookup env c)
  | .publish k as => .publish k (as.map (resolveProv env))
  | .answer v => .answer (resolveProv env v)
  | a => a

def St.assign (st : St) (x : String) (v : Val) : St :=
  let o := match v with
    | .var y => lookup st.env y
    | .site s => s
    | .nil => "nil"
  { st with env := (x, o) :: st.env.filter (·.1 ≠ x) }

/-- one action that is not `terminated`, with outcome `o` -/
def St.emit (st : St) (a : Act) (o : Outcome) (via : Via) : St :=
  let st := { st with tr := .act (resolve st.env a) o via :: st.tr }
  if setsLast a then { st with last := o, cls := (if o = .ok then "" else "call") } else st

/-- the registered releases, most recent first; they have one outcome each -/
def St.runKept (st : St) : List (List Act) → St
  | [] => st
  | as :: rest => St.runKept (as.foldl (fun s a => s.emit a .ok .terminated) st) rest

/-- an action, all its outcomes -/
def doAct (a : Act) (via : Via) (st : St) : List St :=
  match a with
  | .terminated =>
    let st1 := { st with tr := .act .terminated .ok via :: st.tr }
    [{ St.runKept st1 st1.kept with kept := [] }]
  | a => (outcomesOf a).map (fun o => st.emit a o via)

def doActs (via : Via) : List Act → St → List St
  | [], st => [st]
  | a :: as, st => (doAct a via st).flatMap (doActs via as)

/-- deferred calls, most recent first -/
def runDefers : List (List Act) → St → List St
  | [], st => [st]
  | d :: ds, st => (doActs .deferred d st).flatMap (runDefers ds)

def evalCond : Cond → St → List (Bool × St)
  | .atom n, st =>
    match st.vals.find? (·.1 = n) with
    | some p => [(p.2, st)]
    | none => [true, false].map (fun b => (b, { st with vals := (n, b) :: st.vals, tr := .choose n b :: st.tr }))
  | .opaque s, st => [true, false].map (fun b => (b, { st with tr := .choose ("?" ++ s) b :: st.tr }))
  | .ok, st => [(decide (st.last = .ok), st)]
  | .notFound, st => [(decide (st.last = .notFound), st)]
  | .not c, st => (evalCond c st).map (fun r => (!r.1, r.2))
  | .and c d, st => (evalCond c st).flatMap (fun r => if r.1 then evalCond d r.2 else [(false, r.2)])
  | .or c d, st => (evalCond c st).flatMap (fun r => if r.1 then [(true, r.2)] else evalCond d r.2)

inductive Flow | next | ret | panic
deriving DecidableEq, Repr, Inhabited

def St.setRet (st : St) : Ret → St
  | .ok => { st with last := .ok, cls := "" }
  | .err c => { st with last := .fail, cls := c }
  | .same => st

/-- all executions of a statement: how it left, the state, the defers of the enclosing function -/
def exec : Stmt → St → List (List Act) → List (Flow × St × List (List Act))
  | .skip, st, ds => [(.next, st, ds)]
  | .act a, st, ds => (doAct a .direct st).map (fun st' => (.next, st', ds))
  | .assign x v, st, ds => [(.next, st.assign x v, ds)]
  | .seq s t, st, ds =>
    (exec s st ds).flatMap (fun r => match r with
      | (.next, st', ds') => exec t st' ds'
      | r => [r])
  | .ite c t e, st, ds => (evalCond c st).flatMap (fun r => if r.1 then exec t r.2 ds else exec e r.2 ds)
  | .ret r, st, ds => [(.ret, st.setRet r, ds)]
  | .defer as, st, ds => [(.next, st, as :: ds)]
  | .keep as, st, ds => [(.next, { st with kept := as :: st.kept }, ds)]
  | .scope _ s, st, ds =>
    (exec s st []).flatMap (fun r =>
      (runDefers r.2.2 r.2.1).map (fun st' => ((if r.1 = .panic then Flow.panic else Flow.next), st', ds)))
  | .panic why, st, ds => [(.panic, { st with tr := .panic why :: st.tr }, ds)]

/-- the control paths of an entry point (its body is the outermost scope) -/
def paths (name : String) (body : Stmt) : List Path :=
  (exec (.scope name body) {} []).map (fun r =>
    let st := r.2.1
    -- a panic unwinds to the caller of the entry point (the HTTP recoverer, the harness), which answers an error
    (if r.1 = .panic then Item.fin false "panic" :: st.tr else Item.fin (decide (st.last = .ok)) st.cls :: st.tr).reverse)

-- ------------------------------------------------------------------------------------------------ queries on paths

def Item.isAct (p : Act → Bool) : Item → Bool
  | .act a _ _ => p a
  | _ => false

/-- an action that happened and succeeded -/
def Item.isOk (p : Act → Bool) : Item → Bool
  | .act a .ok _ => p a
  | _ => false

def chose (p : Path) (atom : String) (v : Bool) : Bool := p.contains (.choose atom v)

end Engine.Skel
