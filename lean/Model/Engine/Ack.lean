import Model.Engine.Base
/-! Component `Ack` (C06): who committed which log, what is durable, who was answered what.

Every queued / persisted entry written during the run carries the request that produced it (`pending`, `written`),
so that "the entry of request a" is a matter of identity, not of content equality. -/
namespace Engine.Ack
open Engine

/-- a successful answer of a real write: the request, the entry it stands for, the transaction id it was given -/
structure AckR where
  a : Nat
  entry : LogE
  txid : Option Nat
deriving Repr, DecidableEq

structure S where
  base : List LogE                -- entries that were there before the run (funding)
  durable : List LogE             -- what the store holds
  pending : List (Nat × LogE)     -- handed to the batcher by a request, not yet persisted, in order
  written : List (Nat × LogE)     -- persisted during this run, with the request that produced it
  mine : List (Nat × LogE)        -- request ↦ the log it committed (never forgotten)
  found : List (Nat × LogE)       -- request ↦ the durable log its idempotency key designated
  acks : List AckR                -- successful answers of real writes
  errs : List Nat                 -- requests answered with an error
  dropped : List Nat              -- requests whose log was still queued when the process died
deriving Repr

def init (durable : List LogE) : S :=
  { base := durable, durable := durable, pending := [], written := [], mine := [], found := [], acks := [], errs := [],
    dropped := [] }

def logOf (s : S) (a : Nat) : Option LogE := (s.mine.find? (·.1 = a)).map (·.2)

def foundOf (s : S) (a : Nat) : Option LogE := (s.found.find? (·.1 = a)).map (·.2)

/-- has the request been answered already? -/
def answered (s : S) (a : Nat) : Bool := s.errs.contains a || s.acks.any (·.a = a)

def step (dry : Nat → Bool) (s : S) : Ev → Except String S
  | .committed a l _ =>
    if dry a then .error "ack: a preview committed a log"
    else if (logOf s a).isSome then .error "ack: second log of one request"
    else if answered s a then .error "ack: a log committed by a request that was already answered"
    else .ok { s with mine := (a, l) :: s.mine, pending := s.pending ++ [(a, l)] }
  | .gate n ok =>
    if n = 0 ∨ n > s.pending.length then .error "ack: batch larger than what is pending"
    else if ok then
      .ok { s with durable := s.durable ++ (s.pending.take n).map (·.2), written := s.written ++ s.pending.take n,
                   pending := s.pending.drop n }
    else .ok s
  | .crash => .ok { s with pending := [], dropped := s.pending.map (·.1) ++ s.dropped }
  | .ikRead a key (some id) =>
    match s.durable.find? (fun l => l.id = id ∧ l.ik = key) with
    | some l => .ok { s with found := (a, l) :: s.found }
    | none => .error "ack: idempotency lookup returned a log that is not persisted"
  | .arrive a pt =>
    if pt = "done" ∧ !dry a then
      match logOf s a with
      | some l => if (a, l) ∈ s.written then .ok s else .error "ack: woken before its log was persisted"
      | none => .error "ack: waiting without a log"
    else .ok s
  | .finish a true _ txid =>
    if dry a then .ok s else
    match logOf s a with
    | some l =>
      if (a, l) ∉ s.written then .error "ack: acknowledged before persisted"
      else if l.isTx ∧ txid ≠ l.txid then .error "ack: answer differs from the entry"
      else .ok { s with acks := ⟨a, l, txid⟩ :: s.acks }
    | none =>
      match foundOf s a with
      | some l =>
        if l.isTx ∧ txid ≠ l.txid then .error "ack: answer differs from the entry its key designates"
        else .ok { s with acks := ⟨a, l, txid⟩ :: s.acks }
      | none => .error "ack: success without an entry"
  | .finish a false _ _ =>
    if (logOf s a).isSome then .error "ack: error answered after committing a log" else .ok { s with errs := a :: s.errs }
  | _ => .ok s

/-- the requests carried by a tagged list -/
def tagsOf (xs : List (Nat × LogE)) : List Nat := xs.map (·.1)

structure Inv (dry : Nat → Bool) (s : S) : Prop where
  /-- the store holds what was there plus what the requests of this run got persisted, nothing else, nothing lost -/
  store : s.durable = s.base ++ s.written.map (·.2)
  /-- every entry written or queued during the run was committed by the request it is tagged with -/
  sub : ∀ x ∈ s.written ++ s.pending, x ∈ s.mine
  /-- one log per request -/
  once : (tagsOf s.mine).Nodup
  /-- one entry per request -/
  tags : (tagsOf (s.written ++ s.pending)).Nodup
  /-- previews commit nothing -/
  real : ∀ x ∈ s.mine, dry x.1 = false
  /-- acknowledged ⇒ persisted, and the answer carries the entry's transaction id -/
  acked : ∀ x ∈ s.acks, x.entry ∈ s.durable ∧ (x.entry.isTx = true → x.txid = x.entry.txid) ∧ dry x.a = false
  /-- the log an acknowledged request committed is the entry it was answered with, and it is persisted -/
  own : ∀ x ∈ s.acks, ∀ l, (x.a, l) ∈ s.mine → l = x.entry ∧ (x.a, l) ∈ s.written
  /-- a request that reported an error left nothing -/
  clean : ∀ a ∈ s.errs, ∀ l, (a, l) ∉ s.mine
  /-- a request whose log was lost in a crash has no entry -/
  lost : ∀ a ∈ s.dropped, a ∈ tagsOf s.mine ∧ a ∉ tagsOf (s.written ++ s.pending)
  /-- what an idempotency lookup returned stays persisted -/
  foundOk : ∀ x ∈ s.found, x.2 ∈ s.durable

end Engine.Ack
