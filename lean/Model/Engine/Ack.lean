import Model.Engine.Base
/-! Component `Ack` (C06): who committed which log, what is durable, who was answered what. -/
namespace Engine.Ack
open Engine

structure S where
  base : Nat                      -- entries that were there before the run (funding)
  durable : List LogE
  pending : List LogE
  mine : List (Nat × LogE)        -- request ↦ the log it committed
  found : List (Nat × Nat)        -- request ↦ id of the durable log its idempotency key designated
  acks : List (Nat × Nat)         -- successful answers of real writes: request ↦ id of the entry it stands for
  errs : List Nat                 -- requests answered with an error
deriving Repr

def init (durable : List LogE) : S :=
  { base := durable.length, durable := durable, pending := [], mine := [], found := [], acks := [], errs := [] }

def logOf (s : S) (a : Nat) : Option LogE := (s.mine.find? (·.1 = a)).map (·.2)

def step (dry : Nat → Bool) (s : S) : Ev → Except String S
  | .committed a l _ =>
    if dry a then .error "ack: a preview committed a log"
    else if (logOf s a).isSome then .error "ack: second log of one request"
    else .ok { s with mine := (a, l) :: s.mine, pending := s.pending ++ [l] }
  | .gate n ok =>
    if n = 0 ∨ n > s.pending.length then .error "ack: batch larger than what is pending"
    else if ok then .ok { s with durable := s.durable ++ s.pending.take n, pending := s.pending.drop n }
    else .ok s
  | .crash => .ok { s with pending := [] }
  | .ikRead a key (some id) =>
    if s.durable.any (fun l => l.id = id ∧ l.ik = key) then .ok { s with found := (a, id) :: s.found }
    else .error "ack: idempotency lookup returned a log that is not persisted"
  | .arrive a pt =>
    if pt = "done" ∧ !dry a then
      match logOf s a with
      | some l => if l ∈ s.durable then .ok s else .error "ack: woken before its log was persisted"
      | none => .error "ack: waiting without a log"
    else .ok s
  | .finish a true _ txid =>
    if dry a then .ok s else
    match logOf s a with
    | some l =>
      if l ∉ s.durable then .error "ack: acknowledged before persisted"
      else if l.isTx ∧ txid ≠ l.txid then .error "ack: answer differs from the entry"
      else .ok { s with acks := (a, l.id) :: s.acks }
    | none =>
      match (s.found.find? (·.1 = a)).map (·.2) with
      | some id => .ok { s with acks := (a, id) :: s.acks }
      | none => .error "ack: success without an entry"
  | .finish a false _ _ =>
    if (logOf s a).isSome then .error "ack: error answered after committing a log" else .ok { s with errs := a :: s.errs }
  | _ => .ok s

structure Inv (s : S) : Prop where
  /-- acknowledged ⇒ persisted -/
  acked : ∀ x ∈ s.acks, ∃ l ∈ s.durable, l.id = x.2
  /-- every entry written during the run has a request that produced it -/
  produced : ∀ l ∈ (s.durable ++ s.pending).drop s.base, ∃ a, (a, l) ∈ s.mine
  /-- a request that reported an error left nothing -/
  clean : ∀ a ∈ s.errs, logOf s a = none
  /-- one log per request -/
  once : (s.mine.map (·.1)).Nodup
  /-- nothing that was there is lost -/
  grows : s.base ≤ s.durable.length

end Engine.Ack
