import Model.Engine.Base
import Model.Engine.Skel
import Model.Engine.SkelWf
import Model.Engine.Floor
/-! SkelSys — the commander as a transition system that INTERPRETS control paths of the regenerated skeleton.

Shared state: the store (persisted logs), the batcher's queue, the commander's position (`lastLog`, `lastTXID`), its
mutex, the referencer.  A process is a request (`Job`: who it is, what it asks for, what its script produces) together
with the rest of a control path (`Item`s of `Skel.paths`, waits tagged by `SkelWf.tagged`) and its registers.

`enabled` / `effSh` / `effRg` / `evsOf` give every item its meaning: what it does to the shared state and the registers, which events (`Base.Ev`,
the vocabulary of the component machines and of the harness trace) it emits, and when it is ENABLED — an item that
records an answer of the environment (`take` succeeded, the lookup found something, `dry` was true …) can only be
executed in a state in which the environment gives that answer: reservations are granted when free, lookups are
answered from the persisted log, a wait for persistence returns once the request's log has left the queue, the mutex
is exclusive.

`Step`: any process executes its next item (interleaving at EVERY action, finer than the scheduling points), the
store persists a prefix of the queue (`gate`), the process dies and restarts (`crash`: queue, mutex, reservations and
all requests are lost, the position is reloaded from the store as `Commander.Init` does).

The account locker is the contract proved for `DefaultLocker` under C15, in the form the `Floor` machine states it
(`Floor.compatible`, FIFO `Floor.recheck` at every release): a `lock` that is not compatible with the holders queues the
request, which then cannot execute anything until a release grants it.  The balances a request reads are part of the
job; `readBalances` is enabled only when they are what the store holds.  Core Lean only. -/
namespace Engine.Skel.Sys
open Engine

structure Job where
  a : Nat                      -- actor id
  ep : String                  -- entry point
  req : Req
  postings : List Posting      -- what the script produces
  target : String              -- metadata target (rendered)
  metaKey : String
  r : List Acct                -- lock sets
  w : List Acct
  bals : List (Acct × String × Int)
deriving Repr, Inhabited

def Job.isTx (j : Job) : Bool := decide (j.req.kind = .create) || decide (j.req.kind = .revert)

structure Regs where
  txid : Option Nat := none        -- tx.ID
  ikSet : Bool := false            -- WithIdempotencyKey was applied
  chained : Option LogE := none    -- the log this request chained
  found : Option LogE := none      -- the log the store returned for the idempotency key
  reverted : Option Bool := none   -- what the store said about the looked-up transaction
  answer : Option Nat := none      -- transaction id handed back
deriving Repr, Inhabited

structure Shared where
  store : List LogE
  queue : List (Nat × LogE)
  last : Option Nat
  lastTx : Int
  mu : Option Nat
  held : List (RefKind × String × Nat)
  holders : List Floor.Hold := []     -- account locks granted
  lqueue : List Floor.Hold := []      -- lock requests waiting, FIFO
deriving Repr, Inhabited

def nextId (last : Option Nat) : Nat := match last with | none => 0 | some i => i + 1

def countTx (ls : List LogE) : Nat := (ls.filter (·.isTx)).length

/-- `Commander.Init` on a fresh process -/
def restart (store : List LogE) : Shared :=
  { store := store, queue := [], last := store.getLast?.map (·.id), lastTx := (countTx store : Int) - 1, mu := none, held := [],
    holders := [], lqueue := [] }

/-- the balance of an account in the persisted log -/
def balance (store : List LogE) (x : Acct) (asset : String) : Int :=
  Floor.balanceOf (store.map (fun l => ⟨l, 0⟩)) x asset

/-- the request waits for its account locks -/
def blocked (sh : Shared) (a : Nat) : Bool := sh.lqueue.any (fun h => h.a = a)

/-- what the log says, apart from its position in the chain -/
def Job.content (j : Job) (ikSet : Bool) : LogE :=
  { id := 0, kind := j.req.kind, txid := none, ik := if ikSet then j.req.ik else "",
    ref := if j.req.kind = .create then j.req.ref else "",
    reverts := if j.req.kind = .revert then some j.req.target else none,
    postings := j.postings, target := j.target, metaKey := j.metaKey, prevId := none, hashOk := true }

def kindName : RefKind → String
  | .iks => "ik" | .txref => "ref" | .reverts => "rev"

def Job.key (j : Job) : RefKind → String
  | .iks => j.req.ik | .txref => j.req.ref | .reverts => toString j.req.target

/-- the log the entry point was answered with -/
def returned (rg : Regs) : Option LogE := match rg.chained with | some l => some l | none => rg.found

/-- a named condition can only be decided the way the request and the earlier answers say -/
def atomOk (j : Job) (rg : Regs) (atom : String) (b : Bool) : Bool :=
  if atom = "dry" then b = j.req.dry
  else if atom = "ik≠''" then b = decide (j.req.ik ≠ "")
  else if atom = "ref≠''" then b = decide (j.req.ref ≠ "")
  else if atom = "tx≠nil" then b = j.isTx
  else if atom = "reverted" then rg.reverted = some b
  else if atom = "payload-kind-ok" then b = (match returned rg with | some l => decide (l.kind = j.req.kind) | none => true)
  else if atom = "payload-id=lookup-id" then b = (match returned rg with | some l => decide (l.reverts = some j.req.target) | none => true)
  else true

def busOf (k : String) (j : Job) (l : LogE) : BusEv :=
  if k = "CommittedTransactions" then .committed (l.txid.getD 0) l.postings
  else if k = "RevertedTransaction" then .reverted j.req.target (l.txid.getD 0)
  else if k = "SavedMetadata" then .savedMeta l.target l.metaKey
  else .deletedMeta l.target l.metaKey

/-- the log a publication / an answer of the given provenance is built from -/
def logOfOrigin (rg : Regs) (j : Job) (o : String) : LogE :=
  if o = "chained" then rg.chained.getD default
  else if o = "ikRead" then rg.found.getD default
  else { j.content rg.ikSet with txid := rg.txid }      -- the preview

def provOrigin : Prov → String
  | .of o _ => o
  | .other _ => "?"

/-- the origin of the log-derived argument of a publication (the last one: the first of a revert is the looked-up transaction) -/
def publishOrigin (args : List Prov) : String := match args.getLast? with | some v => provOrigin v | none => "?"

/-- is the key of kind `k` free for request `j`? -/
def keyFree (sh : Shared) (j : Job) (k : RefKind) : Bool := !sh.held.any (fun h => h.1 = k ∧ h.2.1 = j.key k)

/-- can request `j` execute this item now?  (an item that records an answer of the environment needs a state in which
the environment gives that answer) -/
def enabled (sh : Shared) (j : Job) (rg : Regs) : Item → Bool
  | .choose atom b => atomOk j rg atom b
  | .act (.take k _) o _ => if o = .ok then keyFree sh j k else !keyFree sh j k
  | .act (.readIk _) o _ =>
    (match o with
     | .ok => (sh.store.find? (fun l => l.ik = j.req.ik)).isSome
     | .notFound => (sh.store.find? (fun l => l.ik = j.req.ik)).isNone
     | .fail => true)
  | .act (.readRef _) o _ =>
    (match o with
     | .ok => sh.store.any (fun l => l.ref = j.req.ref)
     | .notFound => !sh.store.any (fun l => l.ref = j.req.ref)
     | .fail => true)
  | .act (.readTx _) o _ =>
    (match o with
     | .ok => sh.store.any (fun l => l.txid = some j.req.target)
     | .notFound => !sh.store.any (fun l => l.txid = some j.req.target)
     | .fail => true)
  | .act .muLock _ _ => sh.mu = none
  | .act .muUnlock _ _ => sh.mu = some j.a
  | .act (.wait c) _ _ => c ≠ "persisted" || !sh.queue.any (fun q => q.1 = j.a)
  | .act .readBalances .ok _ => j.bals.all (fun b => b.1 = "world" || b.2.2 = balance sh.store b.1 b.2.1)
  | _ => true

/-- what the item does to the shared state -/
def effSh (sh : Shared) (j : Job) (rg : Regs) : Item → Shared
  | .act (.take k _) .ok _ => { sh with held := (k, j.key k, j.a) :: sh.held }
  | .act (.release k _) _ _ => { sh with held := sh.held.filter (fun h => !(h.1 = k ∧ h.2.1 = j.key k ∧ h.2.2 = j.a)) }
  | .act .muLock _ _ => { sh with mu := some j.a }
  | .act .muUnlock _ _ => { sh with mu := none }
  | .act .allocTxid _ _ => { sh with lastTx := sh.lastTx + 1 }
  | .act .chainLog _ _ => { sh with last := some (nextId sh.last) }
  | .act (.append o _) _ _ => { sh with queue := sh.queue ++ [(j.a, if o = "chained" then rg.chained.getD default else default)] }
  | .act .lock .ok _ =>
    { sh with holders := if Floor.compatible sh.holders ⟨j.a, j.r, j.w⟩ then sh.holders ++ [⟨j.a, j.r, j.w⟩] else sh.holders,
              lqueue := if Floor.compatible sh.holders ⟨j.a, j.r, j.w⟩ then sh.lqueue else sh.lqueue ++ [⟨j.a, j.r, j.w⟩] }
  | .act .unlock _ _ =>
    { sh with holders := (Floor.recheck (sh.holders.filter (fun h => h.a ≠ j.a)) sh.lqueue).1,
              lqueue := (Floor.recheck (sh.holders.filter (fun h => h.a ≠ j.a)) sh.lqueue).2 }
  | _ => sh

/-- … to the request's registers -/
def effRg (sh : Shared) (j : Job) (rg : Regs) : Item → Regs
  | .act (.readIk _) .ok _ => { rg with found := sh.store.find? (fun l => l.ik = j.req.ik) }
  | .act (.readTx _) .ok _ => { rg with reverted := some (sh.store.any (fun l => l.reverts = some j.req.target)) }
  | .act .setIk _ _ => { rg with ikSet := true }
  | .act .peekTxid _ _ => { rg with txid := some (sh.lastTx + 1).toNat }
  | .act .stampTxid _ _ => { rg with txid := some sh.lastTx.toNat }
  | .act .chainLog _ _ =>
    { rg with chained := some { j.content rg.ikSet with id := nextId sh.last, prevId := sh.last, hashOk := true, txid := rg.txid } }
  | .act (.answer v) _ _ => { rg with answer := (logOfOrigin rg j (provOrigin v)).txid }
  | _ => rg

/-- … and which events it emits -/
def evsOf (sh : Shared) (j : Job) (rg : Regs) : Item → List Ev
  | .fin ok cls => [.finish j.a ok cls rg.answer]
  | .act (.yield pt) _ _ => [.arrive j.a pt, .resume j.a pt]
  | .act (.take k _) o _ => [.taken j.a (kindName k) (j.key k) (o = .ok)]
  | .act (.readIk _) o _ =>
    (match o with
     | .ok => [.ikRead j.a j.req.ik ((sh.store.find? (fun l => l.ik = j.req.ik)).map (·.id))]
     | .notFound => [.ikRead j.a j.req.ik none]
     | .fail => [])
  | .act (.readRef _) o _ =>
    (match o with
     | .ok => [.refRead j.a j.req.ref true]
     | .notFound => [.refRead j.a j.req.ref false]
     | .fail => [])
  | .act (.readTx _) o _ =>
    (match o with
     | .ok => [.txRead j.a j.req.target true (sh.store.any (fun l => l.reverts = some j.req.target))]
     | .notFound => [.txRead j.a j.req.target false false]
     | .fail => [])
  | .act .lock .ok _ => [.lock j.a j.r j.w]
  | .act .unlock _ _ => [.unlock j.a]
  | .act .readBalances .ok _ => j.bals.map (fun b => .balRead j.a b.1 b.2.1 b.2.2)
  | .act (.append o _) _ _ => [.committed j.a (if o = "chained" then rg.chained.getD default else default) sh.lastTx]
  | .act (.publish k args) _ _ => [.publish j.a (busOf k j (logOfOrigin rg j (publishOrigin args)))]
  | _ => []

structure Proc where
  job : Job
  regs : Regs
  done : Path          -- ghost: what it has executed so far
  alive : Bool         -- false once the process it ran in has died
  todo : Path
deriving Repr, Inhabited

structure State where
  sh : Shared
  procs : List Proc
deriving Repr, Inhabited

def persist (sh : Shared) (n : Nat) : Shared :=
  { sh with store := sh.store ++ (sh.queue.take n).map (·.2), queue := sh.queue.drop n }

/-- `adm j p`: which control paths a request may arrive with -/
inductive Step (adm : Job → Path → Prop) : State → List Ev → State → Prop
  /-- a request executes its next item -/
  | item (st : State) (pre post : List Proc) (j : Job) (rg : Regs) (dn : Path) (x : Item) (rest : Path)
      (hp : st.procs = pre ++ ⟨j, rg, dn, true, x :: rest⟩ :: post) (hen : enabled st.sh j rg x = true)
      (hq : blocked st.sh j.a = false) :
      Step adm st (evsOf st.sh j rg x) ⟨effSh st.sh j rg x, pre ++ ⟨j, effRg st.sh j rg x, dn ++ [x], true, rest⟩ :: post⟩
  /-- the store answers `InsertLogs` for a batch of `n` logs -/
  | gate (st : State) (n : Nat) (ok : Bool) (h0 : 0 < n) (hn : n ≤ st.sh.queue.length) :
      Step adm st [.gate n ok] (if ok then ⟨persist st.sh n, st.procs⟩ else st)
  /-- the process dies; a new commander is initialised on the same store; the requests in flight never answer -/
  | crash (st : State) : Step adm st [.crash] ⟨restart st.sh.store, st.procs.map (fun p => { p with alive := false, todo := [] })⟩
  /-- a new request arrives, with any control path -/
  | arrive (st : State) (j : Job) (p : Path) (hfresh : ∀ q ∈ st.procs, q.job.a ≠ j.a) (hadm : adm j p) :
      Step adm st [] ⟨st.sh, st.procs ++ [⟨j, {}, [], true, p⟩]⟩

inductive Run (adm : Job → Path → Prop) : State → List Ev → State → Prop
  | nil (st : State) : Run adm st [] st
  | cons (st st1 st2 : State) (evs tr : List Ev) : Run adm st tr st1 → Step adm st1 evs st2 → Run adm st (tr ++ evs) st2

def init (store : List LogE) : State := ⟨restart store, []⟩

-- ------------------------------------------------------------------------------------------------ scheduling points

/-! `Step` lets the requests interleave at every action.  The machines that read a request's `finish` as the release of
its reservations (`Guard`) or pair a preview's `peekTxid` with its next scheduling point (`Events`) describe runs in
which a request is only descheduled at a `verifhook.Yield` (the discipline of the harness, and the granularity §3.4
asks for): `StepY` is `Step` under that discipline — a request that has started a segment runs until its next `yield`
(or its end); the store, crashes and arrivals act between segments.  Every `RunY` is a `Run`. -/

/-- after this item the request is parked (or over) -/
def endsSegment : Item → Bool
  | .act (.yield _) _ _ => true
  | .fin _ _ => true
  | _ => false

structure YState where
  st : State
  running : Option Nat      -- the request in the middle of a segment
deriving Repr, Inhabited

inductive StepY (adm : Job → Path → Prop) : YState → List Ev → YState → Prop
  | item (y : YState) (pre post : List Proc) (j : Job) (rg : Regs) (dn : Path) (x : Item) (rest : Path)
      (hp : y.st.procs = pre ++ ⟨j, rg, dn, true, x :: rest⟩ :: post) (hen : enabled y.st.sh j rg x = true)
      (hq : blocked y.st.sh j.a = false) (hrun : y.running = none ∨ y.running = some j.a) :
      StepY adm y (evsOf y.st.sh j rg x)
        ⟨⟨effSh y.st.sh j rg x, pre ++ ⟨j, effRg y.st.sh j rg x, dn ++ [x], true, rest⟩ :: post⟩,
         if endsSegment x || rest.isEmpty then none else some j.a⟩
  | gate (y : YState) (n : Nat) (ok : Bool) (h0 : 0 < n) (hn : n ≤ y.st.sh.queue.length) (hrun : y.running = none) :
      StepY adm y [.gate n ok] ⟨if ok then ⟨persist y.st.sh n, y.st.procs⟩ else y.st, none⟩
  | crash (y : YState) :
      StepY adm y [.crash] ⟨⟨restart y.st.sh.store, y.st.procs.map (fun p => { p with alive := false, todo := [] })⟩, none⟩
  | arrive (y : YState) (j : Job) (p : Path) (hfresh : ∀ q ∈ y.st.procs, q.job.a ≠ j.a) (hadm : adm j p) :
      StepY adm y [] ⟨⟨y.st.sh, y.st.procs ++ [⟨j, {}, [], true, p⟩]⟩, y.running⟩

inductive RunY (adm : Job → Path → Prop) : YState → List Ev → YState → Prop
  | nil (y : YState) : RunY adm y [] y
  | cons (y y1 y2 : YState) (evs tr : List Ev) : RunY adm y tr y1 → StepY adm y1 evs y2 → RunY adm y (tr ++ evs) y2

theorem StepY.toStep {adm : Job → Path → Prop} {y y' : YState} {evs : List Ev} (h : StepY adm y evs y') :
    Step adm y.st evs y'.st := by
  cases h with
  | item pre post j rg dn x rest hp hen hq _ => exact Step.item _ pre post j rg dn x rest hp hen hq
  | gate n ok h0 hn _ => cases ok <;> exact Step.gate _ n _ h0 hn
  | crash => exact Step.crash _
  | arrive j p hf ha => exact Step.arrive _ j p hf ha

theorem RunY.toRun {adm : Job → Path → Prop} {y y' : YState} {tr : List Ev} (h : RunY adm y tr y') : Run adm y.st tr y'.st := by
  induction h with
  | nil => exact Run.nil _
  | cons y1 y2 evs tr _ hs ih => exact Run.cons _ _ _ _ _ ih hs.toStep

end Engine.Skel.Sys
