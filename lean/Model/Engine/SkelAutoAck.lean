import Model.Engine.Base
import Model.Engine.Skel
import Model.Engine.SkelSys
/-! SkelAutoAck — what the `Ack` machine (C06) needs from the order of a request's own steps, as an automaton over the
items of a control path: one chained log, appended once and only when `dry` was decided false; the wait for
persistence after the append and before the scheduling point "done"; a successful return only after the wait (own
log) or after the key lookup found a log whose kind was checked, answering that log's transaction; an error return
only when nothing was appended.  Core Lean only. -/
namespace Engine.Skel.AckRef
open Engine Engine.Skel

inductive ATok
  | dry (b : Bool) | kindCmp (b : Bool) | idCmp (b : Bool) | readIkOk | chain | appendC | appendX | waitP | yieldDone
  | answer (o : String) | finT | finF | stamp | other
deriving DecidableEq, Repr

def atok : Item → ATok
  | .choose a b =>
    if a = "dry" then .dry b
    else if a = "payload-kind-ok" then .kindCmp b
    else if a = "payload-id=lookup-id" then .idCmp b
    else .other
  | .act (.readIk _) .ok _ => .readIkOk
  | .act .chainLog _ _ => .chain
  | .act (.append o _) _ _ => if o = "chained" then .appendC else .appendX
  | .act (.wait c) _ _ => if c = "persisted" then .waitP else .other
  | .act (.yield pt) _ _ => if pt = "done" then .yieldDone else .other
  | .act (.answer v) _ _ => .answer (Sys.provOrigin v)
  | .act .stampTxid _ _ => .stamp
  | .act .peekTxid _ _ => .stamp
  | .fin true _ => .finT
  | .fin false _ => .finF
  | _ => .other

structure APh where
  dry : Option Bool := none
  chained : Bool := false
  committed : Bool := false
  waited : Bool := false
  found : Bool := false
  kindOk : Bool := false
  poisoned : Bool := false
  answered : Option String := none
  fin : Bool := false
deriving DecidableEq, Repr

def isTxKind (k : Kind) : Bool := decide (k = .create) || decide (k = .revert)

/-- `k`: the kind of write of the entry point -/
def astep (k : Kind) (ph : APh) (t : ATok) : Option APh :=
  let tx := isTxKind k
  if ph.fin then none else
  match t with
  | .other => some ph
  | .dry b => some { ph with dry := some b }
  | .kindCmp true => some { ph with kindOk := true }
  | .kindCmp false => some { ph with poisoned := ph.poisoned || ph.committed }
  | .idCmp b => if k = .revert then (if b then some ph else some { ph with poisoned := ph.poisoned || ph.committed }) else none
  | .readIkOk => if ph.found || ph.chained then none else some { ph with found := true, kindOk := false, answered := none }
  | .chain => if ph.committed || ph.chained then none else some { ph with chained := true, answered := none }
  | .appendC => if ph.dry = some false ∧ ph.chained = true ∧ ph.committed = false then some { ph with committed := true } else none
  | .appendX => none
  | .waitP => if ph.committed then some { ph with waited := true } else none
  | .yieldDone => if ph.dry = some true ∨ ph.waited = true then some ph else none
  | .answer o => some { ph with answered := some o }
  | .stamp => if tx then some ph else none
  | .finT =>
    if ph.dry = some true then some { ph with fin := true }
    else if ph.committed then
      (if ph.waited = true ∧ (tx = true → ph.answered = some "chained") then some { ph with fin := true } else none)
    else if ph.found = true ∧ ph.chained = false ∧ ph.kindOk = true ∧ (tx = true → ph.answered = some "ikRead") then some { ph with fin := true } else none
  | .finF => if !ph.committed || ph.poisoned then some { ph with fin := true } else none

def arun (k : Kind) : APh → Path → Option APh
  | ph, [] => some ph
  | ph, x :: xs => match astep k ph (atok x) with
    | some ph' => arun k ph' xs
    | none => none

end Engine.Skel.AckRef
