import Model.Paginate
/-! Model F (cursors) — `bunpaginate.EncodeCursor` / `UnmarshalCursor` / `Extract`, `PaginatedQueryOptions`
(`internal/storage/ledgerstore/utils.go`) and the filter expressions of `libs/query/expression.go`.

A token is `base64url(json(query))`.  The model stops at the JSON *value* (`JVal`): the text of a JSON value and
its base64 armour are Go's `encoding/json` / `encoding/base64`, trusted to be inverse to each other (DESIGN §7).
What is modelled is which JSON value a query is turned into and how a JSON value is read back into a query,
including every way of being refused.

This is the behaviour of the *repaired* code (fixes/c17-cursor.diff): the filter nodes marshal to the same
JSON `query.ParseJSON` reads, `$not` is read, and `PaginatedQueryOptions` reads its `qb` through `ParseJSON`.
Before the repair `set`/`keyValue`/`not` (unexported fields only) all marshalled to `{}` and no JSON object could
be read into the `query.Builder` interface, so every cursor that carried a filter was refused. -/
namespace Cursor
open Paginate

/-- a JSON value (`any` after `json.Unmarshal`); numbers are `mantissa · 10^-exponent` -/
inductive JVal
  | null
  | bool (b : Bool)
  | num (mantissa : Int) (exponent : Nat)
  | str (s : String)
  | arr (xs : List JVal)
  | obj (kvs : List (String × JVal))
deriving Repr, Inhabited

def JVal.int (n : Int) : JVal := .num n 0

/-! ### filter expressions (`query.Builder`) -/

inductive SetOp | and | or
deriving DecidableEq, Repr, Inhabited

inductive KvOp | «match» | gte | lte | gt | lt
deriving DecidableEq, Repr, Inhabited

/-- `set` / `keyValue` / `not` of expression.go; a value is any JSON value -/
inductive Filter
  | set (op : SetOp) (items : List Filter)
  | kv (op : KvOp) (key : String) (value : JVal)
  | not (e : Filter)
deriving Repr

def SetOp.name : SetOp → String
  | .and => "$and"
  | .or => "$or"

def KvOp.name : KvOp → String
  | .match => "$match"
  | .gte => "$gte"
  | .lte => "$lte"
  | .gt => "$gt"
  | .lt => "$lt"

def setOpOf (s : String) : Option SetOp :=
  if s = "$and" then some .and else if s = "$or" then some .or else none

def kvOpOf (s : String) : Option KvOp :=
  if s = "$match" then some .match else if s = "$gte" then some .gte else if s = "$lte" then some .lte
  else if s = "$gt" then some .gt else if s = "$lt" then some .lt else none

-- `MarshalJSON` of the three node types (repaired code): the shape `ParseJSON` reads
mutual
def encodeFilter : Filter → JVal
  | .set op items => .obj [(op.name, .arr (encodeItems items))]
  | .kv op key value => .obj [(op.name, .obj [(key, value)])]
  | .not e => .obj [("$not", encodeFilter e)]
def encodeItems : List Filter → List JVal
  | [] => []
  | f :: fs => encodeFilter f :: encodeItems fs
end

-- `mapMapToExpression` (what `query.ParseJSON` does after `json.Unmarshal` into a map), with `$not`
mutual
def decodeFilter : JVal → Except String Filter
  | .obj [] => .error "expected single key, found none"
  | .obj [(k, v)] =>
    match setOpOf k with
    | some op =>
      match v with
      | .arr xs => (decodeItems xs).map (Filter.set op)
      | _ => .error "unexpected type"
    | none =>
      match kvOpOf k with
      | some op =>
        match v with
        | .obj [] => .error "expected single key, found none"
        | .obj [(key, value)] => .ok (.kv op key value)
        | .obj _ => .error "expected single key, found more then one"
        | _ => .error "unexpected type"
      | none =>
        if k = "$not" then
          match v with
          | .obj kvs => (decodeFilter (.obj kvs)).map Filter.not
          | _ => .error "unexpected type"
        else .error "unexpected operator"
  | .obj _ => .error "expected single key, found more then one"
  | _ => .error "not an object"
def decodeItems : List JVal → Except String (List Filter)
  | [] => .ok []
  | x :: xs =>
    match x with
    | .obj kvs =>
      match decodeFilter (.obj kvs) with
      | .ok f => (decodeItems xs).map (f :: ·)
      | .error e => .error e
    | _ => .error "unexpected type in set"
end

/-! ### options carried by a list query (`PaginatedQueryOptions[T]`) -/

/-- the Go type parameter `T`: `PITFilterWithVolumes` (transactions, accounts) or `any` (logs) -/
inductive ExtraKind | pitVol | any
deriving DecidableEq, Repr, Inhabited

inductive Extra
  | pitVol (pit : Option String) (volumes effectiveVolumes : Bool)   -- the instant travels as its RFC 3339 text
  | any (v : JVal)
deriving Repr

def Extra.kind : Extra → ExtraKind
  | .pitVol .. => .pitVol
  | .any _ => .any

structure Opts where
  qb       : Option Filter
  pageSize : Nat
  extra    : Extra
deriving Repr

def optInt : Option Int → JVal
  | none => .null
  | some n => .int n

def encodePit : Option String → JVal
  | none => .null
  | some s => .str s

/-- a nil `QueryBuilder` marshals to `null`, a filter through its `MarshalJSON` -/
def encodeQb : Option Filter → JVal
  | none => .null
  | some f => encodeFilter f

def encodeExtra : Extra → JVal
  | .pitVol pit v e => .obj [("pit", encodePit pit), ("volumes", .bool v), ("effectiveVolumes", .bool e)]
  | .any v => v

def encodeOpts (o : Opts) : JVal :=
  .obj [("qb", encodeQb o.qb), ("pageSize", .int o.pageSize), ("options", encodeExtra o.extra)]

def Order.code : Order → Int
  | .asc => 0
  | .desc => 1

def encodeCol (q : ColQuery Opts) : JVal :=
  .obj [("pageSize", .int q.pageSize), ("bottom", optInt q.bottom), ("column", .str q.column),
    ("paginationID", optInt q.paginationID), ("order", .int (Order.code q.order)), ("filters", encodeOpts q.filters),
    ("reverse", .bool q.reverse)]

def encodeOff (q : OffQuery Opts) : JVal :=
  .obj [("offset", .int q.offset), ("order", .int (Order.code q.order)), ("pageSize", .int q.pageSize),
    ("filters", encodeOpts q.filters)]

/-! ### reading a token back -/

/-- outcome of `UnmarshalCursor` -/
inductive Dec (α : Type)
  | ok (a : α)
  | refused (why : String)
  | oddOrder (n : Int)   -- accepted by the decoder with an `order` outside {0,1}; what a list call does with it is not modelled
deriving Repr

/-- a field that is absent reads like `null`: the Go zero value stays -/
def field (kvs : List (String × JVal)) (k : String) : JVal :=
  match kvs.lookup k with
  | some v => v
  | none => .null

def uint64Max : Nat := 18446744073709551615

def asNat : JVal → Except String Nat
  | .null => .ok 0
  | .num m 0 => if 0 ≤ m ∧ m.toNat ≤ uint64Max then .ok m.toNat else .error "number out of range for uint64"
  | _ => .error "cannot unmarshal into uint64"

def asOptInt : JVal → Except String (Option Int)
  | .null => .ok none
  | .num m 0 => .ok (some m)
  | _ => .error "cannot unmarshal into big.Int"

def asStr : JVal → Except String String
  | .null => .ok ""
  | .str s => .ok s
  | _ => .error "cannot unmarshal into string"

def asBool : JVal → Except String Bool
  | .null => .ok false
  | .bool b => .ok b
  | _ => .error "cannot unmarshal into bool"

/-- `some (Except.ok o)`: a valid order; `none`: an integer outside {0,1} -/
def asOrder : JVal → Except String (Except Int Order)
  | .null => .ok (.ok .asc)
  | .num m 0 => if m = 0 then .ok (.ok .asc) else if m = 1 then .ok (.ok .desc) else .ok (.error m)
  | _ => .error "cannot unmarshal into Order"

/-- the `qb` member: absent or `null` = no filter, anything else goes through `query.ParseJSON` -/
def decodeQb (v : JVal) : Except String (Option Filter) :=
  match v with
  | .null => .ok none
  | f => (decodeFilter f).map some

def decodePit (v : JVal) : Except String (Option String) :=
  match v with
  | .null => .ok none
  | .str s => .ok (some s)
  | _ => .error "invalid date format"

def zeroExtra : ExtraKind → Extra
  | .pitVol => .pitVol none false false
  | .any => .any .null

def decodeExtra (k : ExtraKind) (v : JVal) : Except String Extra :=
  match k with
  | .any => .ok (.any v)
  | .pitVol =>
    match v with
    | .null => .ok (zeroExtra .pitVol)
    | .obj kvs => do
      let pit ← decodePit (field kvs "pit")
      let vol ← asBool (field kvs "volumes")
      let eff ← asBool (field kvs "effectiveVolumes")
      pure (.pitVol pit vol eff)
    | _ => .error "cannot unmarshal into PITFilterWithVolumes"

/-- `PaginatedQueryOptions.UnmarshalJSON` (repaired code) -/
def decodeOpts (k : ExtraKind) (v : JVal) : Except String Opts :=
  match v with
  | .null => .ok ⟨none, 0, zeroExtra k⟩
  | .obj kvs => do
    let qb ← decodeQb (field kvs "qb")
    let ps ← asNat (field kvs "pageSize")
    let extra ← decodeExtra k (field kvs "options")
    pure ⟨qb, ps, extra⟩
  | _ => .error "cannot unmarshal into PaginatedQueryOptions"

def decodeColFields (k : ExtraKind) (kvs : List (String × JVal)) : Except String (Except Int (ColQuery Opts)) := do
  let ps ← asNat (field kvs "pageSize")
  let bottom ← asOptInt (field kvs "bottom")
  let column ← asStr (field kvs "column")
  let pid ← asOptInt (field kvs "paginationID")
  let order ← asOrder (field kvs "order")
  let filters ← decodeOpts k (field kvs "filters")
  let reverse ← asBool (field kvs "reverse")
  match order with
  | .ok o => pure (.ok ⟨ps, bottom, column, pid, o, filters, reverse⟩)
  | .error n => pure (.error n)

def decodeOffFields (k : ExtraKind) (kvs : List (String × JVal)) : Except String (Except Int (OffQuery Opts)) := do
  let offset ← asNat (field kvs "offset")
  let order ← asOrder (field kvs "order")
  let ps ← asNat (field kvs "pageSize")
  let filters ← decodeOpts k (field kvs "filters")
  match order with
  | .ok o => pure (.ok ⟨offset, o, ps, filters⟩)
  | .error n => pure (.error n)

def toDec {α} : Except String (Except Int α) → Dec α
  | .ok (.ok a) => .ok a
  | .ok (.error n) => .oddOrder n
  | .error e => .refused e

/-- `UnmarshalCursor(token, &ColumnPaginatedQuery[PaginatedQueryOptions[T]])` on the JSON value of the token -/
def decodeCol (k : ExtraKind) (v : JVal) : Dec (ColQuery Opts) :=
  match v with
  | .null => .ok ⟨0, none, "", none, .asc, ⟨none, 0, zeroExtra k⟩, false⟩
  | .obj kvs => toDec (decodeColFields k kvs)
  | _ => .refused "cannot unmarshal into ColumnPaginatedQuery"

def decodeOff (k : ExtraKind) (v : JVal) : Dec (OffQuery Opts) :=
  match v with
  | .null => .ok ⟨0, .asc, 0, ⟨none, 0, zeroExtra k⟩⟩
  | .obj kvs => toDec (decodeOffFields k kvs)
  | _ => .refused "cannot unmarshal into OffsetPaginatedQuery"

def Dec.toOption {α} : Dec α → Option α
  | .ok a => some a
  | _ => none

/-- the trip of a query through a token: what `Iterate` / a client following `next` does between two pages -/
def xferCol (q : ColQuery Opts) : Option (ColQuery Opts) := (decodeCol q.filters.extra.kind (encodeCol q)).toOption
def xferOff (q : OffQuery Opts) : Option (OffQuery Opts) := (decodeOff q.filters.extra.kind (encodeOff q)).toOption

/-- the numbers of a query fit the Go types (`uint64`) -/
def fitsCol (q : ColQuery Opts) : Prop := q.pageSize ≤ uint64Max ∧ q.filters.pageSize ≤ uint64Max
def fitsOff (q : OffQuery Opts) : Prop :=
  q.pageSize ≤ uint64Max ∧ q.offset ≤ uint64Max ∧ q.filters.pageSize ≤ uint64Max

end Cursor
