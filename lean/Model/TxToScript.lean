import Model.Numscript.Spec
/-! A3 — postings → script: model of `ledger.TxToScriptData` (internal/numscript.go) and of
`Postings.Validate` (internal/posting.go).

The Go function walks the posting list once to number the variables

* account variables `va0, va1, …` in order of first appearance (source before destination inside one posting),
  `world` never becomes a variable;
* monetary variables `vm0, vm1, …`, one per distinct text `"[amount asset]"`, value text `"ASSET AMOUNT"`;

then prints `vars { … }` with the *names sorted as strings* (so `va10` comes before `va2`), then one `send` per
posting, and hands the values over in the variable map.  `txToScript` returns the script as an AST of
`Model.Numscript.Ast` (what the text parses to) and the variable map; `render` prints the AST in exactly the text
format of the Go code (compared character by character with the real output by the differential). -/
namespace Num
namespace Tx

def vaName (i : Nat) : String := "va" ++ toString i
def vmName (j : Nat) : String := "vm" ++ toString j

/-- the key of `monetaryToVars`: `fmt.Sprintf("[%s %s]", p.Amount.String(), p.Asset)` -/
def monKey (p : Posting) : String := "[" ++ toString p.amt ++ " " ++ p.asset ++ "]"
/-- the value handed over for a monetary variable: `fmt.Sprintf("%s %s", p.Asset, p.Amount.String())` -/
def monVal (p : Posting) : String := p.asset ++ " " ++ toString p.amt

/-- the two Go maps, as association lists in insertion order: the position of an entry is its variable number -/
structure Tables where
  accts : List String              -- addresses
  mons : List (String × String)    -- (key text, value text)
deriving Repr

def addAcct (as : List String) (a : String) : List String :=
  if a = "world" then as else if as.contains a then as else as ++ [a]

def addMon (ms : List (String × String)) (p : Posting) : List (String × String) :=
  if ms.any (fun m => m.1 = monKey p) then ms else ms ++ [(monKey p, monVal p)]

/-- the first loop of `TxToScriptData` -/
def collect : List Posting → Tables → Tables
  | [], t => t
  | p :: ps, t => collect ps ⟨addAcct (addAcct t.accts p.src) p.dst, addMon t.mons p⟩

def acctVar (as : List String) (a : String) : String := vaName (as.idxOf a)
def monVar (ms : List (String × String)) (p : Posting) : String := vmName (ms.findIdx (fun m => m.1 = monKey p))

/-- one `send $vmK ( source = … destination = … )` -/
def sendOf (t : Tables) (unbounded : Bool) (p : Posting) : Stmt :=
  .send (.mon (.var (monVar t.mons p)))
    (.src (if p.src = "world" then .acct (.acct "world") .none
           else .acct (.var (acctVar t.accts p.src)) (if unbounded then .unbounded else .none)))
    (.acct (if p.dst = "world" then .acct "world" else .var (acctVar t.accts p.dst)))

/-- `sort.Strings` -/
def sortNames (l : List String) : List String := l.mergeSort (fun a b => decide (a ≤ b))

def acctNames (t : Tables) : List String := (List.range t.accts.length).map vaName
def monNames (t : Tables) : List String := (List.range t.mons.length).map vmName

/-- the `vars { … }` block: account variables first, then monetary ones, each group sorted by name -/
def decls (t : Tables) : List VarDecl :=
  (sortNames (acctNames t)).map (fun n => ⟨.account, n, .none⟩) ++
  (sortNames (monNames t)).map (fun n => ⟨.monetary, n, .none⟩)

/-- pair every element with the name of its position, counting from `k` -/
def number {α} (f : Nat → String) : List α → Nat → List (String × α)
  | [], _ => []
  | x :: xs, k => (f k, x) :: number f xs (k + 1)

/-- `Script.Vars` (a Go map; here in variable order) -/
def varsMap (t : Tables) : List (String × String) :=
  number vaName t.accts 0 ++ number vmName (t.mons.map (·.2)) 0

def tables (ps : List Posting) : Tables := collect ps ⟨[], []⟩

/-- `TxToScriptData(TransactionData{Postings: ps}, unbounded)`: (script, vars) -/
def txToScript (ps : List Posting) (unbounded : Bool) : Script × List (String × String) :=
  (⟨decls (tables ps), ps.map (sendOf (tables ps) unbounded)⟩, varsMap (tables ps))

/-- `Postings.Validate` for one posting: amount not negative, both addresses match `ledger.AccountRegexp`,
the asset matches `ledger.AssetRegexp` -/
def validPosting (p : Posting) : Bool :=
  decide (0 ≤ p.amt) && validAccount p.src && validAccount p.dst && validAsset p.asset

/-! ### the text the Go code prints (for the fragment `txToScript` produces) -/

def renderAcctExpr : Expr → String
  | .acct a => "@" ++ a
  | .var n => "$" ++ n
  | _ => "?"

def renderStmt : Stmt → String
  | .send (.mon (.var m)) (.src (.acct e od)) (.acct d) =>
    "send $" ++ m ++ " (\n\tsource = " ++ renderAcctExpr e ++
      (match od with | .unbounded => " allowing unbounded overdraft" | _ => "") ++
      "\n\tdestination = " ++ renderAcctExpr d ++ "\n)\n"
  | _ => "?"

def renderDecl (d : VarDecl) : String :=
  (match d.ty with | .account => "\taccount $" | .monetary => "\tmonetary $" | _ => "\t? $") ++ d.name ++ "\n"

def render (s : Script) : String :=
  "vars {\n" ++ String.join (s.vars.map renderDecl) ++ "}\n" ++ String.join (s.stmts.map renderStmt)

/-! ### the request layer in front of it

`POST /v1/{ledger}/transactions` validates the postings (`Postings.Validate`) and answers 400 before anything
else happens; the v2 handler and the v2 bulk element do not: there the values travel in the variable map and
the machine's `SetVarsFromJSON` (same regular expressions, negative amounts refused) is what rejects them. -/

inductive Outcome where
  | committed (postings : List Posting) (metadata : List (String × String))
  | insufficient
  | rejected          -- validation / variable error: nothing is executed
deriving Repr

def ofRun : Except Err Result → Outcome
  | .ok r => .committed r.postings r.txMeta
  | .error .insufficient => .insufficient
  | .error _ => .rejected

/-- v2 and bulk: straight to the engine (`TransactionRequest.ToRunScript` takes the posting branch only for a
non-empty list; an empty one leaves an empty script, which the commander refuses) -/
def submitV2 (ps : List Posting) (md : List (String × String)) (store : Store) : Outcome :=
  if ps.isEmpty then .rejected else
  ofRun (run (txToScript ps false).1 ⟨(txToScript ps false).2, md⟩ store)

/-- v1: `Validate` first -/
def submitV1 (ps : List Posting) (md : List (String × String)) (store : Store) : Outcome :=
  if ps.all validPosting then submitV2 ps md store else .rejected

/-! ### replay of a posting list against a balance table (what C09's acceptance condition talks about) -/

def applyP (R : Acct → Asset → Int) (p : Posting) : Acct → Asset → Int :=
  fun a s => R a s - (if a = p.src ∧ s = p.asset then p.amt else 0) + (if a = p.dst ∧ s = p.asset then p.amt else 0)

/-- every posting, in order, finds its amount on its source (`world` has no floor; a zero amount needs nothing) -/
def covered (R : Acct → Asset → Int) : List Posting → Bool
  | [] => true
  | p :: ps => (p.src = "world" || p.amt = 0 || p.amt ≤ R p.src p.asset) && covered (applyP R p) ps

end Tx
end Num
