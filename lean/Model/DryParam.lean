/-! The preview flag of a request (C14, API layer): `getCommandParameters` of `api/v2/query.go` (`dryRun`) and
`api/v1/utils.go` (`preview`): upper-cased "YES" / "TRUE", or exactly "1". -/
namespace DryParam

def isPreview (v : String) : Bool := v.toUpper == "YES" || v.toUpper == "TRUE" || v == "1"

end DryParam
