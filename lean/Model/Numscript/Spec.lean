import Model.Numscript.Check
/-! A1 — `Spec`: the source-level meaning of a Numscript program, a plain recursive interpreter in the
funding-algebra vocabulary (withdraw what each source can give → assemble → take what is needed → repay the
rest; destinations consume a funding front to back; `kept` is handed back).  This is the definition of
"what the source text says" for C08, and the object C01/C03/C09 are proved about.  DESIGN.md appendix A. -/
namespace Num

/-- tracked balances of the execution (`Machine.Balances`): `none` = no entry.  (A structure rather than a bare
function so that compiled code builds each new table once instead of re-evaluating partial applications.) -/
structure Bal where
  get : Acct → Asset → Option Int

def Bal.upd (b : Bal) (a : Acct) (s : Asset) (v : Int) : Bal :=
  ⟨fun a' s' => if a' = a ∧ s' = s then some v else b.get a' s'⟩

structure Fund where
  asset : Asset
  parts : Parts
deriving Repr, Inhabited

abbrev VEnv := List (String × Val)

def lookupVar (env : VEnv) (n : String) : Option Val := (env.find? (·.1 = n)).map (·.2)

def evalExpr (env : VEnv) : Expr → Except Err Val
  | .acct a => .ok (.acct a)
  | .asset a => .ok (.asset a)
  | .num n => .ok (.num n)
  | .str s => .ok (.str s)
  | .portion r => .ok (.portion r)
  | .badPortion => .error .compile
  | .mon ae n =>
    match evalExpr env ae with
    | .ok (.asset a) => .ok (.mon a n)
    | .ok _ => .error .compile
    | .error e => .error e
  | .var n => match lookupVar env n with
    | some v => .ok v
    | none => .error .compile
  | .add l r =>
    match evalExpr env l with
    | .error e => .error e
    | .ok lv =>
      match evalExpr env r with
      | .error e => .error e
      | .ok rv =>
        match lv, rv with
        | .num a, .num b => .ok (.num (a + b))
        | .mon sa a, .mon sb b => if sa = sb then .ok (.mon sa (a + b)) else .error .invalidScript
        | _, _ => .error .compile
  | .sub l r =>
    match evalExpr env l with
    | .error e => .error e
    | .ok lv =>
      match evalExpr env r with
      | .error e => .error e
      | .ok rv =>
        match lv, rv with
        | .num a, .num b => .ok (.num (a - b))
        | .mon sa a, .mon sb b => if sa = sb then .ok (.mon sa (a - b)) else .error .runtimeOther
        | _, _ => .error .compile

def evalAcct (env : VEnv) (e : Expr) : Except Err Acct :=
  match evalExpr env e with
  | .ok (.acct a) => .ok a
  | .ok _ => .error .compile
  | .error e => .error e

def evalMon (env : VEnv) (e : Expr) : Except Err (Asset × Int) :=
  match evalExpr env e with
  | .ok (.mon a n) => .ok (a, n)
  | .ok _ => .error .compile
  | .error e => .error e

def evalAsset (env : VEnv) (e : Expr) : Except Err Asset :=
  match evalExpr env e with
  | .ok (.asset a) => .ok a
  | .ok _ => .error .compile
  | .error e => .error e

/-- the leftmost operand of a monetary expression (the resource whose asset names the send) -/
def leftOperand : Expr → Expr
  | .add l _ => leftOperand l
  | .sub l _ => leftOperand l
  | e => e

def leftAsset (env : VEnv) (e : Expr) : Except Err Asset :=
  match evalMon env (leftOperand e) with
  | .ok (a, _) => .ok a
  | .error e => .error e

/-! ### balance primitives (`withdrawAll`, `withdrawAlways`, `repay`, `credit` of `vm/machine.go`) -/

def withdrawAll (b : Bal) (a : Acct) (s : Asset) (o : Int) : Except Err (Part × Bal) :=
  match b.get a s with
  | none => .error .invalidScript
  | some t => if t + o > 0 then .ok (⟨a, t + o⟩, b.upd a s (-o)) else .ok (⟨a, 0⟩, b)

def withdrawAlways (b : Bal) (a : Acct) (s : Asset) (n : Int) : Except Err (Part × Bal) :=
  match b.get a s with
  | none => .error .invalidScript
  | some t => .ok (⟨a, n⟩, b.upd a s (t - n))

def repay (b : Bal) (s : Asset) : Parts → Bal
  | [] => b
  | p :: ps =>
    if p.acct = "world" then repay b s ps
    else repay (b.upd p.acct s ((b.get p.acct s).getD 0 + p.amt)) s ps

def credit (b : Bal) (d : Acct) (s : Asset) (f : Parts) : Bal :=
  if d = "world" then b else
  match b.get d s with
  | none => b
  | some t => b.upd d s (t + total f)

/-- `OP_FUNDING_ASSEMBLE`: all fundings must carry the asset of the last one; parts are concatenated left to
right starting from an empty funding -/
def assemble (fs : List Fund) : Except Err Fund :=
  match fs.getLast? with
  | none => .error .invalidScript
  | some l =>
    if fs.all (fun f => f.asset = l.asset) then .ok ⟨l.asset, fs.foldl (fun acc f => concat acc f.parts) []⟩
    else .error .invalidScript

/-! ### sources -/

mutual
/-- returns the funding the source can provide, its fallback account (unbounded / world) and the balances -/
def evalSource (env : VEnv) (asset : Asset) : Source → Bal → Except Err (Fund × Option Acct × Bal)
  | .acct e od, b =>
    match evalAcct env e with
    | .error er => .error er
    | .ok a =>
      let ov : Except Err (Asset × Int × Bool) := match od with
        | .none => .ok (asset, 0, false)
        | .upTo x => match evalMon env x with
          | .ok (xa, xn) => .ok (xa, xn, false)
          | .error er => .error er
        | .unbounded => .ok (asset, 0, true)
      match ov with
      | .error er => .error er
      | .ok (oa, o, unb) =>
        match withdrawAll b a oa o with
        | .error er => .error er
        | .ok (p, b') => .ok (⟨oa, [p]⟩, if isWorldLit e || unb then some a else none, b')
  | .maxed cap s, b =>
    match evalSource env asset s b with
    | .error er => .error er
    | .ok (f, fb, b1) =>
      match evalMon env cap with
      | .error er => .error er
      | .ok (ma, mn) =>
        if mn < 0 then .error .runtimeOther else
        if f.asset ≠ ma then .error .invalidScript else
        let missing : Int := if mn > total f.parts then mn - total f.parts else 0
        let tr := takeMax f.parts mn
        let b2 := repay b1 f.asset tr.2
        match fb with
        | none => .ok (⟨f.asset, tr.1⟩, none, b2)
        | some w =>
          match withdrawAlways b2 w ma missing with
          | .error er => .error er
          | .ok (p, b3) =>
            match assemble [⟨f.asset, tr.1⟩, ⟨ma, [p]⟩] with
            | .error er => .error er
            | .ok r => .ok (r, none, b3)
  | .inorder ss, b =>
    match evalSources env asset ss b with
    | .error er => .error er
    | .ok (fs, fb, b') =>
      match assemble fs with
      | .error er => .error er
      | .ok r => .ok (r, fb, b')
def evalSources (env : VEnv) (asset : Asset) : SourceList → Bal → Except Err (List Fund × Option Acct × Bal)
  | .nil, b => .ok ([], none, b)
  | .cons s rest, b =>
    match evalSource env asset s b with
    | .error er => .error er
    | .ok (f, fb, b1) =>
      match evalSources env asset rest b1 with
      | .error er => .error er
      | .ok (fs, fb', b2) => .ok (f :: fs, (match rest with | .nil => fb | .cons _ _ => fb'), b2)
end

/-- `TakeFromSource`: exactly `mn` out of `f` (bounded source) or as much as there is plus the rest from the
fallback account (unbounded source) -/
def takeFromSource (fb : Option Acct) (f : Fund) (ma : Asset) (mn : Int) (b : Bal) : Except Err (Fund × Bal) :=
  match fb with
  | none =>
    if f.asset ≠ ma then .error .invalidScript else
    match take f.parts mn with
    | none => .error .insufficient
    | some (taken, rest) => .ok (⟨f.asset, taken⟩, repay b f.asset rest)
  | some w =>
    if mn < 0 then .error .runtimeOther else
    if f.asset ≠ ma then .error .invalidScript else
    let missing : Int := if mn > total f.parts then mn - total f.parts else 0
    let tr := takeMax f.parts mn
    let b2 := repay b f.asset tr.2
    match withdrawAlways b2 w ma missing with
    | .error er => .error er
    | .ok (p, b3) =>
      match assemble [⟨f.asset, tr.1⟩, ⟨ma, [p]⟩] with
      | .error er => .error er
      | .ok r => .ok (r, b3)

/-! ### destinations -/

structure St where
  bal : Bal
  postings : List Posting

/-- `OP_SEND`: credit the destination, one posting per part -/
def emit (d : Acct) (f : Fund) (st : St) : St :=
  { bal := credit st.bal d f.asset f.parts,
    postings := st.postings ++ f.parts.map (fun p => ⟨p.acct, d, p.amt, f.asset⟩) }

def resolvePortions (env : VEnv) (ps : List PortionSpec) : Except Err (List Rat') :=
  let specs : Except Err (List (Option Rat')) := ps.mapM (fun p => match p with
    | .const r => .ok (some r)
    | .badConst => .error .compile
    | .var n => match lookupVar env n with
      | some (.portion r) => .ok (some r)
      | _ => .error .compile
    | .remaining => .ok none)
  match specs with
  | .error er => .error er
  | .ok sp => match newAllotment sp with
    | none => .error .invalidScript
    | some rs => .ok rs

mutual
/-- consumes `f`; returns what was *not* sent (kept parts), to be repaid by the caller -/
def evalDest (env : VEnv) : Dest → Fund → St → Except Err (Fund × St)
  | .acct e, f, st =>
    match take f.parts (total f.parts) with
    | none => .error .insufficient
    | some (taken, rest) =>
      match evalAcct env e with
      | .error er => .error er
      | .ok a => .ok (⟨f.asset, rest⟩, emit a ⟨f.asset, taken⟩ st)
  | .inorder caps rest, f, st =>
    match evalCaps env caps 0 f st with
    | .error er => .error er
    | .ok (kt, cur, st1) =>
      -- what is kept is taken from the BACK: the last sources keep their funds
      match take cur.parts.reverse kt with
      | none => .error .insufficient
      | some (tk, rest2) =>
        match evalKD env rest ⟨f.asset, rest2.reverse⟩ st1 with
        | .error er => .error er
        | .ok (r, st2) =>
          match assemble [r, ⟨f.asset, tk.reverse⟩] with
          | .error er => .error er
          | .ok res => .ok (res, st2)
  | .allot items, f, st =>
    match resolvePortions env (allotPortions items) with
    | .error er => .error er
    | .ok ps => evalAllot env items (allocate ps (total f.parts)) f st
def evalKD (env : VEnv) : KeptOrDest → Fund → St → Except Err (Fund × St)
  | .kept, f, st => .ok (f, st)
  | .to d, f, st => evalDest env d f st
def evalCaps (env : VEnv) : CapList → Int → Fund → St → Except Err (Int × Fund × St)
  | .nil, kt, cur, st => .ok (kt, cur, st)
  | .cons cap kd rest, kt, cur, st =>
    match evalMon env cap with
    | .error er => .error er
    | .ok (ma, mn) =>
      if mn < 0 then .error .runtimeOther else
      if cur.asset ≠ ma then .error .invalidScript else
      let tr := takeMax cur.parts mn
      match evalKD env kd ⟨cur.asset, tr.1⟩ st with
      | .error er => .error er
      | .ok (k, st1) =>
        if k.asset ≠ cur.asset then .error .invalidScript else
        match assemble [k, ⟨cur.asset, tr.2⟩] with
        | .error er => .error er
        | .ok cur' => evalCaps env rest (kt + total k.parts) cur' st1
def evalAllot (env : VEnv) : AllotList → List Int → Fund → St → Except Err (Fund × St)
  | .nil, _, cur, st => .ok (cur, st)
  | .cons _ kd rest, parts, cur, st =>
    match parts with
    | [] => .error .invalidScript
    | p :: ps =>
      match take cur.parts p with
      | none => .error .insufficient
      | some (taken, rem) =>
        match evalKD env kd ⟨cur.asset, taken⟩ st with
        | .error er => .error er
        | .ok (k, st1) =>
          match assemble [k, ⟨cur.asset, rem⟩] with
          | .error er => .error er
          | .ok cur' => evalAllot env rest ps cur' st1
end

/-! ### statements -/

structure Full where
  st : St
  txMeta : List (String × Val) := []
  acctMeta : List (Acct × String × Val) := []
  prints : List Val := []

/-- the sources of a source allotment, each taking its share -/
def evalAllotSources (env : VEnv) (asset ma : Asset) :
    List (PortionSpec × Source) → List Int → Bal → Except Err (List Fund × Bal)
  | [], _, b => .ok ([], b)
  | (_, s) :: rest, parts, b =>
    match parts with
    | [] => .error .invalidScript
    | p :: ps =>
      match evalSource env asset s b with
      | .error er => .error er
      | .ok (f, fb, b1) =>
        match takeFromSource fb f ma p b1 with
        | .error er => .error er
        | .ok (t, b2) =>
          match evalAllotSources env asset ma rest ps b2 with
          | .error er => .error er
          | .ok (ts, b3) => .ok (t :: ts, b3)

def finishSend (env : VEnv) (d : Dest) (f : Fund) (st : St) : Except Err St :=
  match evalDest env d f st with
  | .error er => .error er
  | .ok (rest, st') => .ok { st' with bal := repay st'.bal rest.asset rest.parts }

def evalSend (env : VEnv) (amt : SendAmt) (src : VSource) (d : Dest) (st : St) : Except Err St :=
  match amt, src with
  | .mon e, .src s =>
    match leftAsset env e with
    | .error er => .error er
    | .ok a =>
      match evalSource env a s st.bal with
      | .error er => .error er
      | .ok (f, fb, b1) =>
        match evalMon env e with
        | .error er => .error er
        | .ok (ma, mn) =>
          match takeFromSource fb f ma mn b1 with
          | .error er => .error er
          | .ok (taken, b2) => finishSend env d taken { st with bal := b2 }
  | .all ae, .src s =>
    match evalAsset env ae with
    | .error er => .error er
    | .ok a =>
      match evalSource env a s st.bal with
      | .error er => .error er
      | .ok (f, _, b1) => finishSend env d f { st with bal := b1 }
  | .mon e, .allot items =>
    match evalMon env e with
    | .error er => .error er
    | .ok (ma, mn) =>
      match leftAsset env e with
      | .error er => .error er
      | .ok a =>
        match resolvePortions env (items.map (·.1)) with
        | .error er => .error er
        | .ok ps =>
          match evalAllotSources env a ma items (allocate ps mn) st.bal with
          | .error er => .error er
          | .ok (ts, b1) =>
            match assemble ts with
            | .error er => .error er
            | .ok f => finishSend env d f { st with bal := b1 }
  | .all _, .allot _ => .error .compile

def setKey {α} (l : List (String × α)) (k : String) (v : α) : List (String × α) :=
  (l.filter (·.1 ≠ k)) ++ [(k, v)]

def evalStmt (env : VEnv) : Stmt → Full → Except Err Full
  | .send amt src d, F =>
    match evalSend env amt src d F.st with
    | .error er => .error er
    | .ok st => .ok { F with st := st }
  | .saveMon e acc, F =>
    match evalMon env e with
    | .error er => .error er
    | .ok (ma, mn) =>
      match evalAcct env acc with
      | .error er => .error er
      | .ok a =>
        if mn < 0 then .error .negativeBalance else
        match F.st.bal.get a ma with
        | none => .error .invalidScript
        | some t => .ok { F with st := { F.st with bal := F.st.bal.upd a ma (t - mn) } }
  | .saveAll ae acc, F =>
    match evalAsset env ae with
    | .error er => .error er
    | .ok s =>
      match evalAcct env acc with
      | .error er => .error er
      | .ok a =>
        match F.st.bal.get a s with
        | none => .error .invalidScript
        | some t => .ok { F with st := { F.st with bal := if t > 0 then F.st.bal.upd a s 0 else F.st.bal } }
  | .setTxMeta k v, F =>
    match evalExpr env v with
    | .error er => .error er
    | .ok x => .ok { F with txMeta := setKey F.txMeta k x }
  | .setAccountMeta acc k v, F =>
    match evalExpr env v with
    | .error er => .error er
    | .ok x =>
      match evalAcct env acc with
      | .error er => .error er
      | .ok a => .ok { F with acctMeta := (F.acctMeta.filter (fun m => ¬ (m.1 = a ∧ m.2.1 = k))) ++ [(a, k, x)] }
  | .print e, F =>
    match evalExpr env e with
    | .error er => .error er
    | .ok x => .ok { F with prints := F.prints ++ [x] }
  | .fail, _ => .error .scriptFailed

def evalStmts (env : VEnv) : List Stmt → Full → Except Err Full
  | [], F => .ok F
  | s :: ss, F =>
    match evalStmt env s F with
    | .error er => .error er
    | .ok F' => evalStmts env ss F'

/-! ### the whole pipeline: variables, resources, balances, execution, metadata merge -/

structure Store where
  balance : Acct → Asset → Int
  accountMeta : Acct → String → Option String

structure Request where
  vars : List (String × String)
  metadata : List (String × String)

/-- `SetVarsFromJSON`: plain variables from the caller's map, in declaration order; extraneous keys rejected -/
def bindPlain (decls : List VarDecl) (vars : List (String × String)) : Except Err VEnv :=
  let plain := decls.filter (fun d => match d.origin with | .none => true | _ => false)
  let step (acc : Except Err VEnv) (d : VarDecl) : Except Err VEnv :=
    match acc with
    | .error er => .error er
    | .ok env =>
      match (vars.find? (·.1 = d.name)).map (·.2) with
      | none => .error .invalidVars
      | some raw => match parseValue d.ty raw with
        | none => .error .invalidVars
        | some v => .ok (env ++ [(d.name, v)])
  match plain.foldl step (.ok []) with
  | .error er => .error er
  | .ok env => if vars.all (fun kv => plain.any (fun d => d.name = kv.1)) then .ok env else .error .invalidVars

/-- `ResolveResources`: declaration order; `meta(…)` reads the store now, `balance(…)` later -/
def resolveVars (store : Store) (plain : VEnv) : List VarDecl → VEnv → Except Err VEnv
  | [], env => .ok env
  | d :: ds, env =>
    match d.origin with
    | .none =>
      match lookupVar plain d.name with
      | some v => resolveVars store plain ds (env ++ [(d.name, v)])
      | none => .error .invalidVars
    | .metaOf acc key =>
      match evalAcct env acc with
      | .error er => .error er
      | .ok a =>
        match store.accountMeta a key with
        | none => .error .missingMeta
        | some raw => match parseValue d.ty raw with
          | none => .error .resolve
          | some v => resolveVars store plain ds (env ++ [(d.name, v)])
    | .balance acc ae =>
      match evalAcct env acc with
      | .error er => .error er
      | .ok a =>
        match evalAsset env ae with
        | .error er => .error er
        | .ok s => resolveVars store plain ds (env ++ [(d.name, .mon s (store.balance a s))])

/-- `ResolveBalances`, first half: a `balance(…)` variable must not be negative -/
def checkBalanceVars (env : VEnv) (decls : List VarDecl) : Except Err Unit :=
  if decls.all (fun d => match d.origin with
      | .balance _ _ => (match lookupVar env d.name with | some (.mon _ n) => decide (0 ≤ n) | _ => true)
      | _ => true)
  then .ok () else .error .negativeBalance

mutual
def sourceAccts (env : VEnv) : Source → List Acct
  | .acct e _ => match evalAcct env e with | .ok a => [a] | .error _ => []
  | .maxed _ s => sourceAccts env s
  | .inorder ss => sourcesAccts env ss
def sourcesAccts (env : VEnv) : SourceList → List Acct
  | .nil => []
  | .cons s rest => sourceAccts env s ++ sourcesAccts env rest
end

def vsourceAccts (env : VEnv) : VSource → List Acct
  | .src s => sourceAccts env s
  | .allot items => items.flatMap (fun it => sourceAccts env it.2)

/-- `Program.NeededBalances` resolved to values: (account, asset) pairs the execution tracks -/
def neededOf (env : VEnv) : Stmt → List (Acct × Asset)
  | .send (.mon e) src _ => match leftAsset env e with
    | .ok a => (vsourceAccts env src).map (fun x => (x, a))
    | .error _ => []
  | .send (.all ae) src _ => match evalAsset env ae with
    | .ok a => (vsourceAccts env src).map (fun x => (x, a))
    | .error _ => []
  | .saveMon e acc => match leftAsset env e, evalAcct env acc with
    | .ok s, .ok a => [(a, s)]
    | _, _ => []
  | .saveAll ae acc => match evalAsset env ae, evalAcct env acc with
    | .ok s, .ok a => [(a, s)]
    | _, _ => []
  | _ => []

def needed (env : VEnv) (stmts : List Stmt) : List (Acct × Asset) := stmts.flatMap (neededOf env)

def initBal (store : Store) (nd : List (Acct × Asset)) : Bal :=
  ⟨fun a s => if nd.contains (a, s) then some (if a = "world" then 0 else store.balance a s) else none⟩

/-! lock sets the engine must take (C02) -/
mutual
def exprLits : Expr → List Acct
  | .acct a => [a]
  | .mon ae _ => exprLits ae
  | .add l r => exprLits l ++ exprLits r
  | .sub l r => exprLits l ++ exprLits r
  | _ => []
end

mutual
def sourceLits : Source → List Acct
  | .acct e od => exprLits e ++ (match od with | .upTo x => exprLits x | _ => [])
  | .maxed cap s => sourceLits s ++ exprLits cap
  | .inorder ss => sourcesLits ss
def sourcesLits : SourceList → List Acct
  | .nil => []
  | .cons s rest => sourceLits s ++ sourcesLits rest
end

mutual
def destLits : Dest → List Acct
  | .acct e => exprLits e
  | .inorder caps rest => capsLits caps ++ kdLits rest
  | .allot items => allotLits items
def kdLits : KeptOrDest → List Acct
  | .kept => []
  | .to d => destLits d
def capsLits : CapList → List Acct
  | .nil => []
  | .cons cap kd rest => exprLits cap ++ kdLits kd ++ capsLits rest
def allotLits : AllotList → List Acct
  | .nil => []
  | .cons _ kd rest => kdLits kd ++ allotLits rest
end

def stmtLits : Stmt → List Acct
  | .send amt src d =>
    (match amt with | .mon e => exprLits e | .all ae => exprLits ae) ++
    (match src with | .src s => sourceLits s | .allot items => items.flatMap (fun it => sourceLits it.2)) ++ destLits d
  | .saveMon e acc => exprLits e ++ exprLits acc
  | .saveAll ae acc => exprLits ae ++ exprLits acc
  | .setTxMeta _ v => exprLits v
  | .setAccountMeta acc _ v => exprLits v ++ exprLits acc
  | .print e => exprLits e
  | .fail => []

def declLits (d : VarDecl) : List Acct :=
  match d.origin with
  | .none => []
  | .metaOf acc _ => exprLits acc
  | .balance acc ae => exprLits acc ++ exprLits ae

def dedupSorted (l : List String) : List String :=
  (l.foldl (fun acc x => if acc.contains x then acc else acc ++ [x]) []).mergeSort (· ≤ ·)

/-- accounts read: every account literal of the text and every account-typed variable, `world` apart -/
def lockRead (P : Script) (env : VEnv) : List Acct :=
  dedupSorted ((P.vars.flatMap declLits ++ P.stmts.flatMap stmtLits ++
    P.vars.filterMap (fun d => if d.ty = .account then (match lookupVar env d.name with | some (.acct a) => some a | _ => none) else none)
    ).filter (· ≠ "world"))

/-- accounts written: every account in source position, whatever its origin, `world` apart -/
def lockWrite (P : Script) (env : VEnv) : List Acct :=
  dedupSorted ((P.stmts.flatMap (fun s => match s with
    | .send _ src _ => vsourceAccts env src
    | _ => [])).filter (· ≠ "world"))

structure Result where
  postings : List Posting
  txMeta : List (String × String)
  acctMeta : List (Acct × String × String)
  prints : List Val
  lockRead : List Acct
  lockWrite : List Acct
  finalBal : List ((Acct × Asset) × Int)

/-- what a caller observes of a successful execution: the postings, the transaction and account metadata (as the
strings that are stored) and what was printed (as text).  C08 compares the compiled program with the source on
these. -/
structure Obs where
  postings : List Posting
  txMeta : List (String × String)
  acctMeta : List (Acct × String × String)
  prints : List String
deriving Repr, DecidableEq

def Result.obs (r : Result) : Obs := ⟨r.postings, r.txMeta, r.acctMeta, r.prints.map valToString⟩

/-- everything up to the point where the engine takes its locks (compile, variables, resources) -/
def prepare (P : Script) (req : Request) (store : Store) : Except Err VEnv :=
  if !check P then .error .compile else
  match bindPlain P.vars req.vars with
  | .error er => .error er
  | .ok plain => resolveVars store plain P.vars []

def run (P : Script) (req : Request) (store : Store) : Except Err Result :=
  match prepare P req store with
  | .error er => .error er
  | .ok env =>
    match checkBalanceVars env P.vars with
    | .error er => .error er
    | .ok _ =>
      let nd := needed env P.stmts
      match evalStmts env P.stmts { st := { bal := initBal store nd, postings := [] } } with
      | .error er => .error er
      | .ok F =>
        let tm := F.txMeta.map (fun kv => (kv.1, valToString kv.2))
        if req.metadata.any (fun kv => tm.any (fun t => t.1 = kv.1)) then .error .metaOverride else
        .ok { postings := F.st.postings,
              txMeta := tm ++ req.metadata,
              acctMeta := F.acctMeta.map (fun m => (m.1, m.2.1, valToString m.2.2)),
              prints := F.prints,
              lockRead := lockRead P env, lockWrite := lockWrite P env,
              finalBal := (dedupPairs nd).map (fun k => (k, (F.st.bal.get k.1 k.2).getD 0)) }
where
  dedupPairs (l : List (Acct × Asset)) : List (Acct × Asset) :=
    l.foldl (fun acc x => if acc.contains x then acc else acc ++ [x]) []

end Num
