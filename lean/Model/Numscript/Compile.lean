import Model.Numscript.Bytecode
import Model.Numscript.Check
/-! A2 — the single pass of the Numscript compiler (`script/compiler/{compiler,source,destination,allotment,
program}.go`), from the AST to `program.Program`: resource allocation with constant de-duplication, the
`APUSH`/`BUMP` choreography of every visitor, `neededBalances`, `sources`, and every static rejection.

Conventions.  The Go visitor appends to one instruction buffer; here every visitor *returns* the code it emits
(in emission order) next to the new compiler state, so "the code of a source" is a term theorems can talk about.
`VisitExpr(…, push=false)` allocates exactly like `push=true` and emits nothing: callers that pass `false` drop
the returned code.  Go maps used as sets (`neededAccounts`, `emptiedAccounts`, `sources`, the inner sets of
`neededBalances`) are duplicate-free lists in insertion order. -/
namespace Num

/-- why a compilation stops.  `static` = any `LogicError` of the visitor (typing and structural rules);
`tooManyResources` / `tooManyVars` = the two size limits; `nilAddr` = the visitor would dereference a nil
`*machine.Address` (a compile-time crash: `VisitExpr` returns a nil address for number arithmetic) —
`C12.compile_never_panics` shows it is unreachable. -/
inductive CompileErr | static | tooManyResources | tooManyVars | nilAddr
deriving Repr, DecidableEq, Inhabited

/-- the mutable fields of `parseVisitor` other than the instruction buffer -/
structure CState where
  resources : List Resource := []
  sources : List Addr := []
  varIdx : List (String × Addr) := []
  needed : List (Addr × List Addr) := []
deriving Repr, Inhabited

abbrev Code := List Instr

def isConstEq (v : BVal) : Resource → Bool
  | .const c => valueEquals c v
  | _ => false

/-- `findConstant`: the first constant resource equal (by `ValueEquals`) to the given value -/
def findConstant (rs : List Resource) (v : BVal) : Option Addr := rs.findIdx? (isConstEq v)

/-- the append half of `AllocateResource` -/
def appendResource (st : CState) (r : Resource) : Except CompileErr (Addr × CState) :=
  if st.resources.length ≥ 65536 then .error .tooManyResources
  else .ok (st.resources.length, { st with resources := st.resources ++ [r] })

/-- `AllocateResource` -/
def allocRes (st : CState) (r : Resource) : Except CompileErr (Addr × CState) :=
  match r with
  | .const v =>
    match findConstant st.resources v with
    | some a => .ok (a, st)
    | none => appendResource st r
  | _ => appendResource st r

/-- `isWorld` -/
def isWorldAddr (rs : List Resource) (a : Addr) : Bool :=
  match rs[a]? with
  | some (.const (.acct s)) => s == "world"
  | _ => false

def insertAddr (l : List Addr) (a : Addr) : List Addr := if l.contains a then l else l ++ [a]

def unionAddr (l : List Addr) (xs : List Addr) : List Addr := xs.foldl insertAddr l

/-- `neededBalances[acc][addr] = {}` -/
def setNeeded1 (nb : List (Addr × List Addr)) (acc addr : Addr) : List (Addr × List Addr) :=
  if nb.any (·.1 == acc) then nb.map (fun e => if e.1 == acc then (e.1, insertAddr e.2 addr) else e)
  else nb ++ [(acc, [addr])]

/-- `setNeededBalances` -/
def setNeeded (st : CState) (accounts : List Addr) (addr : Addr) : CState :=
  { st with needed := accounts.foldl (fun nb acc => setNeeded1 nb acc addr) st.needed }

/-- the straight-line pieces of the visitors: a plain opcode, `PushAddress`, `PushInteger` (allocates the
number as a constant), `Bump(n)` (= `PushInteger(n)` then `OP_BUMP`) -/
inductive Emit | op (i : Instr) | pushAddr (a : Addr) | pushInt (n : Int) | bump (n : Int)
deriving Repr

def emitSeq (st : CState) : List Emit → Except CompileErr (Code × CState)
  | [] => .ok ([], st)
  | .op i :: rest =>
    match emitSeq st rest with
    | .error e => .error e
    | .ok (c, st') => .ok (i :: c, st')
  | .pushAddr a :: rest =>
    match emitSeq st rest with
    | .error e => .error e
    | .ok (c, st') => .ok (.apush a :: c, st')
  | .pushInt n :: rest =>
    match allocRes st (.const (.num n)) with
    | .error e => .error e
    | .ok (a, st1) =>
      match emitSeq st1 rest with
      | .error e => .error e
      | .ok (c, st') => .ok (.apush a :: c, st')
  | .bump n :: rest =>
    match allocRes st (.const (.num n)) with
    | .error e => .error e
    | .ok (a, st1) =>
      match emitSeq st1 rest with
      | .error e => .error e
      | .ok (c, st') => .ok (.apush a :: .bump :: c, st')

/-- the result of `VisitExpr`/`VisitLit`/`VisitVariable`: type, address (nil for number arithmetic), the code
emitted when `push` is true, the new state -/
structure ExprOut where
  ty : BTy
  addr : Option Addr
  code : Code
  st : CState

def litOut (st : CState) (ty : BTy) (v : BVal) : Except CompileErr ExprOut :=
  match allocRes st (.const v) with
  | .error e => .error e
  | .ok (a, st') => .ok ⟨ty, some a, [.apush a], st'⟩

def isMonetaryRes (asset : Addr) (amt : Int) : Resource → Bool
  | .monetary a n => a == asset && n == amt
  | _ => false

/-- the scan of `LitMonetary` over the resources: the `break` only leaves the `switch`, so the LAST match wins -/
def findMonetary (rs : List Resource) (asset : Addr) (amt : Int) : Option Addr :=
  (rs.zipIdx.filter (fun p => isMonetaryRes asset amt p.1)).getLast?.map (·.2)

def visitExpr (st : CState) : Expr → Except CompileErr ExprOut
  | .acct a => litOut st .account (.acct a)
  | .asset a => litOut st .asset (.asset a)
  | .num n => litOut st .number (.num n)
  | .str s => litOut st .string (.str s)
  | .portion r => litOut st .portion (.portion r)
  | .badPortion => .error .static
  | .mon ae n =>
    match visitExpr st ae with
    | .error e => .error e
    | .ok o =>
      if o.ty ≠ .asset then .error .static else
      match o.addr with
      | none => .error .nilAddr
      | some aa =>
        match findMonetary o.st.resources aa n with
        | some m => .ok ⟨.monetary, some m, [.apush m], o.st⟩
        | none =>
          match allocRes o.st (.monetary aa n) with
          | .error e => .error e
          | .ok (m, st') => .ok ⟨.monetary, some m, [.apush m], st'⟩
  | .var n =>
    match (st.varIdx.find? (·.1 = n)).map (·.2) with
    | none => .error .static
    | some idx =>
      match st.resources[idx]? with
      | none => .error .nilAddr
      | some r => .ok ⟨r.bty, some idx, [.apush idx], st⟩
  | .add l r =>
    match visitExpr st l with
    | .error e => .error e
    | .ok lo =>
      if lo.ty = .number then
        match visitExpr lo.st r with
        | .error e => .error e
        | .ok ro => if ro.ty ≠ .number then .error .static else .ok ⟨.number, none, lo.code ++ ro.code ++ [.iadd], ro.st⟩
      else if lo.ty = .monetary then
        match visitExpr lo.st r with
        | .error e => .error e
        | .ok ro => if ro.ty ≠ .monetary then .error .static else .ok ⟨.monetary, lo.addr, lo.code ++ ro.code ++ [.monetaryAdd], ro.st⟩
      else .error .static
  | .sub l r =>
    match visitExpr st l with
    | .error e => .error e
    | .ok lo =>
      if lo.ty = .number then
        match visitExpr lo.st r with
        | .error e => .error e
        | .ok ro => if ro.ty ≠ .number then .error .static else .ok ⟨.number, none, lo.code ++ ro.code ++ [.isub], ro.st⟩
      else if lo.ty = .monetary then
        match visitExpr lo.st r with
        | .error e => .error e
        | .ok ro => if ro.ty ≠ .monetary then .error .static else .ok ⟨.monetary, lo.addr, lo.code ++ ro.code ++ [.monetarySub], ro.st⟩
      else .error .static

/-- `VisitExpr` followed by the caller's type test and the dereference of the returned address -/
def visitTyped (st : CState) (want : BTy) (e : Expr) : Except CompileErr (Addr × Code × CState) :=
  match visitExpr st e with
  | .error er => .error er
  | .ok o =>
    if o.ty ≠ want then .error .static else
    match o.addr with
    | none => .error .nilAddr
    | some a => .ok (a, o.code, o.st)

/-! ### sources (`source.go`) -/

/-- `TakeFromSource` -/
def takeFromSourceSeq : Option Addr → List Emit
  | none => [.op .take, .bump 1, .op .repay]
  | some fb => [.op .takeMax, .bump 1, .op .repay, .pushAddr fb, .bump 2, .op .takeAlways, .pushInt 2, .op .fundingAssemble]

/-- what `VisitSource` returns, plus code and state -/
structure SrcOut where
  needed : List Addr
  emptied : List Addr
  fallback : Option Addr
  code : Code
  st : CState

def SourceList.isNil : SourceList → Bool
  | .nil => true
  | .cons _ _ => false

def addSources (st : CState) (accts : List Addr) : CState := { st with sources := unionAddr st.sources accts }

mutual
def visitSource (st : CState) (pushAsset : Code) (isAll : Bool) : Source → Except CompileErr SrcOut
  | .acct e od =>
    match visitExpr st e with
    | .error er => .error er
    | .ok o =>
      if o.ty ≠ .account then .error .static else
      match o.addr with
      | none => .error .nilAddr
      | some a =>
        let w := isWorldAddr o.st.resources a
        let body : Except CompileErr (Code × CState × Option Addr) :=
          match od with
          | .none =>
            match emitSeq o.st [.pushInt 0, .op .monetaryNew, .op .takeAll] with
            | .error er => .error er
            | .ok (c, st1) => .ok (pushAsset ++ c, st1, if w then some a else none)
          | .upTo x =>
            if w then .error .static else
            match visitExpr o.st x with
            | .error er => .error er
            | .ok xo => if xo.ty ≠ .monetary then .error .static else .ok (xo.code ++ [.takeAll], xo.st, none)
          | .unbounded =>
            if w then .error .static else
            match emitSeq o.st [.pushInt 0, .op .monetaryNew, .op .takeAll] with
            | .error er => .error er
            | .ok (c, st1) => .ok (pushAsset ++ c, st1, some a)
        match body with
        | .error er => .error er
        | .ok (c, st1, fb) =>
          if fb.isSome && isAll then .error .static
          else .ok ⟨[a], [a], fb, o.code ++ c, addSources st1 [a]⟩
  | .maxed cap s =>
    match visitSource st pushAsset false s with
    | .error er => .error er
    | .ok so =>
      match visitExpr so.st cap with
      | .error er => .error er
      | .ok co =>
        if co.ty ≠ .monetary then .error .static else
        let tail : List Emit := match so.fallback with
          | some fb => [.op .takeMax, .bump 1, .op .repay, .pushAddr fb, .bump 2, .op .takeAlways, .pushInt 2, .op .fundingAssemble]
          | none => [.op .takeMax, .bump 1, .op .repay, .bump 1, .op .delete]
        match emitSeq co.st tail with
        | .error er => .error er
        | .ok (c, st1) => .ok ⟨so.needed, [], none, so.code ++ co.code ++ c, addSources st1 so.needed⟩
  | .inorder ss =>
    match visitSources st pushAsset isAll ss [] [] with
    | .error er => .error er
    | .ok (so, n) =>
      match emitSeq so.st [.pushInt n, .op .fundingAssemble] with
      | .error er => .error er
      | .ok (c, st1) => .ok ⟨so.needed, so.emptied, so.fallback, so.code ++ c, addSources st1 so.needed⟩
/-- the loop of `SrcInOrder`: accumulated needed / emptied accounts; returns also the number of sub-sources -/
def visitSources (st : CState) (pushAsset : Code) (isAll : Bool) :
    SourceList → List Addr → List Addr → Except CompileErr (SrcOut × Nat)
  | .nil, nd, em => .ok (⟨nd, em, none, [], st⟩, 0)
  | .cons s rest, nd, em =>
    match visitSource st pushAsset isAll s with
    | .error er => .error er
    | .ok so =>
      let last : Bool := rest.isNil
      if so.fallback.isSome && !last then .error .static else
      if so.emptied.any (fun k => em.contains k) then .error .static else
      match visitSources so.st pushAsset isAll rest (unionAddr nd so.needed) (em ++ so.emptied) with
      | .error er => .error er
      | .ok (ro, n) =>
        .ok (⟨ro.needed, ro.emptied, (if last then so.fallback else ro.fallback), so.code ++ ro.code, ro.st⟩, n + 1)
end

/-! ### allotments (`allotment.go`) -/

/-- the loop of `VisitAllotment` over the portions (the caller passes them REVERSED: the last portion is pushed
first); returns (code, state, saw a variable, saw `remaining`) -/
def visitPortions (st : CState) : List PortionSpec → Bool → Bool → Except CompileErr (Code × CState × Bool × Bool)
  | [], hv, hr => .ok ([], st, hv, hr)
  | p :: rest, hv, hr =>
    let one : Except CompileErr (Code × CState × Bool × Bool) :=
      match p with
      | .const r =>
        match allocRes st (.const (.portion r)) with
        | .error e => .error e
        | .ok (a, st1) => .ok ([.apush a], st1, hv, hr)
      | .badConst => .error .static
      | .var n =>
        match visitExpr st (.var n) with
        | .error e => .error e
        | .ok o => if o.ty ≠ .portion then .error .static else .ok (o.code, o.st, true, hr)
      | .remaining =>
        if hr then .error .static else
        match allocRes st (.const .remaining) with
        | .error e => .error e
        | .ok (a, st1) => .ok ([.apush a], st1, hv, true)
    match one with
    | .error e => .error e
    | .ok (c, st1, hv1, hr1) =>
      match visitPortions st1 rest hv1 hr1 with
      | .error e => .error e
      | .ok (c2, st2, hv2, hr2) => .ok (c ++ c2, st2, hv2, hr2)

def constPortions (ps : List PortionSpec) : List Rat' :=
  ps.filterMap (fun p => match p with | .const r => some r | _ => none)

/-- `VisitAllotment`.  The total of the constant portions is an exact rational; it is computed here over the
portions in written order (the Go loop adds them back to front — the same number). -/
def visitAllotment (st : CState) (ps : List PortionSpec) : Except CompileErr (Code × CState) :=
  match visitPortions st ps.reverse false false with
  | .error e => .error e
  | .ok (c, st1, hasVar, hasRem) =>
    let s := ratSum (constPortions ps)
    if s.1 > s.2 then .error .static
    else if s.1 < s.2 && !hasRem then .error .static
    else if s.1 = s.2 && hasVar then .error .static
    else if s.1 = s.2 && hasRem then .error .static
    else
      match emitSeq st1 [.pushInt ps.length, .op .makeAllotment] with
      | .error e => .error e
      | .ok (c2, st2) => .ok (c ++ c2, st2)

/-! ### destinations (`destination.go`) -/

mutual
/-- `VisitDestinationRecursive` -/
def visitDest (st : CState) : Dest → Except CompileErr (Code × CState)
  | .acct e =>
    match visitExpr st e with
    | .error er => .error er
    | .ok o => if o.ty ≠ .account then .error .static else .ok ([.fundingSum, .take] ++ o.code ++ [.send], o.st)
  | .inorder caps rest =>
    match emitSeq st [.op .fundingSum, .op .asset, .pushInt 0, .op .monetaryNew, .bump 1] with
    | .error er => .error er
    | .ok (c0, st0) =>
      match visitCaps st0 caps with
      | .error er => .error er
      | .ok (c1, st1) =>
        match emitSeq st1 [.op .fundingReverse, .bump 1, .op .take, .op .fundingReverse, .bump 1, .op .fundingReverse] with
        | .error er => .error er
        | .ok (c2, st2) =>
          match visitKD st2 rest with
          | .error er => .error er
          | .ok (c3, st3) =>
            match emitSeq st3 [.bump 1, .pushInt 2, .op .fundingAssemble] with
            | .error er => .error er
            | .ok (c4, st4) => .ok (c0 ++ c1 ++ c2 ++ c3 ++ c4, st4)
  | .allot items =>
    match visitAllotment st (allotPortions items) with
    | .error er => .error er
    | .ok (c1, st1) =>
      match emitSeq st1 [.bump (allotLen items)] with
      | .error er => .error er
      | .ok (c2, st2) =>
        match visitAllocDest st2 items with
        | .error er => .error er
        | .ok (c3, st3) => .ok ([.fundingSum] ++ c1 ++ [.alloc] ++ c2 ++ c3, st3)
/-- `VisitKeptOrDestination` -/
def visitKD (st : CState) : KeptOrDest → Except CompileErr (Code × CState)
  | .kept => .ok ([], st)
  | .to d => visitDest st d
/-- the `for i` loop of `DestInOrder` -/
def visitCaps (st : CState) : CapList → Except CompileErr (Code × CState)
  | .nil => .ok ([], st)
  | .cons cap kd rest =>
    match visitExpr st cap with
    | .error er => .error er
    | .ok o =>
      if o.ty ≠ .monetary then .error .static else
      match emitSeq o.st [.op .takeMax, .bump 2, .op .delete] with
      | .error er => .error er
      | .ok (c1, st1) =>
        match visitKD st1 kd with
        | .error er => .error er
        | .ok (c2, st2) =>
          match emitSeq st2 [.op .fundingSum, .bump 3, .op .monetaryAdd, .bump 1, .bump 2, .pushInt 2, .op .fundingAssemble] with
          | .error er => .error er
          | .ok (c3, st3) =>
            match visitCaps st3 rest with
            | .error er => .error er
            | .ok (c4, st4) => .ok (o.code ++ c1 ++ c2 ++ c3 ++ c4, st4)
/-- the loop of `VisitAllocDestination` -/
def visitAllocDest (st : CState) : AllotList → Except CompileErr (Code × CState)
  | .nil => .ok ([], st)
  | .cons _ kd rest =>
    match emitSeq st [.bump 1, .op .take] with
    | .error er => .error er
    | .ok (c1, st1) =>
      match visitKD st1 kd with
      | .error er => .error er
      | .ok (c2, st2) =>
        match emitSeq st2 [.bump 1, .pushInt 2, .op .fundingAssemble] with
        | .error er => .error er
        | .ok (c3, st3) =>
          match visitAllocDest st3 rest with
          | .error er => .error er
          | .ok (c4, st4) => .ok (c1 ++ c2 ++ c3 ++ c4, st4)
def allotLen : AllotList → Nat
  | .nil => 0
  | .cons _ _ rest => allotLen rest + 1
end

/-- `VisitDestination` -/
def visitDestination (st : CState) (d : Dest) : Except CompileErr (Code × CState) :=
  match visitDest st d with
  | .error er => .error er
  | .ok (c, st') => .ok (c ++ [.repay], st')

/-! ### statements (`compiler.go`) -/

/-- the loop over the sources of a source allotment in `VisitMonetary` (`i` = index of the source) -/
def visitAllotSources (st : CState) (pushAsset : Code) (monAddr : Addr) :
    List (PortionSpec × Source) → Nat → Except CompileErr (Code × CState)
  | [], _ => .ok ([], st)
  | (_, s) :: rest, i =>
    match visitSource st pushAsset false s with
    | .error er => .error er
    | .ok so =>
      match emitSeq (setNeeded so.st so.needed monAddr) (.bump (i + 1) :: takeFromSourceSeq so.fallback) with
      | .error er => .error er
      | .ok (c1, st1) =>
        match visitAllotSources st1 pushAsset monAddr rest (i + 1) with
        | .error er => .error er
        | .ok (c2, st2) => .ok (so.code ++ c1 ++ c2, st2)

/-- `VisitMonetary` / `VisitMonetaryAll` (the source half of `VisitSend`) -/
def visitSendSource (st : CState) : SendAmt → VSource → Except CompileErr (Code × CState)
  | .mon e, .src s =>
    match visitTyped st .monetary e with
    | .error er => .error er
    | .ok (m, _, st1) =>
      match visitSource st1 [.apush m, .asset] false s with
      | .error er => .error er
      | .ok so =>
        match visitExpr (setNeeded so.st so.needed m) e with
        | .error er => .error er
        | .ok eo =>
          match emitSeq eo.st (takeFromSourceSeq so.fallback) with
          | .error er => .error er
          | .ok (c, st2) => .ok (so.code ++ eo.code ++ c, st2)
  | .mon e, .allot items =>
    match visitTyped st .monetary e with
    | .error er => .error er
    | .ok (m, _, st1) =>
      match visitExpr st1 e with
      | .error er => .error er
      | .ok eo =>
        match visitAllotment eo.st (items.map (·.1)) with
        | .error er => .error er
        | .ok (c1, st2) =>
          match visitAllotSources st2 [.apush m, .asset] m items 0 with
          | .error er => .error er
          | .ok (c2, st3) =>
            match emitSeq st3 [.pushInt items.length, .op .fundingAssemble] with
            | .error er => .error er
            | .ok (c3, st4) => .ok (eo.code ++ c1 ++ [.alloc] ++ c2 ++ c3, st4)
  | .all ae, .src s =>
    match visitTyped st .asset ae with
    | .error er => .error er
    | .ok (a, _, st1) =>
      match visitSource st1 [.apush a] true s with
      | .error er => .error er
      | .ok so => .ok (so.code, setNeeded so.st so.needed a)
  | .all ae, .allot _ =>
    match visitTyped st .asset ae with
    | .error er => .error er
    | .ok _ => .error .static

def visitStmt (st : CState) : Stmt → Except CompileErr (Code × CState)
  | .send amt src d =>
    match visitSendSource st amt src with
    | .error er => .error er
    | .ok (c1, st1) =>
      match visitDestination st1 d with
      | .error er => .error er
      | .ok (c2, st2) => .ok (c1 ++ c2, st2)
  | .saveMon e acc =>
    match visitTyped st .monetary e with
    | .error er => .error er
    | .ok (m, c1, st1) =>
      match visitTyped st1 .account acc with
      | .error er => .error er
      | .ok (a, _, st2) => .ok (c1 ++ [.apush a, .save], setNeeded st2 [a] m)
  | .saveAll ae acc =>
    match visitTyped st .asset ae with
    | .error er => .error er
    | .ok (s, _, st1) =>
      match visitTyped st1 .account acc with
      | .error er => .error er
      | .ok (a, _, st2) => .ok ([.apush s, .apush a, .save], setNeeded st2 [a] s)
  | .setTxMeta key v =>
    match visitExpr st v with
    | .error er => .error er
    | .ok o =>
      match allocRes o.st (.const (.str key)) with
      | .error er => .error er
      | .ok (k, st1) => .ok (o.code ++ [.apush k, .txMeta], st1)
  | .setAccountMeta acc key v =>
    match visitExpr st v with
    | .error er => .error er
    | .ok o =>
      match allocRes o.st (.const (.str key)) with
      | .error er => .error er
      | .ok (k, st1) =>
        match visitTyped st1 .account acc with
        | .error er => .error er
        | .ok (a, _, st2) => .ok (o.code ++ [.apush k, .apush a, .accountMeta], st2)
  | .print e =>
    match visitExpr st e with
    | .error er => .error er
    | .ok o => .ok (o.code ++ [.print], o.st)
  | .fail => .ok ([.fail], st)

def visitStmts (st : CState) : List Stmt → Except CompileErr (Code × CState)
  | [] => .ok ([], st)
  | s :: rest =>
    match visitStmt st s with
    | .error er => .error er
    | .ok (c1, st1) =>
      match visitStmts st1 rest with
      | .error er => .error er
      | .ok (c2, st2) => .ok (c1 ++ c2, st2)

/-- one declaration of `VisitVars` -/
def visitVar (st : CState) (d : VarDecl) : Except CompileErr CState :=
  if st.varIdx.any (·.1 = d.name) then .error .static else
  let r : Except CompileErr (Addr × CState) :=
    match d.origin with
    | .none => allocRes st (.var d.ty d.name)
    | .metaOf acc key =>
      match visitTyped st .account acc with
      | .error er => .error er
      | .ok (a, _, st1) => allocRes st1 (.varMeta d.ty d.name a key)
    | .balance acc ae =>
      if d.ty ≠ .monetary then .error .static else
      match visitTyped st .account acc with
      | .error er => .error er
      | .ok (a, _, st1) =>
        match visitTyped st1 .asset ae with
        | .error er => .error er
        | .ok (s, _, st2) => allocRes st2 (.varBalance d.name a s)
  match r with
  | .error er => .error er
  | .ok (addr, st') => .ok { st' with varIdx := st'.varIdx ++ [(d.name, addr)] }

def visitVarList (st : CState) : List VarDecl → Except CompileErr CState
  | [] => .ok st
  | d :: ds =>
    match visitVar st d with
    | .error er => .error er
    | .ok st1 => visitVarList st1 ds

/-- `VisitVars` -/
def visitVars (st : CState) (ds : List VarDecl) : Except CompileErr CState :=
  if ds.length > 32768 then .error .tooManyVars else visitVarList st ds

def sortAddrs (l : List Addr) : List Addr := l.mergeSort (· ≤ ·)

/-- `VisitScript` + the assembly of the `Program` in `CompileFull` (after a successful parse) -/
def compile (P : Script) : Except CompileErr Program :=
  match visitVars {} P.vars with
  | .error er => .error er
  | .ok st0 =>
    match visitStmts st0 P.stmts with
    | .error er => .error er
    | .ok (code, st) => .ok { instrs := code, resources := st.resources, sources := sortAddrs st.sources, needed := st.needed }

end Num
