import Model.Numscript.Spec
/-! A1 front end — a model of the Numscript lexer and parser (`script/NumScript.g4`, as generated into
`script/parser/numscript_{lexer,parser}.go` and driven by `compiler.CompileFull`).

`lexAll`/`lex` : maximal munch over the 47 rules of the generated lexer, in ITS order: the four implicit literal
tokens of the parser rules first (`T__0 = '*'`, `T__1 = 'allowing overdraft up to'`, `T__2 = 'allowing unbounded
overdraft'`, `T__3 = ','`), then the named rules in file order.  The longest match wins, ties go to the earlier
rule (`100` is a NUMBER, `1/2` a PORTION, `2/USD` an ASSET).  WHITESPACE and the two comment rules are skipped.
A position where no rule matches is a lexer error; the Go front end reports it to the listener and the script is
rejected.

`parse` : recursive descent for the 20 parser rules.  ANTLR reports every mismatch to the listener (recovery by
token insertion/deletion still reports), and `CompileFull` rejects as soon as one error was reported, so the
accepted language is exactly the grammar's; that is what `parse` decides, and it builds the `Num.Script` the
rest of the model runs.

Everything works on `List Char` (the runes of the input: `antlr.NewInputStream` converts the Go string with
`[]rune(s)`, modelled by `decodeRunes`). -/
namespace Num.Syntax

/-- `chars! "abc"` = `['a', 'b', 'c']`, expanded when the file is elaborated, so that the kernel never has to
unfold a `String` literal (keeps `decide` on concrete texts cheap) -/
macro "chars! " s:str : term => do
  let cs := s.getString.toList.toArray.map (fun c => Lean.Syntax.mkCharLit c)
  `([$cs,*])

/-! ### tokens -/

/-- the 47 rules of the generated lexer, in its order -/
inductive Kind where
  | star | odUpTo | odUnbounded | comma                                   -- T__0 … T__3
  | newline | whitespace | mlComment | lineComment
  | kVars | kMeta | kSetTxMeta | kSetAccountMeta | kPrint | kFail | kSend | kSource | kFrom | kMax
  | kDestination | kTo | kAllocate
  | opAdd | opSub | lparen | rparen | lbrack | rbrack | lbrace | rbrace | eq
  | tyAccount | tyAsset | tyNumber | tyMonetary | tyPortion | tyString
  | string | portion | remaining | kept | balance | save | number | percent | variable | account | asset
deriving Repr, DecidableEq, Inhabited

structure Token where
  kind : Kind
  text : List Char
deriving Repr, DecidableEq, Inhabited

structure LexErr where
  /-- number of characters still unread at the position where no rule matches -/
  remaining : Nat
deriving Repr, DecidableEq

/-- `-> skip` rules -/
def Kind.skipped : Kind → Bool
  | .whitespace | .mlComment | .lineComment => true
  | _ => false

/-! ### character classes (all ASCII, as in the grammar) -/

def isNl (c : Char) : Bool := c == '\r' || c == '\n'
def isWs (c : Char) : Bool := c == ' ' || c == '\t'
def isWord (c : Char) : Bool := c.isAlphanum || c == '_'                   -- [a-zA-Z0-9_]
def isStrChar (c : Char) : Bool := c.isAlphanum || c == '_' || c == '-' || c == ' '   -- [a-zA-Z0-9_\- ]
def isVarHead (c : Char) : Bool := c.isLower || c == '_'                    -- [a-z_]
def isVarTail (c : Char) : Bool := c.isLower || c.isDigit || c == '_'       -- [a-z0-9_]
def isAssetChar (c : Char) : Bool := c.isUpper || c.isDigit || c == '/'     -- [A-Z/0-9]

/-- number of leading characters satisfying `p` -/
def span (p : Char → Bool) : List Char → Nat
  | [] => 0
  | c :: r => if p c then span p r + 1 else 0

/-! ### one matcher per rule: the length of the longest prefix the rule accepts (`0` = no match; no rule of
this grammar matches the empty string) -/

def lit (kw : List Char) (cs : List Char) : Nat := if kw.isPrefixOf cs then kw.length else 0

/-- number of `*/` occurrences -/
def closers : List Char → Nat
  | [] => 0
  | [_] => 0
  | c :: d :: r' => if c == '*' && d == '/' then closers r' + 1 else closers (d :: r')

/-- `MULTILINE_COMMENT: '/*' (MULTILINE_COMMENT|.)*? '*/'` after the opening `/*`, at nesting depth `d+1`;
returns the number of characters up to and including the `*/` that closes depth 1, `0` if there is none.
ANTLR's non-greedy loop ranks "leave the loop" over "nested comment" over "any character", and of all ways to
match it keeps the highest ranked one: a `*/` always closes the innermost open comment; a `/*` opens a nested
comment exactly when enough `*/` follow to close it and everything around it, otherwise its two characters are
ordinary. -/
def mlBody : Nat → List Char → Nat → Nat
  | _, [], _ => 0
  | _, [_], _ => 0
  | d, c :: c' :: r', n =>
    if c == '*' && c' == '/' then
      match d with
      | 0 => n + 2
      | d' + 1 => mlBody d' r' (n + 2)
    else if c == '/' && c' == '*' && closers r' ≥ d + 2 then mlBody (d + 1) r' (n + 2)
    else mlBody d (c' :: r') (n + 1)

def mlComment : List Char → Nat
  | '/' :: '*' :: r => mlBody 0 r 2
  | _ => 0

/-- `LINE_COMMENT: '//' .*? NEWLINE` — up to and including the first run of newline characters; without a
newline before the end of input the rule does not match -/
def lineComment : List Char → Nat
  | '/' :: '/' :: r =>
    let k := span (fun c => !isNl c) r
    let m := span isNl (r.drop k)
    if m = 0 then 0 else 2 + k + m
  | _ => 0

/-- `STRING: '"' [a-zA-Z0-9_\- ]* '"'` -/
def stringLit : List Char → Nat
  | '"' :: r =>
    let k := span isStrChar r
    match r.drop k with
    | '"' :: _ => k + 2
    | _ => 0
  | _ => 0

/-- `PORTION: [0-9]+ [ ]? '/' [ ]? [0-9]+ | [0-9]+ ('.' [0-9]+)? '%'` -/
def portionLit (cs : List Char) : Nat :=
  let d1 := span Char.isDigit cs
  if d1 = 0 then 0 else
  let r := cs.drop d1
  let sp (l : List Char) : Nat := match l with | ' ' :: _ => 1 | _ => 0
  let s1 := sp r
  match r.drop s1 with
  | '/' :: r2 =>
    let s2 := sp r2
    let d2 := span Char.isDigit (r2.drop s2)
    if d2 = 0 then 0 else d1 + s1 + 1 + s2 + d2
  | _ =>
    match r with
    | '%' :: _ => d1 + 1
    | '.' :: r2 =>
      let d2 := span Char.isDigit r2
      if d2 = 0 then 0 else
      match r2.drop d2 with
      | '%' :: _ => d1 + 1 + d2 + 1
      | _ => 0
    | _ => 0

/-- `VARIABLE_NAME: '$' [a-z_]+ [a-z0-9_]*` -/
def variableLit : List Char → Nat
  | '$' :: c :: r => if isVarHead c then 2 + span isVarTail r else 0
  | _ => 0

/-- `ACCOUNT: '@' [a-zA-Z0-9_]+ (('-'|':') [a-zA-Z0-9_]+)*`: `cur` characters read, `acc` = length of the
longest accepted prefix so far, `sep` = the last character read was a separator (or the `@`) -/
def acctScan : List Char → Bool → Nat → Nat → Nat
  | [], _, _, acc => acc
  | c :: r, sep, cur, acc =>
    if isWord c then acctScan r false (cur + 1) (cur + 1)
    else if (c == '-' || c == ':') && !sep then acctScan r true (cur + 1) acc
    else acc

def accountLit : List Char → Nat
  | '@' :: r => acctScan r true 1 0
  | _ => 0

/-- the rules in the order of the generated lexer -/
def rules : List (Kind × (List Char → Nat)) := [
  (.star, lit (chars! "*")), (.odUpTo, lit (chars! "allowing overdraft up to")), (.odUnbounded, lit (chars! "allowing unbounded overdraft")),
  (.comma, lit (chars! ",")),
  (.newline, span isNl), (.whitespace, span isWs), (.mlComment, mlComment), (.lineComment, lineComment),
  (.kVars, lit (chars! "vars")), (.kMeta, lit (chars! "meta")), (.kSetTxMeta, lit (chars! "set_tx_meta")), (.kSetAccountMeta, lit (chars! "set_account_meta")),
  (.kPrint, lit (chars! "print")), (.kFail, lit (chars! "fail")), (.kSend, lit (chars! "send")), (.kSource, lit (chars! "source")), (.kFrom, lit (chars! "from")),
  (.kMax, lit (chars! "max")), (.kDestination, lit (chars! "destination")), (.kTo, lit (chars! "to")), (.kAllocate, lit (chars! "allocate")),
  (.opAdd, lit (chars! "+")), (.opSub, lit (chars! "-")), (.lparen, lit (chars! "(")), (.rparen, lit (chars! ")")), (.lbrack, lit (chars! "[")), (.rbrack, lit (chars! "]")),
  (.lbrace, lit (chars! "{")), (.rbrace, lit (chars! "}")), (.eq, lit (chars! "=")),
  (.tyAccount, lit (chars! "account")), (.tyAsset, lit (chars! "asset")), (.tyNumber, lit (chars! "number")), (.tyMonetary, lit (chars! "monetary")),
  (.tyPortion, lit (chars! "portion")), (.tyString, lit (chars! "string")),
  (.string, stringLit), (.portion, portionLit), (.remaining, lit (chars! "remaining")), (.kept, lit (chars! "kept")),
  (.balance, lit (chars! "balance")), (.save, lit (chars! "save")), (.number, span Char.isDigit), (.percent, lit (chars! "%")),
  (.variable, variableLit), (.account, accountLit), (.asset, span isAssetChar)]

/-- longest match, earliest rule on ties; `(kind, 0)` = nothing matches -/
def best (cs : List Char) : List (Kind × (List Char → Nat)) → Kind × Nat → Kind × Nat
  | [], b => b
  | (k, f) :: rest, b => let n := f cs; if n > b.2 then best cs rest (k, n) else best cs rest b

def nextToken (cs : List Char) : Kind × Nat := best cs rules (.star, 0)

/-- all tokens, the skipped ones included; `fuel` bounds the number of tokens (every token is non-empty, so the
number of characters is enough) -/
def lexLoop : Nat → List Char → Except LexErr (List Token)
  | _, [] => .ok []
  | 0, cs => .error ⟨cs.length⟩
  | fuel + 1, cs =>
    let kn := nextToken cs
    if kn.2 = 0 then .error ⟨cs.length⟩ else
    match lexLoop fuel (cs.drop kn.2) with
    | .error e => .error e
    | .ok ts => .ok (⟨kn.1, cs.take kn.2⟩ :: ts)

def lexAll (cs : List Char) : Except LexErr (List Token) := lexLoop cs.length cs

/-- what the parser sees (default channel) -/
def lexChars (cs : List Char) : Except LexErr (List Token) :=
  match lexAll cs with
  | .error e => .error e
  | .ok ts => .ok (ts.filter (fun t => !t.kind.skipped))

def lex (s : String) : Except LexErr (List Token) := lexChars s.toList

/-! ### parser -/

structure ParseErr where
  /-- number of tokens still unread where the error was detected -/
  remaining : Nat
  expected : String
deriving Repr, DecidableEq

abbrev P (α : Type) := Except ParseErr (α × List Token)

def err {α} (ts : List Token) (what : String) : Except ParseErr α := .error ⟨ts.length, what⟩

/-- consume one token of kind `k` -/
def expect (k : Kind) (what : String) : List Token → Except ParseErr (List Token)
  | t :: ts => if t.kind = k then .ok ts else err (t :: ts) what
  | [] => err [] what

/-- consume one token of kind `k` and return its text -/
def expectText (k : Kind) (what : String) : List Token → P String
  | t :: ts => if t.kind = k then .ok (String.ofList t.text, ts) else err (t :: ts) what
  | [] => err [] what

def skipNewlines : List Token → List Token
  | t :: ts => if t.kind = .newline then skipNewlines ts else t :: ts
  | [] => []

def natOf (s : String) : Nat := s.toNat?.getD 0

def portionExpr (t : String) : Expr :=
  match parsePortion t with
  | some r => .portion r
  | none => .badPortion

def portionSpec (t : String) : PortionSpec :=
  match parsePortion t with
  | some r => .const r
  | none => .badConst

/-- STRING token text without its quotes (`strings.Trim(text, "\"")`; the body cannot contain a quote) -/
def unquote (s : String) : String := String.ofList ((s.toList.drop 1).dropLast)

mutual
/-- `expression: expression (+|-) expression | literal | variable` — left associative -/
def pExpr : Nat → List Token → P Expr
  | 0, ts => err ts "fuel"
  | f + 1, ts =>
    match pAtom f ts with
    | .error e => .error e
    | .ok (a, ts) => pExprTail f a ts
def pExprTail : Nat → Expr → List Token → P Expr
  | 0, _, ts => err ts "fuel"
  | f + 1, lhs, ts =>
    match ts with
    | t :: ts' =>
      if t.kind = .opAdd then
        match pAtom f ts' with
        | .error e => .error e
        | .ok (r, ts'') => pExprTail f (.add lhs r) ts''
      else if t.kind = .opSub then
        match pAtom f ts' with
        | .error e => .error e
        | .ok (r, ts'') => pExprTail f (.sub lhs r) ts''
      else .ok (lhs, ts)
    | [] => .ok (lhs, ts)
/-- `literal | variable`; `monetary: LBRACK expression NUMBER RBRACK` -/
def pAtom : Nat → List Token → P Expr
  | 0, ts => err ts "fuel"
  | f + 1, ts =>
    match ts with
    | [] => err ts "expression"
    | t :: ts' =>
      let s := String.ofList t.text
      match t.kind with
      | .account => .ok (.acct (s.drop 1).toString, ts')
      | .asset => .ok (.asset s, ts')
      | .number => .ok (.num (natOf s), ts')
      | .string => .ok (.str (unquote s), ts')
      | .portion => .ok (portionExpr s, ts')
      | .variable => .ok (.var (s.drop 1).toString, ts')
      | .lbrack =>
        match pExpr f ts' with
        | .error e => .error e
        | .ok (ae, ts2) =>
          match expectText .number "NUMBER" ts2 with
          | .error e => .error e
          | .ok (n, ts3) =>
            match expect .rbrack "']'" ts3 with
            | .error e => .error e
            | .ok ts4 => .ok (.mon ae (natOf n), ts4)
      | _ => err ts "expression"
end

/-- `mon=expression | monAll=monetaryAll` (head of `send` and `save`): both may start with `[ expression`, the
token after that expression decides -/
def pSendAmt (f : Nat) (ts : List Token) : P SendAmt :=
  match ts with
  | t :: ts' =>
    if t.kind = .lbrack then
      match pExpr f ts' with
      | .error e => .error e
      | .ok (ae, ts2) =>
        match ts2 with
        | t2 :: ts3 =>
          if t2.kind = .star then
            match expect .rbrack "']'" ts3 with
            | .error e => .error e
            | .ok ts4 => .ok (.all ae, ts4)
          else
            match pExpr f ts with
            | .error e => .error e
            | .ok (e, r) => .ok (.mon e, r)
        | [] => err ts2 "NUMBER or '*'"
    else
      match pExpr f ts with
      | .error e => .error e
      | .ok (e, r) => .ok (.mon e, r)
  | [] => err ts "expression"

def pPortionSpec : List Token → Option (PortionSpec × List Token)
  | t :: ts =>
    match t.kind with
    | .portion => some (portionSpec (String.ofList t.text), ts)
    | .variable => some (.var ((String.ofList t.text).drop 1).toString, ts)
    | .remaining => some (.remaining, ts)
    | _ => none
  | [] => none

mutual
/-- `source: sourceAccount | sourceMaxed | sourceInOrder` -/
def pSource : Nat → List Token → P Source
  | 0, ts => err ts "fuel"
  | f + 1, ts =>
    match ts with
    | [] => err ts "source"
    | t :: ts' =>
      if t.kind = .kMax then
        match pExpr f ts' with
        | .error e => .error e
        | .ok (cap, ts2) =>
          match expect .kFrom "'from'" ts2 with
          | .error e => .error e
          | .ok ts3 =>
            match pSource f ts3 with
            | .error e => .error e
            | .ok (s, ts4) => .ok (.maxed cap s, ts4)
      else if t.kind = .lbrace then
        match expect .newline "NEWLINE" ts' with
        | .error e => .error e
        | .ok ts2 =>
          match pSourceLines f ts2 with
          | .error e => .error e
          | .ok (ss, ts3) => .ok (.inorder ss, ts3)
      else
        match pExpr f ts with
        | .error e => .error e
        | .ok (acc, ts2) =>
          match ts2 with
          | t2 :: ts3 =>
            if t2.kind = .odUnbounded then .ok (.acct acc .unbounded, ts3)
            else if t2.kind = .odUpTo then
              match pExpr f ts3 with
              | .error e => .error e
              | .ok (x, ts4) => .ok (.acct acc (.upTo x), ts4)
            else .ok (.acct acc .none, ts2)
          | [] => .ok (.acct acc .none, ts2)
/-- `(source NEWLINE)+ RBRACE` -/
def pSourceLines : Nat → List Token → P SourceList
  | 0, ts => err ts "fuel"
  | f + 1, ts =>
    match pSource f ts with
    | .error e => .error e
    | .ok (s, ts2) =>
      match expect .newline "NEWLINE" ts2 with
      | .error e => .error e
      | .ok ts3 =>
        match ts3 with
        | t :: ts4 =>
          if t.kind = .rbrace then .ok (.cons s .nil, ts4)
          else
            match pSourceLines f ts3 with
            | .error e => .error e
            | .ok (rest, ts5) => .ok (.cons s rest, ts5)
        | [] => err ts3 "source or '}'"
end

/-- `(allotmentPortion FROM source NEWLINE)+ RBRACE` -/
def pAllotSourceLines : Nat → List Token → P (List (PortionSpec × Source))
  | 0, ts => err ts "fuel"
  | f + 1, ts =>
    match pPortionSpec ts with
    | none => err ts "portion"
    | some (p, ts1) =>
      match expect .kFrom "'from'" ts1 with
      | .error e => .error e
      | .ok ts2 =>
        match pSource f ts2 with
        | .error e => .error e
        | .ok (s, ts3) =>
          match expect .newline "NEWLINE" ts3 with
          | .error e => .error e
          | .ok ts4 =>
            match ts4 with
            | t :: ts5 =>
              if t.kind = .rbrace then .ok ([(p, s)], ts5)
              else
                match pAllotSourceLines f ts4 with
                | .error e => .error e
                | .ok (rest, ts6) => .ok ((p, s) :: rest, ts6)
            | [] => err ts4 "portion or '}'"

/-- `valueAwareSource: source | sourceAllotment`.  Both may start with `{ NEWLINE`; an allotment line starts
with `PORTION from`, `$var from` or `remaining`, and no source does. -/
def pVSource (f : Nat) (ts : List Token) : P VSource :=
  let allot : Bool := match ts with
    | t1 :: t2 :: t3 :: rest =>
      t1.kind = .lbrace && t2.kind = .newline &&
        (t3.kind = .remaining ||
          ((t3.kind = .portion || t3.kind = .variable) && (match rest with | t4 :: _ => t4.kind = .kFrom | [] => false)))
    | _ => false
  if allot then
    match pAllotSourceLines f (ts.drop 2) with
    | .error e => .error e
    | .ok (items, r) => .ok (.allot items, r)
  else
    match pSource f ts with
    | .error e => .error e
    | .ok (s, r) => .ok (.src s, r)

mutual
/-- `destination: expression | destinationInOrder | destinationAllotment`; after `{ NEWLINE` a `max` starts
an in-order block, anything else must be an allotment line -/
def pDest : Nat → List Token → P Dest
  | 0, ts => err ts "fuel"
  | f + 1, ts =>
    match ts with
    | [] => err ts "destination"
    | t :: ts' =>
      if t.kind = .lbrace then
        match expect .newline "NEWLINE" ts' with
        | .error e => .error e
        | .ok ts2 =>
          match ts2 with
          | t2 :: _ =>
            if t2.kind = .kMax then
              match pCapLines f ts2 with
              | .error e => .error e
              | .ok ((caps, rest), ts3) => .ok (.inorder caps rest, ts3)
            else
              match pAllotLines f ts2 with
              | .error e => .error e
              | .ok (items, ts3) => .ok (.allot items, ts3)
          | [] => err ts2 "'max' or portion"
      else
        match pExpr f ts with
        | .error e => .error e
        | .ok (e, r) => .ok (.acct e, r)
/-- `keptOrDestination: TO destination | KEPT` -/
def pKD : Nat → List Token → P KeptOrDest
  | 0, ts => err ts "fuel"
  | f + 1, ts =>
    match ts with
    | [] => err ts "'to' or 'kept'"
    | t :: ts' =>
      if t.kind = .kept then .ok (.kept, ts')
      else if t.kind = .kTo then
        match pDest f ts' with
        | .error e => .error e
        | .ok (d, r) => .ok (.to d, r)
      else err ts "'to' or 'kept'"
/-- `(MAX expression keptOrDestination NEWLINE)+ REMAINING keptOrDestination NEWLINE RBRACE` -/
def pCapLines : Nat → List Token → P (CapList × KeptOrDest)
  | 0, ts => err ts "fuel"
  | f + 1, ts =>
    match expect .kMax "'max'" ts with
    | .error e => .error e
    | .ok ts1 =>
      match pExpr f ts1 with
      | .error e => .error e
      | .ok (cap, ts2) =>
        match pKD f ts2 with
        | .error e => .error e
        | .ok (kd, ts3) =>
          match expect .newline "NEWLINE" ts3 with
          | .error e => .error e
          | .ok ts4 =>
            match ts4 with
            | t :: ts5 =>
              if t.kind = .remaining then
                match pKD f ts5 with
                | .error e => .error e
                | .ok (rest, ts6) =>
                  match expect .newline "NEWLINE" ts6 with
                  | .error e => .error e
                  | .ok ts7 =>
                    match expect .rbrace "'}'" ts7 with
                    | .error e => .error e
                    | .ok ts8 => .ok ((.cons cap kd .nil, rest), ts8)
              else
                match pCapLines f ts4 with
                | .error e => .error e
                | .ok ((caps, rest), ts6) => .ok ((.cons cap kd caps, rest), ts6)
            | [] => err ts4 "'max' or 'remaining'"
/-- `(allotmentPortion keptOrDestination NEWLINE)+ RBRACE` -/
def pAllotLines : Nat → List Token → P AllotList
  | 0, ts => err ts "fuel"
  | f + 1, ts =>
    match pPortionSpec ts with
    | none => err ts "portion"
    | some (p, ts1) =>
      match pKD f ts1 with
      | .error e => .error e
      | .ok (kd, ts2) =>
        match expect .newline "NEWLINE" ts2 with
        | .error e => .error e
        | .ok ts3 =>
          match ts3 with
          | t :: ts4 =>
            if t.kind = .rbrace then .ok (.cons p kd .nil, ts4)
            else
              match pAllotLines f ts3 with
              | .error e => .error e
              | .ok (rest, ts5) => .ok (.cons p kd rest, ts5)
          | [] => err ts3 "portion or '}'"
end

/-- `SOURCE '=' valueAwareSource` -/
def pSrcClause (f : Nat) (ts : List Token) : P VSource :=
  match expect .kSource "'source'" ts with
  | .error e => .error e
  | .ok ts1 =>
    match expect .eq "'='" ts1 with
    | .error e => .error e
    | .ok ts2 => pVSource f ts2

/-- `DESTINATION '=' destination` -/
def pDstClause (f : Nat) (ts : List Token) : P Dest :=
  match expect .kDestination "'destination'" ts with
  | .error e => .error e
  | .ok ts1 =>
    match expect .eq "'='" ts1 with
    | .error e => .error e
    | .ok ts2 => pDest f ts2

def pStmt (f : Nat) (ts : List Token) : P Stmt :=
  match ts with
  | [] => err ts "statement"
  | t :: ts' =>
    match t.kind with
    | .kFail => .ok (.fail, ts')
    | .kPrint =>
      match pExpr f ts' with
      | .error e => .error e
      | .ok (e, r) => .ok (.print e, r)
    | .save =>
      match pSendAmt f ts' with
      | .error e => .error e
      | .ok (amt, ts2) =>
        match expect .kFrom "'from'" ts2 with
        | .error e => .error e
        | .ok ts3 =>
          match pExpr f ts3 with
          | .error e => .error e
          | .ok (acc, r) =>
            match amt with
            | .mon e => .ok (.saveMon e acc, r)
            | .all ae => .ok (.saveAll ae acc, r)
    | .kSetTxMeta =>
      match expect .lparen "'('" ts' with
      | .error e => .error e
      | .ok ts1 =>
        match expectText .string "STRING" ts1 with
        | .error e => .error e
        | .ok (key, ts2) =>
          match expect .comma "','" ts2 with
          | .error e => .error e
          | .ok ts3 =>
            match pExpr f ts3 with
            | .error e => .error e
            | .ok (v, ts4) =>
              match expect .rparen "')'" ts4 with
              | .error e => .error e
              | .ok r => .ok (.setTxMeta (unquote key) v, r)
    | .kSetAccountMeta =>
      match expect .lparen "'('" ts' with
      | .error e => .error e
      | .ok ts1 =>
        match pExpr f ts1 with
        | .error e => .error e
        | .ok (acc, ts2) =>
          match expect .comma "','" ts2 with
          | .error e => .error e
          | .ok ts3 =>
            match expectText .string "STRING" ts3 with
            | .error e => .error e
            | .ok (key, ts4) =>
              match expect .comma "','" ts4 with
              | .error e => .error e
              | .ok ts5 =>
                match pExpr f ts5 with
                | .error e => .error e
                | .ok (v, ts6) =>
                  match expect .rparen "')'" ts6 with
                  | .error e => .error e
                  | .ok r => .ok (.setAccountMeta acc (unquote key) v, r)
    | .kSend =>
      match pSendAmt f ts' with
      | .error e => .error e
      | .ok (amt, ts1) =>
        match expect .lparen "'('" ts1 with
        | .error e => .error e
        | .ok ts2 =>
          match expect .newline "NEWLINE" ts2 with
          | .error e => .error e
          | .ok ts3 =>
            let destFirst : Bool := match ts3 with | t3 :: _ => t3.kind = .kDestination | [] => false
            let body : P (VSource × Dest) :=
              if destFirst then
                match pDstClause f ts3 with
                | .error e => .error e
                | .ok (d, ts4) =>
                  match expect .newline "NEWLINE" ts4 with
                  | .error e => .error e
                  | .ok ts5 =>
                    match pSrcClause f ts5 with
                    | .error e => .error e
                    | .ok (s, r) => .ok ((s, d), r)
              else
                match pSrcClause f ts3 with
                | .error e => .error e
                | .ok (s, ts4) =>
                  match expect .newline "NEWLINE" ts4 with
                  | .error e => .error e
                  | .ok ts5 =>
                    match pDstClause f ts5 with
                    | .error e => .error e
                    | .ok (d, r) => .ok ((s, d), r)
            match body with
            | .error e => .error e
            | .ok ((s, d), ts6) =>
              match expect .newline "NEWLINE" ts6 with
              | .error e => .error e
              | .ok ts7 =>
                match expect .rparen "')'" ts7 with
                | .error e => .error e
                | .ok r => .ok (.send amt s d, r)
    | _ => err ts "statement"

def pType : List Token → P Ty
  | t :: ts =>
    match t.kind with
    | .tyAccount => .ok (.account, ts) | .tyAsset => .ok (.asset, ts) | .tyNumber => .ok (.number, ts)
    | .tyString => .ok (.string, ts) | .tyMonetary => .ok (.monetary, ts) | .tyPortion => .ok (.portion, ts)
    | _ => err (t :: ts) "type"
  | [] => err [] "type"

/-- `origin: META '(' expression ',' STRING ')' | BALANCE '(' expression ',' expression ')'` -/
def pOrigin (f : Nat) (ts : List Token) : P Origin :=
  match ts with
  | t :: ts' =>
    if t.kind = .kMeta then
      match expect .lparen "'('" ts' with
      | .error e => .error e
      | .ok ts1 =>
        match pExpr f ts1 with
        | .error e => .error e
        | .ok (acc, ts2) =>
          match expect .comma "','" ts2 with
          | .error e => .error e
          | .ok ts3 =>
            match expectText .string "STRING" ts3 with
            | .error e => .error e
            | .ok (key, ts4) =>
              match expect .rparen "')'" ts4 with
              | .error e => .error e
              | .ok r => .ok (.metaOf acc (unquote key), r)
    else if t.kind = .balance then
      match expect .lparen "'('" ts' with
      | .error e => .error e
      | .ok ts1 =>
        match pExpr f ts1 with
        | .error e => .error e
        | .ok (acc, ts2) =>
          match expect .comma "','" ts2 with
          | .error e => .error e
          | .ok ts3 =>
            match pExpr f ts3 with
            | .error e => .error e
            | .ok (ae, ts4) =>
              match expect .rparen "')'" ts4 with
              | .error e => .error e
              | .ok r => .ok (.balance acc ae, r)
    else err ts "'meta' or 'balance'"
  | [] => err ts "'meta' or 'balance'"

/-- `varDecl: type_ variable (EQ origin)?` -/
def pVarDecl (f : Nat) (ts : List Token) : P VarDecl :=
  match pType ts with
  | .error e => .error e
  | .ok (ty, ts1) =>
    match expectText .variable "variable" ts1 with
    | .error e => .error e
    | .ok (name, ts2) =>
      let nm := (name.drop 1).toString
      match ts2 with
      | t :: ts3 =>
        if t.kind = .eq then
          match pOrigin f ts3 with
          | .error e => .error e
          | .ok (o, r) => .ok (⟨ty, nm, o⟩, r)
        else .ok (⟨ty, nm, .none⟩, ts2)
      | [] => .ok (⟨ty, nm, .none⟩, ts2)

/-- `(varDecl NEWLINE+)+ RBRACE` -/
def pVarLines : Nat → List Token → P (List VarDecl)
  | 0, ts => err ts "fuel"
  | f + 1, ts =>
    match pVarDecl f ts with
    | .error e => .error e
    | .ok (d, ts1) =>
      match expect .newline "NEWLINE" ts1 with
      | .error e => .error e
      | .ok ts2 =>
        match skipNewlines ts2 with
        | t :: ts3 =>
          if t.kind = .rbrace then .ok ([d], ts3)
          else
            match pVarLines f (t :: ts3) with
            | .error e => .error e
            | .ok (rest, r) => .ok (d :: rest, r)
        | [] => err [] "type or '}'"

/-- `(NEWLINE statement)* NEWLINE* EOF` -/
def pStmtsTail : Nat → List Token → Except ParseErr (List Stmt)
  | 0, ts => err ts "fuel"
  | f + 1, ts =>
    match ts with
    | [] => .ok []
    | t :: ts' =>
      if t.kind = .newline then
        match ts' with
        | [] => .ok []
        | t2 :: _ =>
          if t2.kind = .newline then
            (match skipNewlines ts' with
             | [] => .ok []
             | r => err r "end of input")
          else
            match pStmt f ts' with
            | .error e => .error e
            | .ok (s, r) =>
              match pStmtsTail f r with
              | .error e => .error e
              | .ok ss => .ok (s :: ss)
      else err ts "NEWLINE or end of input"

/-- `script: NEWLINE* varListDecl? statement (NEWLINE statement)* NEWLINE* EOF` with
`varListDecl: VARS LBRACE NEWLINE (varDecl NEWLINE+)+ RBRACE NEWLINE` -/
def pScript (f : Nat) (ts : List Token) : Except ParseErr Script :=
  let ts0 := skipNewlines ts
  let vars : P (List VarDecl) :=
    match ts0 with
    | t :: ts1 =>
      if t.kind = .kVars then
        match expect .lbrace "'{'" ts1 with
        | .error e => .error e
        | .ok ts2 =>
          match expect .newline "NEWLINE" ts2 with
          | .error e => .error e
          | .ok ts3 =>
            match pVarLines f ts3 with
            | .error e => .error e
            | .ok (ds, ts4) =>
              match expect .newline "NEWLINE" ts4 with
              | .error e => .error e
              | .ok r => .ok (ds, r)
      else .ok ([], ts0)
    | [] => .ok ([], ts0)
  match vars with
  | .error e => .error e
  | .ok (ds, ts5) =>
    match pStmt f ts5 with
    | .error e => .error e
    | .ok (s, ts6) =>
      match pStmtsTail f ts6 with
      | .error e => .error e
      | .ok ss => .ok ⟨ds, s :: ss⟩

/-- every call of the descent passes `fuel - 1` down, and between two consumed tokens there are at most six
nested calls, so this bound is never reached (the differential would show a rejection otherwise) -/
def parseFuel (ts : List Token) : Nat := 8 * ts.length + 32

def parse (ts : List Token) : Except ParseErr Script := pScript (parseFuel ts) ts

/-! ### from bytes / text to an outcome -/

/-- `[]rune(s)` of Go: UTF-8 decoding where every byte that does not start a well-formed sequence becomes
U+FFFD on its own -/
def decodeRunes : List UInt8 → List Char
  | [] => []
  | b0 :: r =>
    let cont (b : UInt8) : Bool := 0x80 ≤ b && b ≤ 0xBF
    let bad : List Char := Char.ofNat 0xFFFD :: decodeRunes r
    if b0 < 0x80 then Char.ofNat b0.toNat :: decodeRunes r
    else match r with
      | [] => bad
      | b1 :: r1 =>
        if 0xC2 ≤ b0 && b0 ≤ 0xDF then
          if cont b1 then Char.ofNat ((b0.toNat - 0xC0) * 64 + (b1.toNat - 0x80)) :: decodeRunes r1 else bad
        else match r1 with
          | [] => bad
          | b2 :: r2 =>
            if 0xE0 ≤ b0 && b0 ≤ 0xEF then
              let lo : UInt8 := if b0 == 0xE0 then 0xA0 else 0x80
              let hi : UInt8 := if b0 == 0xED then 0x9F else 0xBF
              if lo ≤ b1 && b1 ≤ hi && cont b2 then
                Char.ofNat ((b0.toNat - 0xE0) * 4096 + (b1.toNat - 0x80) * 64 + (b2.toNat - 0x80)) :: decodeRunes r2
              else bad
            else match r2 with
              | [] => bad
              | b3 :: r3 =>
                if 0xF0 ≤ b0 && b0 ≤ 0xF4 then
                  let lo : UInt8 := if b0 == 0xF0 then 0x90 else 0x80
                  let hi : UInt8 := if b0 == 0xF4 then 0x8F else 0xBF
                  if lo ≤ b1 && b1 ≤ hi && cont b2 && cont b3 then
                    Char.ofNat ((b0.toNat - 0xF0) * 262144 + (b1.toNat - 0x80) * 4096 + (b2.toNat - 0x80) * 64 + (b3.toNat - 0x80))
                      :: decodeRunes r3
                  else bad
                else bad

/-- the front end on the runes of the input: `none` = rejected (lexer or parser error) -/
def frontChars (cs : List Char) : Option Script :=
  match lexChars cs with
  | .error _ => none
  | .ok ts =>
    match parse ts with
    | .error _ => none
    | .ok P => some P

def front (s : String) : Option Script := frontChars s.toList

end Num.Syntax

namespace Num

/-- the whole pipeline on the runes of a script -/
def runChars (cs : List Char) (req : Request) (store : Store) : Except Err Result :=
  match Syntax.frontChars cs with
  | none => .error .compile
  | some P => run P req store

/-- **the whole pipeline on a script text**: lex, parse (any failure is a compile error), then `Spec.run` -/
def runText (t : String) (req : Request) (store : Store) : Except Err Result := runChars t.toList req store

/-- … and on an arbitrary byte string, as the Go code receives it -/
def runBytes (bs : List UInt8) (req : Request) (store : Store) : Except Err Result :=
  runChars (Syntax.decodeRunes bs) req store

end Num
