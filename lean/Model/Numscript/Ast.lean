import Model.Numscript.Funding
/-! A1 — abstract syntax of Numscript (`script/NumScript.g4`), values, error classes. -/
namespace Num

inductive Ty | account | asset | number | string | monetary | portion
deriving Repr, DecidableEq, Inhabited

inductive Expr where
  | acct (a : String) | asset (a : String) | num (n : Nat) | str (s : String)
  | portion (r : Rat')            -- a PORTION literal, already parsed (`none` of the parser = out of [0,1])
  | badPortion                    -- a PORTION literal the compiler rejects (value > 100%)
  | mon (asset : Expr) (amt : Nat)
  | var (name : String)
  | add (l r : Expr) | sub (l r : Expr)
deriving Repr, Inhabited

inductive Overdraft where
  | none | upTo (e : Expr) | unbounded
deriving Repr, Inhabited

mutual
inductive Source where
  | acct (e : Expr) (od : Overdraft)
  | maxed (cap : Expr) (s : Source)
  | inorder (ss : SourceList)
deriving Repr
inductive SourceList where
  | nil | cons (s : Source) (ss : SourceList)
deriving Repr
end

inductive PortionSpec where
  | const (r : Rat') | badConst | var (name : String) | remaining
deriving Repr, Inhabited

inductive VSource where
  | src (s : Source)
  | allot (items : List (PortionSpec × Source))
deriving Repr

mutual
inductive Dest where
  | acct (e : Expr)
  | inorder (caps : CapList) (rest : KeptOrDest)
  | allot (items : AllotList)
deriving Repr
inductive KeptOrDest where
  | kept | to (d : Dest)
deriving Repr
inductive CapList where
  | nil | cons (cap : Expr) (kd : KeptOrDest) (rest : CapList)
deriving Repr
inductive AllotList where
  | nil | cons (p : PortionSpec) (kd : KeptOrDest) (rest : AllotList)
deriving Repr
end

inductive SendAmt where
  | mon (e : Expr) | all (asset : Expr)
deriving Repr

inductive Stmt where
  | send (amt : SendAmt) (src : VSource) (dst : Dest)
  | saveMon (e : Expr) (acc : Expr)
  | saveAll (asset : Expr) (acc : Expr)
  | setTxMeta (key : String) (v : Expr)
  | setAccountMeta (acc : Expr) (key : String) (v : Expr)
  | print (e : Expr)
  | fail
deriving Repr

inductive Origin where
  | none
  | metaOf (acc : Expr) (key : String)
  | balance (acc : Expr) (asset : Expr)
deriving Repr

structure VarDecl where
  ty : Ty
  name : String
  origin : Origin
deriving Repr

structure Script where
  vars : List VarDecl
  stmts : List Stmt
deriving Repr

/-- error classes (what a caller can tell apart) -/
inductive Err where
  | compile            -- rejected by the language (syntax is the parser's business; this is typing & static rules)
  | invalidVars        -- variable map does not fit the declarations
  | missingMeta        -- `meta(a, k)`: key absent
  | resolve            -- `meta(a, k)`: stored value ill-formed for the declared type
  | negativeBalance    -- `balance(a, A)` is negative / negative amount where the language forbids it
  | insufficient       -- sources cannot cover a send
  | invalidScript      -- asset mismatch, runtime allotment over 100 %, missing balance entry
  | runtimeOther       -- negative cap etc.
  | scriptFailed       -- `fail`
  | metaOverride       -- request metadata collides with `set_tx_meta`
deriving Repr, DecidableEq, Inhabited

def Err.toString : Err → String
  | .compile => "compile_error" | .invalidVars => "invalid_vars" | .missingMeta => "missing_metadata"
  | .resolve => "resolve_error" | .negativeBalance => "negative_amount" | .insufficient => "insufficient_funds"
  | .invalidScript => "invalid_script" | .runtimeOther => "runtime_other" | .scriptFailed => "script_failed"
  | .metaOverride => "metadata_override"

inductive Val where
  | acct (a : String) | asset (a : String) | num (n : Int) | str (s : String)
  | mon (asset : String) (amt : Int) | portion (r : Rat')
deriving Repr, Inhabited, DecidableEq

def Val.ty : Val → Ty
  | .acct _ => .account | .asset _ => .asset | .num _ => .number | .str _ => .string
  | .mon _ _ => .monetary | .portion _ => .portion

structure Posting where
  src : String
  dst : String
  amt : Int
  asset : String
deriving Repr, DecidableEq, Inhabited

end Num
