import Model.Numscript.Compile
import Model.Numscript.Spec
/-! A2 — the stack machine (`vm/machine.go`, `vm/stack.go`, `vm/run.go`) on decoded instructions.

**Every Go panic site is an explicit outcome** (`Outcome.panic kind`), so "never panics" is a statement about
this model and not an artefact of totalisation:
typed pop of the wrong type, pop on an empty stack, `Stack[idx]` out of range in `OP_BUMP`, a write through a
missing inner balance map (`OP_SAVE`, `repay`), a nil `Amount`, `OP_SAVE` on a value that is neither asset nor
monetary, "stack not empty after execution", an unsupported value in `GetTxMetaJSON`/`GetAccountsMetaJSON`, the
type assertions and nil dereferences of `ResolveResources`/`ResolveBalances`, `Instructions[0]` of an empty
program.

There are no jumps: `exec` recurses structurally on the remaining instruction list, one `step` per instruction.

Deliberate over-approximation (the sound direction for `vm_never_panics`): a `Monetary` with a nil `Amount`
(`monNil`) makes every instruction that pops it *as a monetary* panic with `nilAmount`, although Go's
`MonetaryInt.Add/Sub` tolerate nil.  Such a value only exists between `ResolveResources` and `ResolveBalances`.
`(*big.Int).Uint64()` of the operand of `BUMP`/`FUNDING_ASSEMBLE`/`MAKE_ALLOTMENT` is `|n| mod 2^64`; the
conversion to `int` is the identity because a Go slice is shorter than 2^63. -/
namespace Num
namespace VM

inductive PanicKind where
  | popEmpty                -- `popValue` on an empty stack
  | popType (want : BTy)    -- `pop[T]`: "unexpected type on stack"
  | nilAmount               -- a nil `*MonetaryInt` is dereferenced
  | bumpRange               -- `OP_BUMP`: `m.Stack[idx]` out of range
  | nilMap                  -- `OP_SAVE` / `repay`: `m.Balances[a]` is missing (nil inner map)
  | saveType                -- `OP_SAVE`: "invalid value type"
  | stackNotEmpty           -- `Execute`: "stack not empty after execution"
  | metaType                -- `GetTxMetaJSON` / `GetAccountsMetaJSON`: "invalid type"
  | emptyProgram            -- `tick`: `Instructions[0]` of an empty program
  | resolveNil              -- `ResolveResources`: nil `*Value` dereferenced (address not yet resolved)
  | resolveType (want : BTy) -- `ResolveResources` / `ResolveBalances`: failed type assertion
deriving Repr, DecidableEq, Inhabited

inductive Outcome (α : Type) where
  | ok (a : α)
  | error (e : Err)
  | panic (k : PanicKind)
deriving Repr, Inhabited

def Outcome.isPanic {α} : Outcome α → Bool
  | .panic _ => true
  | _ => false

def Outcome.ofExcept {α} : Except Err α → Outcome α
  | .ok a => .ok a
  | .error e => .error e

def Outcome.map {α β} (f : α → β) : Outcome α → Outcome β
  | .ok a => .ok (f a)
  | .error e => .error e
  | .panic k => .panic k

/-- `Machine.Balances`: outer map (accounts), inner maps (assets; `keys` only enumerates them), the amounts -/
structure Balances where
  accts : List Acct
  keys : List (Acct × Asset)
  bal : Bal

def Balances.hasAcct (b : Balances) (a : Acct) : Bool := b.accts.contains a

/-- `m.Balances[a][s] = v` on an existing inner map -/
def Balances.set (b : Balances) (a : Acct) (s : Asset) (v : Int) : Balances :=
  { b with bal := b.bal.upd a s v, keys := if b.keys.contains (a, s) then b.keys else b.keys ++ [(a, s)] }

structure Machine where
  stack : List BVal := []          -- head = top
  balances : Balances
  postings : List Posting := []
  txMeta : List (String × BVal) := []
  acctMeta : List (Acct × String × BVal) := []
  prints : List BVal := []

/-! ### typed pops (`stack.go`) -/

def popValue : List BVal → Outcome (BVal × List BVal)
  | [] => .panic .popEmpty
  | v :: r => .ok (v, r)

def popNum : List BVal → Outcome (Int × List BVal)
  | [] => .panic .popEmpty
  | .num n :: r => .ok (n, r)
  | _ :: _ => .panic (.popType .number)

def popMon : List BVal → Outcome ((Asset × Int) × List BVal)
  | [] => .panic .popEmpty
  | .mon a n :: r => .ok ((a, n), r)
  | .monNil _ :: _ => .panic .nilAmount
  | _ :: _ => .panic (.popType .monetary)

def popAcct : List BVal → Outcome (Acct × List BVal)
  | [] => .panic .popEmpty
  | .acct a :: r => .ok (a, r)
  | _ :: _ => .panic (.popType .account)

def popAsset : List BVal → Outcome (Asset × List BVal)
  | [] => .panic .popEmpty
  | .asset a :: r => .ok (a, r)
  | _ :: _ => .panic (.popType .asset)

def popStr : List BVal → Outcome (String × List BVal)
  | [] => .panic .popEmpty
  | .str s :: r => .ok (s, r)
  | _ :: _ => .panic (.popType .string)

def popFunding : List BVal → Outcome ((Asset × Parts) × List BVal)
  | [] => .panic .popEmpty
  | .funding a p :: r => .ok ((a, p), r)
  | _ :: _ => .panic (.popType .funding)

def popAllotment : List BVal → Outcome (List Rat' × List BVal)
  | [] => .panic .popEmpty
  | .allotment rs :: r => .ok (rs, r)
  | _ :: _ => .panic (.popType .allotment)

/-- `big.Int.Uint64` -/
def u64 (n : Int) : Nat := n.natAbs % 18446744073709551616

/-- the loop of `OP_MAKE_ALLOTMENT`: `none` entries are `remaining` -/
def popPortions : Nat → List BVal → Outcome (List (Option Rat') × List BVal)
  | 0, st => .ok ([], st)
  | _ + 1, [] => .panic .popEmpty
  | k + 1, .portion r :: st =>
    match popPortions k st with
    | .ok (ps, st') => .ok (some r :: ps, st')
    | .error e => .error e
    | .panic p => .panic p
  | k + 1, .remaining :: st =>
    match popPortions k st with
    | .ok (ps, st') => .ok (none :: ps, st')
    | .error e => .error e
    | .panic p => .panic p
  | _ + 1, _ :: _ => .panic (.popType .portion)

/-- the second loop of `OP_FUNDING_ASSEMBLE`: pops `k` more fundings (top first), each checked against the asset
of the first one as soon as it is popped -/
def popFundings (a : Asset) : Nat → List BVal → Outcome (List Parts × List BVal)
  | 0, st => .ok ([], st)
  | _ + 1, [] => .panic .popEmpty
  | k + 1, .funding b q :: st =>
    if b ≠ a then .error .invalidScript else
    match popFundings a k st with
    | .ok (fs, st') => .ok (q :: fs, st')
    | .error e => .error e
    | .panic p => .panic p
  | _ + 1, _ :: _ => .panic (.popType .funding)

/-! ### balance primitives -/

def withdrawAll (b : Balances) (a : Acct) (s : Asset) (o : Int) : Except Err (Part × Balances) :=
  if !b.hasAcct a then .error .invalidScript else
  match b.bal.get a s with
  | none => .error .invalidScript
  | some t => if t + o > 0 then .ok (⟨a, t + o⟩, b.set a s (-o)) else .ok (⟨a, 0⟩, b)

def withdrawAlways (b : Balances) (a : Acct) (s : Asset) (n : Int) : Except Err (Part × Balances) :=
  if !b.hasAcct a then .error .invalidScript else
  match b.bal.get a s with
  | none => .error .invalidScript
  | some t => .ok (⟨a, n⟩, b.set a s (t - n))

def credit (b : Balances) (d : Acct) (s : Asset) (f : Parts) : Balances :=
  if d = "world" then b else
  if !b.hasAcct d then b else
  match b.bal.get d s with
  | none => b
  | some t => b.set d s (t + total f)

/-- `repay`; `none` = assignment to an entry in a nil map (the part's account has no inner map) -/
def repay (b : Balances) (s : Asset) : Parts → Option Balances
  | [] => some b
  | p :: ps =>
    if p.acct = "world" then repay b s ps
    else if !b.hasAcct p.acct then none
    else repay (b.set p.acct s ((b.bal.get p.acct s).getD 0 + p.amt)) s ps

/-! ### `tick` -/

def step (rs : List BVal) (i : Instr) (m : Machine) : Outcome Machine :=
  match i with
  | .apush a =>
    match rs[a]? with
    | none => .error .runtimeOther                    -- ErrResourceNotFound
    | some v => .ok { m with stack := v :: m.stack }
  | .bump =>
    match popNum m.stack with
    | .panic k => .panic k | .error e => .error e
    | .ok (n, r) =>
      match r[u64 n]? with
      | none => .panic .bumpRange
      | some v => .ok { m with stack := v :: r.eraseIdx (u64 n) }
  | .delete =>
    match popValue m.stack with
    | .panic k => .panic k | .error e => .error e
    | .ok (v, r) => if v.bty = .funding then .error .invalidScript else .ok { m with stack := r }
  | .iadd =>
    match popNum m.stack with
    | .panic k => .panic k | .error e => .error e
    | .ok (b, r) =>
      match popNum r with
      | .panic k => .panic k | .error e => .error e
      | .ok (a, r') => .ok { m with stack := .num (a + b) :: r' }
  | .isub =>
    match popNum m.stack with
    | .panic k => .panic k | .error e => .error e
    | .ok (b, r) =>
      match popNum r with
      | .panic k => .panic k | .error e => .error e
      | .ok (a, r') => .ok { m with stack := .num (a - b) :: r' }
  | .print =>
    match popValue m.stack with
    | .panic k => .panic k | .error e => .error e
    | .ok (v, r) => .ok { m with stack := r, prints := m.prints ++ [v] }
  | .fail => .error .scriptFailed
  | .asset =>
    match popValue m.stack with
    | .panic k => .panic k | .error e => .error e
    | .ok (v, r) =>
      match v with
      | .asset a => .ok { m with stack := .asset a :: r }
      | .mon a _ => .ok { m with stack := .asset a :: r }
      | .monNil a => .ok { m with stack := .asset a :: r }
      | .funding a _ => .ok { m with stack := .asset a :: r }
      | _ => .error .invalidScript
  | .monetaryNew =>
    match popNum m.stack with
    | .panic k => .panic k | .error e => .error e
    | .ok (n, r) =>
      match popAsset r with
      | .panic k => .panic k | .error e => .error e
      | .ok (a, r') => .ok { m with stack := .mon a n :: r' }
  | .monetaryAdd =>
    match popMon m.stack with
    | .panic k => .panic k | .error e => .error e
    | .ok ((sb, b), r) =>
      match popMon r with
      | .panic k => .panic k | .error e => .error e
      | .ok ((sa, a), r') =>
        if sa ≠ sb then .error .invalidScript else .ok { m with stack := .mon sa (a + b) :: r' }
  | .monetarySub =>
    match popMon m.stack with
    | .panic k => .panic k | .error e => .error e
    | .ok ((sb, b), r) =>
      match popMon r with
      | .panic k => .panic k | .error e => .error e
      | .ok ((sa, a), r') =>
        if sa ≠ sb then .error .runtimeOther else .ok { m with stack := .mon sa (a - b) :: r' }
  | .makeAllotment =>
    match popNum m.stack with
    | .panic k => .panic k | .error e => .error e
    | .ok (n, r) =>
      match popPortions (u64 n) r with
      | .panic k => .panic k | .error e => .error e
      | .ok (ps, r') =>
        match newAllotment ps with
        | none => .error .invalidScript
        | some al => .ok { m with stack := .allotment al :: r' }
  | .takeAll =>
    match popMon m.stack with
    | .panic k => .panic k | .error e => .error e
    | .ok ((s, o), r) =>
      match popAcct r with
      | .panic k => .panic k | .error e => .error e
      | .ok (a, r') =>
        match withdrawAll m.balances a s o with
        | .error e => .error e
        | .ok (p, b) => .ok { m with stack := .funding s [p] :: r', balances := b }
  | .takeAlways =>
    match popMon m.stack with
    | .panic k => .panic k | .error e => .error e
    | .ok ((s, n), r) =>
      match popAcct r with
      | .panic k => .panic k | .error e => .error e
      | .ok (a, r') =>
        match withdrawAlways m.balances a s n with
        | .error e => .error e
        | .ok (p, b) => .ok { m with stack := .funding s [p] :: r', balances := b }
  | .take =>
    match popMon m.stack with
    | .panic k => .panic k | .error e => .error e
    | .ok ((s, n), r) =>
      match popFunding r with
      | .panic k => .panic k | .error e => .error e
      | .ok ((fa, fp), r') =>
        if fa ≠ s then .error .invalidScript else
        match Num.take fp n with
        | none => .error .insufficient
        | some (taken, rest) => .ok { m with stack := .funding fa taken :: .funding fa rest :: r' }
  | .takeMax =>
    match popMon m.stack with
    | .panic k => .panic k | .error e => .error e
    | .ok ((s, n), r) =>
      if n < 0 then .error .runtimeOther else
      match popFunding r with
      | .panic k => .panic k | .error e => .error e
      | .ok ((fa, fp), r') =>
        if fa ≠ s then .error .invalidScript else
        let missing : Int := if n > total fp then n - total fp else 0
        let tr := Num.takeMax fp n
        .ok { m with stack := .funding fa tr.1 :: .funding fa tr.2 :: .mon s missing :: r' }
  | .fundingAssemble =>
    match popNum m.stack with
    | .panic k => .panic k | .error e => .error e
    | .ok (n, r) =>
      if u64 n = 0 then .error .invalidScript else
      match popFunding r with
      | .panic k => .panic k | .error e => .error e
      | .ok ((a, p), r') =>
        match popFundings a (u64 n - 1) r' with
        | .panic k => .panic k | .error e => .error e
        | .ok (fs, r'') => .ok { m with stack := .funding a ((p :: fs).reverse.foldl concat []) :: r'' }
  | .fundingSum =>
    match popFunding m.stack with
    | .panic k => .panic k | .error e => .error e
    | .ok ((a, p), r) => .ok { m with stack := .mon a (total p) :: .funding a p :: r }
  | .fundingReverse =>
    match popFunding m.stack with
    | .panic k => .panic k | .error e => .error e
    | .ok ((a, p), r) => .ok { m with stack := .funding a (Num.reverse p) :: r }
  | .repay =>
    match popFunding m.stack with
    | .panic k => .panic k | .error e => .error e
    | .ok ((a, p), r) =>
      match repay m.balances a p with
      | none => .panic .nilMap
      | some b => .ok { m with stack := r, balances := b }
  | .alloc =>
    match popAllotment m.stack with
    | .panic k => .panic k | .error e => .error e
    | .ok (al, r) =>
      match popMon r with
      | .panic k => .panic k | .error e => .error e
      | .ok ((s, n), r') => .ok { m with stack := (allocate al n).map (fun x => .mon s x) ++ r' }
  | .send =>
    match popAcct m.stack with
    | .panic k => .panic k | .error e => .error e
    | .ok (d, r) =>
      match popFunding r with
      | .panic k => .panic k | .error e => .error e
      | .ok ((a, p), r') =>
        .ok { m with stack := r', balances := credit m.balances d a p,
                     postings := m.postings ++ p.map (fun x => ⟨x.acct, d, x.amt, a⟩) }
  | .txMeta =>
    match popStr m.stack with
    | .panic k => .panic k | .error e => .error e
    | .ok (key, r) =>
      match popValue r with
      | .panic k => .panic k | .error e => .error e
      | .ok (v, r') => .ok { m with stack := r', txMeta := setKey m.txMeta key v }
  | .accountMeta =>
    match popAcct m.stack with
    | .panic k => .panic k | .error e => .error e
    | .ok (a, r) =>
      match popStr r with
      | .panic k => .panic k | .error e => .error e
      | .ok (key, r') =>
        match popValue r' with
        | .panic k => .panic k | .error e => .error e
        | .ok (v, r'') =>
          .ok { m with stack := r'', acctMeta := (m.acctMeta.filter (fun x => ¬ (x.1 = a ∧ x.2.1 = key))) ++ [(a, key, v)] }
  | .save =>
    match popAcct m.stack with
    | .panic k => .panic k | .error e => .error e
    | .ok (a, r) =>
      match popValue r with
      | .panic k => .panic k | .error e => .error e
      | .ok (v, r') =>
        match v with
        | .asset s =>
          -- `m.Balances[a][s].Gt(Zero)`: a missing entry reads as a nil pointer
          if !m.balances.hasAcct a then .panic .nilAmount else
          match m.balances.bal.get a s with
          | none => .panic .nilAmount
          | some t => .ok { m with stack := r', balances := if t > 0 then m.balances.set a s 0 else m.balances }
        | .mon s n =>
          if n < 0 then .error .negativeBalance else
          if !m.balances.hasAcct a then .panic .nilMap else
          .ok { m with stack := r', balances := m.balances.set a s ((m.balances.bal.get a s).getD 0 - n) }
        | .monNil _ => .panic .nilAmount
        | _ => .panic .saveType

/-- the loop of `Execute`: one `tick` per instruction, left to right -/
def exec (rs : List BVal) : List Instr → Machine → Outcome Machine
  | [], m => .ok m
  | i :: is, m =>
    match step rs i m with
    | .ok m' => exec rs is m'
    | .error e => .error e
    | .panic k => .panic k

/-- the number of `tick()` calls `Execute` makes on these instructions -/
def ticks (rs : List BVal) : List Instr → Machine → Nat
  | [], _ => 0
  | i :: is, m =>
    match step rs i m with
    | .ok m' => 1 + ticks rs is m'
    | _ => 1

/-- `Execute` (resources and balances already resolved) -/
def execute (instrs : List Instr) (rs : List BVal) (m : Machine) : Outcome Machine :=
  match instrs with
  | [] => .panic .emptyProgram
  | _ :: _ =>
    match exec rs instrs m with
    | .ok m' => if m'.stack.isEmpty then .ok m' else .panic .stackNotEmpty
    | .error e => .error e
    | .panic k => .panic k

/-! ### `SetVarsFromJSON`, `ResolveResources`, `ResolveBalances` -/

/-- `Program.ParseVariablesJSON`: every `Variable` resource takes its value from the map and deletes the key;
what is left over is extraneous -/
def setVarsLoop : List Resource → List (String × String) → List (String × BVal) → Except Err (List (String × BVal))
  | [], vars, acc => if vars.isEmpty then .ok acc else .error .invalidVars
  | .var ty name :: rest, vars, acc =>
    match (vars.find? (·.1 = name)).map (·.2) with
    | none => .error .invalidVars
    | some raw =>
      match parseValue ty raw with
      | none => .error .invalidVars
      | some v => setVarsLoop rest (vars.filter (·.1 ≠ name)) (setKey acc name (BVal.ofVal v))
  | _ :: rest, vars, acc => setVarsLoop rest vars acc

def setVarsFromJSON (prog : Program) (vars : List (String × String)) : Except Err (List (String × BVal)) :=
  setVarsLoop prog.resources vars []

structure Resolved where
  vals : List BVal := []
  involved : List (Addr × String) := []      -- involvedAccountsMap
  unresolved : List (Addr × String) := []    -- UnresolvedResourceBalances

def involve (inv : List (Addr × String)) (idx : Addr) (v : BVal) : List (Addr × String) :=
  match v with
  | .acct a => inv ++ [(idx, a)]
  | _ => inv

/-- the dereference + type assertion `(*acc).(machine.AccountAddress)` -/
def derefAcct (vals : List BVal) (a : Addr) : Outcome Acct :=
  match vals[a]? with
  | none => .panic .resolveNil
  | some (.acct x) => .ok x
  | some _ => .panic (.resolveType .account)

/-- one round of the loop of `ResolveResources` -/
def resolveOne (store : Store) (vars : List (String × BVal)) (R : Resolved) (r : Resource) : Outcome Resolved :=
  let idx := R.vals.length
  match r with
  | .const v => .ok { R with vals := R.vals ++ [v], involved := involve R.involved idx v }
  | .var _ name =>
    match (vars.find? (·.1 = name)).map (·.2) with
    | none => .error .resolve
    | some v => .ok { R with vals := R.vals ++ [v], involved := involve R.involved idx v }
  | .varMeta ty _ acct key =>
    match derefAcct R.vals acct with
    | .panic k => .panic k | .error e => .error e
    | .ok a =>
      match store.accountMeta a key with
      | none => .error .missingMeta
      | some raw =>
        match parseValue ty raw with
        | none => .error .resolve
        | some v => .ok { R with vals := R.vals ++ [BVal.ofVal v], involved := involve R.involved idx (BVal.ofVal v) }
  | .varBalance _ acct asset =>
    match derefAcct R.vals acct with
    | .panic k => .panic k | .error e => .error e
    | .ok a =>
      match R.vals[asset]? with
      | none => .error .resolve
      | some (.asset s) =>
        .ok { vals := R.vals ++ [.monNil s], involved := R.involved ++ [(idx, a)], unresolved := R.unresolved ++ [(idx, a)] }
      | some _ => .error .resolve
  | .monetary asset amt =>
    match R.vals[asset]? with
    | none => .panic .resolveNil
    | some (.asset s) => .ok { R with vals := R.vals ++ [.mon s amt] }
    | some _ => .panic (.resolveType .asset)

def resolveLoop (store : Store) (vars : List (String × BVal)) : List Resource → Resolved → Outcome Resolved
  | [], R => .ok R
  | r :: rest, R =>
    match resolveOne store vars R r with
    | .ok R' => resolveLoop store vars rest R'
    | .error e => .error e
    | .panic k => .panic k

/-- `ResolveResources` -/
def resolveResources (prog : Program) (vars : List (String × BVal)) (store : Store) : Outcome Resolved :=
  resolveLoop store vars prog.resources {}

def lookupAddr (inv : List (Addr × String)) (a : Addr) : String :=
  match (inv.find? (·.1 = a)).map (·.2) with
  | some s => s
  | none => ""

def involvedAccounts (R : Resolved) : List String := R.involved.map (·.2)
def involvedSources (prog : Program) (R : Resolved) : List String := prog.sources.map (lookupAddr R.involved)

/-- first loop of `ResolveBalances`: the amount of every `balance(…)` variable -/
def resolveBalanceVars (store : Store) : List (Addr × String) → List BVal → Outcome (List BVal)
  | [], vals => .ok vals
  | (idx, address) :: rest, vals =>
    let fill (s : Asset) : Outcome (List BVal) :=
      if store.balance address s < 0 then .error .negativeBalance
      else resolveBalanceVars store rest (vals.set idx (.mon s (store.balance address s)))
    match vals[idx]? with
    | some (.mon s _) => fill s
    | some (.monNil s) => fill s
    | _ => .panic (.resolveType .monetary)

/-- `(*mon).(machine.HasAsset).GetAsset()` -/
def assetOf : BVal → Option Asset
  | .asset a => some a
  | .mon a _ => some a
  | .monNil a => some a
  | .funding a _ => some a
  | _ => none

def Balances.ensureAcct (b : Balances) (a : Acct) : Balances :=
  if b.accts.contains a then b else { b with accts := b.accts ++ [a] }

/-- inner loop of the second half of `ResolveBalances` -/
def needAssets (store : Store) (vals : List BVal) (a : Acct) : List Addr → Balances → Outcome Balances
  | [], b => .ok b
  | addr :: rest, b =>
    match vals[addr]? with
    | none => .error .runtimeOther
    | some v =>
      match assetOf v with
      | none => .panic (.resolveType .asset)
      | some s => needAssets store vals a rest (b.set a s (if a = "world" then 0 else store.balance a s))

def needAccounts (store : Store) (vals : List BVal) : List (Addr × List Addr) → Balances → Outcome Balances
  | [], b => .ok b
  | (addr, assets) :: rest, b =>
    match vals[addr]? with
    | none => .error .runtimeOther
    | some (.acct a) =>
      match needAssets store vals a assets (b.ensureAcct a) with
      | .ok b' => needAccounts store vals rest b'
      | .error e => .error e
      | .panic k => .panic k
    | some _ => .panic (.resolveType .account)

/-- `ResolveBalances` -/
def resolveBalances (prog : Program) (R : Resolved) (store : Store) : Outcome (List BVal × Balances) :=
  match resolveBalanceVars store R.unresolved R.vals with
  | .error e => .error e
  | .panic k => .panic k
  | .ok vals =>
    match needAccounts store vals prog.needed ⟨[], [], ⟨fun _ _ => none⟩⟩ with
    | .error e => .error e
    | .panic k => .panic k
    | .ok b => .ok (vals, b)

/-! ### `vm.Run` -/

structure Result where
  postings : List Posting
  txMeta : List (String × String)
  acctMeta : List (Acct × String × String)
  prints : List BVal
  involved : List String
  sources : List String
  finalBal : List ((Acct × Asset) × Int)

/-- what a caller observes of a successful run (the same record as `Num.Result.obs`) -/
def Result.obs (r : Result) : Obs := ⟨r.postings, r.txMeta, r.acctMeta, r.prints.map (fun v => v.render.getD "")⟩

/-- `GetTxMetaJSON`; `none` = panic -/
def renderTxMeta : List (String × BVal) → Option (List (String × String))
  | [] => some []
  | (k, v) :: rest =>
    match v.render, renderTxMeta rest with
    | some s, some r => some ((k, s) :: r)
    | _, _ => none

/-- `GetAccountsMetaJSON`; `none` = panic -/
def renderAcctMeta : List (Acct × String × BVal) → Option (List (Acct × String × String))
  | [] => some []
  | (a, k, v) :: rest =>
    match v.render, renderAcctMeta rest with
    | some s, some r => some ((a, k, s) :: r)
    | _, _ => none

/-- `SetVarsFromJSON` → `ResolveResources` → `ResolveBalances` → `Run` on a compiled program -/
def run (prog : Program) (req : Request) (store : Store) : Outcome Result :=
  match setVarsFromJSON prog req.vars with
  | .error e => .error e
  | .ok vars =>
    match resolveResources prog vars store with
    | .error e => .error e
    | .panic k => .panic k
    | .ok R =>
      match resolveBalances prog R store with
      | .error e => .error e
      | .panic k => .panic k
      | .ok (vals, b) =>
        match execute prog.instrs vals { balances := b } with
        | .error e => .error e
        | .panic k => .panic k
        | .ok m =>
          match renderTxMeta m.txMeta with
          | none => .panic .metaType
          | some tm =>
            match renderAcctMeta m.acctMeta with
            | none => .panic .metaType
            | some am =>
              if req.metadata.any (fun kv => tm.any (fun t => t.1 = kv.1)) then .error .metaOverride else
              .ok { postings := m.postings, txMeta := tm ++ req.metadata, acctMeta := am, prints := m.prints,
                    involved := involvedAccounts R, sources := involvedSources prog R,
                    finalBal := m.balances.keys.map (fun k => (k, (m.balances.bal.get k.1 k.2).getD 0)) }

end VM
end Num
