/-! A0 — funding algebra: models of `internal/machine/funding.go`, `allotment.go`, `portion.go`.
Amounts are unbounded integers (`*big.Int` in the code). -/
namespace Num

abbrev Acct := String
abbrev Asset := String

structure Part where
  acct : Acct
  amt : Int
deriving Repr, DecidableEq, Inhabited

abbrev Parts := List Part

/-- `Funding.Total` -/
def total (f : Parts) : Int := (f.map (·.amt)).sum

/-- the common loop of `Take` / `TakeMax`: front to back, splitting the part that overshoots;
returns (taken, remainder, still missing) -/
def takeLoop : Parts → Int → Parts × Parts × Int
  | [], n => ([], [], n)
  | p :: ps, n =>
    if n > 0 then
      if p.amt > n then ([{ p with amt := n }], { p with amt := p.amt - n } :: ps, 0)
      else
        let r := takeLoop ps (n - p.amt)
        (p :: r.1, r.2.1, r.2.2)
    else ([], p :: ps, n)

/-- `Funding.TakeMax` -/
def takeMax (f : Parts) (n : Int) : Parts × Parts :=
  let r := takeLoop f n
  (r.1, r.2.1)

/-- the zero-amount quirk of `Funding.Take`: a request of 0 puts a 0-part of the first account in front -/
def takePre (f : Parts) (n : Int) : Parts :=
  if n = 0 then (match f with | [] => [] | p :: _ => [{ p with amt := 0 }]) else []

/-- `Funding.Take`; `none` = "no more fund to withdraw" (also for a negative amount) -/
def take (f : Parts) (n : Int) : Option (Parts × Parts) :=
  if (takeLoop f n).2.2 = 0 then some (takePre f n ++ (takeLoop f n).1, (takeLoop f n).2.1) else none

/-- `Funding.Concat` (same asset assumed; checked by the caller): merges when the last part of `f`
and the first of `g` are the same account -/
def concat : Parts → Parts → Parts
  | [], g => g
  | [l], h :: gs => if l.acct = h.acct then { l with amt := l.amt + h.amt } :: gs else l :: h :: gs
  | [l], [] => [l]
  | p :: q :: f, g => p :: concat (q :: f) g

/-- `Funding.Reverse` -/
def reverse (f : Parts) : Parts := f.reverse

/-- a non-negative rational as numerator / denominator (`den > 0` for every value the code builds) -/
structure Rat' where
  num : Nat
  den : Nat
deriving Repr, DecidableEq, Inhabited

/-- hand out one unit to the earliest entries while the allocated total is short -/
def bumpLoop (n : Int) : List Int → Int → List Int
  | [], _ => []
  | x :: rest, acc => if acc < n then (x + 1) :: bumpLoop n rest (acc + 1) else x :: bumpLoop n rest acc

/-- `Allotment.Allocate`: floor every share, then distribute the leftover units front to back -/
def allocate (ps : List Rat') (n : Int) : List Int :=
  let floors := ps.map (fun p => (n * p.num) / p.den)
  bumpLoop n floors floors.sum

/-- sum of rationals over a common denominator: (numerator, denominator) -/
def ratSum : List Rat' → Nat × Nat
  | [] => (0, 1)
  | r :: rs => let s := ratSum rs; (r.num * s.2 + s.1 * r.den, r.den * s.2)

/-- `NewAllotment`: `none` entries are `remaining`; `none` result = rejected (sum > 1, or two `remaining`) -/
def newAllotment (ps : List (Option Rat')) : Option (List Rat') :=
  let specs := ps.filterMap id
  let s := ratSum specs
  if ps.length - specs.length > 1 then none
  else if s.1 > s.2 then none
  else some (ps.map (fun p => match p with | some r => r | none => ⟨s.2 - s.1, s.2⟩))

end Num
