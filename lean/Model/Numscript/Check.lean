import Model.Numscript.Values
/-! Static acceptance: the typing and structural rules the compiler enforces (`script/compiler/*.go`).
`check s = true` iff the language accepts the (syntactically valid) program. -/
namespace Num

abbrev TEnv := List (String × Ty)

def tyOf (Γ : TEnv) : Expr → Option Ty
  | .acct _ => some .account
  | .asset _ => some .asset
  | .num _ => some .number
  | .str _ => some .string
  | .portion _ => some .portion
  | .badPortion => none
  | .mon ae _ => if tyOf Γ ae = some .asset then some .monetary else none
  | .var n => (Γ.find? (·.1 = n)).map (·.2)
  | .add l r =>
    match tyOf Γ l with
    | some .number => if tyOf Γ r = some .number then some .number else none
    | some .monetary => if tyOf Γ r = some .monetary then some .monetary else none
    | _ => none
  | .sub l r =>
    match tyOf Γ l with
    | some .number => if tyOf Γ r = some .number then some .number else none
    | some .monetary => if tyOf Γ r = some .monetary then some .monetary else none
    | _ => none

def isWorldLit : Expr → Bool
  | .acct a => a = "world"
  | _ => false

/-- identity of the *resource* an account expression compiles to (a literal is de-duplicated, a variable has
its own slot): what "already emptied" is keyed by -/
def resKey : Expr → String
  | .acct a => "@" ++ a
  | .var n => "$" ++ n
  | _ => "?"

mutual
/-- returns (has a fallback account, resources emptied) or `none` = rejected -/
def checkSource (Γ : TEnv) (isAll : Bool) : Source → Option (Bool × List String)
  | .acct e od =>
    if tyOf Γ e ≠ some .account then none else
    let w := isWorldLit e
    match od with
    | .none => if w && isAll then none else some (w, [resKey e])
    | .upTo x => if w then none else if tyOf Γ x ≠ some .monetary then none else some (false, [resKey e])
    | .unbounded => if w then none else if isAll then none else some (true, [resKey e])
  | .maxed cap s =>
    match checkSource Γ false s with
    | none => none
    | some _ => if tyOf Γ cap = some .monetary then some (false, []) else none
  | .inorder ss => checkSources Γ isAll ss []
def checkSources (Γ : TEnv) (isAll : Bool) : SourceList → List String → Option (Bool × List String)
  | .nil, em => some (false, em)
  | .cons s rest, em =>
    match checkSource Γ isAll s with
    | none => none
    | some (fb, e1) =>
      if e1.any (fun k => em.contains k) then none else
      match rest with
      | .nil => some (fb, em ++ e1)
      | .cons _ _ => if fb then none else checkSources Γ isAll rest (em ++ e1)
end

/-- `VisitAllotment`: constant portions must not exceed 100 %, `remaining` at most once, the total must be
exactly reachable -/
def checkPortions (Γ : TEnv) (ps : List PortionSpec) : Bool :=
  let consts := ps.filterMap (fun p => match p with | .const r => some r | _ => none)
  let hasBad := ps.any (fun p => match p with | .badConst => true | _ => false)
  let varsOk := ps.all (fun p => match p with | .var n => tyOf Γ (.var n) = some .portion | _ => true)
  let hasVar := ps.any (fun p => match p with | .var _ => true | _ => false)
  let nRem := (ps.filter (fun p => match p with | .remaining => true | _ => false)).length
  let s := ratSum consts
  !hasBad && varsOk && nRem ≤ 1 && s.1 ≤ s.2 &&
    (if s.1 < s.2 then nRem = 1 else !hasVar && nRem = 0)

def checkVSource (Γ : TEnv) (isAll : Bool) : VSource → Bool
  | .src s => (checkSource Γ isAll s).isSome
  | .allot items =>
    !isAll && checkPortions Γ (items.map (·.1)) && items.all (fun it => (checkSource Γ false it.2).isSome)

mutual
def checkDest (Γ : TEnv) : Dest → Bool
  | .acct e => tyOf Γ e = some .account
  | .inorder caps rest => checkCaps Γ caps && checkKD Γ rest
  | .allot items => checkPortions Γ (allotPortions items) && checkAllot Γ items
def checkKD (Γ : TEnv) : KeptOrDest → Bool
  | .kept => true
  | .to d => checkDest Γ d
def checkCaps (Γ : TEnv) : CapList → Bool
  | .nil => true
  | .cons cap kd rest => tyOf Γ cap = some .monetary && checkKD Γ kd && checkCaps Γ rest
def checkAllot (Γ : TEnv) : AllotList → Bool
  | .nil => true
  | .cons _ kd rest => checkKD Γ kd && checkAllot Γ rest
def allotPortions : AllotList → List PortionSpec
  | .nil => []
  | .cons p _ rest => p :: allotPortions rest
end

def checkStmt (Γ : TEnv) : Stmt → Bool
  | .send (.mon e) src d => tyOf Γ e = some .monetary && checkVSource Γ false src && checkDest Γ d
  | .send (.all ae) src d => tyOf Γ ae = some .asset && checkVSource Γ true src && checkDest Γ d
  | .saveMon e acc => tyOf Γ e = some .monetary && tyOf Γ acc = some .account
  | .saveAll ae acc => tyOf Γ ae = some .asset && tyOf Γ acc = some .account
  | .setTxMeta _ v => (tyOf Γ v).isSome
  | .setAccountMeta acc _ v => (tyOf Γ v).isSome && tyOf Γ acc = some .account
  | .print e => (tyOf Γ e).isSome
  | .fail => true

/-- declarations are processed in order; origins may only mention earlier variables -/
def checkVars : List VarDecl → TEnv → Option TEnv
  | [], Γ => some Γ
  | d :: ds, Γ =>
    if Γ.any (·.1 = d.name) then none else
    let ok : Bool := match d.origin with
      | .none => true
      | .metaOf acc _ => decide (tyOf Γ acc = some .account)
      | .balance acc a => decide (d.ty = .monetary) && decide (tyOf Γ acc = some .account) && decide (tyOf Γ a = some .asset)
    if ok then checkVars ds (Γ ++ [(d.name, d.ty)]) else none

def check (s : Script) : Bool :=
  match checkVars s.vars [] with
  | none => false
  | some Γ => s.stmts.all (checkStmt Γ)

def typeEnv (s : Script) : TEnv := s.vars.map (fun d => (d.name, d.ty))

end Num
