import Model.Numscript.Ast
/-! Values from strings: models of `machine.NewValueFromString`, `ValidateAccountAddress`, `ValidateAsset`,
`ParseMonetary`, `ParsePortionSpecific` (the glue between a caller's variable map / stored metadata and the VM). -/
namespace Num

def isWordChar (c : Char) : Bool := c.isAlphanum || c == '_'

/-- split a character list at every occurrence of `c` (`strings.Split` for a one-character separator): always
at least one piece; written over `List Char` so that theorems can reason about it (C09) -/
def splitChars (c : Char) : List Char → List (List Char)
  | [] => [[]]
  | x :: xs =>
    if x = c then [] :: splitChars c xs
    else match splitChars c xs with
      | [] => [[x]]
      | h :: t => (x :: h) :: t

def splitOnC (s : String) (c : Char) : List String := (splitChars c s.toList).map String.ofList
def isDigitStr (s : String) : Bool := !s.isEmpty && s.all Char.isDigit

/-- `^[a-zA-Z0-9_]+(?:-[a-zA-Z0-9_]+)*(:[a-zA-Z0-9_]+(?:-[a-zA-Z0-9_]+)*)*$` -/
def validAccount (s : String) : Bool :=
  (splitOnC s ':').all fun seg => (splitOnC seg '-').all fun w => !w.isEmpty && w.all isWordChar

/-- `^[A-Z][A-Z0-9]{0,16}(\/\d{1,6})?$` -/
def validAsset (s : String) : Bool :=
  let nameOk (n : String) : Bool :=
    match n.toList with
    | [] => false
    | c :: cs => c.isUpper && cs.length ≤ 16 && cs.all (fun d => d.isUpper || d.isDigit)
  match splitOnC s '/' with
  | [n] => nameOk n
  | [n, d] => nameOk n && isDigitStr d && d.length ≤ 6
  | _ => false

/-- decimal integer with optional sign (`big.Int.SetString(s, 10)`) -/
def parseInt10 (s : String) : Option Int :=
  match s.toList with
  | '-' :: ds => if isDigitStr (String.ofList ds) then (String.ofList ds).toNat?.map (fun n => -(n : Int)) else none
  | '+' :: ds => if isDigitStr (String.ofList ds) then (String.ofList ds).toNat?.map (fun n => (n : Int)) else none
  | _ => if isDigitStr s then s.toNat?.map (fun n => (n : Int)) else none

def pow10 : Nat → Nat
  | 0 => 1
  | n + 1 => 10 * pow10 n

/-- `ParsePortionSpecific`: "12.5%" or "1/8" (one optional space around the slash); value must lie in [0,1] -/
def parsePortion (s : String) : Option Rat' :=
  let inRange (r : Rat') : Option Rat' := if r.den = 0 then none else if r.num ≤ r.den then some r else none
  if s.endsWith "%" then
    let body := (s.dropEnd 1).toString
    match body.splitOn "." with
    | [i] => if isDigitStr i then inRange ⟨i.toNat!, 100⟩ else none
    | [i, f] => if isDigitStr i && isDigitStr f then inRange ⟨i.toNat! * pow10 f.length + f.toNat!, 100 * pow10 f.length⟩ else none
    | _ => none
  else
    match s.splitOn "/" with
    | [a, b] =>
      let a' := if a.endsWith " " then (a.dropEnd 1).toString else a
      let b' := if b.startsWith " " then (b.drop 1).toString else b
      if isDigitStr a' && isDigitStr b' then inRange ⟨a'.toNat!, b'.toNat!⟩ else none
    | _ => none

/-- `NewValueFromString` -/
def parseValue (ty : Ty) (s : String) : Option Val :=
  match ty with
  | .account => if validAccount s then some (.acct s) else none
  | .asset => if validAsset s then some (.asset s) else none
  | .number => (parseInt10 s).map .num
  | .string => some (.str s)
  | .portion => (parsePortion s).map .portion
  | .monetary =>
    match splitOnC s ' ' with
    | a :: rest@(_ :: _) =>
      match parseInt10 (" ".intercalate rest) with
      | some n => if validAsset a && n ≥ 0 then some (.mon a n) else none
      | none => none
    | _ => none

def gcdNat : Nat → Nat → Nat := Nat.gcd

/-- `NewStringFromValue` (what lands in transaction / account metadata) -/
def valToString : Val → String
  | .acct a => a
  | .asset a => a
  | .str s => s
  | .num n => toString n
  | .mon a n => a ++ " " ++ toString n
  | .portion r =>
    let g := Nat.gcd r.num r.den
    let g := if g = 0 then 1 else g
    toString (r.num / g) ++ "/" ++ toString (r.den / g)

end Num
