import Driver.Util
import Driver.StoreSql
/-! `driver_sql <area>` (C04 stage 2): like `driver`, for the areas that need `Generated/Schema.lean`. -/
open Lean Driver

partial def loopSql (h : IO.FS.Stream) (out : IO.FS.Stream) (f : Handler) : IO Unit := do
  let line ← h.getLine
  if line.isEmpty then return ()
  let t := line.trimAscii.toString
  if t.isEmpty then loopSql h out f else
  let res : Json := match Json.parse t with
    | .error e => Json.mkObj [("id", Json.null), ("out", Json.mkObj [("driver_error", Json.str e)])]
    | .ok j =>
      let id := (j.getObjVal? "id").toOption.getD Json.null
      match f j with
      | .ok o => Json.mkObj [("id", id), ("out", o)]
      | .error e => Json.mkObj [("id", id), ("out", Json.mkObj [("driver_error", Json.str e)])]
  out.putStrLn res.compress
  loopSql h out f

def main (args : List String) : IO UInt32 := do
  let areas : List (String × Handler) := [("storesql", StoreSqlD.handle), ("storesql-enum", StoreSqlD.handleEnum), ("storesql-moves", StoreSqlD.handleMoves)]
  match args with
  | [area] =>
    match areas.find? (·.1 == area) with
    | some (_, f) =>
      loopSql (← IO.getStdin) (← IO.getStdout) f
      (← IO.getStdout).flush
      return 0
    | none => IO.eprintln s!"unknown area {area}"; return 2
  | _ => IO.eprintln "usage: driver_sql <area>"; return 2
