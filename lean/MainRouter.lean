import Driver.Loop
import Driver.Router
/-! `driver_router router` (C19): the router model reads `Generated/Routes.lean`, regenerated from /repo on every run; it is its own
executable so that sources the translator cannot read stop C19's driver only, not the drivers of the other properties. -/
def main (args : List String) : IO UInt32 := Driver.mainWith "driver_router" [("router", Driver.RouterD.handle)] args
