import Driver.Util
import Model.DryParam
open Lean Driver
namespace Driver.DryParamD
/-- the model's verdict for one flag: is the request a preview? (every write the request makes must then be dry) -/
def handle : Handler := fun j => do
  let f ← getStr j "flag"
  pure (Json.mkObj [("dry", toJson (DryParam.isPreview f))])
end Driver.DryParamD
