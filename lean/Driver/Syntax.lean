import Driver.Util
import Driver.Numscript
import Model.Numscript.Syntax
/-! area "nstext": the model's front end (`Syntax.lex`, `Syntax.parse`) and `runBytes` on the raw bytes of a
script text; for the generated programs also the comparison of the parsed AST with the generator's AST. -/
open Lean Driver Num

namespace Driver.SyntaxD

def hexVal (c : Char) : Option Nat :=
  if c.isDigit then some (c.toNat - '0'.toNat)
  else if 'a' ≤ c ∧ c ≤ 'f' then some (c.toNat - 'a'.toNat + 10)
  else if 'A' ≤ c ∧ c ≤ 'F' then some (c.toNat - 'A'.toNat + 10)
  else none

def unhex : List Char → Except String (List UInt8)
  | [] => pure []
  | [_] => throw "odd hex length"
  | a :: b :: r => do
    match hexVal a, hexVal b with
    | some x, some y => pure (UInt8.ofNat (16 * x + y) :: (← unhex r))
    | _, _ => throw "bad hex digit"

/-- ANTLR token type of a kind = its position in the generated lexer's rule list -/
def kindNo (k : Syntax.Kind) : Nat :=
  (Syntax.rules.findIdx (fun kf => kf.1 == k)) + 1

/-! canonical rendering of an AST (portions in lowest terms: `25%`, `1/4` and `2/8` are the same constant; the
generator writes a constant above 100 % as `const n/d` where the parser, like `ParsePortionSpecific`, has
`badConst` — both are rendered as `badconst`) -/

def rRat (r : Rat') : String :=
  let g := Nat.gcd r.num r.den
  let g := if g = 0 then 1 else g
  s!"{r.num / g}/{r.den / g}"

def rExpr : Expr → String
  | .acct a => s!"(acct {a})" | .asset a => s!"(asset {a})" | .num n => s!"(num {n})" | .str s => s!"(str {s.quote})"
  | .portion r => (if r.num > r.den then "(badportion)" else s!"(portion {rRat r})") | .badPortion => "(badportion)"
  | .mon ae n => s!"(mon {rExpr ae} {n})" | .var n => s!"(var {n})"
  | .add l r => s!"(add {rExpr l} {rExpr r})" | .sub l r => s!"(sub {rExpr l} {rExpr r})"

def rOd : Overdraft → String
  | .none => "-" | .upTo e => s!"(upto {rExpr e})" | .unbounded => "(unbounded)"

mutual
def rSource : Source → String
  | .acct e od => s!"(src {rExpr e} {rOd od})"
  | .maxed c s => s!"(max {rExpr c} {rSource s})"
  | .inorder ss => s!"(inorder{rSources ss})"
def rSources : SourceList → String
  | .nil => ""
  | .cons s ss => s!" {rSource s}{rSources ss}"
end

def rPortion : PortionSpec → String
  | .const r => (if r.num > r.den then "(badconst)" else s!"(const {rRat r})") | .badConst => "(badconst)" | .var n => s!"(pvar {n})" | .remaining => "(remaining)"

mutual
def rDest : Dest → String
  | .acct e => s!"(dst {rExpr e})"
  | .inorder caps rest => s!"(dinorder{rCaps caps} (rest {rKD rest}))"
  | .allot items => s!"(dallot{rAllot items})"
def rKD : KeptOrDest → String
  | .kept => "kept"
  | .to d => s!"(to {rDest d})"
def rCaps : CapList → String
  | .nil => ""
  | .cons c kd rest => s!" (cap {rExpr c} {rKD kd}){rCaps rest}"
def rAllot : AllotList → String
  | .nil => ""
  | .cons p kd rest => s!" ({rPortion p} {rKD kd}){rAllot rest}"
end

def rStmt : Stmt → String
  | .send amt src d =>
    let a := match amt with | .mon e => s!"(mon {rExpr e})" | .all ae => s!"(all {rExpr ae})"
    let s := match src with
      | .src s => rSource s
      | .allot items => "(sallot" ++ String.join (items.map (fun (it : PortionSpec × Source) => s!" ({rPortion it.1} {rSource it.2})")) ++ ")"
    s!"(send {a} {s} {rDest d})"
  | .saveMon e acc => s!"(savemon {rExpr e} {rExpr acc})"
  | .saveAll ae acc => s!"(saveall {rExpr ae} {rExpr acc})"
  | .setTxMeta k v => s!"(settx {k.quote} {rExpr v})"
  | .setAccountMeta a k v => s!"(setacc {rExpr a} {k.quote} {rExpr v})"
  | .print e => s!"(print {rExpr e})"
  | .fail => "(fail)"

def rTy : Ty → String
  | .account => "account" | .asset => "asset" | .number => "number" | .string => "string" | .monetary => "monetary" | .portion => "portion"

def rDecl (d : VarDecl) : String :=
  let o := match d.origin with
    | .none => "-" | .metaOf a k => s!"(meta {rExpr a} {k.quote})" | .balance a s => s!"(balance {rExpr a} {rExpr s})"
  s!"({rTy d.ty} {d.name} {o})"

def rScript (P : Script) : String :=
  "(script (vars" ++ String.join (P.vars.map (fun d => " " ++ rDecl d)) ++ ")" ++ String.join (P.stmts.map (fun s => " " ++ rStmt s)) ++ ")"

def resultJson (res : Except Err Result) : Json :=
  match res with
  | .error e => Json.mkObj [("err", Json.str e.toString)]
  | .ok r =>
    let accts := NumscriptD.sortStr (r.acctMeta.map (·.1)).eraseDups
    Json.mkObj [
      ("postings", jList (fun (p : Posting) => Json.arr #[Json.str p.src, Json.str p.dst, Json.str (toString p.amt), Json.str p.asset]) r.postings),
      ("txmeta", Json.mkObj (r.txMeta.map (fun kv => (kv.1, Json.str kv.2)))),
      ("ameta", Json.mkObj (accts.map (fun a => (a, Json.mkObj ((r.acctMeta.filter (·.1 = a)).map (fun m => (m.2.1, Json.str m.2.2))))))),
      ("lockR", jList Json.str r.lockRead),
      ("lockW", jList Json.str r.lockWrite),
      ("bal", jList (fun (kv : (Acct × Asset) × Int) => Json.arr #[Json.str kv.1.1, Json.str kv.1.2, Json.str (toString kv.2)])
        (r.finalBal.mergeSort (fun x y => x.1.1 < y.1.1 ∨ (x.1.1 = y.1.1 ∧ x.1.2 ≤ y.1.2))))]

def handle : Handler := fun j => do
  let bytes ← unhex (← getStr j "hex").toList
  let cs := Syntax.decodeRunes bytes
  let bal := NumscriptD.triples j "bal"
  let am := NumscriptD.triples j "ameta"
  let store : Store := {
    balance := fun a s => match bal.find? (fun t => t.1 = a ∧ t.2.1 = s) with
      | some t => t.2.2.toInt?.getD 0
      | none => 0,
    accountMeta := fun a k => (am.find? (fun t => t.1 = a ∧ t.2.1 = k)).map (·.2.2) }
  let req : Request := { vars := NumscriptD.strMap j "vars", metadata := NumscriptD.strMap j "meta" }
  let result := ("result", resultJson (runBytes bytes req store))
  match Syntax.lexChars cs with
  | .error e => pure (Json.mkObj [("lexerr", true), ("syntax", false), ("at", (cs.length - e.remaining : Nat)), result])
  | .ok ts =>
    let toks := ("toks", jList (fun (t : Syntax.Token) => Json.arr #[(kindNo t.kind : Nat), Json.str (String.ofList t.text)]) ts)
    match Syntax.parse ts with
    | .error e => pure (Json.mkObj [("lexerr", false), toks, ("syntax", false),
        ("at", (ts.length - e.remaining : Nat)), ("expected", Json.str e.expected), result])
    | .ok P =>
      let mine := rScript P
      let astPart : List (String × Json) ← match optObj j "ast" with
        | none => pure []
        | some a => do
          let theirs := rScript (← NumscriptD.pScript a)
          pure (if theirs == mine then [("ast_eq", Json.bool true)]
                else [("ast_eq", Json.bool false), ("ast_generator", Json.str theirs)])
      pure (Json.mkObj ([("lexerr", Json.bool false), toks, ("syntax", Json.bool true), ("ast", Json.str mine), result] ++ astPart))

end Driver.SyntaxD
