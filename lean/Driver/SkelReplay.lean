import Driver.Util
import Driver.Engine
import Driver.Skeleton
import Model.Engine.SkelExec
/-! `driver_skel skelreplay` — every observed run of the real Commander is REPLAYED in `SkelSys`, the transition system
that interprets the regenerated skeleton (`Model/Engine/SkelSys.lean`), and must be a run of it with the same events.

Input: what `enginetrace` gets.  The trace is turned into `Base.Ev`s by the same `toEvents` the machines are validated
with.  Each request becomes a `Sys.Job` (kind, key, reference, target, preview flag from the request; lock sets,
balances read and the content of the committed log from what was observed) with a control path of its entry point
whose observable projection is what the request did (`Driver/Skeleton.lean`).  The run is then re-executed segment by
segment in the order of the trace: when request `a` is seen to park at scheduling point `pt`, the model executes `a`'s
items up to and including `yield pt`; when it is seen to answer, up to its `fin`; `gate` and `crash` as observed.  Every
item must be ENABLED in the model's state at that moment (the reservation free or taken as the path says, the lookup
answered as the store of the model would, the wait passed because the log is persisted …) and the events the model
emits in the segment — reservations, lookups with their answers, lock sets, the committed log with its id, previous
id, transaction id and `lastTXID`, the published event, the answer — must be the events observed in that segment.
A mismatch means `SkelSys` (the meaning given to the actions) or the translator is wrong about the code. -/
open Lean Driver Engine Engine.Skel

namespace Driver.SkelReplayD
open Driver.SkelD

def actorOf : Ev → Option Nat
  | .resume a _ | .arrive a _ | .finish a _ _ _ | .ikRead a _ _ | .refRead a _ _ | .txRead a _ _ _ | .balRead a _ _ _
  | .lock a _ _ | .unlock a | .committed a _ _ | .publish a _ | .taken a _ _ _ => some a
  | _ => none

/-- model event vs observed event (the error class of an answer is compared through the harness's classification) -/
def evSame (m o : Ev) : Bool :=
  match m, o with
  | .finish a ok cls t, .finish a' ok' err t' => a == a' && ok == ok' && clsMatches (if ok then "" else cls) err && t == t'
  | m, o => reprStr m == reprStr o

def evsSame : List Ev → List Ev → Bool
  | [], [] => true
  | m :: ms, o :: os => evSame m o && evsSame ms os
  | _, _ => false

def showEvs (es : List Ev) : Json := Json.arr (es.map (fun e => Json.str (reprStr e))).toArray

def kindEp : Kind → String
  | .create => "CreateTransaction" | .revert => "RevertTransaction" | .setMeta => "SaveMeta" | .delMeta => "DeleteMetadata"

/-- the request as a job of the model: what it asks for, and what was observed of its script -/
def jobOf (a : Nat) (q : Req) (evs : List Ev) : Sys.Job :=
  let mine := evs.filter (fun e => actorOf e == some a)
  let locks := mine.filterMap (fun e => match e with | .lock _ r w => some (r, w) | _ => none)
  let bals := mine.filterMap (fun e => match e with | .balRead _ x asset v => some (x, asset, v) | _ => none)
  let log := (mine.filterMap (fun e => match e with | .committed _ l _ => some l | _ => none)).head?
  { a := a, ep := kindEp q.kind, req := q, postings := (log.map (·.postings)).getD [], target := (log.map (·.target)).getD "",
    metaKey := (log.map (·.metaKey)).getD "", r := (locks.head?.map (·.1)).getD [], w := (locks.head?.map (·.2)).getD [], bals := bals }

def procOf (st : Sys.State) (a : Nat) : Option Sys.Proc := st.procs.find? (fun p => p.job.a == a && p.alive)

/-- execute `a`'s items until one of them emits events (scheduling resumptions are not events of the comparison) -/
def runToEvent (a : Nat) : Nat → Sys.State → Except String (Sys.State × List Ev)
  | 0, _ => .error "out of fuel"
  | fuel + 1, st =>
    match procOf st a with
    | none => .error s!"request {a} is not running in the model"
    | some p =>
      match p.todo with
      | [] => .error s!"request {a}: the path is over in the model, the real request went on"
      | x :: _ =>
        match Sys.execCmd st (.step a) with
        | none =>
          .error s!"request {a}: item `{renderItem x}` is not enabled in the model's state{if Sys.blocked st.sh a then " (the request waits for its account locks there)" else ""}"
        | some (st', evs) =>
          let out := evs.filter (fun x => match x with | .resume _ _ => false | _ => true)
          if out.isEmpty then runToEvent a fuel st' else .ok (st', out)

structure R where
  st : Sys.State
  buf : List (Nat × List Ev)        -- per request: events the model has emitted and the trace has not shown yet

def bufOf (r : R) (a : Nat) : List Ev := ((r.buf.find? (·.1 == a)).map (·.2)).getD []
def setBuf (r : R) (a : Nat) (es : List Ev) : R := { r with buf := (a, es) :: r.buf.filter (·.1 != a) }

structure Mismatch where
  actor : Nat
  why : String
  model : List Ev
  observed : List Ev

/-- the next event of request `a` in the model, executing its items as far as needed -/
def nextOf (r : R) (a : Nat) : Except String (R × Ev) :=
  match bufOf r a with
  | m :: ms => .ok (setBuf r a ms, m)
  | [] =>
    match runToEvent a 200 r.st with
    | .error e => .error e
    | .ok (st', out) =>
      match out with
      | m :: ms => .ok (setBuf { r with st := st' } a ms, m)
      | [] => .error "no event"

def replay (jobs : List (Nat × Sys.Job × Path)) : R → List Ev → Except Mismatch R
  | r, [] =>
    match r.buf.find? (fun b => !b.2.isEmpty) with
    | some (a, es) => .error ⟨a, "the model emitted events the trace does not show", es, []⟩
    | none => .ok r
  | r, e :: rest =>
    match e with
    | .resume _ _ => replay jobs r rest
    | .gate n ok =>
      match Sys.execCmd r.st (.gate n ok) with
      | some (st', _) => replay jobs { r with st := st' } rest
      | none => .error ⟨0, s!"the store answered for a batch of {n}, the model's queue holds {r.st.sh.queue.length}", [], [e]⟩
    | .crash =>
      match r.buf.find? (fun b => !b.2.isEmpty) with
      | some (a, es) => .error ⟨a, "the model emitted events the trace does not show (before a crash)", es, []⟩
      | none =>
        match Sys.execCmd r.st .crash with
        | some (st', _) => replay jobs { st := st', buf := [] } rest
        | none => .error ⟨0, "crash", [], [e]⟩
    | e =>
      match actorOf e with
      | none => replay jobs r rest
      | some a =>
        if (match e with | .arrive _ pt => pt == "start" | _ => false) then
          match jobs.find? (·.1 == a) with
          | some (_, j, p) =>
            (match Sys.execCmd r.st (.arrive j p) with
             | some (st', _) => replay jobs { r with st := st' } rest
             | none => .error ⟨a, "the request could not arrive in the model (actor id in use)", [], [e]⟩)
          | none => .error ⟨a, "no control path of the skeleton has this request's observable projection", [], [e]⟩
        else
          match nextOf r a with
          | .error m => .error ⟨a, m, [], [e]⟩
          | .ok (r', m) =>
            if evSame m e then
              -- at a scheduling point / at the answer the model must have nothing more to show for this segment
              (match e with
               | .arrive _ _ | .finish _ _ _ _ =>
                 if (bufOf r' a).isEmpty then replay jobs r' rest
                 else .error ⟨a, "the model emitted more events in this segment than the trace shows", bufOf r' a, [e]⟩
               | _ => replay jobs r' rest)
            else .error ⟨a, "the model's next event differs from the observed one", m :: bufOf r' a, [e]⟩

def candidates (q : Json) (a : Nat) (trace : List Json) : List Path :=
  let obs := observed a trace
  let ep := entryOf ((getStr q "kind").toOption.getD "")
  let dry := (getBool q "dry").toOption.getD false
  let hasIk := ((getStr q "ik").toOption.getD "") ≠ ""
  let hasRef := ((getStr q "ref").toOption.getD "") ≠ ""
  let whole := match obs.getLast? with | some (.fin _ _) => true | _ => false
  let rows := ((tables.find? (·.ep = ep)).map (·.rows)).getD []
  (rows.filter (fun r => agrees dry hasIk hasRef r.1 && matchToks whole r.2 obs)).map (fun r => tagged r.1)

/-- try the candidates of the request the replay stumbled on, one after the other -/
def attempt (store : List LogE) (reqs : List Req) (evs : List Ev) (first : Option Mismatch) :
    Nat → List (Nat × List Path) → Except Mismatch R
  | 0, _ => .error (first.getD ⟨0, "too many candidate paths", [], []⟩)
  | fuel + 1, cands =>
    let jobs := cands.filterMap (fun c => match c.2 with
      | p :: _ => some (c.1, jobOf c.1 (reqs.getD c.1 default) evs, p)
      | [] => none)
    match replay jobs ⟨Sys.init store, []⟩ evs with
    | .ok r => .ok r
    | .error m =>
      match cands.find? (·.1 == m.actor) with
      | some (_, _ :: p2 :: more) =>
        attempt store reqs evs (some (first.getD m)) fuel ((m.actor, p2 :: more) :: cands.filter (·.1 != m.actor))
      | _ => .error (first.getD m)

def replayRun (reqsJ : List Json) (reqs : List Req) (run : Json) : Except String Json := do
  let nF := (EngineD.optNatField run "n_funding").getD 0
  let dur ← getArr run "durable"
  let funding ← (dur.take nF).mapM (fun j => do
    let id ← EngineD.natOfStr (← getStr j "id")
    EngineD.pLog j (if id = 0 then none else some (id - 1)))
  let trace ← getArr run "trace"
  let evs ← EngineD.toEvents reqs trace
  let cands := reqsJ.zipIdx.map (fun (q, a) => (a, candidates q a trace))
  match attempt funding reqs evs none 12 cands with
  | .ok r =>
    let storeIds := r.st.sh.store.map (·.id)
    let obsIds ← dur.mapM (fun j => do EngineD.natOfStr (← getStr j "id"))
    if storeIds ≠ obsIds then
      pure (Json.mkObj [("events", toJson evs.length), ("mismatch", Json.mkObj [("actor", toJson (0 : Nat)),
        ("why", Json.str s!"final store of the model {storeIds} vs the real one {obsIds}")])])
    else pure (Json.mkObj [("events", toJson evs.length), ("mismatch", Json.null)])
  | .error m =>
    pure (Json.mkObj [("events", toJson evs.length), ("mismatch", Json.mkObj [("actor", toJson m.actor), ("why", Json.str m.why),
      ("model", showEvs m.model), ("observed", showEvs m.observed)])])

def handleReplay : Handler := fun j => do
  let reqsJ ← getArr j "requests"
  let reqs ← reqsJ.mapM EngineD.pReq
  let runs ← getArr j "runs"
  let outs ← runs.mapM (replayRun reqsJ reqs)
  pure (Json.mkObj [("runs", Json.arr outs.toArray)])

end Driver.SkelReplayD
