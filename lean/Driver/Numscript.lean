import Driver.Util
import Model.Numscript.Spec
open Lean Driver Num

namespace Driver.NumscriptD

def getNatS (j : Json) (k : String) : Except String Nat := do
  let n ← getInt j k
  if n < 0 then throw "negative" else pure n.toNat

partial def pExpr (j : Json) : Except String Expr := do
  match ← getStr j "k" with
  | "acct" => pure (.acct (← getStr j "v"))
  | "asset" => pure (.asset (← getStr j "v"))
  | "num" => pure (.num (← getNatS j "v"))
  | "str" => pure (.str (← getStr j "v"))
  | "portion" => pure (.portion ⟨← getNatS j "n", ← getNatS j "d"⟩)
  | "badportion" => pure .badPortion
  | "mon" => pure (.mon (← pExpr (← getObj j "asset")) (← getNatS j "amt"))
  | "var" => pure (.var (← getStr j "v"))
  | "add" => pure (.add (← pExpr (← getObj j "l")) (← pExpr (← getObj j "r")))
  | "sub" => pure (.sub (← pExpr (← getObj j "l")) (← pExpr (← getObj j "r")))
  | k => throw s!"bad expr kind {k}"

partial def pSource (j : Json) : Except String Source := do
  match ← getStr j "k" with
  | "acct" =>
    let e ← pExpr (← getObj j "e")
    let od ← match optObj j "od" with
      | none => pure Overdraft.none
      | some o => do
        match ← getStr o "k" with
        | "upto" => pure (Overdraft.upTo (← pExpr (← getObj o "e")))
        | "unbounded" => pure Overdraft.unbounded
        | k => throw s!"bad od {k}"
    pure (.acct e od)
  | "max" => pure (.maxed (← pExpr (← getObj j "cap")) (← pSource (← getObj j "s")))
  | "inorder" =>
    let ss ← (← getArr j "ss").mapM pSource
    pure (.inorder (ss.foldr (fun s acc => .cons s acc) .nil))
  | k => throw s!"bad source kind {k}"

def pPortion (j : Json) : Except String PortionSpec := do
  match ← getStr j "k" with
  | "const" => pure (.const ⟨← getNatS j "n", ← getNatS j "d"⟩)
  | "badconst" => pure .badConst
  | "var" => pure (.var (← getStr j "v"))
  | "remaining" => pure .remaining
  | k => throw s!"bad portion {k}"

mutual
partial def pDest (j : Json) : Except String Dest := do
  match ← getStr j "k" with
  | "acct" => pure (.acct (← pExpr (← getObj j "e")))
  | "inorder" =>
    let caps ← (← getArr j "caps").mapM (fun c => do
      pure ((← pExpr (← getObj c "cap")), (← pKD (← getObj c "kd"))))
    let rest ← pKD (← getObj j "rest")
    pure (.inorder (caps.foldr (fun (c, kd) acc => .cons c kd acc) .nil) rest)
  | "allot" =>
    let items ← (← getArr j "items").mapM (fun c => do
      pure ((← pPortion (← getObj c "p")), (← pKD (← getObj c "kd"))))
    pure (.allot (items.foldr (fun (p, kd) acc => .cons p kd acc) .nil))
  | k => throw s!"bad dest kind {k}"
partial def pKD (j : Json) : Except String KeptOrDest := do
  match ← getStr j "k" with
  | "kept" => pure .kept
  | "to" => pure (.to (← pDest (← getObj j "d")))
  | k => throw s!"bad kd {k}"
end

def pStmt (j : Json) : Except String Stmt := do
  match ← getStr j "k" with
  | "fail" => pure .fail
  | "print" => pure (.print (← pExpr (← getObj j "e")))
  | "setTxMeta" => pure (.setTxMeta (← getStr j "key") (← pExpr (← getObj j "v")))
  | "setAccountMeta" => pure (.setAccountMeta (← pExpr (← getObj j "acc")) (← getStr j "key") (← pExpr (← getObj j "v")))
  | "saveMon" => pure (.saveMon (← pExpr (← getObj j "e")) (← pExpr (← getObj j "acc")))
  | "saveAll" => pure (.saveAll (← pExpr (← getObj j "asset")) (← pExpr (← getObj j "acc")))
  | "send" =>
    let a ← getObj j "amt"
    let amt ← match ← getStr a "k" with
      | "all" => pure (SendAmt.all (← pExpr (← getObj a "asset")))
      | _ => pure (SendAmt.mon (← pExpr (← getObj a "e")))
    let s ← getObj j "src"
    let src ← match ← getStr s "k" with
      | "src" => pure (VSource.src (← pSource (← getObj s "s")))
      | _ => do
        let items ← (← getArr s "items").mapM (fun c => do
          pure ((← pPortion (← getObj c "p")), (← pSource (← getObj c "s"))))
        pure (VSource.allot items)
    pure (.send amt src (← pDest (← getObj j "dst")))
  | k => throw s!"bad stmt {k}"

def pTy (s : String) : Except String Ty :=
  match s with
  | "account" => pure .account | "asset" => pure .asset | "number" => pure .number
  | "string" => pure .string | "monetary" => pure .monetary | "portion" => pure .portion
  | _ => throw s!"bad type {s}"

def pDecl (j : Json) : Except String VarDecl := do
  let o ← match optObj j "origin" with
    | none => pure Origin.none
    | some o => do
      match ← getStr o "k" with
      | "meta" => pure (Origin.metaOf (← pExpr (← getObj o "acc")) (← getStr o "key"))
      | _ => pure (Origin.balance (← pExpr (← getObj o "acc")) (← pExpr (← getObj o "asset")))
  pure ⟨← pTy (← getStr j "ty"), ← getStr j "name", o⟩

def pScript (j : Json) : Except String Script := do
  let vs ← match j.getObjVal? "vars" with
    | .ok (.arr a) => a.toList.mapM pDecl
    | _ => pure []
  let ss ← (← getArr j "stmts").mapM pStmt
  pure ⟨vs, ss⟩

def strMap (j : Json) (k : String) : List (String × String) :=
  match j.getObjVal? k with
  | .ok (.obj m) => m.toList.filterMap (fun (k, v) => match v with | .str s => some (k, s) | _ => none)
  | _ => []

def triples (j : Json) (k : String) : List (String × String × String) :=
  match j.getObjVal? k with
  | .ok (.arr a) => a.toList.filterMap (fun t => match t with
    | .arr #[.str x, .str y, .str z] => some (x, y, z)
    | _ => none)
  | _ => []

def sortStr (l : List String) : List String := l.mergeSort (· ≤ ·)

def handle : Handler := fun j => do
  let P ← pScript (← getObj j "ast")
  let bal := triples j "bal"
  let am := triples j "ameta"
  let store : Store := {
    balance := fun a s => match bal.find? (fun t => t.1 = a ∧ t.2.1 = s) with
      | some t => t.2.2.toInt?.getD 0
      | none => 0,
    accountMeta := fun a k => (am.find? (fun t => t.1 = a ∧ t.2.1 = k)).map (·.2.2) }
  let req : Request := { vars := strMap j "vars", metadata := strMap j "meta" }
  match run P req store with
  | .error e => pure (Json.mkObj [("err", Json.str e.toString)])
  | .ok r =>
    let accts := sortStr (r.acctMeta.map (·.1)).eraseDups
    pure <| Json.mkObj [
      ("postings", jList (fun (p : Posting) => Json.arr #[Json.str p.src, Json.str p.dst, Json.str (toString p.amt), Json.str p.asset]) r.postings),
      ("txmeta", Json.mkObj (r.txMeta.map (fun kv => (kv.1, Json.str kv.2)))),
      ("ameta", Json.mkObj (accts.map (fun a => (a, Json.mkObj ((r.acctMeta.filter (·.1 = a)).map (fun m => (m.2.1, Json.str m.2.2))))))),
      ("lockR", jList Json.str r.lockRead),
      ("lockW", jList Json.str r.lockWrite),
      ("bal", jList (fun (kv : (Acct × Asset) × Int) => Json.arr #[Json.str kv.1.1, Json.str kv.1.2, Json.str (toString kv.2)])
        (r.finalBal.mergeSort (fun x y => x.1.1 < y.1.1 ∨ (x.1.1 = y.1.1 ∧ x.1.2 ≤ y.1.2))))]

end Driver.NumscriptD
