import Driver.Util
import Model.Batcher
open Lean Driver

/-! Area "batcher" (C05, C06): the model of `batching.Batcher` + `job.Runner` (`Model/Batcher.lean`) on the operation
lines the harness runs on the real components (`harness/batcher.go`).  Nothing here touches the state except through
`Batcher.step`; `Batcher.events` / `Batcher.applies` say what the harness should have recorded for the operation.

input : {"max":n, "ops":[{"op":"append","x":n} | {"op":"release"} | {"op":"fail"} | {"op":"close"} | {"op":"start"}]}
output: {"steps":[{"op":…, "skip":bool, "ev":[{"e":"ret","b":[…],"exit":[…],"ok":bool} | {"e":"ack","x":n} | {"e":"batch","b":[…]}],
                   "appret":n, "close":"none"|"blocked"|"returned", "run":"fresh"|"running"|"stopped"|"died"}],
         "batches":[[…]], "acks":[…]} -/
namespace Driver.BatcherD
open Batcher

def parseOp (j : Json) : Except String Op := do
  let o ← getStr j "op"
  match o with
  | "append" => pure (.append (← getNat j "x"))
  | "release" => pure .release
  | "fail" => pure .fail
  | "close" => pure .close
  | "start" => pure .start
  | _ => throw s!"unknown op {o}"

def opName : Op → String
  | .append _ => "append" | .release => "release" | .fail => "fail" | .close => "close" | .start => "start"

def jNats (xs : List Nat) : Json := jList (fun (x : Nat) => toJson x) xs

def jEv : Ev → Json
  | .ret b ok => Json.mkObj [("e", "ret"), ("b", jNats b), ("exit", jNats b), ("ok", toJson ok)]
  | .ack x => Json.mkObj [("e", "ack"), ("x", toJson x)]
  | .batch b => Json.mkObj [("e", "batch"), ("b", jNats b)]

def runName (s : State) : String :=
  match s.phase with
  | .fresh => "fresh" | .running => "running" | .stopping => "running" | .stopped => "stopped" | .dead => "died"

def closeName (s : State) : String :=
  if !s.closeCalled then "none" else if s.closeReturned then "returned" else "blocked"

def handle : Handler := fun j => do
  let max ← getNat j "max"
  let ops ← (← getArr j "ops").mapM parseOp
  let (s, steps) := ops.foldl (fun (acc : State × List Json) op =>
    let s := acc.1
    let s' := step s op
    let line := Json.mkObj [
      ("op", opName op), ("skip", toJson (!applies s op)), ("ev", jList jEv (events s op)),
      ("appret", toJson s'.appendsReturned), ("close", closeName s'), ("run", runName s')]
    (s', acc.2 ++ [line])) (init max, [])
  pure <| Json.mkObj [("steps", Json.arr steps.toArray), ("batches", jList jNats s.batches), ("acks", jNats s.acked)]

end Driver.BatcherD
