import Driver.Util
import Model.Store.Spec
/-! Driver of area `storeview` (C04): one bucket history → `Store.replay` → the figures the in-memory store is asked for. -/
open Lean Driver

namespace Driver.StoreD
open Store

def parseMeta (j : Json) : Except String Meta := do
  match j with
  | .null => pure []
  | .obj kvs => kvs.toList.mapM (fun (kv : String × Json) => do
      let v ← kv.2.getStr?
      pure (kv.1, v))
  | _ => throw "metadata: not an object"

def optMeta (j : Json) (k : String) : Except String Meta :=
  match optObj j k with
  | some m => parseMeta m
  | none => pure []

def parsePosting (j : Json) : Except String Posting := do
  pure { source := ← getStr j "source", destination := ← getStr j "destination", asset := ← getStr j "asset",
         amount := ← getNat j "amount" }

def parseTx (j : Json) : Except String Tx := do
  let ps ← (← getArr j "postings").mapM parsePosting
  pure { id := ← getNat j "id", postings := ps, metadata := ← optMeta j "metadata", timestamp := ← getInt j "timestamp",
         reference := (getStr j "reference").toOption.getD "" }

def parseTarget (j : Json) : Except String Target := do
  let tt ← getStr j "targetType"
  if tt == "ACCOUNT" then pure (.account (← getStr j "targetId")) else pure (.transaction (← getNat j "targetId"))

def parseLog (j : Json) : Except String CLog := do
  let ty ← getStr j "type"
  let payload ← match ty with
    | "NEW_TRANSACTION" => do
      let am ← match optObj j "accountMetadata" with
        | some (.obj kvs) => kvs.toList.mapM (fun (kv : String × Json) => do pure (kv.1, ← parseMeta kv.2))
        | _ => pure []
      pure (Payload.newTx (← parseTx (← getObj j "tx")) am)
    | "REVERTED_TRANSACTION" => pure (Payload.revert (← getNat j "revertedId") (← parseTx (← getObj j "tx")))
    | "SET_METADATA" => pure (Payload.setMeta (← parseTarget j) (← optMeta j "metadata"))
    | "DELETE_METADATA" => pure (Payload.delMeta (← parseTarget j) (← getStr j "key"))
    | _ => throw s!"unknown log type {ty}"
  pure { ledger := ← getStr j "ledger", id := ← getNat j "id", date := ← getInt j "date",
         ik := (getStr j "ik").toOption.getD "", payload := payload }

def parseLogs (j : Json) : Except String (List CLog) := do (← getArr j "logs").mapM parseLog

def strs (j : Json) (k : String) : List String :=
  match getArr j k with
  | .ok xs => xs.filterMap (fun x => x.getStr?.toOption)
  | .error _ => []

def jMeta (m : Meta) : Json := Json.mkObj (m.map (fun kv => (kv.1, Json.str kv.2)))

def jTx (r : TxRec) : Json := Json.mkObj [
  ("found", Json.bool true), ("id", Json.str (toString r.tx.id)),
  ("postings", jList (fun (p : Posting) => Json.mkObj [("source", Json.str p.source), ("destination", Json.str p.destination),
      ("asset", Json.str p.asset), ("amount", Json.str (toString p.amount))]) r.tx.postings),
  ("metadata", jMeta (txMeta r)), ("timestamp", toJson r.tx.timestamp), ("reference", Json.str r.tx.reference),
  ("reverted", Json.bool r.reverted.isSome)]

def logTypeName : Payload → String
  | .newTx .. => "NEW_TRANSACTION" | .revert .. => "REVERTED_TRANSACTION" | .setMeta .. => "SET_METADATA" | .delMeta .. => "DELETE_METADATA"

def optId (o : Option Nat) : Json := match o with | some n => Json.str (toString n) | none => Json.null

def handle : Handler := fun j => do
  let logs ← parseLogs j
  let v := replay logs
  let probe := (optObj j "probe").getD (Json.mkObj [])
  let accounts := strs probe "accounts"
  let assets := strs probe "assets"
  let txids : List Nat := match getArr probe "txids" with
    | .ok xs => xs.filterMap (fun x => match x with | .num n => some n.mantissa.toNat | _ => none)
    | .error _ => []
  let ledgers := (strs j "ledgers").map (fun name =>
    let st := v name
    Json.mkObj [
      ("name", Json.str name),
      ("balances", Json.arr ((accounts.flatMap (fun a => assets.map (fun x =>
        Json.mkObj [("account", Json.str a), ("asset", Json.str x), ("balance", jInt (balance st When.always a x))]))).toArray)),
      ("accounts", jList (fun a => Json.mkObj [("address", Json.str a), ("metadata", jMeta (acctMeta st a))]) accounts),
      ("txs", jList (fun (id : Nat) => match findTx st id with
        | some r => jTx r
        | none => Json.mkObj [("found", Json.bool false), ("id", Json.str (toString id))]) txids),
      ("byRef", jList (fun r => Json.mkObj [("ref", Json.str r), ("id", optId ((findTxByReference st r).map (·.tx.id)))]) (strs probe "refs")),
      ("byIk", jList (fun k => Json.mkObj [("ik", Json.str k), ("id", optId ((logWithIk st k).map (·.id)))]) (strs probe "iks")),
      ("lastLog", match lastLog st with
        | some l => Json.mkObj [("id", Json.str (toString l.id)), ("type", Json.str (logTypeName l.payload))]
        | none => Json.null),
      ("lastTx", optId ((lastTx st).map (·.tx.id)))])
  pure <| Json.mkObj [("ledgers", Json.arr ledgers.toArray)]

end Driver.StoreD
