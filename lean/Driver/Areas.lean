import Driver.Util
import Driver.Bulk
import Driver.Router
/-! registry of the areas the driver serves -/
namespace Driver
def areas : List (String × Handler) := [
  ("bulk", BulkD.handle),
  ("router", RouterD.handle)
]
end Driver
