import Driver.Util
import Driver.Bulk
import Driver.Log
/-! registry of the areas the driver serves -/
namespace Driver
def areas : List (String × Handler) := [
  ("bulk", BulkD.handle),
  ("logrt", LogD.handle)
]
end Driver
