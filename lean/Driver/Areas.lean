import Driver.Util
import Driver.Bulk
import Driver.Numscript
import Driver.Lock
import Driver.Paginate
import Driver.Log
import Driver.SqlText
import Driver.Engine
import Driver.TxToScript
import Driver.Store
import Driver.Syntax
import Driver.DryParam
import Driver.Bytecode
import Driver.FilterSem
import Driver.Batcher
/-! registry of the areas the driver serves -/
namespace Driver
def areas : List (String × Handler) := [
  ("bulk", BulkD.handle),
  ("numscript", NumscriptD.handle),
  ("lock", LockD.handle),
  ("paginate", PaginateD.handle),
  ("logrt", LogD.handle),
  ("sqltext", SqlTextD.handle),
  ("sqllex", SqlTextD.handleLex),
  ("enginetrace", EngineD.handle),
  ("txscript", TxToScriptD.handle),
  ("storeview", StoreD.handle),
  ("nstext", SyntaxD.handle),
  ("dryparam", DryParamD.handle),
  ("nsbytecode", BytecodeD.handle),
  ("filtersem", FilterSemD.handle),
  ("boolparse", FilterSemD.handleRead),
  ("batcher", BatcherD.handle)
]
end Driver
