import Driver.Util
import Driver.Bulk
/-! registry of the areas the driver serves -/
namespace Driver
def areas : List (String × Handler) := [
  ("bulk", BulkD.handle)
]
end Driver
