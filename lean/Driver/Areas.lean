import Driver.Util
import Driver.Bulk
import Driver.Lock
/-! registry of the areas the driver serves -/
namespace Driver
def areas : List (String × Handler) := [
  ("bulk", BulkD.handle),
  ("lock", LockD.handle)
]
end Driver
