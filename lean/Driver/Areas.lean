import Driver.Util
import Driver.Bulk
import Driver.Paginate
/-! registry of the areas the driver serves -/
namespace Driver
def areas : List (String × Handler) := [
  ("bulk", BulkD.handle),
  ("paginate", PaginateD.handle)
]
end Driver
