import Driver.Util
import Driver.Bulk
import Driver.SqlText
/-! registry of the areas the driver serves -/
namespace Driver
def areas : List (String × Handler) := [
  ("bulk", BulkD.handle),
  ("sqltext", SqlTextD.handle),
  ("sqllex", SqlTextD.handleLex)
]
end Driver
