import Lean.Data.Json
/-! JSON helpers shared by the per-area drivers.  Core-only (no Mathlib) so that `driver` links as a `lean_exe`. -/
open Lean

namespace Driver

def getStr (j : Json) (k : String) : Except String String := j.getObjValAs? String k
def getBool (j : Json) (k : String) : Except String Bool := j.getObjValAs? Bool k
def getArr (j : Json) (k : String) : Except String (List Json) := do
  let a ← (← j.getObjVal? k).getArr?
  pure a.toList
def getObj (j : Json) (k : String) : Except String Json := j.getObjVal? k
def optObj (j : Json) (k : String) : Option Json :=
  match j.getObjVal? k with
  | .ok v => if v.isNull then none else some v
  | .error _ => none
/-- integers travel as decimal strings (arbitrary precision) or as JSON numbers -/
def getInt (j : Json) (k : String) : Except String Int := do
  let v ← j.getObjVal? k
  match v with
  | .str s => match s.toInt? with | some n => pure n | none => throw s!"bad int {s}"
  | .num n => if n.exponent == 0 then pure n.mantissa else throw s!"non-integer {n}"
  | _ => throw s!"bad int at {k}"
def getNat (j : Json) (k : String) : Except String Nat := do
  let n ← getInt j k
  if n < 0 then throw s!"negative nat at {k}" else pure n.toNat
def jInt (n : Int) : Json := Json.str (toString n)
def jList {α} (f : α → Json) (xs : List α) : Json := Json.arr (xs.map f).toArray

/-- one handler per area: input line object → output object -/
abbrev Handler := Json → Except String Json

end Driver
