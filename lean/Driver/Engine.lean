import Driver.Util
import Model.Engine.Chain
import Model.Engine.Ack
import Model.Engine.Guard
import Model.Engine.Floor
import Model.Engine.Events
open Lean Driver Engine

namespace Driver.EngineD

def natOfStr (s : String) : Except String Nat :=
  match s.toNat? with | some n => pure n | none => throw s!"bad nat {s}"

def optNatField (j : Json) (k : String) : Option Nat :=
  match j.getObjVal? k with
  | .ok (.str s) => s.toNat?
  | .ok (.num n) => if n.exponent == 0 && n.mantissa ≥ 0 then some n.mantissa.toNat else none
  | _ => none

def pPostings (j : Json) : List Posting :=
  match j.getObjVal? "postings" with
  | .ok (.arr a) => a.toList.filterMap (fun p => match p with
    | .arr #[.str s, .str d, .str amt, .str asset] => some ⟨s, d, amt.toInt?.getD 0, asset⟩
    | _ => none)
  | _ => []

def renderMeta (j : Json) : String :=
  match j with
  | .obj m => ";".intercalate (m.toList.map (fun (k, v) => k ++ "=" ++ (match v with | .str s => s | x => x.compress)))
  | _ => ""

def pKind (t : String) : Kind :=
  match t with
  | "NEW_TRANSACTION" => .create | "REVERTED_TRANSACTION" => .revert | "SET_METADATA" => .setMeta | _ => .delMeta

/-- a chained log as rendered by the harness (`logJ`) -/
def pLog (j : Json) (prevId : Option Nat) : Except String LogE := do
  let id ← natOfStr (← getStr j "id")
  let kind := pKind (← getStr j "type")
  let tx := optObj j "tx"
  let txid := tx.bind (fun t => optNatField t "id")
  let ref := (tx.bind (fun t => (getStr t "reference").toOption)).getD ""
  let ps := (tx.map pPostings).getD []
  let target := (getStr j "target").toOption.getD ""
  let mk := match kind with
    | .setMeta => renderMeta ((j.getObjVal? "metadata").toOption.getD Json.null)
    | .delMeta => (getStr j "key").toOption.getD ""
    | _ => ""
  pure { id := id, kind := kind, txid := txid, ik := (getStr j "ik").toOption.getD "", ref := ref,
         reverts := optNatField j "reverted", postings := ps, target := target, metaKey := mk,
         prevId := prevId, hashOk := (getBool j "hash_ok").toOption.getD false }

def pBusEv (j : Json) : Except String BusEv := do
  match ← getStr j "type" with
  | "committed" =>
    let tx ← getObj j "tx"
    pure (.committed ((optNatField tx "id").getD 0) (pPostings tx))
  | "reverted" =>
    let rd := (optObj j "reverted").bind (fun t => optNatField t "id")
    let rv := (optObj j "revert").bind (fun t => optNatField t "id")
    pure (.reverted (rd.getD 0) (rv.getD 0))
  | "saved_meta" => pure (.savedMeta (← getStr j "target") (renderMeta ((j.getObjVal? "metadata").toOption.getD Json.null)))
  | "deleted_meta" => pure (.deletedMeta (← getStr j "target") (← getStr j "key"))
  | t => throw s!"bad event type {t}"

structure ReqInfo where
  req : Req
  key : String      -- for reservations: ik / ref / revert target rendered

def pReq (j : Json) : Except String Req := do
  let kind : Kind := match ← getStr j "kind" with
    | "create" => .create | "revert" => .revert | "setmeta" => .setMeta | _ => .delMeta
  pure { kind := kind, dry := (getBool j "dry").toOption.getD false, ik := (getStr j "ik").toOption.getD "",
         ref := (getStr j "ref").toOption.getD "", target := (optNatField j "target").getD 0,
         force := (getBool j "force").toOption.getD false, over := ((getInt j "over").toOption.getD 0) }

/-- the point a request reaches next (or its finishing error), looking ahead in the trace -/
def nextOf (a : Nat) : List Json → Option (String × String)
  | [] => none
  | j :: rest =>
    match optNatField j "a" with
    | some b =>
      if b = a then
        match getStr j "arrive" with
        | .ok pt => some ("arrive", pt)
        | .error _ =>
          match j.getObjVal? "finish" with
          | .ok _ => some ("finish", (getStr j "err").toOption.getD "")
          | .error _ => nextOf a rest
      else nextOf a rest
    | none => nextOf a rest

/-- trace entries → events (reservation attempts are made explicit by looking at what the request does next) -/
def toEvents (reqs : List Req) : List Json → Except String (List Ev)
  | [] => pure []
  | j :: rest => do
    let tail ← toEvents reqs rest
    if (j.getObjVal? "crash").isOk then return Ev.crash :: tail
    if let .ok e := j.getObjVal? "event" then
      let a := (optNatField e "a").getD 0
      return Ev.publish a (← pBusEv e) :: tail
    let ai : Int := match j.getObjVal? "a" with
      | .ok (.num n) => n.mantissa
      | _ => 0
    if ai < 0 then
      return Ev.gate ((optNatField j "batch").getD 0) ((getBool j "ok").toOption.getD true) :: tail
    let a := ai.toNat
    let rq := reqs.getD a default
    if let .ok pt := getStr j "at" then
      let extra : List Ev := match pt, nextOf a rest with
        | "ik-take", some ("arrive", "ik-lookup") => [Ev.taken a "ik" rq.ik true]
        | "ik-take", some ("finish", _) => [Ev.taken a "ik" rq.ik false]
        | "ref-take", some ("arrive", "ref-lookup") => [Ev.taken a "ref" rq.ref true]
        | "ref-take", some ("finish", _) => [Ev.taken a "ref" rq.ref false]
        | "revert-take", some ("arrive", "revert-lookup") => [Ev.taken a "rev" (toString rq.target) true]
        | "revert-take", some ("finish", _) => [Ev.taken a "rev" (toString rq.target) false]
        | _, _ => []
      return Ev.resume a pt :: extra ++ tail
    if let .ok pt := getStr j "arrive" then return Ev.arrive a pt :: tail
    if (j.getObjVal? "finish").isOk then
      return Ev.finish a ((getBool j "ok").toOption.getD false) ((getStr j "err").toOption.getD "") (optNatField j "txid") :: tail
    if let .ok st := getStr j "store" then
      match st with
      | "ik" => return Ev.ikRead a (← getStr j "key") (optNatField j "found") :: tail
      | "ref" => return Ev.refRead a (← getStr j "ref") ((getBool j "found").toOption.getD false) :: tail
      | "tx" => return Ev.txRead a ((optNatField j "txid").getD 0) ((getBool j "found").toOption.getD false) ((getBool j "reverted").toOption.getD false) :: tail
      | "balance" => return Ev.balRead a (← getStr j "acct") (← getStr j "asset") (← getInt j "value") :: tail
      | _ => return tail
    if let .ok l := j.getObjVal? "lock" then
      let strs (k : String) : List String := match l.getObjVal? k with
        | .ok (.arr xs) => xs.toList.filterMap (fun x => match x with | .str s => some s | _ => none)
        | _ => []
      return Ev.lock a (strs "r") (strs "w") :: tail
    if (j.getObjVal? "unlock").isOk then return Ev.unlock a :: tail
    if let .ok c := j.getObjVal? "committed" then
      let l ← pLog c (optNatField c "prev_id")
      let lt := (getInt j "last_txid").toOption.getD (-1)
      return Ev.committed a l lt :: tail
    return tail

/-- run one component, reporting the index of the first rejected event -/
def runIdx {S : Type} (step : S → Ev → Except String S) (s : S) (evs : List Ev) : Except (Nat × String) S :=
  let rec go (s : S) (i : Nat) : List Ev → Except (Nat × String) S
    | [] => .ok s
    | e :: es => match step s e with
      | .error m => .error (i, m)
      | .ok s' => go s' (i + 1) es
  go s 0 evs

def validateRun (reqs : List Req) (run : Json) : Except String Json := do
  let nF := (optNatField run "n_funding").getD 0
  let dur ← getArr run "durable"
  let funding ← (dur.take nF).mapM (fun j => do
    let id ← natOfStr (← getStr j "id")
    pLog j (if id = 0 then none else some (id - 1)))
  let trace ← getArr run "trace"
  let evs ← toEvents reqs trace
  let dry := fun a => (reqs.getD a default).dry
  let isRevert := fun a => (reqs.getD a default).kind == .revert
  let isTxKind := fun a => let k := (reqs.getD a default).kind; k == .create || k == .revert
  let grant := fun a => let r := reqs.getD a default
    if r.kind == .revert then (if r.force then none else some 0) else some r.over
  let mut rejected : List Json := []
  let note (comp : String) (r : Nat × String) : Json :=
    Json.mkObj [("component", Json.str comp), ("event", toJson r.1), ("why", Json.str r.2)]
  -- Chain: also compare the final durable ids with what the store holds
  match runIdx Chain.step (Chain.reinit funding) evs with
  | .error r => rejected := rejected ++ [note "chain" r]
  | .ok s =>
    let ids := s.durable.map (·.id)
    let obs ← dur.mapM (fun j => do natOfStr (← getStr j "id"))
    if ids ≠ obs then rejected := rejected ++ [note "chain" (evs.length, s!"final persisted ids {ids} vs store {obs}")]
  match runIdx (Ack.step dry) (Ack.init funding) evs with
  | .error r => rejected := rejected ++ [note "ack" r]
  | .ok _ => pure ()
  let gEntries (key : LogE → String) : List Guard.Entry := funding.map (fun l => ⟨key l, l.id, 0⟩)
  match runIdx (fun s e => Guard.step s (Guard.ikView e)) (Guard.init (gEntries (·.ik))) evs with
  | .error r => rejected := rejected ++ [note "guard-ik" r]
  | .ok _ => pure ()
  match runIdx (fun s e => Guard.step s (Guard.refView e)) (Guard.init (gEntries (·.ref))) evs with
  | .error r => rejected := rejected ++ [note "guard-ref" r]
  | .ok _ => pure ()
  match runIdx (fun s e => Guard.step s (Guard.revView isRevert e)) (Guard.init (gEntries (fun l => Guard.revKey l.reverts))) evs with
  | .error r => rejected := rejected ++ [note "guard-revert" r]
  | .ok _ => pure ()
  match runIdx (Floor.step grant) (Floor.init funding) evs with
  | .error r => rejected := rejected ++ [note "floor" r]
  | .ok _ => pure ()
  match runIdx (Events.step dry isTxKind) (Events.init funding) evs with
  | .error r => rejected := rejected ++ [note "events" r]
  | .ok _ => pure ()
  pure (Json.mkObj [("events", toJson evs.length), ("rejected", Json.arr rejected.toArray)])

/-- input: {"requests":[…], "runs":[…]} (a scenario together with what the harness observed) -/
def handle : Handler := fun j => do
  let reqs ← (← getArr j "requests").mapM pReq
  let runs ← getArr j "runs"
  let outs ← runs.mapM (validateRun reqs)
  pure (Json.mkObj [("runs", Json.arr outs.toArray)])

end Driver.EngineD
