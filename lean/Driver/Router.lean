import Driver.Util
import Model.Router
import Generated.Routes
open Lean Driver

/-! driver of area "router" (C19): the model's `dispatch` over the REGENERATED configuration, once with the read-only
flag and once without (control stream), and the regenerated route table for the comparison with chi's `Walk`. -/
namespace Driver.RouterD
open Router

def resultJson : Result → Json
  | .rejected => Json.mkObj [("outcome", "rejected"), ("matched", ""), ("method", ""), ("writes", false), ("handler", "")]
  | .preflight => Json.mkObj [("outcome", "preflight"), ("matched", ""), ("method", ""), ("writes", false), ("handler", "")]
  | .notFound => Json.mkObj [("outcome", "notFound"), ("matched", ""), ("method", ""), ("writes", false), ("handler", "")]
  | .methodNotAllowed => Json.mkObj [("outcome", "methodNotAllowed"), ("matched", ""), ("method", ""), ("writes", false), ("handler", "")]
  | .reached r => Json.mkObj [("outcome", "reached"), ("matched", r.full), ("method", r.method), ("writes", r.writes),
      ("handler", r.version ++ "." ++ r.handler)]

def handle : Handler := fun j => do
  let op ← getStr j "op"
  if op == "walk" then
    let rs := Generated.routes.map (fun r => Json.mkObj [("method", r.method), ("pattern", r.full)])
    return Json.mkObj [("routes", Json.arr rs.toArray)]
  let parse ← getStr j "parse"
  if parse == "unparsable" then
    -- glue: net/http answers 400 before any handler runs; nothing reaches the router
    let u := Json.mkObj [("outcome", "unparsable")]
    return Json.mkObj [("ro", u), ("rw", u)]
  let req : Request := { method := ← getStr j "method", path := ← getStr j "rpath", preflight := ← getBool j "preflight" }
  pure <| Json.mkObj [
    ("ro", resultJson (dispatch Generated.config true req)),
    ("rw", resultJson (dispatch Generated.config false req))]

end Driver.RouterD
