import Driver.Util
import Driver.SqlText
import Model.Store.FilterSem
open Lean Driver

/-! Area `filtersem` (C04): one captured filter case →
* the `where` fragment the model renders for the filter (or its rejection),
* the boolean reading (`FilterSem.boolParse`) of the model's pieces, of the REAL fragment text and of the REAL whole
  `where` clause (both through the scanner `SqlText.lex`),
* the intended meaning `FilterSem.skel` of the filter, and whether reading and meaning agree under every assignment.
Glue only: how `query.ParseJSON` decodes a body into a `query.Builder`. -/
namespace Driver.FilterSemD
open SqlText FilterSem

def tokStr (t : Tok) : String :=
  let k := SqlTextD.kindStr t.1
  if t.2 == "" then k else k ++ "=" ++ t.2

def atomStr (ts : List Tok) : String := " ".intercalate (ts.map tokStr)

partial def flatAnd : BTree → List BTree
  | .and l r => flatAnd l ++ flatAnd r
  | t => [t]
partial def flatOr : BTree → List BTree
  | .or l r => flatOr l ++ flatOr r
  | t => [t]

/-- the canonical flat form shared with `checks/c04filter.py` -/
partial def treeJson : BTree → Json
  | .tt => Json.str "tt"
  | .atom ts => Json.mkObj [("atom", Json.str (atomStr ts))]
  | .not t => Json.mkObj [("not", treeJson t)]
  | .and l r => Json.mkObj [("and", jList treeJson (flatAnd (.and l r)))]
  | .or l r => Json.mkObj [("or", jList treeJson (flatOr (.or l r)))]

def optTree : Option BTree → Json
  | some t => treeJson t
  | none => Json.null

/-- `mapMapToExpression` of libs/query -/
partial def exprOfJson (ep : Endpoint) : Json → Except String Expr
  | .obj kvs =>
    match kvs.toList with
    | [(op, v)] =>
      if op == "$and" || op == "$or" then do
        let items ← (← v.getArr?).toList.mapM (exprOfJson ep)
        pure (.set (op == "$and") items)
      else if op == "$not" then do
        let x ← exprOfJson ep v
        pure (.not x)
      else if SqlTextD.validOps.contains op then
        match v with
        | .obj kv2 =>
          match kv2.toList with
          | [(k, val)] => do
            let jv ← SqlTextD.toJV val
            pure (.leaf (classifyKey ep k) op jv)
          | _ => throw "expected single key"
        | _ => throw "matcher: expected an object"
      else throw s!"unexpected operator {op}"
    | _ => throw "expected single key"
  | _ => throw "expected an object"

def endpointOf (ep : String) : Except String Endpoint :=
  if ep == "accounts" then pure .accounts
  else if ep == "transactions" then pure .transactions
  else if ep == "balances" then pure .balances
  else if ep == "logs" then pure .logs
  else throw s!"unknown endpoint {ep}"

def handle : Handler := fun j => do
  let ep ← endpointOf (← getStr j "ep")
  let pit ← getBool j "pit"
  let ledger ← getStr j "ledger"
  let ftext ← getStr j "filter"
  let frag := (getStr j "frag").toOption
  let wh := (getStr j "where").toOption
  let fj ← Json.parse ftext
  let e ← exprOfJson ep fj
  let real : List (String × Json) :=
    (match frag with | some s => [("sql_tree", optTree (boolParseSql s))] | none => []) ++
    (match wh with | some s => [("where_tree", optTree (boolParseSql s))] | none => [])
  match exprPieces ep pit ledger.toList e with
  | .error r => pure <| Json.mkObj ([("rejected", Json.str (SqlTextD.rejStr r))] ++ real)
  | .ok ps =>
    let text := String.ofList (flat ps)
    let toks := pieceToks ps
    let t := boolParse toks
    let sk := skel ep pit ledger.toList e
    pure <| Json.mkObj ([
      ("frag", Json.str text),
      ("model_tree", optTree t),
      ("sem_tree", treeJson sk),
      ("reading_is_meaning", Json.bool (match t with | some t => equivalent t sk | none => false)),
      ("pieces_scan_as_text", Json.bool (decide (toks = lex text)))] ++ real)

/-- area `boolparse`: SQL text → its boolean reading (or null) -/
def handleRead : Handler := fun j => do
  let sql ← getStr j "sql"
  pure <| Json.mkObj [("tree", optTree (boolParseSql sql))]

end Driver.FilterSemD
