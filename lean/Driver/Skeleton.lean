import Driver.Util
import Model.Engine.Skel
import Model.Engine.SkelWf
import Generated.Commander
/-! `driver_skel` — the regenerated commander skeleton against what the real Commander did.

Area `skelpaths`: input is what `enginetrace` gets (`{"requests":[…], "runs":[{"trace":[…]}…]}`).  For every request of
every run, the entries of the trace that carry its actor id are projected on the observable part of the protocol —
scheduling points, store lookups with their answers, lock / unlock, the committed log, the publication, the answer —
and the sequence must be the projection of one control path of the request's entry point in
`Generated.Commander` (a prefix of one, when the request never answered: crash, store failure).  The path must also
have decided `dry`, `ik≠''`, `ref≠''` the way the request says.  A real run that is not a path of the skeleton means the
translator (or the mapping of actions to trace entries) is wrong.

Area `skelsummary`: size of the skeleton and, per entry point, the clauses of `SkelWf.clauses` that fail, with a path. -/
open Lean Driver Engine.Skel

namespace Driver.SkelD

/-- what can be seen of a request in the trace -/
inductive Tok
  | yield (pt : String)
  | ik (found : Bool) | ref (found : Bool) | tx (found : Bool)
  | fault (what : String)
  | bal                       -- a balance read
  | balStar                   -- (expected side only) any number of balance reads
  | lock | unlock | commit
  | publish (kind : String)
  | fin (ok : Bool) (cls : String)
deriving Repr, DecidableEq

def Tok.render : Tok → String
  | .yield pt => s!"yield:{pt}" | .ik f => s!"ik:{f}" | .ref f => s!"ref:{f}" | .tx f => s!"tx:{f}"
  | .fault w => s!"fault:{w}" | .bal => "balance" | .balStar => "balance*" | .lock => "lock" | .unlock => "unlock"
  | .commit => "commit" | .publish k => s!"publish:{k}" | .fin ok c => s!"finish:{ok}:{c}"

def busKind : String → String
  | "CommittedTransactions" => "committed"
  | "RevertedTransaction" => "reverted"
  | "SavedMetadata" => "saved_meta"
  | "DeletedMetadata" => "deleted_meta"
  | k => k

/-- the observable projection of a control path -/
def expected : Path → List Tok
  | [] => []
  | .act (.yield pt) _ _ :: xs => .yield pt :: expected xs
  | .act (.readIk _) o _ :: xs => (match o with | .ok => Tok.ik true | .notFound => .ik false | .fail => .fault "ik") :: expected xs
  | .act (.readRef _) o _ :: xs => (match o with | .ok => Tok.ref true | .notFound => .ref false | .fail => .fault "ref") :: expected xs
  | .act (.readTx _) o _ :: xs => (match o with | .ok => Tok.tx true | .notFound => .tx false | .fail => .fault "tx") :: expected xs
  | .act .resolve _ _ :: xs => .balStar :: expected xs
  | .act .lock .ok _ :: xs => .lock :: expected xs
  | .act .unlock _ _ :: xs => .unlock :: expected xs
  | .act .readBalances _ _ :: xs => .balStar :: expected xs
  | .act (.append _ _) _ _ :: xs => .commit :: expected xs
  | .act (.publish k _) _ _ :: xs => .publish (busKind k) :: expected xs
  | .fin ok cls :: xs => .fin ok cls :: expected xs
  | _ :: xs => expected xs

/-- error class of the skeleton vs the harness's classification of the returned error -/
def clsMatches (cls err : String) : Bool :=
  match cls with
  | "" => err = ""
  | "NewErrConflict" => err = "conflict"
  | "NewErrNoPostings" => err = "no_postings"
  | "NewErrCompilationFailed" => err = "compilation_failed"
  | "NewErrNoScript" => err = "no_script"
  | "NewErrMachine" => err = "insufficient_funds" || err.startsWith "machine:"
  | "NewErrRevertTransactionAlreadyReverted" => err = "already_reverted"
  | "NewErrRevertTransactionOccurring" => err = "revert_occurring"
  | "NewErrRevertTransactionNotFound" => err = "not_found"
  | "newErrSaveMetadataTransactionNotFound" => err = "not_found"
  | "newErrDeleteMetadataTransactionNotFound" => err = "not_found"
  | "call" => err = "ik_taken" || err.startsWith "other:"
  | "panic" => err.startsWith "panic"
  | _ => err.startsWith "other:"

def tokMatches : Tok → Tok → Bool
  | .fin ok cls, .fin ok' err => ok = ok' && clsMatches cls err
  | a, b => a = b

/-- `exp` against `obs`; `whole = false`: `obs` may stop early -/
def matchToks (whole : Bool) : List Tok → List Tok → Bool
  | .balStar :: es, .bal :: os => matchToks whole (.balStar :: es) os
  | .balStar :: es, os => matchToks whole es os
  | [], [] => true
  | _ :: _, [] => !whole
  | [], _ :: _ => false
  | e :: es, o :: os => tokMatches e o && matchToks whole es os
termination_by es os => es.length + os.length

/-- the trace entries of actor `a`, projected -/
def observed (a : Nat) : List Json → List Tok
  | [] => []
  | j :: rest =>
    let tail := observed a rest
    if let .ok e := j.getObjVal? "event" then
      (match e.getObjValAs? Nat "a" with
       | .ok b => if b = a then Tok.publish ((getStr e "type").toOption.getD "?") :: tail else tail
       | .error _ => tail)
    else match j.getObjValAs? Int "a" with
    | .error _ => tail
    | .ok b =>
      if b ≠ (a : Int) then tail else
      if let .ok pt := getStr j "arrive" then (if pt = "start" then tail else .yield pt :: tail)
      else if (j.getObjVal? "finish").isOk then
        [Tok.fin ((getBool j "ok").toOption.getD false) ((getStr j "err").toOption.getD "panic")]
      else if let .ok st := getStr j "store" then
        (match st with
         | "ik" => Tok.ik ((optObj j "found").isSome) :: tail
         | "ref" => Tok.ref ((getBool j "found").toOption.getD false) :: tail
         | "tx" => Tok.tx ((getBool j "found").toOption.getD false) :: tail
         | "balance" => Tok.bal :: tail
         | "fault" => Tok.fault ((getStr j "what").toOption.getD "?") :: tail
         | _ => tail)
      else if (j.getObjVal? "lock").isOk then .lock :: tail
      else if (j.getObjVal? "unlock").isOk then .unlock :: tail
      else if (j.getObjVal? "committed").isOk then .commit :: tail
      else tail

def entryOf : String → String
  | "create" => "CreateTransaction" | "revert" => "RevertTransaction" | "setmeta" => "SaveMeta" | _ => "DeleteMetadata"

/-- the path decided the request's own parameters the way the request says -/
def agrees (dry hasIk hasRef : Bool) (p : Path) : Bool :=
  p.all (fun x => match x with
    | .choose "dry" b => b = dry
    | .choose "ik≠''" b => b = hasIk
    | .choose "ref≠''" b => b = hasRef
    | _ => true)

structure Table where
  ep : String
  rows : List (Path × List Tok)

def tables : List Table :=
  Generated.Commander.entryPoints.map (fun e => ⟨e.1, (paths e.1 e.2).map (fun p => (p, expected p))⟩)

def checkRun (reqs : List Json) (run : Json) : Except String Json := do
  let trace ← getArr run "trace"
  let mut bad : List Json := []
  let mut n := 0
  for (q, a) in reqs.zipIdx do
    let obs := observed a trace
    if obs.isEmpty then continue
    n := n + 1
    let ep := entryOf ((getStr q "kind").toOption.getD "")
    let dry := (getBool q "dry").toOption.getD false
    let hasIk := ((getStr q "ik").toOption.getD "") ≠ ""
    let hasRef := ((getStr q "ref").toOption.getD "") ≠ ""
    let whole := match obs.getLast? with | some (.fin _ _) => true | _ => false
    let rows := ((tables.find? (·.ep = ep)).map (·.rows)).getD []
    if !(rows.any (fun r => agrees dry hasIk hasRef r.1 && matchToks whole r.2 obs)) then
      bad := bad ++ [Json.mkObj [("actor", toJson a), ("entry_point", Json.str ep), ("answered", toJson whole),
        ("observed", Json.arr (obs.map (fun t => Json.str t.render)).toArray)]]
  pure (Json.mkObj [("requests", toJson n), ("not_a_path", Json.arr bad.toArray)])

def handlePaths : Handler := fun j => do
  let reqs ← getArr j "requests"
  let runs ← getArr j "runs"
  let outs ← runs.mapM (checkRun reqs)
  pure (Json.mkObj [("runs", Json.arr outs.toArray)])

def renderItem : Item → String
  | .act a o v => s!"{reprStr a}{if o = .ok then "" else if o = .notFound then " → not found" else " → error"}{if v = .direct then "" else if v = .deferred then " (deferred)" else " (terminated)"}"
  | .choose a b => s!"[{a} = {b}]"
  | .fin ok cls => s!"return {if ok then "ok" else "error " ++ cls}"
  | .panic w => s!"panic {w}"

def handleSummary : Handler := fun _ => do
  let eps := Generated.Commander.entryPoints.map (fun e =>
    let ps := paths e.1 e.2
    let fails := ps.filterMap (fun p => let f := failing e.1 p; if f.isEmpty then none else some (f, p))
    let names := (fails.flatMap (·.1)).eraseDups
    Json.mkObj [("entry_point", Json.str e.1), ("paths", toJson ps.length),
      ("longest", toJson ((ps.map List.length).foldl max 0)),
      ("items", toJson ((ps.map List.length).foldl (· + ·) 0)),
      ("clauses", toJson (clauses e.1).length),
      ("failing_clauses", Json.arr (names.map Json.str).toArray),
      ("failing_example", match fails.head? with
        | some (f, p) => Json.mkObj [("clauses", Json.arr (f.map Json.str).toArray), ("path", Json.arr ((tagged p).map (fun x => Json.str (renderItem x))).toArray)]
        | none => Json.null)])
  pure (Json.mkObj [("entry_points", Json.arr eps.toArray)])

end Driver.SkelD
