import Driver.Util
import Model.Paginate
import Model.Cursor
/-! Driver of area "paginate" (C17): the same cases as `harness/paginate.go`, answered by the model.
Glue only: JSON in/out, the traversal protocol of the harness (which pages are asked for), and the canonical
rendering of queries and filters. -/
open Lean Driver Paginate Cursor

namespace Driver.PaginateD

partial def toJVal : Json → JVal
  | .null => .null
  | .bool b => .bool b
  | .num n => .num n.mantissa n.exponent
  | .str s => .str s
  | .arr a => .arr (a.toList.map toJVal)
  | .obj kvs => .obj (kvs.toList.map (fun (k, v) => (k, toJVal v)))

partial def ofJVal : JVal → Json
  | .null => .null
  | .bool b => .bool b
  | .num m e => .num ⟨m, e⟩
  | .str s => .str s
  | .arr xs => .arr (xs.map ofJVal).toArray
  | .obj kvs => Json.mkObj (kvs.map (fun (k, v) => (k, ofJVal v)))

/-- what `Build` hands to the recording context of the harness: clause text and arguments -/
partial def render : Filter → String × List JVal
  | .kv op key value => (key ++ " " ++ op.name ++ " ?", [value])
  | .not e => let (c, a) := render e; ("not (" ++ c ++ ")", a)
  | .set op items =>
    if items.isEmpty then ("1 = 1", []) else
    let rs := items.map render
    let opn := match op with | .and => "and" | .or => "or"
    ("(" ++ String.intercalate (") " ++ opn ++ " (") (rs.map (·.1)) ++ ")", rs.flatMap (·.2))

def jOptInt : Option Int → Json
  | none => .null
  | some n => jInt n

def jFilter : Option Filter → Json
  | none => .null
  | some f => let (c, a) := render f; Json.mkObj [("clause", .str c), ("args", jList ofJVal a)]

def canonOpts (o : Opts) : Json :=
  let base := [("filter", jFilter o.qb), ("optPageSize", Json.str (toString o.pageSize))]
  match o.extra with
  | .pitVol pit v e => Json.mkObj (base ++ [("pit", match pit with | none => .null | some s => .str s), ("vol", .bool v), ("eff", .bool e)])
  | .any v => Json.mkObj (base ++ [("any", ofJVal v)])

def canonCol (q : ColQuery Opts) : Json :=
  Json.mkObj [("pageSize", .str (toString q.pageSize)), ("bottom", jOptInt q.bottom), ("column", .str q.column),
    ("paginationID", jOptInt q.paginationID), ("order", .str (toString (Order.code q.order))), ("reverse", .bool q.reverse),
    ("opts", canonOpts q.filters)]

def canonOff (q : OffQuery Opts) : Json :=
  Json.mkObj [("pageSize", .str (toString q.pageSize)), ("offset", .str (toString q.offset)),
    ("order", .str (toString (Order.code q.order))), ("opts", canonOpts q.filters)]

def optStr (j : Json) (k : String) : Option String :=
  match optObj j k with
  | some (.str s) => some s
  | _ => none

def optInt' (j : Json) (k : String) : Except String (Option Int) :=
  match optObj j k with
  | none => pure none
  | some _ => do let n ← getInt j k; pure (some n)

def flag (j : Json) (k : String) : Bool := (getBool j k).toOption.getD false

def getOrder (j : Json) (k : String) : Order :=
  match optStr j k with
  | some "desc" => .desc
  | _ => .asc

def getTable (j : Json) : Except String (List Row) := do
  let ids ← getArr j "ids"
  let grps := (getArr j "grps").toOption.getD []
  let rec go (ids grps : List Json) : Except String (List Row) :=
    match ids with
    | [] => pure []
    | i :: is => do
      let id ← match i with
        | .str s => match s.toInt? with | some n => pure n | none => throw s!"bad id {s}"
        | .num n => pure n.mantissa
        | _ => throw "bad id"
      let g : Int := match grps.head? with | some (.num n) => n.mantissa | _ => 0
      let rest ← go is grps.tail
      pure (⟨id, g⟩ :: rest)
  go ids grps

def getKeep (j : Json) : Except String (Row → Bool) := do
  match ← optInt' j "g" with
  | none => pure (fun _ => true)
  | some g => pure (fun r => r.grp == g)

/-- the body of a v2 request: empty = no filter; otherwise JSON text read by `ParseJSON` -/
def parseBody (body : String) : Except String (Option Filter) :=
  if body.isEmpty then pure none else
  match Json.parse body with
  | .error e => throw e
  | .ok j => (decodeFilter (toJVal j)).map some

/-- a filter built with the constructors of package query (v1 endpoints) -/
partial def buildV1 (t : Json) : Except String Filter := do
  if let some xs := (getArr t "and").toOption then return .set .and (← xs.mapM buildV1)
  if let some xs := (getArr t "or").toOption then return .set .or (← xs.mapM buildV1)
  if let some x := optObj t "not" then return .not (← buildV1 x)
  let key ← getStr t "key"
  let value := toJVal ((t.getObjVal? "value").toOption.getD .null)
  let op := match kvOpOf ((getStr t "op").toOption.getD "$match") with | some o => o | none => .match
  return .kv op key value

/-- `none` = the request is refused because the filter cannot be read -/
def getFilter (j : Json) : Except String (Option (Option Filter)) := do
  match optObj j "filter" with
  | none => pure (some none)
  | some f =>
    match optObj f "v1" with
    | some t => pure (some (some (← buildV1 t)))
    | none =>
      let body := (getStr f "body").toOption.getD ""
      match parseBody body with
      | .ok qb => pure (some qb)
      | .error _ => pure none

def pitVolOpts (j : Json) (qb : Option Filter) (ps : Nat) : Opts :=
  ⟨qb, ps, .pitVol (optStr j "pit") (flag j "vol") (flag j "eff")⟩

def jToken {Q} (enc : Q → JVal) : Option Q → Json
  | none => .null
  | some q => ofJVal (enc q)

def jIds (rs : List Row) : Json := jList (fun r => Json.str (toString r.id)) rs

def jPage {Q} (enc : Q → JVal) (p : Page Q) : Json :=
  Json.mkObj [("data", jIds p.data), ("hasMore", .bool p.hasMore), ("next", jToken enc p.next), ("previous", jToken enc p.previous)]

/-- a page reduced to what the resume walks report: ids, `hasMore`, and whether a `next` token came with it -/
def jLite {Q} (p : Page Q) : List (String × Json) :=
  [("data", jIds p.data), ("hasMore", .bool p.hasMore), ("hasNext", .bool p.next.isSome)]

/-- `Iterate` started from query `q` (the harness's `resumeOut`) -/
def resumeOut {Q} (step : Q → Option (Page Q)) (xfer : Q → Option Q) (fuel : Nat) (q : Q) : Json :=
  match walk step xfer fuel q with
  | none => Json.mkObj [("pages", Json.arr #[]), ("error", Json.str "model")]
  | some pages => Json.mkObj [("pages", jList (fun p => Json.mkObj (jLite p)) pages), ("error", Json.null)]

/-- the traversal the harness performs, on the model: forward along `next`, `previous` from every page, `next`
of the page so reached and the forward walk resumed from that page, and the whole way back from the last page -/
def walkOut {Q} (enc : Q → JVal) (step : Q → Option (Page Q)) (xfer : Q → Option Q) (fuel : Nat) (q0 : Q) : Json :=
  match walk step xfer fuel q0 with
  | none => Json.mkObj [("error", Json.str "model: the walk did not end")]
  | some pages =>
    let indexed := (List.range pages.length).zip pages
    let prevs := indexed.filterMap (fun (k, pg) =>
      match pg.previous with
      | none => none
      | some pq =>
        match xfer pq with
        | none => some (Json.mkObj [("from", toJson k), ("error", Json.str "model")])
        | some pq' =>
          match step pq' with
          | none => some (Json.mkObj [("from", toJson k), ("error", Json.str "model")])
          | some pp =>
            let back := match pp.next with
              | none => Json.null
              | some nq => match xfer nq >>= step with
                | none => Json.str "model"
                | some np => jIds np.data
            some (Json.mkObj [("from", toJson k), ("page", jPage enc pp), ("resume", resumeOut step xfer fuel pq'), ("back", back)]))
    let backPages : List (Page Q) := match pages.getLast? with
      | none => []
      | some last =>
        match last.previous with
        | none => []
        | some pq =>
          match xfer pq with
          | none => []
          | some q' => (walkBack step xfer fuel q').getD []
    let backwalk := backPages.map (fun (p : Page Q) => jIds p.data)
    let backflags := backPages.map (fun (p : Page Q) => Json.mkObj [("hasMore", .bool p.hasMore), ("hasNext", .bool p.next.isSome)])
    Json.mkObj [("pages", jList (jPage enc) pages), ("error", Json.null), ("prevs", Json.arr prevs.toArray),
      ("backwalk", Json.arr backwalk.toArray), ("backflags", Json.arr backflags.toArray)]

/-- over HTTP: the client is on page `pg` and sends `next` back until `hasMore` is false; one entry per response -/
def followHttp {Q} (step : Q → Option (Page Q)) (xfer : Q → Option Q) : Nat → Page Q → List Json
  | 0, _ => []
  | fuel + 1, pg =>
    if pg.hasMore then
      match pg.next >>= xfer with
      | none => [Json.mkObj [("status", toJson (400 : Nat))]]
      | some q' =>
        match step q' with
        | none => [Json.mkObj [("status", toJson (500 : Nat))]]
        | some np => Json.mkObj ([("status", toJson (200 : Nat))] ++ jLite np) :: followHttp step xfer fuel np
    else []

def resOut {Q} (enc : Q → JVal) : Res Q → Json
  | .ok p => Json.mkObj [("res", Json.str "ok"), ("page", jPage enc p)]
  | .sqlError => Json.mkObj [("res", Json.str "sql_error")]
  | .panic => Json.mkObj [("res", Json.str "panic")]

def decOut {Q} (canon : Q → Json) : Dec Q → List (String × Json)
  | .ok q => [("accepted", .bool true), ("after", canon q)]
  | .refused _ => [("accepted", .bool false)]
  | .oddOrder n => [("accepted", .bool true), ("odd_order", jInt n)]

def endpointMode (ep : String) : Bool × Order × ExtraKind :=   -- (column paginated?, order, options type)
  match ep with
  | "v2tx" | "v1tx" => (true, .desc, .pitVol)
  | "v2logs" | "v1logs" => (true, .desc, .any)
  | _ => (false, .asc, .pitVol)

def handle : Handler := fun j => do
  let kind ← getStr j "kind"
  match kind with
  | "colwalk" | "offwalk" | "colstep" | "offstep" =>
    let tbl ← getTable j
    let keep ← getKeep j
    let ps ← getNat j "ps"
    let order := getOrder j "order"
    match parseBody ((getStr j "body").toOption.getD "") with
    | .error _ => pure (Json.mkObj [("parse", Json.str "error")])
    | .ok qb =>
      let opts := pitVolOpts j qb ps
      let fuel := tbl.length + 3
      match kind with
      | "colwalk" => pure (walkOut encodeCol (stepCol tbl keep) xferCol fuel (firstCol ps order opts))
      | "offwalk" => pure (walkOut encodeOff (stepOff tbl keep order) xferOff fuel (firstOff ps order opts))
      | "colstep" =>
        let qj ← getObj j "q"
        let q : ColQuery Opts := ⟨ps, ← optInt' qj "bottom", ← getStr qj "column", ← optInt' qj "pid", order, opts, flag qj "reverse"⟩
        pure (resOut encodeCol (pageCol tbl keep q))
      | _ =>
        let qj ← getObj j "q"
        let q : OffQuery Opts := ⟨← getNat qj "offset", getOrder qj "order", ps, opts⟩
        pure (resOut encodeOff (.ok (pageOff tbl keep order q)))
  | "cursor" =>
    match ← getFilter j with
    | none => pure (Json.mkObj [("parse", Json.str "error")])
    | some qb =>
      let ps ← getNat j "ps"
      let qj ← getObj j "q"
      let qtype ← getStr j "qtype"
      let head := [("parse", Json.str "ok")]
      match qtype with
      | "acc" =>
        let q : OffQuery Opts := { firstOff ps .asc (pitVolOpts j qb ps) with offset := ← getNat qj "offset" }
        let tok := encodeOff q
        pure (Json.mkObj (head ++ [("token", ofJVal tok), ("before", canonOff q)] ++ decOut canonOff (decodeOff .pitVol tok)))
      | _ =>
        let opts : Opts := if qtype == "tx" then pitVolOpts j qb ps else ⟨qb, ps, .any .null⟩
        let q : ColQuery Opts := { firstCol ps .desc opts with
          bottom := ← optInt' qj "bottom", paginationID := ← optInt' qj "pid", reverse := flag qj "reverse" }
        let tok := encodeCol q
        pure (Json.mkObj (head ++ [("token", ofJVal tok), ("before", canonCol q)] ++ decOut canonCol (decodeCol opts.extra.kind tok)))
  | "token" =>
    let v := toJVal ((j.getObjVal? "json").toOption.getD .null)
    match ← getStr j "qtype" with
    | "acc" => pure (Json.mkObj (decOut canonOff (decodeOff .pitVol v)))
    | "tx" => pure (Json.mkObj (decOut canonCol (decodeCol .pitVol v)))
    | _ => pure (Json.mkObj (decOut canonCol (decodeCol .any v)))
  | "http" =>
    let tbl ← getTable j
    let keep ← getKeep j
    let ps0 ← getNat j "ps"
    let epName ← getStr j "endpoint"
    -- `bunpaginate.GetPageSize`: a page size above the API version's maximum (v1: 1000, v2: 100) is replaced by that maximum
    let psMax := if epName.startsWith "v1" then 1000 else 100
    let ps := if ps0 > psMax then psMax else ps0
    let (col, order, ek) := endpointMode epName
    match ← getFilter j with
    | none => pure (Json.mkObj [("steps", Json.arr #[Json.mkObj [("status", toJson (400 : Nat))]]), ("prevs", Json.arr #[])])
    | some qb =>
      let opts : Opts := match ek with | .pitVol => pitVolOpts j qb ps | .any => ⟨qb, ps, .any .null⟩
      let fuel := tbl.length + 3
      -- one response per query visited; the query the backend receives is the one the token stood for
      let run {Q} (enc : Q → JVal) (canon : Q → Json) (step : Q → Option (Page Q)) (xfer : Q → Option Q) (q0 : Q) : Json :=
        let rec go (fuel : Nat) (q : Q) (k : Nat) : List Json × List Json :=
          match fuel with
          | 0 => ([], [])
          | fuel + 1 =>
            match step q with
            | none => ([Json.mkObj [("status", toJson (500 : Nat))]], [])
            | some pg =>
              let st := Json.mkObj [("status", toJson (200 : Nat)), ("query", canon q), ("data", jIds pg.data), ("hasMore", .bool pg.hasMore),
                ("next", jToken enc pg.next), ("previous", jToken enc pg.previous)]
              let pv := match pg.previous with
                | none => []
                | some pq => match xfer pq with
                  | none => [Json.mkObj [("from", toJson k), ("status", toJson (400 : Nat))]]
                  | some pq' => match step pq' with
                    | none => [Json.mkObj [("from", toJson k), ("status", toJson (500 : Nat))]]
                    | some pp => [Json.mkObj ([("from", toJson k), ("status", toJson (200 : Nat)), ("query", canon pq')] ++ jLite pp ++
                        [("resume", Json.arr (followHttp step xfer (tbl.length + 4) pp).toArray)])]
              if pg.hasMore then
                match pg.next >>= xfer with
                | none => ([st, Json.mkObj [("status", toJson (400 : Nat))]], pv)
                | some q' => let (a, b) := go fuel q' (k + 1); (st :: a, pv ++ b)
              else ([st], pv)
        let (steps, prevs) := go fuel q0 0
        Json.mkObj [("steps", Json.arr steps.toArray), ("prevs", Json.arr prevs.toArray)]
      if col then pure (run encodeCol canonCol (stepCol tbl keep) xferCol (firstCol ps order opts))
      else pure (run encodeOff canonOff (stepOff tbl keep order) xferOff (firstOff ps order opts))
  | _ => throw s!"unknown kind {kind}"

end Driver.PaginateD
