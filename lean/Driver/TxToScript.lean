import Driver.Util
import Driver.Numscript
import Model.TxToScript
open Lean Driver Num Num.Tx

namespace Driver.TxToScriptD

/-- a posting of the input; `none` when its amount is absent -/
def pPosting (j : Json) : Except String (Option Posting) := do
  let s ← getStr j "source"
  let d ← getStr j "destination"
  let a ← getStr j "asset"
  match j.getObjVal? "amount" with
  | .ok (.str t) => match t.toInt? with
    | some n => pure (some ⟨s, d, n, a⟩)
    | none => throw s!"bad amount {t}"
  | _ => pure none

def jOutcome : Outcome → Json
  | .committed ps md => Json.mkObj [
      ("postings", jList (fun (p : Posting) => Json.arr #[Json.str p.src, Json.str p.dst, Json.str (toString p.amt), Json.str p.asset]) ps),
      ("meta", Json.mkObj (md.map (fun kv => (kv.1, Json.str kv.2))))]
  | .insufficient => Json.mkObj [("err", Json.str "insufficient_funds")]
  | .rejected => Json.mkObj [("err", Json.str "rejected")]

def jVars (vs : List (String × String)) : Json := Json.mkObj (vs.map (fun kv => (kv.1, Json.str kv.2)))

def handle : Handler := fun j => do
  let raw ← (← getArr j "postings").mapM pPosting
  let bal := NumscriptD.triples j "bal"
  let store : Store := {
    balance := fun a s => match bal.find? (fun t => t.1 = a ∧ t.2.1 = s) with
      | some t => t.2.2.toInt?.getD 0
      | none => 0,
    accountMeta := fun _ _ => none }
  let md := NumscriptD.strMap j "meta"
  if raw.any Option.isNone then
    -- glue: an absent amount is not a value of the model's `Posting`; Go prints it as "<nil>", which is neither a
    -- JSON number for `Validate` nor a monetary for the machine: every path refuses the request
    return Json.mkObj [("script", Json.null), ("vars", Json.null), ("scriptF", Json.null), ("varsF", Json.null),
      ("v2", jOutcome .rejected), ("v1", jOutcome .rejected)]
  let ps := raw.filterMap id
  let (s, vs) := txToScript ps false
  let (sf, vf) := txToScript ps true
  pure <| Json.mkObj [
    ("script", Json.str (render s)), ("vars", jVars vs),
    ("scriptF", Json.str (render sf)), ("varsF", jVars vf),
    ("v2", jOutcome (submitV2 ps md store)),
    ("v1", jOutcome (submitV1 ps md store))]

end Driver.TxToScriptD
