import Driver.Util
import Driver.Store
import Model.Store.Project
import Model.Store.Search
/-! Driver of areas `storesql` and `storesql-enum` (C04 stage 2): bucket histories (the same input lines as `storeview`, or
an exhaustive enumeration of small ones) run through the GENERATED PL/pgSQL projection (`StoreSql.project`) and compared,
inside Lean, with `Store.replay`.  A discrepancy comes with the shape of history that explains it, or `unexplained`. -/
open Lean Driver

namespace Driver.StoreSqlD
open Store StoreSql

def jMetaObj (m : Meta) : Json := Json.mkObj (m.map (fun kv => (kv.1, Json.str kv.2)))

def jTxIn (tx : Tx) : Json := Json.mkObj [
  ("id", toJson tx.id),
  ("postings", jList (fun (p : Posting) => Json.mkObj [("source", Json.str p.source), ("destination", Json.str p.destination),
      ("asset", Json.str p.asset), ("amount", Json.str (toString p.amount))]) tx.postings),
  ("metadata", jMetaObj tx.metadata), ("timestamp", toJson tx.timestamp), ("reference", Json.str tx.reference)]

def jTarget : Target → List (String × Json)
  | .account a => [("targetType", Json.str "ACCOUNT"), ("targetId", Json.str a)]
  | .transaction id => [("targetType", Json.str "TRANSACTION"), ("targetId", toJson id)]

/-- a log entry in the input format of the `storeview` / `storesql` areas -/
def jLog (l : CLog) : Json :=
  Json.mkObj ([("ledger", Json.str l.ledger), ("id", toJson l.id), ("date", toJson l.date), ("ik", Json.str l.ik),
    ("type", Json.str (typeName l.payload))] ++
    (match l.payload with
     | .newTx tx am => [("tx", jTxIn tx), ("accountMetadata", Json.mkObj (am.map (fun km => (km.1, jMetaObj km.2))))]
     | .revert rid tx => [("revertedId", toJson rid), ("tx", jTxIn tx)]
     | .setMeta t m => jTarget t ++ [("metadata", jMetaObj m)]
     | .delMeta t k => jTarget t ++ [("key", Json.str k)]))

def jDisc (lo : List (CLog × Int)) (d : Disc) : Json := Json.mkObj [
  ("ledger", Json.str d.ledger), ("class", Json.str d.cls), ("account", Json.str d.account), ("asset", Json.str d.asset),
  ("date", toJson d.date), ("tx", toJson d.tx), ("explanation", Json.str (explanation lo d))]

/-- `tx.tz`: the UTC offset, in minutes, the transaction timestamp is written with -/
def offsetsOf (j : Json) : Except String (List Int) := do
  (← getArr j "logs").mapM (fun l => pure (match optObj l "tx" with
    | some tx => (match getInt tx "tz" with | .ok m => m * 60000000 | .error _ => 0)
    | none => 0))

def handle : Handler := fun j => do
  let logs ← Driver.StoreD.parseLogs j
  let lo := logs.zip (← offsetsOf j)
  let ds := discrepanciesO lo
  let fr := frameBad logs
  let db := projectO lo
  pure <| Json.mkObj [
    ("discrepancies", Json.arr (ds.map (jDisc lo)).toArray),
    ("frame", Json.arr (fr.map (fun (n : Nat) => toJson n)).toArray),
    ("wellFormed", toJson (wellFormedHistory logs)),
    ("rows", Json.mkObj [("transactions", toJson db.transactions.length), ("moves", toJson db.moves.length), ("accounts", toJson db.accounts.length),
      ("transactions_metadata", toJson db.transactions_metadata.length), ("accounts_metadata", toJson db.accounts_metadata.length), ("logs", toJson db.logs.length)])]

/-- a cell of a projected row, for the evaluation of captured read statements outside Lean (area `storesql-moves`): integers as decimal
strings (amounts exceed 2^63), timestamps as numbers (µs), a `volumes` value as `[inputs, outputs]` -/
def jVal : Sql.Val → Json
  | .null => Json.null
  | .bool b => Json.bool b
  | .int i => Json.str (toString i)
  | .text s => Json.str s
  | .numtext n => Json.str (toString n)
  | .ts t => toJson t
  | .tstext w o => Json.mkObj [("wall", toJson w), ("off", toJson o)]
  | .vol i o => Json.arr #[jVal i, jVal o]
  | .json _ => Json.str "<json>"
  | .jsontext _ => Json.str "<jsontext>"

/-- area `storesql-moves`: the rows of `moves` after the GENERATED trigger chain has projected the history (same input lines as `storesql`) -/
def handleMoves : Handler := fun j => do
  let logs ← Driver.StoreD.parseLogs j
  let lo := logs.zip (← offsetsOf j)
  let db := projectO lo
  pure <| Json.mkObj [("moves", Json.arr (db.moves.map (fun (r : Schema.MovesRow) => Json.mkObj [
    ("seq", jVal r.seq), ("ledger", jVal r.ledger), ("account_address", jVal r.account_address), ("asset", jVal r.asset),
    ("insertion_date", jVal r.insertion_date), ("effective_date", jVal r.effective_date),
    ("post_commit_volumes", jVal r.post_commit_volumes), ("post_commit_effective_volumes", jVal r.post_commit_effective_volumes),
    ("is_source", jVal r.is_source), ("amount", jVal r.amount)])).toArray)]

structure Acc where
  histories : Nat := 0
  discrepant : Nat := 0
  frameBreaks : Nat := 0
  wellFormed : Nat := 0
  counts : List (String × Nat) := []          -- "class | explanation" -> histories showing it
  witnesses : List (String × List CLog) := []  -- first (hence shortest) history per key

def bump (k : String) : List (String × Nat) → List (String × Nat)
  | [] => [(k, 1)]
  | (k', n) :: rest => if k' == k then (k', n + 1) :: rest else (k', n) :: bump k rest

def handleEnum : Handler := fun j => do
  let depth ← getNat j "depth"
  let acc := (Search.histories depth).foldl (fun (acc : Acc) logs =>
    let ds := discrepancies logs
    let fr := frameBad logs
    let keys := ((ds.map (fun d => d.cls ++ " | " ++ explanation (logs.map (fun l => (l, 0))) d)) ++ (if fr.isEmpty then [] else ["frame | unexplained"])).eraseDups
    { histories := acc.histories + 1,
      discrepant := if keys.isEmpty then acc.discrepant else acc.discrepant + 1,
      frameBreaks := if fr.isEmpty then acc.frameBreaks else acc.frameBreaks + 1,
      wellFormed := if wellFormedHistory logs then acc.wellFormed + 1 else acc.wellFormed,
      counts := keys.foldl (fun c k => bump k c) acc.counts,
      witnesses := keys.foldl (fun w k => if w.any (fun x => x.1 == k) then w else w ++ [(k, logs)]) acc.witnesses }) {}
  pure <| Json.mkObj [
    ("depth", toJson depth), ("histories", toJson acc.histories), ("discrepant", toJson acc.discrepant), ("frameBreaks", toJson acc.frameBreaks),
    ("wellFormed", toJson acc.wellFormed),
    ("counts", Json.mkObj (acc.counts.map (fun kn => (kn.1, toJson kn.2)))),
    ("witnesses", Json.arr (acc.witnesses.map (fun w => Json.mkObj [("key", Json.str w.1),
        ("ledgers", Json.arr ((ledgersOf w.2).map Json.str).toArray), ("logs", Json.arr (w.2.map jLog).toArray)])).toArray)]

end Driver.StoreSqlD
