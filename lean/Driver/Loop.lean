import Driver.Util
/-! the read-a-line / answer-a-line loop shared by the driver executables -/
open Lean
namespace Driver

partial def loop (h : IO.FS.Stream) (out : IO.FS.Stream) (f : Handler) : IO Unit := do
  let line ← h.getLine
  if line.isEmpty then return ()
  let t := line.trimAscii.toString
  if t.isEmpty then loop h out f else
  let res : Json := match Json.parse t with
    | .error e => Json.mkObj [("id", Json.null), ("out", Json.mkObj [("driver_error", Json.str e)])]
    | .ok j =>
      let id := (j.getObjVal? "id").toOption.getD Json.null
      match f j with
      | .ok o => Json.mkObj [("id", id), ("out", o)]
      | .error e => Json.mkObj [("id", id), ("out", Json.mkObj [("driver_error", Json.str e)])]
  out.putStrLn res.compress
  loop h out f

def mainWith (name : String) (areas : List (String × Handler)) (args : List String) : IO UInt32 := do
  match args with
  | [area] =>
    match areas.find? (·.1 == area) with
    | some (_, f) =>
      loop (← IO.getStdin) (← IO.getStdout) f
      (← IO.getStdout).flush
      return 0
    | none => IO.eprintln s!"unknown area {area}"; return 2
  | _ => IO.eprintln s!"usage: {name} <area>"; return 2

end Driver
