import Driver.Util
import Driver.Numscript
import Model.Numscript.Compile
open Lean Driver Num

/-! area "nsbytecode": `Compile.compile` + `encode` (bytecode equality) and `VM.run` of the compiled model program
(VM differential) on the inputs of area "numscript". -/
namespace Driver.BytecodeD

def hexDigit (n : Nat) : Char := if n < 10 then Char.ofNat (48 + n) else Char.ofNat (87 + n)

def hexOf (bs : List UInt8) : String :=
  String.ofList (bs.flatMap (fun b => [hexDigit (b.toNat / 16), hexDigit (b.toNat % 16)]))

def jNat (n : Nat) : Json := Json.num (JsonNumber.fromNat n)

def renderResource : Resource → Json
  | .const v => Json.arr #[Json.str "const", jNat v.bty.code, Json.str (v.render.getD "?")]
  | .var ty name => Json.arr #[Json.str "var", jNat ty.toB.code, Json.str name]
  | .varMeta ty name a key => Json.arr #[Json.str "meta", jNat ty.toB.code, Json.str name, jNat a, Json.str key]
  | .varBalance name a s => Json.arr #[Json.str "balance", Json.str name, jNat a, jNat s]
  | .monetary a n => Json.arr #[Json.str "mon", jNat a, Json.str (toString n)]

def renderProgram (p : Program) : Json :=
  let needed := (p.needed.mergeSort (fun x y => x.1 ≤ y.1)).map (fun e =>
    Json.arr #[jNat e.1, jList jNat (sortAddrs e.2)])
  Json.mkObj [
    ("code", Json.str (hexOf (encode p.instrs))),
    ("res", jList renderResource p.resources),
    ("needed", Json.arr needed.toArray),
    ("sources", jList jNat p.sources)]

def handle : Handler := fun j => do
  let P ← NumscriptD.pScript (← getObj j "ast")
  match compile P with
  | .error _ => pure (Json.mkObj [("compile", Json.str "error")])
  | .ok prog => pure (Json.mkObj [("compile", renderProgram prog)])

end Driver.BytecodeD
