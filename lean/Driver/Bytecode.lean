import Driver.Util
import Driver.Numscript
import Model.Numscript.VM
open Lean Driver Num

/-! area "nsbytecode": `Compile.compile` + `encode` (bytecode equality) and `VM.run` of the compiled model program
(VM differential) on the inputs of area "numscript". -/
namespace Driver.BytecodeD

def hexDigit (n : Nat) : Char := if n < 10 then Char.ofNat (48 + n) else Char.ofNat (87 + n)

def hexOf (bs : List UInt8) : String :=
  String.ofList (bs.flatMap (fun b => [hexDigit (b.toNat / 16), hexDigit (b.toNat % 16)]))

def jNat (n : Nat) : Json := Json.num (JsonNumber.fromNat n)

def renderResource : Resource → Json
  | .const v => Json.arr #[Json.str "const", jNat v.bty.code, Json.str (v.render.getD "?")]
  | .var ty name => Json.arr #[Json.str "var", jNat ty.toB.code, Json.str name]
  | .varMeta ty name a key => Json.arr #[Json.str "meta", jNat ty.toB.code, Json.str name, jNat a, Json.str key]
  | .varBalance name a s => Json.arr #[Json.str "balance", Json.str name, jNat a, jNat s]
  | .monetary a n => Json.arr #[Json.str "mon", jNat a, Json.str (toString n)]

def renderProgram (p : Program) : Json :=
  let needed := (p.needed.mergeSort (fun x y => x.1 ≤ y.1)).map (fun e =>
    Json.arr #[jNat e.1, jList jNat (sortAddrs e.2)])
  Json.mkObj [
    ("code", Json.str (hexOf (encode p.instrs))),
    ("res", jList renderResource p.resources),
    ("needed", Json.arr needed.toArray),
    ("sources", jList jNat p.sources)]

def uniqSortedNoWorld (l : List String) : List String :=
  NumscriptD.sortStr ((l.filter (· ≠ "world")).eraseDups)

def panicName : VM.PanicKind → String
  | .popEmpty => "popEmpty" | .popType _ => "popType" | .nilAmount => "nilAmount" | .bumpRange => "bumpRange"
  | .nilMap => "nilMap" | .saveType => "saveType" | .stackNotEmpty => "stackNotEmpty" | .metaType => "metaType"
  | .emptyProgram => "emptyProgram" | .resolveNil => "resolveNil" | .resolveType _ => "resolveType"

def renderRun : VM.Outcome VM.Result → Json
  | .panic k => Json.mkObj [("panic", Json.str (panicName k))]
  | .error e => Json.mkObj [("err", Json.str e.toString)]
  | .ok r =>
    let accts := NumscriptD.sortStr (r.acctMeta.map (·.1)).eraseDups
    Json.mkObj [
      ("postings", jList (fun (p : Posting) => Json.arr #[Json.str p.src, Json.str p.dst, Json.str (toString p.amt), Json.str p.asset]) r.postings),
      ("txmeta", Json.mkObj (r.txMeta.map (fun kv => (kv.1, Json.str kv.2)))),
      ("ameta", Json.mkObj (accts.map (fun a => (a, Json.mkObj ((r.acctMeta.filter (·.1 = a)).map (fun m => (m.2.1, Json.str m.2.2))))))),
      ("lockR", jList Json.str (uniqSortedNoWorld r.involved)),
      ("lockW", jList Json.str (uniqSortedNoWorld r.sources)),
      ("bal", jList (fun (kv : (Acct × Asset) × Int) => Json.arr #[Json.str kv.1.1, Json.str kv.1.2, Json.str (toString kv.2)])
        (r.finalBal.mergeSort (fun x y => x.1.1 < y.1.1 ∨ (x.1.1 = y.1.1 ∧ x.1.2 ≤ y.1.2))))]

def handle : Handler := fun j => do
  let P ← NumscriptD.pScript (← getObj j "ast")
  match compile P with
  | .error _ => pure (Json.mkObj [("compile", Json.str "error")])
  | .ok prog =>
    let bal := NumscriptD.triples j "bal"
    let am := NumscriptD.triples j "ameta"
    let store : Store := {
      balance := fun a s => match bal.find? (fun t => t.1 = a ∧ t.2.1 = s) with
        | some t => t.2.2.toInt?.getD 0
        | none => 0,
      accountMeta := fun a k => (am.find? (fun t => t.1 = a ∧ t.2.1 = k)).map (·.2.2) }
    let req : Request := { vars := NumscriptD.strMap j "vars", metadata := NumscriptD.strMap j "meta" }
    pure (Json.mkObj [("compile", renderProgram prog), ("run", renderRun (VM.run prog req store))])

end Driver.BytecodeD
