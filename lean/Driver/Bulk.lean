import Driver.Util
import Model.Bulk
open Lean Driver

namespace Driver.BulkD

def action (s : String) : Bulk.Action :=
  match s with
  | "CREATE_TRANSACTION" => .create
  | "ADD_METADATA" => .addMeta
  | "REVERT_TRANSACTION" => .revert
  | "DELETE_METADATA" => .delMeta
  | _ => .unknown

def actionName : Bulk.Action → String
  | .create => "CREATE_TRANSACTION" | .addMeta => "ADD_METADATA" | .revert => "REVERT_TRANSACTION"
  | .delMeta => "DELETE_METADATA" | .unknown => "?"

/-- the body shape behind the harness's name for it (`harness/bulk.go: bulkData`) -/
def body (s : String) : Bulk.Body :=
  match s with
  | "script" | "script_vars" => .script
  | "script_broken" | "script_novars" => .scriptBroken
  | "both" | "both_broken" => .both
  | "neither" | "empty_postings" | "script_empty" => .neither
  | "null" => .null
  | "nodata" => .noData
  | "wrongshape" => .wrongShape
  | "badfield" | "postings_badamount" => .badField
  | "notarget" => .noTarget
  | "tx_strid" | "tx_fracid" => .txIdNotNumber
  | "acct_numid" | "acct_objid" | "acct_emptyid" | "tx_nullid" | "tx_negid" | "tx_bigid" | "unknown_target" | "lower_target"
  | "no_targettype" => .looseId
  | "strid" | "fracid" => .idNotNumber
  | "noid" => .noId
  | "force_str" => .flagNotBool
  | _ => .other            -- "good", "force", "at_effective"

/-- the error value the scripted backend returns for an outcome name, as the handlers' predicates see it
(`harness/bulk.go: scriptedError` builds it from the constructors of internal/engine and internal/engine/command) -/
def scripted (s : String) : Bulk.Ans :=
  match s with
  | "ok" | "" => .ok
  | "insufficient" => .err ⟨true, true, false, false⟩        -- commandError(errMachine(ErrInsufficientFund))
  | "insufficient_raw" => .err ⟨true, false, false, false⟩   -- the same error not wrapped by engine.Ledger
  | "save_notfound" => .err ⟨false, true, true, false⟩       -- commandError(errSaveMeta TRANSACTION_NOT_FOUND)
  | "del_notfound" => .err ⟨false, true, false, true⟩        -- commandError(errDeleteMeta TRANSACTION_NOT_FOUND)
  | "internal" | "storage" => .err ⟨false, false, false, false⟩
  | _ => .err Bulk.BErr.plainCommand   -- validation, notfound, machine, conflict, nopostings, noscript, compilation, revert_*

def handle : Handler := fun j => do
  let cont0 ← getBool j "cont"
  -- the flag as spelled on the wire, when the input gives a spelling ("<bare>" = the parameter without a value)
  let cont := match (getStr j "cont_raw").toOption with
    | some raw => Bulk.contFlag (some (if raw == "<bare>" then "" else raw))
    | none => cont0
  if (getBool j "broken").toOption.getD false then
    -- glue: a body that is not JSON never reaches ProcessBulk; bulkHandler answers 400 with no results
    return Json.mkObj [("status", toJson (400 : Nat)), ("results", Json.arr #[]), ("calls", Json.arr #[]), ("codes", Json.arr #[])]
  let es ← getArr j "elems"
  let elems ← es.mapM (fun e => do
    let a := action (← getStr e "action")
    let b := body (← getStr e "data")
    let o ← getStr e "outcome"
    pure ((⟨a, Bulk.decodes a b⟩ : Bulk.Elem), Bulk.engineAns a b (scripted o)))
  let answers := elems.map (·.2)
  let back : Nat → Bulk.Ans := fun i => answers.getD i .ok
  let out := Bulk.processBulk (fun i => (back i).isOk) cont (elems.map (·.1))
  pure <| Json.mkObj [
    ("status", toJson (Bulk.status out)),
    ("results", jList (fun r => match r with | .ok a => Json.str (actionName a) | .err => Json.str "ERROR") out.results),
    ("codes", jList (fun (c : String) => Json.str c) (Bulk.goCodes back cont 0 (elems.map (·.1)))),
    ("calls", jList (fun (c : Nat) => toJson c) out.calls)]

end Driver.BulkD
