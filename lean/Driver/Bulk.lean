import Driver.Util
import Model.Bulk
open Lean Driver

namespace Driver.BulkD

def action (s : String) : Bulk.Action :=
  match s with
  | "CREATE_TRANSACTION" => .create
  | "ADD_METADATA" => .addMeta
  | "REVERT_TRANSACTION" => .revert
  | "DELETE_METADATA" => .delMeta
  | _ => .unknown

def actionName : Bulk.Action → String
  | .create => "CREATE_TRANSACTION" | .addMeta => "ADD_METADATA" | .revert => "REVERT_TRANSACTION"
  | .delMeta => "DELETE_METADATA" | .unknown => "?"

def handle : Handler := fun j => do
  let cont0 ← getBool j "cont"
  -- the flag as spelled on the wire, when the input gives a spelling ("<bare>" = the parameter without a value)
  let cont := match (getStr j "cont_raw").toOption with
    | some raw => Bulk.contFlag (some (if raw == "<bare>" then "" else raw))
    | none => cont0
  if (getBool j "broken").toOption.getD false then
    -- glue: a body that is not JSON never reaches ProcessBulk; bulkHandler answers 400 with no results
    return Json.mkObj [("status", toJson (400 : Nat)), ("results", Json.arr #[]), ("calls", Json.arr #[])]
  let es ← getArr j "elems"
  let elems ← es.mapM (fun e => do
    let a ← getStr e "action"
    let d ← getStr e "data"
    let o ← getStr e "outcome"
    pure ((⟨action a, d == "good"⟩ : Bulk.Elem), o == "ok"))
  let oks := elems.map (·.2)
  let out := Bulk.processBulk (fun i => oks.getD i true) cont (elems.map (·.1))
  pure <| Json.mkObj [
    ("status", toJson (Bulk.status out)),
    ("results", jList (fun r => match r with | .ok a => Json.str (actionName a) | .err => Json.str "ERROR") out.results),
    ("calls", jList (fun (c : Nat) => toJson c) out.calls)]

end Driver.BulkD
