import Driver.Util
import Model.SqlText
open Lean Driver

/-! Areas `sqltext` (one filter case → the `where` text the model expects, or the rejection) and `sqllex`
(SQL text → token kinds of `SqlText.lex`).  Everything that is not `Model.SqlText` here is glue: how the v1 handlers
turn query parameters into `query.Builder`s, how `query.ParseJSON` decodes a body. -/
namespace Driver.SqlTextD
open SqlText

def kindStr : Kind → String
  | .ident s => "id:" ++ s
  | .qident s => "qid:" ++ s
  | .str => "str"
  | .estr => "estr"
  | .dstr => "dstr"
  | .num => "num"
  | .param s => "param:" ++ s
  | .op s => "op:" ++ s
  | .punct c => "p:" ++ String.singleton c
  | .typecast => "cast"
  | .bad w => "bad:" ++ w

/-- area `sqllex` -/
def handleLex : Handler := fun j => do
  let sql ← getStr j "sql"
  let ts := lex sql
  pure <| Json.mkObj [("kinds", jList (fun (t : Tok) => Json.str (kindStr t.1)) ts),
                      ("lits", jList (fun (t : Tok) => Json.str t.2) (ts.filter (fun t => t.1 == .str || t.1 == .estr || t.1 == .dstr)))]

partial def toJV : Json → Except String JV
  | .null => pure .null
  | .bool b => pure (.bool b)
  | .num n => if n.exponent == 0 then pure (.num n.mantissa) else throw "non-integer number"
  | .str s => pure (.str s.toList)
  | .arr xs => do
    let ys ← xs.toList.mapM toJV
    pure (.arr ys)
  | .obj kvs => do
    let ys ← (kvs.toList).mapM (fun (k, v) => do let v' ← toJV v; pure (k.toList, v'))
    pure (.obj ys)

inductive Outcome where
  | rejected (why : String)
  | nofilter
  | frag (s : String)
  | skip

def outJson : Outcome → Json
  | .rejected w => Json.mkObj [("rejected", Json.str w)]
  | .nofilter => Json.mkObj [("nofilter", Json.bool true)]
  | .frag s => Json.mkObj [("frag", Json.str s)]
  | .skip => Json.mkObj [("skip", Json.bool true)]

def rejStr : Rej → String
  | .invalid => "invalid" | .error => "error" | .panic => "panic"

def ofRender (r : Except Rej String) : Outcome :=
  match r with
  | .ok s => .frag s
  | .error e => .rejected (rejStr e)

def endpointOf (ep : String) : Except String Endpoint :=
  if ep.startsWith "accounts" then pure .accounts
  else if ep == "balances.list" then pure .accounts
  else if ep.startsWith "transactions" then pure .transactions
  else if ep == "balances.agg" then pure .balances
  else if ep == "logs.list" then pure .logs
  else throw s!"unknown endpoint {ep}"

def validOps : List String := ["$match", "$lt", "$lte", "$gt", "$gte"]

def keyWith (key pos s : String) : String :=
  if pos == "metakey" then "metadata[" ++ s ++ "]"
  else if pos == "asset" then "balance[" ++ s ++ "]"
  else if pos == "key" then s
  else key

def valueOf (pos vtype s : String) : JV :=
  if pos != "value" then .str "v".toList
  else if vtype == "array" then .arr [.str s.toList, .str "v".toList]
  else if vtype == "object" then .obj [(s.toList, .str s.toList)]
  else .str s.toList

/-- the body `{op:{key:value}}`, possibly wrapped next to a bound sibling, as `query.ParseJSON` decodes it -/
def bodyExpr (ep : Endpoint) (key op pos vtype wrap s : String) (sibBound : Bool := false) : Option Expr :=
  let op' := if pos == "op" then s else op
  if !validOps.contains op' then none    -- "$and"/"$or" over an object, or an unknown operator: refused by ParseJSON
  else
    let k := keyWith key pos s
    let leaf := Expr.leaf (classifyKey ep k) op' (valueOf pos vtype s)
    -- the sibling is a metadata clause, or (sib = "bound") one whose value travels as a bound argument
    let sibKey := if ep == .logs then "date"
      else if sibBound && ep == .transactions then "reference"
      else if sibBound && ep == .accounts then "balance[USD]"
      else "metadata[sib]"
    let sibVal : JV := if sibBound && ep == .accounts then .num 10 else .str "sibling".toList
    let sib := Expr.leaf (classifyKey ep sibKey) "$match" sibVal
    some (if wrap == "and-before" then .set true [sib, leaf]
          else if wrap == "and-after" then .set true [leaf, sib]
          else if wrap == "or" then .set false [leaf, sib]
          else leaf)

/-- `strconv.ParseInt(s, 10, 64)` succeeds -/
def parseInt64Ok (s : String) : Bool :=
  let cs := s.toList
  let (neg, ds) := match cs with
    | '-' :: r => (true, r)
    | '+' :: r => (false, r)
    | r => (false, r)
  if ds.isEmpty || !ds.all Char.isDigit then false
  else
    let n := ds.foldl (fun a c => a * 10 + (c.toNat - 48)) 0
    if neg then n ≤ 9223372036854775808 else n ≤ 9223372036854775807

def one (api ep key op pos vtype wrap qkey : String) (pitGiven : Bool) (s : String) (sibBound : Bool := false) : Except String Outcome := do
  if ep == "accounts.get" then return .skip
  if pos == "pit" then return .skip
  let e ← endpointOf ep
  let ledger := "l0"
  if api == "v2" then
    match bodyExpr e key op pos vtype wrap s sibBound with
    | none => return .rejected "parse"
    | some x => return ofRender (renderFilter e true ledger x)   -- v2 always has a point in time (now when not given)
  -- v1
  if key == "query" then
    match bodyExpr e qkey op pos vtype wrap s sibBound with
    | none => return .rejected "parse"
    | some x => return ofRender (renderFilter e pitGiven ledger x)
  let strV (t : String) : JV := .str t.toList
  let leaf (k o : String) (v : JV) : Expr := .leaf (classifyKey e k) o v
  if ep == "accounts.list" || ep == "balances.list" then
    if key == "balance" then
      let (val, bop) := if pos == "op" then ("10", s) else (s, op)
      if val == "" then return .nofilter
      if !parseInt64Ok val then return .nofilter        -- the error of buildAccountsFilterQuery is dropped by the handler
      let bop := if bop == "" then "eq" else bop          -- and "eq", the default, is not one of the accepted operators
      let m := leaf "balance" "$match" (strV val)
      let x? : Option Expr :=
        if bop == "e" then some m else if bop == "ne" then some (.not m)
        else if bop == "lt" then some (leaf "balance" "$lt" (strV val))
        else if bop == "lte" then some (leaf "balance" "$lte" (strV val))
        else if bop == "gt" then some (leaf "balance" "$gt" (strV val))
        else if bop == "gte" then some (leaf "balance" "$gte" (strV val))
        else none
      match x? with
      | none => return .nofilter
      | some x => return ofRender (renderFilter e pitGiven ledger (.set true [x]))
    let (name, val) :=
      if pos == "metakey" then ("metadata[" ++ s ++ "]", "v")
      else if pos == "key" then ("metadata" ++ s, "v")
      else (key, s)
    if name == "address" then
      if val == "" then return .nofilter
      return ofRender (renderFilter e pitGiven ledger (.set true [leaf "address" "$match" (strV val)]))
    return ofRender (renderFilter e pitGiven ledger (.set true [leaf name "$match" (strV val)]))
  if ep == "transactions.list" || ep == "transactions.count" then
    let (name, val) :=
      if pos == "metakey" then ("metadata[" ++ s ++ "]", "v")
      else if pos == "key" then ("metadata" ++ s, "v")
      else (key, s)
    if name.startsWith "metadata" then
      return ofRender (renderFilter e pitGiven ledger (leaf name "$match" (strV val)))
    if val == "" then return .nofilter
    let x := if name == "after" then leaf "id" "$lt" (strV val)
      else if name == "start_time" then leaf "date" "$gte" (strV val)
      else if name == "end_time" then leaf "date" "$lt" (strV val)
      else leaf name "$match" (strV val)
    return ofRender (renderFilter e pitGiven ledger x)
  if ep == "balances.agg" then
    if s == "" then return .nofilter
    return ofRender (renderFilter e pitGiven ledger (leaf "address" "$match" (strV s)))
  if ep == "logs.list" then
    if s == "" then return .nofilter
    let x := if key == "after" then leaf "id" "$lt" (strV s)
      else if key == "start_time" then leaf "date" "$gte" (strV s)
      else leaf "date" "$lt" (strV s)
    return ofRender (renderFilter e pitGiven ledger x)
  throw s!"unhandled case {api} {ep} {key}"

/-- area `sqltext` -/
def handle : Handler := fun j => do
  let api ← getStr j "api"
  let ep ← getStr j "ep"
  let key ← getStr j "key"
  let op ← getStr j "op"
  let pos ← getStr j "pos"
  let vtype := (getStr j "vtype").toOption.getD ""
  let wrap := (getStr j "wrap").toOption.getD "none"
  let qkey := (getStr j "qkey").toOption.getD ""
  let pit := (getStr j "pit").toOption.getD ""
  let dom := (getStr j "dom").toOption.getD ""
  let h ← getStr j "hostile"
  let t ← getStr j "harmless"
  let sibBound := (getStr j "sib").toOption == some "bound"
  let oh ← one api ep key op pos vtype wrap qkey (pit != "") h sibBound
  let ot ← one api ep key op pos vtype wrap qkey (pit != "") t sibBound
  let twin := if dom == "addr" then harmless h
    else if dom == "num" then String.ofList (h.toList.map (fun c => if c == '-' || c == '+' then c else if c.isDigit then '1' else 'a'))
    else String.ofList (harmlessChars h.toList)
  -- hostile KEYS (dom = "key"): the twin keeps the key-like base and blanks the fragment around it: same length, and it differs from
  -- the hostile key only where it has the letter 'a'
  let twinOk := if dom == "key" then
      t.length == h.length && (List.zip h.toList t.toList).all (fun (a, b) => a == b || b == 'a')
    else twin == t
  pure <| Json.mkObj [("h", outJson oh), ("t", outJson ot), ("twin_ok", Json.bool twinOk)]

end Driver.SqlTextD
