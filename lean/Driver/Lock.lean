import Driver.Util
import Model.Lock
open Lean Driver

/-! Area "lock" (C15).  The harness drives the real `DefaultLocker` with *composite* operations (an operation
plus "let every goroutine that can leave its `select` do so"); this file expands each of them into sequences
of `Lock.stepG` transitions — nothing here touches the state except through `Lock.stepG` — and enumerates every
resolution of the two kinds of nondeterminism the model has:

* `g`/`c` — a request held at the entry of its `select` finds both `acquired` and `ctx.Done()` ready:
  `wake id .grant` or `wake id .ctx`;
* `A`/`B`/`C` — `cancel r` and `release b` issued concurrently while `r` is parked:
  A = cancel, r gives up, release;  B = cancel, release (may grant r), r takes the `ctx.Done()` branch;
  C = release (may grant r), r returns the unlock function, cancel.

`handover r b first` is the same pair of operations with the order at the locker's mutex FORCED by the harness
(it holds the mutex until both the release and r's cancellation path are parked on it, in the order it wants):
one resolution only — `first = release` is order B (the choice letter tells whether the release had granted r:
`H` = r ran its cancellation path having been granted and gave the accounts back, `h` = r was still queued),
`first = cancel` is order A (`K`).

`arrive-during-release r b` — the release of `b` issued while `r` is inside `Lock` (the harness parks `r` in one of the log calls
`Lock` makes and starts the release): the atomic sections of the model leave one order only, `arrive r; release b` (what is
between the failed `tryLock` and `intents.Append` is under the mutex), so it is the composite `arrive` with `release b` held.

input : {"variant":"fixed"|"orig", "ops":[{"op":"arrive","r":n,"read":[..],"write":[..],"hold":[{"op":"release","r":b}|{"op":"cancel","r":n}]}
         | {"op":"release","r":n} | {"op":"cancel","r":n} | {"op":"race","r":n,"b":m} | {"op":"handover","r":n,"b":m,"first":"release"|"cancel"}
         | {"op":"arrive-during-release","r":n,"read":[..],"write":[..],"b":m} | {"op":"drain"}]}
output: {"paths":[{"choices":["gcA…",…],"steps":[{"res":…, "nd":…, "ret":{"<id>":"ok"|"err"}, "sub":[{"rel":id,"ret":{…}}…] (drain only),
          "waiting":[ids], "q":[[read,write]…], "rl":{acct:count}, "wl":[acct…]}]}]} -/
namespace Driver.LockD
open Lock

structure Acc where
  s    : State
  ret  : List (Nat × Bool)   -- Lock calls that returned during the current composite operation (true = unlock function)
  sub  : List (Nat × List (Nat × Bool)) := []   -- drain only: (released id, Lock calls that returned because of it)
deriving Inhabited

def doStep (fixed : Bool) (a : Acc) (o : Op) : Acc × Out :=
  let (s', out) := stepG fixed a.s o
  let ret := match o, out with
    | .arrive r, .acquired => a.ret ++ [(r.id, true)]
    | .wake id _, .returnedUnlock => a.ret ++ [(id, true)]
    | .wake id _, .returnedErr => a.ret ++ [(id, false)]
    | _, _ => a.ret
  ({ a with s := s', ret := ret }, out)

/-- ids whose goroutine has a ready case -/
def wakeable (s : State) : List Nat :=
  let q := (s.queue.filter (fun r => s.cancelled.contains r.id)).map (·.id)
  (s.pending ++ q)

def minNat : List Nat → Option Nat
  | [] => none
  | x :: xs => match minNat xs with | none => some x | some y => some (if x ≤ y then x else y)

/-- let every goroutine that can leave its `select` do so (smallest id first; `b` resolves "both ready") -/
def settle (fixed : Bool) (b : Branch) : Nat → Acc → Acc
  | 0, a => a
  | fuel + 1, a =>
    match minNat (wakeable a.s) with
    | none => a
    | some id => settle fixed b fuel (doStep fixed a (.wake id b)).1

def settleFuel (s : State) : Nat := 2 * s.queue.length + s.pending.length + 2

def settle' (fixed : Bool) (b : Branch) (a : Acc) : Acc := settle fixed b (settleFuel a.s) a

def isHolder (s : State) (id : Nat) : Bool :=
  (s.live.any (fun h => h.id == id)) && !s.pending.contains id && !s.aborted.contains id
def isQueued (s : State) (id : Nat) : Bool := s.queue.any (fun r => r.id == id)
/-- at a both-ready `select`? -/
def bothReady (s : State) (id : Nat) : Bool := s.pending.contains id && s.cancelled.contains id

def sortNat (l : List Nat) : List Nat := (l.toArray.qsort (· < ·)).toList
def sortStr (l : List String) : List String := (l.toArray.qsort (· < ·)).toList

def outName : Out → String
  | .acquired => "acquired" | .queued => "queued" | .released => "released" | .cancelled => "cancelled"
  | .returnedUnlock => "returnedUnlock" | .returnedErr => "returnedErr" | .blocked => "blocked" | .rejected => "rejected"

def retJson (ret : List (Nat × Bool)) : Json :=
  Json.mkObj ((sortNat (ret.map (·.1))).map (fun id =>
    (toString id, Json.str (match ret.find? (·.1 == id) with | some (_, true) => "ok" | _ => "err"))))

/-- `nd`: the kind of nondeterminism resolved in this step ("" | "select" | "race"); not part of the comparison -/
def snapshot (res nd : String) (a : Acc) : Json :=
  let s := a.s
  let rl := (sortStr (s.t.rl.map (·.1))).map (fun k => (k, Json.str (toString (rget s.t.rl k))))
  Json.mkObj [
    ("res", Json.str res),
    ("nd", Json.str nd),
    ("ret", retJson a.ret),
    ("sub", jList (fun (p : Nat × List (Nat × Bool)) => Json.mkObj [("rel", toJson p.1), ("ret", retJson p.2)]) a.sub),
    ("waiting", jList (fun (n : Nat) => toJson n) (sortNat (s.queue.map (·.id)))),
    ("q", jList (fun (r : Req) => Json.arr #[jList Json.str r.read, jList Json.str r.write]) s.queue),
    ("rl", Json.mkObj rl),
    ("wl", jList Json.str (sortStr s.t.wl))]

inductive HOp
  | arrive (r : Req) (hold : List (Bool × Nat))   -- hold: (true, b) = release b, (false, _) = cancel r
  | release (id : Nat)
  | cancel (id : Nat)
  | race (r b : Nat)
  | handover (r b : Nat) (releaseFirst : Bool)
  | drain
deriving Inhabited

/-- release every current holder (ascending id), settle, until no holder is left -/
def drainLoop (fixed : Bool) : Nat → Acc → Acc
  | 0, a => a
  | fuel + 1, a =>
    match minNat ((a.s.live.filter (fun h => isHolder a.s h.id)).map (·.id)) with
    | none => a
    | some id =>
      let a1 := settle' fixed .grant (doStep fixed { a with ret := [] } (.release id)).1
      drainLoop fixed fuel { a1 with ret := a.ret ++ a1.ret, sub := a.sub ++ [(id, a1.ret)] }

/-- every resolution of one composite operation: (choice letter, result label, state after) -/
def execOp (fixed : Bool) (s : State) : HOp → List (String × String × Acc)
  | .arrive r hold =>
    let a0 : Acc := { s := s, ret := [] }
    let (a1, out) := doStep fixed a0 (.arrive r)
    if out == .rejected then [("", "rejected", a1)] else
    let a2 := hold.foldl (fun a h =>
      if h.1 then (doStep fixed a (.release h.2)).1 else (doStep fixed a (.cancel r.id)).1) a1
    if bothReady a2.s r.id then
      [("g", outName out, settle' fixed .grant a2), ("c", outName out, settle' fixed .ctx a2)]
    else [("", outName out, settle' fixed .grant a2)]
  | .release id =>
    let (a1, out) := doStep fixed { s := s, ret := [] } (.release id)
    [("", outName out, settle' fixed .grant a1)]
  | .cancel id =>
    let (a1, out) := doStep fixed { s := s, ret := [] } (.cancel id)
    [("", outName out, settle' fixed .grant a1)]
  | .race r b =>
    let a0 : Acc := { s := s, ret := [] }
    if !(isQueued s r && isHolder s b) then
      -- not a race: the two operations one after the other
      let a1 := settle' fixed .grant (doStep fixed a0 (.cancel r)).1
      let (a2, out) := doStep fixed a1 (.release b)
      [("", "norace-" ++ outName out, settle' fixed .grant a2)]
    else
      let pA :=
        let a1 := settle' fixed .grant (doStep fixed a0 (.cancel r)).1
        settle' fixed .grant (doStep fixed a1 (.release b)).1
      let pB :=
        let a1 := (doStep fixed a0 (.cancel r)).1
        settle' fixed .ctx (doStep fixed a1 (.release b)).1
      let pC :=
        let a1 := settle' fixed .grant (doStep fixed a0 (.release b)).1
        settle' fixed .grant (doStep fixed a1 (.cancel r)).1
      [("A", "race", pA), ("B", "race", pB), ("C", "race", pC)]
  | .handover r b releaseFirst =>
    let a0 : Acc := { s := s, ret := [] }
    if !(isQueued s r && isHolder s b) then
      let a1 := settle' fixed .grant (doStep fixed a0 (.cancel r)).1
      let (a2, out) := doStep fixed a1 (.release b)
      [("", "norace-" ++ outName out, settle' fixed .grant a2)]
    else if releaseFirst then
      -- r has left its `select` through `ctx.Done()` and waits for the mutex; the release gets it first
      let a1 := (doStep fixed a0 (.cancel r)).1
      let a2 := (doStep fixed a1 (.release b)).1
      [(if bothReady a2.s r then "H" else "h", "handover", settle' fixed .ctx a2)]
    else
      let a1 := settle' fixed .grant (doStep fixed a0 (.cancel r)).1
      [("K", "handover", settle' fixed .grant (doStep fixed a1 (.release b)).1)]
  | .drain =>
    let a0 : Acc := { s := s, ret := [] }
    [("", "drain", drainLoop fixed (weight s + 1) a0)]

def ndOf (c : String) : String :=
  if c == "g" || c == "c" then "select" else if c == "" then ""
  else if c == "H" then "handover-granted" else if c == "h" then "handover-queued" else if c == "K" then "handover-cancel-first"
  else "race"

def paths (fixed : Bool) : State → List HOp → List (String × List Json)
  | _, [] => [("", [])]
  | s, o :: os =>
    (execOp fixed s o).flatMap (fun (c, res, a) =>
      (paths fixed a.s os).map (fun (cs, steps) => (c ++ cs, snapshot res (ndOf c) a :: steps)))

def strList (j : Json) (k : String) : Except String (List String) := do
  match optObj j k with
  | none => pure []
  | some _ => (← getArr j k).mapM (fun x => x.getStr?)

def parseOp (j : Json) : Except String HOp := do
  let op ← getStr j "op"
  match op with
  | "arrive" =>
    let id ← getNat j "r"
    let rd ← strList j "read"
    let wr ← strList j "write"
    let hold ← match optObj j "hold" with
      | none => pure []
      | some _ => (← getArr j "hold").mapM (fun h => do
          let hop ← getStr h "op"
          let hid := (getNat h "r").toOption.getD 0
          pure (hop == "release", hid))
    pure (.arrive ⟨id, rd, wr⟩ hold)
  | "release" => pure (.release (← getNat j "r"))
  | "cancel" => pure (.cancel (← getNat j "r"))
  | "race" => pure (.race (← getNat j "r") (← getNat j "b"))
  | "handover" => pure (.handover (← getNat j "r") (← getNat j "b") ((getStr j "first").toOption.getD "release" != "cancel"))
  | "arrive-during-release" =>
    -- the release of `b` is issued while `r` is inside `Lock`.  Every step of the arrival path of a request that has to wait
    -- is made under the locker's mutex, so the release can only take effect once `r` is queued: arrive r; release b; settle —
    -- the composite `arrive` with the held operation `release b`.  (For a request served at once the order does not matter.)
    pure (.arrive ⟨← getNat j "r", ← strList j "read", ← strList j "write"⟩ [(true, ← getNat j "b")])
  | "drain" => pure .drain
  | _ => throw s!"unknown op {op}"

/-- resolutions that cannot be told apart from outside are one path with several choice strings -/
def dedup (ps : List (String × List Json)) : List (List String × String × List Json) :=
  ps.foldl (fun acc p =>
    let key := (Json.arr p.2.toArray).compress
    if acc.any (fun q => q.2.1 == key) then
      acc.map (fun q => if q.2.1 == key then (q.1 ++ [p.1], q.2) else q)
    else acc ++ [([p.1], key, p.2)]) []

def handle : Handler := fun j => do
  let fixed := (getStr j "variant").toOption.getD "fixed" != "orig"
  let ops ← (← getArr j "ops").mapM parseOp
  let ps := dedup (paths fixed Lock.init ops)
  pure <| Json.mkObj [("paths", jList (fun (p : List String × String × List Json) =>
    Json.mkObj [("choices", jList Json.str p.1), ("steps", Json.arr p.2.2.toArray)]) ps)]

end Driver.LockD
