import Driver.Util
import Model.Log.Chain
import Model.Log.Sha256
/-! driver of area `logrt` (C13): the model's answer to the input lines of harness/logrt.go — trees through
`toJson`/`fromJson`, the exact marshalled text, SHA-256, hashes along chains, the stored row. -/
open Lean Driver

namespace Driver.LogD
open LogM hiding Json JsonList JsonFields toJson

abbrev H : Hash := Sha256.sha256

/-! input → model values -/

def objPairs (j : Json) : Except String (List (String × Json)) := do
  let o ← j.getObj?
  pure (o.foldl (fun acc k v => (k, v) :: acc) []).reverse

def metaOf (j : Json) : Except String Meta :=
  if j.isNull then pure none else do
    let kvs ← objPairs j
    let l ← kvs.mapM fun (k, v) => do pure (k, ← v.getStr?)
    pure (some (normMap l))

def accMetaOf (j : Json) : Except String AccMeta :=
  if j.isNull then pure none else do
    let kvs ← objPairs j
    let l ← kvs.mapM fun (k, v) => do pure (k, ← metaOf v)
    pure (some (normMap l))

/-- a timestamp of the input is text and goes through `parseTime`; `none` = the API refuses it -/
def tsOf (j : Json) (k : String) : Except String (Option Time) := do
  let s ← getStr j k
  match parseTime s with
  | .ok t => pure (some t)
  | .error _ => pure none

def txOf (j : Json) : Except String (Option Tx) := do
  let pj ← getObj j "postings"
  let postings : Option (List Posting) ← if pj.isNull then pure none else do
    let ps ← getArr j "postings"
    let l ← ps.mapM fun p => do
      pure (⟨← getStr p "s", ← getStr p "d", ← getInt p "amt", ← getStr p "asset"⟩ : Posting)
    pure (some l)
  let md ← metaOf (← getObj j "md")
  let some ts ← tsOf j "ts" | pure none
  pure (some ⟨postings, md, ts, ← getStr j "ref", ← getInt j "id", ← getBool j "reverted"⟩)

def targetOf (l : Json) : Except String (String × TargetId) := do
  let tt ← getStr l "tt"
  if tt == "ACCOUNT" then pure (tt, .account (← getStr l "acc")) else pure (tt, .tx (← getInt l "txid"))

def logOf (l : Json) : Except String (Option Log) := do
  let some date ← tsOf l "date" | pure none
  let ik ← getStr l "ik"
  let ty ← getStr l "type"
  match ty with
  | "NEW_TRANSACTION" =>
    let some tx ← txOf (← getObj l "tx") | pure none
    let am ← accMetaOf ((l.getObjVal? "am").toOption.getD Json.null)
    pure (some ⟨.newTx tx am, date, ik⟩)
  | "REVERTED_TRANSACTION" =>
    let some tx ← txOf (← getObj l "tx") | pure none
    pure (some ⟨.reverted (← getInt l "rid") tx, date, ik⟩)
  | "SET_METADATA" =>
    let (tt, tg) ← targetOf l
    let md ← metaOf ((l.getObjVal? "md").toOption.getD Json.null)
    pure (some ⟨.setMeta tt tg md, date, ik⟩)
  | "DELETE_METADATA" =>
    let (tt, tg) ← targetOf l
    pure (some ⟨.delMeta tt tg (← getStr l "key"), date, ik⟩)
  | _ => throw s!"unknown log type {ty}"

/-! model values → canonical dumps (same shape as harness/logrt.go) -/

def jNat (n : Nat) : Json := toJson n
def jI (n : Int) : Json := Json.num (JsonNumber.fromInt n)

def timeD (t : Time) : Json :=
  Json.arr #[jI t.year, jNat t.month, jNat t.day, jNat t.hour, jNat t.min, jNat t.sec, jNat t.nanos, jI t.off]

def metaD : Meta → Json
  | none => Json.null
  | some kvs => jList (fun (kv : String × String) => Json.arr #[Json.str kv.1, Json.str kv.2]) kvs

def accMetaD : AccMeta → Json
  | none => Json.null
  | some l => jList (fun (kv : String × Meta) => Json.arr #[Json.str kv.1, metaD kv.2]) l

def txD (t : Tx) : Json :=
  Json.mkObj [
    ("postings", match t.postings with
      | none => Json.null
      | some ps => jList (fun (p : Posting) => Json.arr #[Json.str p.source, Json.str p.destination, jInt p.amount, Json.str p.asset]) ps),
    ("md", metaD t.metadata), ("ts", timeD t.timestamp), ("ref", Json.str t.reference), ("id", jInt t.id),
    ("reverted", Json.bool t.reverted)]

def targetD : TargetId → Json
  | .account a => Json.mkObj [("str", Json.str a)]
  | .tx id => Json.mkObj [("int", jInt id)]

def payloadD : Payload → Json
  | .newTx tx am => Json.mkObj [("k", "newtx"), ("tx", txD tx), ("am", accMetaD am)]
  | .reverted rid tx => Json.mkObj [("k", "reverted"), ("rid", jInt rid), ("tx", txD tx)]
  | .setMeta tt tg md => Json.mkObj [("k", "setmeta"), ("tt", Json.str tt), ("target", targetD tg), ("md", metaD md)]
  | .delMeta tt tg key => Json.mkObj [("k", "delmeta"), ("tt", Json.str tt), ("target", targetD tg), ("key", Json.str key)]

def hashD : Option (List UInt8) → Json
  | none => Json.null
  | some bs => Json.str (Sha256.hex bs)

def dump (c : CLog) : Json :=
  Json.mkObj [("type", Json.str c.log.data.logType.name), ("id", jInt c.id), ("hash", hashD c.hash),
    ("date", timeD c.log.date), ("ik", Json.str c.log.idempotencyKey), ("data", payloadD c.log.data)]

def errD : Err → Json
  | .panic m => Json.mkObj [("panic", Json.str m)]
  | .error m => Json.mkObj [("error", Json.str m)]
  | .unmodelled m => Json.mkObj [("unmodelled", Json.str m)]

def hashHex (c : CLog) : String := Sha256.hex (c.hash.getD [])

/-! the tree as PostgreSQL's `jsonb` hands it back: object keys ordered by length, then bytewise -/

def keyLt (a b : String) : Bool :=
  a.utf8ByteSize < b.utf8ByteSize || (a.utf8ByteSize == b.utf8ByteSize && a < b)

def insertField (k : String) (v : LogM.Json) : List (String × LogM.Json) → List (String × LogM.Json)
  | [] => [(k, v)]
  | (k', v') :: rest =>
    if keyLt k k' then (k, v) :: (k', v') :: rest
    else if k == k' then (k, v) :: rest
    else (k', v') :: insertField k v rest

mutual
partial def jsonb : LogM.Json → LogM.Json
  | .arr xs => .mkArr (xs.toList.map jsonb)
  | .obj fs => .mkObj ((fs.toList.map fun kv => (kv.1, jsonb kv.2)).foldl (fun acc kv => insertField kv.1 kv.2 acc) [])
  | j => j
end

/-! chain -/

/-- the arguments `InsertLogs` hands to the database for the row, column by column, as the driver receives them
(`BigInt.Value` = decimal text, `Time.Value` = RFC 3339 text, the hash as bytes — hex here —, the key AS IT IS) -/
def colsJ (r : Row) : Json :=
  Json.mkObj [("ledger", Json.str r.ledger), ("id", Json.str (toString r.id)), ("type", Json.str r.type),
    ("hash", Json.str (Sha256.hex (r.hash.getD []))), ("date", Json.str (formatTime r.date)), ("ik", Json.str r.idempotencyKey)]

/-- `prevRow` / `prevRowB`: the previous stored row read back (plain / through jsonb): a reader of the TABLE re-verifies an entry against
the row before it, not against the entry the writer held in memory -/
def entry (prev prevBack prevRow prevRowB : Option CLog) (log : Log) : Json × CLog × CLog × CLog × CLog :=
  let cl := chainLog H prev log
  let tree := LogM.toJson cl
  let text := encodeText tree
  let decoded := fromJson tree
  let decFields : List (String × Json) := match decoded with
    | .error e => [("dec", errD e)]
    | .ok back =>
      let re := chainLog H prevBack back.log
      [("dec", Json.mkObj [("ok", dump back)]), ("rehash", Json.str (hashHex re)), ("reid", jInt re.id),
       ("remarshal_same", Json.bool (encodeText (LogM.toJson back) == text))]
  let r0 := toRow "l" cl
  let (row, rowCore) : Json × CLog := match toCore r0 with
    | .error e => (Json.mkObj [("panic", errD e)], cl)
    | .ok core =>
      let re := chainLog H prevRow core.log
      (Json.mkObj [("ok", dump core), ("rehash", Json.str (hashHex re)), ("data", Json.str (encodeText (payloadJ cl.log.data))),
        ("cols", colsJ r0)], core)
  let (rowB, rowBCore) : Json × CLog := match toCore { r0 with data := jsonb r0.data } with
    | .error e => (Json.mkObj [("panic", errD e)], cl)
    | .ok core => (Json.mkObj [("ok", dump core), ("rehash", Json.str (hashHex (chainLog H prevRowB core.log)))], core)
  let back := match decoded with | .ok b => b | .error _ => cl
  (Json.mkObj ([("id", jInt cl.id), ("hash", Json.str (hashHex cl)), ("dump", dump cl), ("bytes", Json.str text), ("row", row),
      ("row_jsonb", rowB)] ++ decFields),
   cl, back, rowCore, rowBCore)

def chain (specs : List Json) : Except String Json := do
  let mut prev : Option CLog := none
  let mut prevBack : Option CLog := none
  let mut prevRow : Option CLog := none
  let mut prevRowB : Option CLog := none
  let mut out : Array Json := #[]
  for s in specs do
    match ← logOf s with
    | none => out := out.push (Json.mkObj [("input_error", "timestamp")])
    | some log =>
      let (e, cl, back, rowCore, rowBCore) := entry prev prevBack prevRow prevRowB log
      out := out.push e
      prev := some cl
      prevBack := some back
      prevRow := some rowCore
      prevRowB := some rowBCore
  pure (Json.mkObj [("entries", Json.arr out)])

/-! arbitrary JSON text → tree (numbers: integers only) -/

partial def treeOf : Json → Except String LogM.Json
  | .null => pure .null
  | .bool b => pure (.bool b)
  | .num n => if n.exponent == 0 then pure (.num n.mantissa) else throw "non-integer number"
  | .str s => pure (.str s)
  | .arr xs => do pure (.mkArr (← xs.toList.mapM treeOf))
  | .obj o => do
    let kvs := (o.foldl (fun acc k v => (k, v) :: acc) []).reverse
    pure (.mkObj (← kvs.mapM fun (k, v) => do pure (k, ← treeOf v)))

def hexVal (c : Char) : Nat :=
  if '0' ≤ c ∧ c ≤ '9' then c.toNat - 48 else if 'a' ≤ c ∧ c ≤ 'f' then c.toNat - 87 else 0

def unhex : List Char → List UInt8
  | a :: b :: rest => UInt8.ofNat (hexVal a * 16 + hexVal b) :: unhex rest
  | _ => []

def handle : Handler := fun j => do
  let kind ← getStr j "kind"
  match kind with
  | "chain" => chain (← getArr j "logs")
  | "raw" =>
    let text ← getStr j "json"
    match Json.parse text with
    | .error _ => pure (Json.mkObj [("error", true)])
    | .ok t =>
      match treeOf t with
      | .error m => pure (Json.mkObj [("unmodelled", m)])
      | .ok tree =>
        match fromJson tree with
        | .ok c => pure (Json.mkObj [("ok", dump c)])
        | .error (.panic _) => pure (Json.mkObj [("panic", true)])
        | .error (.error _) => pure (Json.mkObj [("error", true)])
        | .error (.unmodelled m) => pure (Json.mkObj [("unmodelled", m)])
  | "time" =>
    let s ← getStr j "s"
    match parseTime s with
    | .error _ => pure (Json.mkObj [("error", true)])
    | .ok t =>
      let f := formatTime t
      let re : Json := match parseTime f with
        | .ok t' => Json.mkObj [("ok", timeD t')]
        | .error _ => Json.mkObj [("error", true)]
      pure (Json.mkObj [("ok", timeD t), ("fmt", Json.str f), ("utc", timeD (toUTC t)), ("json", Json.str ("\"" ++ f ++ "\"")), ("reparse", re),
        ("unix", Json.arr #[Json.str (toString t.unixSec), toJson t.nanos])])
  | "sha" =>
    let h ← getStr j "hex"
    pure (Json.mkObj [("sha", Json.str (Sha256.hex (Sha256.sha256 (unhex h.toList))))])
  | "v1" => pure (Json.mkObj [("unmodelled", "legacy v1 rows (migrations_v1.go)")])
  | "ikbytes" => pure (Json.mkObj [("unmodelled", "a Go string that is not valid UTF-8")])
  | "keybytes" => pure (Json.mkObj [("unmodelled", "bytes of an HTTP request line (possibly not valid UTF-8)")])
  | _ => throw s!"unknown kind {kind}"

end Driver.LogD
