import Lemmas.NumRun
/-! `compile` refuses a program exactly when the static rules (`Num.check`) do — apart from the two size limits
(65536 resources, 32768 variables), which are separate outcomes — and it never dereferences a nil address. -/
namespace Num

/-- a compilation result against a static verdict: success needs the check to pass, a static error needs it to
fail, a nil dereference is impossible, a size-limit error is compatible with anything -/
def CkSpec {α : Type} (r : Except CompileErr α) (ck : Bool) (post : α → Prop) : Prop :=
  match r with
  | .ok a => ck = true ∧ post a
  | .error .static => ck = false
  | .error .nilAddr => False
  | .error _ => True

theorem CkSpec.err {α β : Type} {e : CompileErr} {ck ck' : Bool} {p : α → Prop} {q : β → Prop}
    (h : CkSpec (.error e : Except CompileErr α) ck p) (hck : ck = false → ck' = false) :
    CkSpec (.error e : Except CompileErr β) ck' q := by
  cases e with
  | static => exact hck h
  | nilAddr => exact h
  | tooManyResources => trivial
  | tooManyVars => trivial

theorem CkSpec.limit {α : Type} {r : Except CompileErr α} {ck : Bool} {p : α → Prop}
    (h : ∀ a, r = .ok a → ck = true ∧ p a) (hs : r ≠ .error .static) (hn : r ≠ .error .nilAddr) : CkSpec r ck p := by
  cases r with
  | ok a => exact h a rfl
  | error e =>
    cases e with
    | static => exact absurd rfl hs
    | nilAddr => exact absurd rfl hn
    | tooManyResources => trivial
    | tooManyVars => trivial

def lookupTy (Γ : TEnv) (n : String) : Option Ty := (Γ.find? (·.1 = n)).map (·.2)

/-- the compiler state agrees with the typing environment of the static rules -/
structure Inv (st : CState) (Γ : TEnv) : Prop where
  vars : ∀ n, match lookupIdx st.varIdx n with
    | none => lookupTy Γ n = none
    | some a => ∃ r t, st.resources[a]? = some r ∧ declName r = some n ∧ r.bty = Ty.toB t ∧ lookupTy Γ n = some t
  inj : ∀ n n' a, lookupIdx st.varIdx n = some a → lookupIdx st.varIdx n' = some a → n = n'
  nodup : NoDupConst st.resources

theorem Inv.ext {st st' : CState} {Γ : TEnv} (h : Inv st Γ) (he : Ext st st') : Inv st' Γ := by
  refine ⟨?_, ?_, he.nodup h.nodup⟩
  · intro n
    have := h.vars n
    rw [he.vars]
    cases hl : lookupIdx st.varIdx n with
    | none => rw [hl] at this; exact this
    | some a =>
      rw [hl] at this
      obtain ⟨r, t, h1, h2, h3, h4⟩ := this
      exact ⟨r, t, he.get h1, h2, h3, h4⟩
  · rw [he.vars]; exact h.inj

theorem Ty.toB_inj {a b : Ty} (h : a.toB = b.toB) : a = b := by cases a <;> cases b <;> simp_all [Ty.toB]

/-- allocations never fail with a static error or a nil dereference -/
theorem allocRes_err {st : CState} {r : Resource} {e : CompileErr} (h : allocRes st r = .error e) : e = .tooManyResources := by
  unfold allocRes at h
  have app : ∀ {r}, appendResource st r = .error e → e = .tooManyResources := by
    intro r h
    unfold appendResource at h
    split at h
    · simp only [Except.error.injEq] at h; exact h.symm
    · cases h
  cases r with
  | const v =>
    simp only at h
    split at h
    · cases h
    · exact app h
  | var _ _ => exact app h
  | varMeta _ _ _ _ => exact app h
  | varBalance _ _ _ => exact app h
  | monetary _ _ => exact app h

theorem emitSeq_err {st : CState} {es : List Emit} {e : CompileErr} (h : emitSeq st es = .error e) : e = .tooManyResources := by
  induction es generalizing st with
  | nil => simp [emitSeq] at h
  | cons x rest ih =>
    cases x with
    | op i =>
      simp only [emitSeq] at h
      split at h
      · rename_i er hr; simp only [Except.error.injEq] at h; subst h; exact ih hr
      · cases h
    | pushAddr a =>
      simp only [emitSeq] at h
      split at h
      · rename_i er hr; simp only [Except.error.injEq] at h; subst h; exact ih hr
      · cases h
    | pushInt n =>
      simp only [emitSeq] at h
      split at h
      · rename_i er hr; simp only [Except.error.injEq] at h; subst h; exact allocRes_err hr
      · split at h
        · rename_i er hr; simp only [Except.error.injEq] at h; subst h; exact ih hr
        · cases h
    | bump n =>
      simp only [emitSeq] at h
      split at h
      · rename_i er hr; simp only [Except.error.injEq] at h; subst h; exact allocRes_err hr
      · split at h
        · rename_i er hr; simp only [Except.error.injEq] at h; subst h; exact ih hr
        · cases h

/-- an `emitSeq` never decides anything about acceptance -/
theorem emitSeq_ck {st : CState} {es : List Emit} {ck : Bool} {p : Code × CState → Prop}
    (h : ∀ c st', emitSeq st es = .ok (c, st') → ck = true ∧ p (c, st')) : CkSpec (emitSeq st es) ck p := by
  apply CkSpec.limit
  · intro a ha; exact h a.1 a.2 ha
  · intro hc; cases emitSeq_err hc
  · intro hc; cases emitSeq_err hc

/-- only number arithmetic returns a nil address -/
theorem visitExpr_addr {st : CState} {e : Expr} {o : ExprOut} (h : visitExpr st e = .ok o) (hty : o.ty ≠ .number) :
    ∃ a, o.addr = some a := by
  cases e with
  | add l r =>
    simp only [visitExpr] at h
    split at h
    · cases h
    · rename_i lo hlo
      split at h
      · split at h
        · cases h
        · split at h
          · cases h
          · simp only [Except.ok.injEq] at h; subst h; exact absurd rfl hty
      · split at h
        · rename_i hm
          split at h
          · cases h
          · split at h
            · cases h
            · simp only [Except.ok.injEq] at h; subst h
              exact visitExpr_addr (o := lo) hlo (by rw [hm]; decide)
        · cases h
  | sub l r =>
    simp only [visitExpr] at h
    split at h
    · cases h
    · rename_i lo hlo
      split at h
      · split at h
        · cases h
        · split at h
          · cases h
          · simp only [Except.ok.injEq] at h; subst h; exact absurd rfl hty
      · split at h
        · rename_i hm
          split at h
          · cases h
          · split at h
            · cases h
            · simp only [Except.ok.injEq] at h; subst h
              exact visitExpr_addr (o := lo) hlo (by rw [hm]; decide)
        · cases h
  | acct a => simp only [visitExpr, litOut] at h; split at h; · cases h
              · simp only [Except.ok.injEq] at h; subst h; exact ⟨_, rfl⟩
  | asset a => simp only [visitExpr, litOut] at h; split at h; · cases h
               · simp only [Except.ok.injEq] at h; subst h; exact ⟨_, rfl⟩
  | num a => simp only [visitExpr, litOut] at h; split at h; · cases h
             · simp only [Except.ok.injEq] at h; subst h; exact ⟨_, rfl⟩
  | str a => simp only [visitExpr, litOut] at h; split at h; · cases h
             · simp only [Except.ok.injEq] at h; subst h; exact ⟨_, rfl⟩
  | portion a => simp only [visitExpr, litOut] at h; split at h; · cases h
                 · simp only [Except.ok.injEq] at h; subst h; exact ⟨_, rfl⟩
  | badPortion => simp [visitExpr] at h
  | mon ae n =>
    simp only [visitExpr] at h
    split at h
    · cases h
    · split at h
      · cases h
      · split at h
        · cases h
        · split at h
          · simp only [Except.ok.injEq] at h; subst h; exact ⟨_, rfl⟩
          · split at h
            · cases h
            · simp only [Except.ok.injEq] at h; subst h; exact ⟨_, rfl⟩
  | var n =>
    simp only [visitExpr] at h
    split at h
    · cases h
    · split at h
      · cases h
      · simp only [Except.ok.injEq] at h; subst h; exact ⟨_, rfl⟩

theorem litOut_ck {st : CState} {ty : BTy} {v : BVal} (t : Ty) (ht : ty = t.toB) :
    CkSpec (litOut st ty v) true (fun o => o.ty = t.toB) := by
  unfold litOut
  cases h : allocRes st (.const v) with
  | error e => cases allocRes_err h; trivial
  | ok r => exact ⟨rfl, ht⟩

/-- `VisitExpr` accepts exactly the expressions `tyOf` types, with the same type -/
theorem visitExpr_ck {st : CState} {Γ : TEnv} (hinv : Inv st Γ) (e : Expr) :
    CkSpec (visitExpr st e) (tyOf Γ e).isSome (fun o => ∃ t, tyOf Γ e = some t ∧ o.ty = Ty.toB t) := by
  induction e generalizing st with
  | acct a =>
    simp only [visitExpr, litOut]
    cases h : allocRes st (.const (.acct a)) with
    | error e => cases allocRes_err h; trivial
    | ok r => exact ⟨rfl, .account, rfl, rfl⟩
  | asset a =>
    simp only [visitExpr, litOut]
    cases h : allocRes st (.const (.asset a)) with
    | error e => cases allocRes_err h; trivial
    | ok r => exact ⟨rfl, .asset, rfl, rfl⟩
  | num a =>
    simp only [visitExpr, litOut]
    cases h : allocRes st (.const (.num a)) with
    | error e => cases allocRes_err h; trivial
    | ok r => exact ⟨rfl, .number, rfl, rfl⟩
  | str a =>
    simp only [visitExpr, litOut]
    cases h : allocRes st (.const (.str a)) with
    | error e => cases allocRes_err h; trivial
    | ok r => exact ⟨rfl, .string, rfl, rfl⟩
  | portion a =>
    simp only [visitExpr, litOut]
    cases h : allocRes st (.const (.portion a)) with
    | error e => cases allocRes_err h; trivial
    | ok r => exact ⟨rfl, .portion, rfl, rfl⟩
  | badPortion => simp [visitExpr, CkSpec, tyOf]
  | var n =>
    simp only [visitExpr]
    have hv := hinv.vars n
    change (match lookupIdx st.varIdx n with | none => _ | some a => _) at hv
    cases hl : lookupIdx st.varIdx n with
    | none =>
      rw [hl] at hv
      have : (List.find? (fun x => decide (x.fst = n)) st.varIdx).map (·.2) = none := hl
      simp only [this]
      simp [CkSpec, tyOf, lookupTy] at hv ⊢
      exact hv
    | some idx =>
      rw [hl] at hv
      obtain ⟨r, t, h1, h2, h3, h4⟩ := hv
      have : (List.find? (fun x => decide (x.fst = n)) st.varIdx).map (·.2) = some idx := hl
      simp only [this, h1]
      refine ⟨by simp [tyOf]; simpa [lookupTy] using congrArg Option.isSome h4, t, ?_, h3⟩
      simpa [tyOf, lookupTy] using h4
  | mon ae k ih =>
    simp only [visitExpr]
    have iha := ih hinv
    cases h : visitExpr st ae with
    | error e =>
      rw [h] at iha
      exact iha.err (by intro hf; simp only [Option.isSome_eq_false_iff, Option.isNone_iff_eq_none] at hf; simp [tyOf, hf])
    | ok o =>
      rw [h] at iha
      obtain ⟨_, t, ht1, ht2⟩ := iha
      simp only
      by_cases hty : o.ty = .asset
      · have hta : t = .asset := Ty.toB_inj (by rw [← ht2, hty]; rfl)
        subst hta
        simp only [hty, ne_eq, not_true_eq_false, if_false]
        obtain ⟨aa, haa⟩ := visitExpr_addr h (by rw [hty]; decide)
        simp only [haa]
        cases hf : findMonetary o.st.resources aa k with
        | some m => simp only; exact ⟨by simp [tyOf, ht1], .monetary, by simp [tyOf, ht1], rfl⟩
        | none =>
          simp only
          cases hal : allocRes o.st (.monetary aa k) with
          | error e => cases allocRes_err hal; trivial
          | ok r => exact ⟨by simp [tyOf, ht1], .monetary, by simp [tyOf, ht1], rfl⟩
      · simp only [hty, ne_eq, not_false_eq_true, if_true]
        have : t ≠ .asset := by intro e; subst e; exact hty ht2
        show (tyOf Γ (.mon ae k)).isSome = false
        simp [tyOf, ht1, this]
  | add l r ihl ihr =>
    simp only [visitExpr]
    have hl := ihl hinv
    cases h : visitExpr st l with
    | error e =>
      rw [h] at hl
      exact hl.err (by intro hf; simp only [Option.isSome_eq_false_iff, Option.isNone_iff_eq_none] at hf; simp [tyOf, hf])
    | ok lo =>
      rw [h] at hl
      obtain ⟨_, tl, htl1, htl2⟩ := hl
      have hr := ihr (hinv.ext (visitExpr_ext h))
      simp only
      by_cases hn : lo.ty = .number
      · have : tl = .number := Ty.toB_inj (by rw [← htl2, hn]; rfl)
        subst this
        simp only [hn, if_true]
        cases h2 : visitExpr lo.st r with
        | error e =>
          rw [h2] at hr
          exact hr.err (by intro hf; simp only [Option.isSome_eq_false_iff, Option.isNone_iff_eq_none] at hf; simp [tyOf, htl1, hf])
        | ok ro =>
          rw [h2] at hr
          obtain ⟨_, tr, htr1, htr2⟩ := hr
          simp only
          by_cases hrn : ro.ty = .number
          · have : tr = .number := Ty.toB_inj (by rw [← htr2, hrn]; rfl)
            subst this
            simp only [hrn, ne_eq, not_true_eq_false, if_false]
            exact ⟨by simp [tyOf, htl1, htr1], .number, by simp [tyOf, htl1, htr1], rfl⟩
          · simp only [hrn, ne_eq, not_false_eq_true, if_true]
            have : tr ≠ .number := by intro e; subst e; exact hrn htr2
            show (tyOf Γ (.add l r)).isSome = false
            simp [tyOf, htl1, htr1, this]
      · simp only [hn, if_false]
        by_cases hm : lo.ty = .monetary
        · have : tl = .monetary := Ty.toB_inj (by rw [← htl2, hm]; rfl)
          subst this
          simp only [hm, if_true]
          cases h2 : visitExpr lo.st r with
          | error e =>
            rw [h2] at hr
            exact hr.err (by intro hf; simp only [Option.isSome_eq_false_iff, Option.isNone_iff_eq_none] at hf; simp [tyOf, htl1, hf])
          | ok ro =>
            rw [h2] at hr
            obtain ⟨_, tr, htr1, htr2⟩ := hr
            simp only
            by_cases hrn : ro.ty = .monetary
            · have : tr = .monetary := Ty.toB_inj (by rw [← htr2, hrn]; rfl)
              subst this
              simp only [hrn, ne_eq, not_true_eq_false, if_false]
              exact ⟨by simp [tyOf, htl1, htr1], .monetary, by simp [tyOf, htl1, htr1], rfl⟩
            · simp only [hrn, ne_eq, not_false_eq_true, if_true]
              have : tr ≠ .monetary := by intro e; subst e; exact hrn htr2
              show (tyOf Γ (.add l r)).isSome = false
              simp [tyOf, htl1, htr1, this]
        · simp only [hm, if_false]
          have h1 : tl ≠ .number := by intro e; subst e; exact hn htl2
          have h2 : tl ≠ .monetary := by intro e; subst e; exact hm htl2
          show (tyOf Γ (.add l r)).isSome = false
          cases tl <;> simp_all [tyOf]
  | sub l r ihl ihr =>
    simp only [visitExpr]
    have hl := ihl hinv
    cases h : visitExpr st l with
    | error e =>
      rw [h] at hl
      exact hl.err (by intro hf; simp only [Option.isSome_eq_false_iff, Option.isNone_iff_eq_none] at hf; simp [tyOf, hf])
    | ok lo =>
      rw [h] at hl
      obtain ⟨_, tl, htl1, htl2⟩ := hl
      have hr := ihr (hinv.ext (visitExpr_ext h))
      simp only
      by_cases hn : lo.ty = .number
      · have : tl = .number := Ty.toB_inj (by rw [← htl2, hn]; rfl)
        subst this
        simp only [hn, if_true]
        cases h2 : visitExpr lo.st r with
        | error e =>
          rw [h2] at hr
          exact hr.err (by intro hf; simp only [Option.isSome_eq_false_iff, Option.isNone_iff_eq_none] at hf; simp [tyOf, htl1, hf])
        | ok ro =>
          rw [h2] at hr
          obtain ⟨_, tr, htr1, htr2⟩ := hr
          simp only
          by_cases hrn : ro.ty = .number
          · have : tr = .number := Ty.toB_inj (by rw [← htr2, hrn]; rfl)
            subst this
            simp only [hrn, ne_eq, not_true_eq_false, if_false]
            exact ⟨by simp [tyOf, htl1, htr1], .number, by simp [tyOf, htl1, htr1], rfl⟩
          · simp only [hrn, ne_eq, not_false_eq_true, if_true]
            have : tr ≠ .number := by intro e; subst e; exact hrn htr2
            show (tyOf Γ (.sub l r)).isSome = false
            simp [tyOf, htl1, htr1, this]
      · simp only [hn, if_false]
        by_cases hm : lo.ty = .monetary
        · have : tl = .monetary := Ty.toB_inj (by rw [← htl2, hm]; rfl)
          subst this
          simp only [hm, if_true]
          cases h2 : visitExpr lo.st r with
          | error e =>
            rw [h2] at hr
            exact hr.err (by intro hf; simp only [Option.isSome_eq_false_iff, Option.isNone_iff_eq_none] at hf; simp [tyOf, htl1, hf])
          | ok ro =>
            rw [h2] at hr
            obtain ⟨_, tr, htr1, htr2⟩ := hr
            simp only
            by_cases hrn : ro.ty = .monetary
            · have : tr = .monetary := Ty.toB_inj (by rw [← htr2, hrn]; rfl)
              subst this
              simp only [hrn, ne_eq, not_true_eq_false, if_false]
              exact ⟨by simp [tyOf, htl1, htr1], .monetary, by simp [tyOf, htl1, htr1], rfl⟩
            · simp only [hrn, ne_eq, not_false_eq_true, if_true]
              have : tr ≠ .monetary := by intro e; subst e; exact hrn htr2
              show (tyOf Γ (.sub l r)).isSome = false
              simp [tyOf, htl1, htr1, this]
        · simp only [hm, if_false]
          have h1 : tl ≠ .number := by intro e; subst e; exact hn htl2
          have h2 : tl ≠ .monetary := by intro e; subst e; exact hm htl2
          show (tyOf Γ (.sub l r)).isSome = false
          cases tl <;> simp_all [tyOf]

theorem Inv.varIdxOK {st : CState} {Γ : TEnv} (h : Inv st Γ) : VarIdxOK st := by
  intro n a hl
  have := h.vars n
  rw [hl] at this
  obtain ⟨r, t, h1, h2, _, _⟩ := this
  exact ⟨r, h1, h2⟩

/-- `VisitExpr` + type test + dereference (never used with `number`) -/
theorem visitTyped_ck {st : CState} {Γ : TEnv} (hinv : Inv st Γ) (t : Ty) (ht : t ≠ .number) (e : Expr) :
    CkSpec (visitTyped st t.toB e) (decide (tyOf Γ e = some t)) (fun _ => True) := by
  unfold visitTyped
  have h := visitExpr_ck hinv e
  cases hv : visitExpr st e with
  | error er =>
    rw [hv] at h
    exact h.err (by intro hf; simp only [Option.isSome_eq_false_iff, Option.isNone_iff_eq_none] at hf; simp [hf])
  | ok o =>
    rw [hv] at h
    obtain ⟨_, t', h1, h2⟩ := h
    simp only
    by_cases hty : o.ty = t.toB
    · have : t' = t := Ty.toB_inj (by rw [← h2, hty])
      subst this
      simp only [hty, ne_eq, not_true_eq_false, if_false]
      obtain ⟨a, ha⟩ := visitExpr_addr hv (by rw [hty]; cases t' <;> simp_all [Ty.toB])
      simp only [ha]
      exact ⟨by simp [h1], trivial⟩
    · simp only [hty, ne_eq, not_false_eq_true, if_true]
      have : t' ≠ t := by intro e; subst e; exact hty h2
      show decide (tyOf Γ e = some t) = false
      simp [h1, this]

/-! ### emptied accounts: resource addresses against `resKey`s -/

/-- the key (`@literal` / `$variable`) an address stands for -/
def KeyAt (st : CState) (a : Addr) (k : String) : Prop :=
  (∃ s, st.resources[a]? = some (.const (.acct s)) ∧ k = "@" ++ s) ∨ (∃ n, lookupIdx st.varIdx n = some a ∧ k = "$" ++ n)

theorem KeyAt.ext {st st' : CState} {a : Addr} {k : String} (h : KeyAt st a k) (he : Ext st st') : KeyAt st' a k := by
  rcases h with ⟨s, h1, h2⟩ | ⟨n, h1, h2⟩
  · exact Or.inl ⟨s, he.get h1, h2⟩
  · exact Or.inr ⟨n, by rw [he.vars]; exact h1, h2⟩

theorem at_inj {s s' : String} (h : "@" ++ s = "@" ++ s') : s = s' := by
  have := congrArg String.toList h
  simp only [String.toList_append] at this
  exact String.toList_inj.mp (List.append_cancel_left this)

theorem dollar_inj {s s' : String} (h : "$" ++ s = "$" ++ s') : s = s' := by
  have := congrArg String.toList h
  simp only [String.toList_append] at this
  exact String.toList_inj.mp (List.append_cancel_left this)

theorem at_ne_dollar (s n : String) : "@" ++ s ≠ "$" ++ n := by
  intro h
  have := congrArg String.toList h
  simp only [String.toList_append] at this
  have : ("@".toList ++ s.toList).head? = ("$".toList ++ n.toList).head? := by rw [this]
  simp at this

theorem KeyAt.inj {st : CState} {Γ : TEnv} (hinv : Inv st Γ) {a a' : Addr} {k : String} (h : KeyAt st a k) (h' : KeyAt st a' k) : a = a' := by
  rcases h with ⟨s, h1, h2⟩ | ⟨n, h1, h2⟩ <;> rcases h' with ⟨s', h1', h2'⟩ | ⟨n', h1', h2'⟩
  · have : s = s' := at_inj (h2.symm.trans h2')
    subst this
    rcases Nat.lt_trichotomy a a' with hlt | heq | hgt
    · have := hinv.nodup a a' _ _ hlt h1 h1'
      simp [valueEquals] at this
    · exact heq
    · have := hinv.nodup a' a _ _ hgt h1' h1
      simp [valueEquals] at this
  · exact absurd (h2.symm.trans h2') (at_ne_dollar _ _)
  · exact absurd (h2'.symm.trans h2) (at_ne_dollar _ _)
  · have : n = n' := dollar_inj (h2.symm.trans h2')
    subst this
    rw [h1] at h1'; exact Option.some.inj h1'

theorem KeyAt.fn {st : CState} {Γ : TEnv} (hinv : Inv st Γ) {a : Addr} {k k' : String} (h : KeyAt st a k) (h' : KeyAt st a k') : k = k' := by
  rcases h with ⟨s, h1, h2⟩ | ⟨n, h1, h2⟩ <;> rcases h' with ⟨s', h1', h2'⟩ | ⟨n', h1', h2'⟩
  · rw [h1] at h1'
    simp only [Option.some.injEq, Resource.const.injEq, BVal.acct.injEq] at h1'
    rw [h2, h2', h1']
  · have := hinv.vars n'
    rw [h1'] at this
    obtain ⟨r, t, hr, hd, _, _⟩ := this
    rw [h1] at hr; cases hr; simp [declName] at hd
  · have := hinv.vars n
    rw [h1] at this
    obtain ⟨r, t, hr, hd, _, _⟩ := this
    rw [h1'] at hr; cases hr; simp [declName] at hd
  · rw [h2, h2', hinv.inj n n' a h1 h1']

/-- pointwise `KeyAt` -/
inductive KeysOf (st : CState) : List Addr → List String → Prop where
  | nil : KeysOf st [] []
  | cons {a : Addr} {k : String} {as : List Addr} {ks : List String} : KeyAt st a k → KeysOf st as ks → KeysOf st (a :: as) (k :: ks)

theorem KeysOf.append {st : CState} {xs ys : List Addr} {ks ls : List String} (h1 : KeysOf st xs ks) (h2 : KeysOf st ys ls) :
    KeysOf st (xs ++ ys) (ks ++ ls) := by
  induction h1 with
  | nil => exact h2
  | cons h _ ih => exact .cons h ih

/-- membership of an address among addresses = membership of its key among their keys -/
theorem contains_keys {st : CState} {Γ : TEnv} (hinv : Inv st Γ) {x : Addr} {k : String} (hx : KeyAt st x k)
    {ys : List Addr} {ls : List String} (h : KeysOf st ys ls) : ys.contains x = ls.contains k := by
  induction h with
  | nil => rfl
  | @cons y l ys' ls' hyl _ ih =>
    simp only [List.contains_cons]
    rw [ih]
    congr 1
    by_cases hxy : x = y
    · subst hxy
      have := KeyAt.fn hinv hx hyl
      subst this
      simp
    · have : k ≠ l := by intro e; subst e; exact hxy (KeyAt.inj hinv hx hyl)
      have h1 : (x == y) = false := beq_eq_false_iff_ne.mpr hxy
      have h2 : (k == l) = false := beq_eq_false_iff_ne.mpr this
      rw [h1, h2]

theorem any_contains_keys {st : CState} {Γ : TEnv} (hinv : Inv st Γ) {xs : List Addr} {ks : List String}
    (hx : KeysOf st xs ks) {ys : List Addr} {ls : List String} (hy : KeysOf st ys ls) :
    (xs.any fun k => ys.contains k) = (ks.any fun k => ls.contains k) := by
  induction hx with
  | nil => rfl
  | cons hxk _ ih =>
    simp only [List.any_cons]
    rw [ih, contains_keys hinv hxk hy]

theorem forall₂_ext {st st' : CState} {xs : List Addr} {ks : List String} (h : KeysOf st xs ks) (he : Ext st st') :
    KeysOf st' xs ks := by
  induction h with
  | nil => exact .nil
  | cons h1 _ ih => exact .cons (h1.ext he) ih

/-- the address of an account expression stands for its `resKey` -/
theorem acctKey {st : CState} {e : Expr} {o : ExprOut} {a : Addr} (hv : visitExpr st e = .ok o) (hty : o.ty = .account)
    (ha : o.addr = some a) : KeyAt o.st a (resKey e) := by
  cases e with
  | acct s =>
    simp only [visitExpr, litOut] at hv
    split at hv
    · cases hv
    · rename_i a' st1 hal
      simp only [Except.ok.injEq] at hv; subst hv
      simp only [Option.some.injEq] at ha; subst ha
      obtain ⟨_, c, hc, hveq⟩ := allocConst_ok hal
      have : c = .acct s := valueEquals_eq hveq (by intro r hr; cases hr) (by intro r hr; cases hr)
      subst this
      exact Or.inl ⟨s, hc, rfl⟩
  | var n =>
    simp only [visitExpr] at hv
    split at hv
    · cases hv
    · rename_i idx hidx'
      split at hv
      · cases hv
      · simp only [Except.ok.injEq] at hv; subst hv
        simp only [Option.some.injEq] at ha; subst ha
        exact Or.inr ⟨n, hidx', rfl⟩
  | asset s =>
    simp only [visitExpr, litOut] at hv
    split at hv
    · cases hv
    · simp only [Except.ok.injEq] at hv; subst hv; cases hty
  | num s =>
    simp only [visitExpr, litOut] at hv
    split at hv
    · cases hv
    · simp only [Except.ok.injEq] at hv; subst hv; cases hty
  | str s =>
    simp only [visitExpr, litOut] at hv
    split at hv
    · cases hv
    · simp only [Except.ok.injEq] at hv; subst hv; cases hty
  | portion s =>
    simp only [visitExpr, litOut] at hv
    split at hv
    · cases hv
    · simp only [Except.ok.injEq] at hv; subst hv; cases hty
  | badPortion => simp [visitExpr] at hv
  | mon ae k =>
    simp only [visitExpr] at hv
    split at hv
    · cases hv
    · split at hv
      · cases hv
      · split at hv
        · cases hv
        · split at hv
          · simp only [Except.ok.injEq] at hv; subst hv; cases hty
          · split at hv
            · cases hv
            · simp only [Except.ok.injEq] at hv; subst hv; cases hty
  | add l r =>
    simp only [visitExpr] at hv
    split at hv
    · cases hv
    · split at hv
      · split at hv
        · cases hv
        · split at hv
          · cases hv
          · simp only [Except.ok.injEq] at hv; subst hv; cases hty
      · split at hv
        · split at hv
          · cases hv
          · split at hv
            · cases hv
            · simp only [Except.ok.injEq] at hv; subst hv; cases hty
        · cases hv
  | sub l r =>
    simp only [visitExpr] at hv
    split at hv
    · cases hv
    · split at hv
      · split at hv
        · cases hv
        · split at hv
          · cases hv
          · simp only [Except.ok.injEq] at hv; subst hv; cases hty
      · split at hv
        · split at hv
          · cases hv
          · split at hv
            · cases hv
            · simp only [Except.ok.injEq] at hv; subst hv; cases hty
        · cases hv

/-! ### sources -/

def SrcPost (Γ : TEnv) (isAll : Bool) (s : Source) (so : SrcOut) : Prop :=
  ∃ fbk keys, checkSource Γ isAll s = some (fbk, keys) ∧ so.fallback.isSome = fbk ∧ KeysOf so.st so.emptied keys

def SrcsPost (Γ : TEnv) (isAll : Bool) (ss : SourceList) (emK : List String) (r : SrcOut × Nat) : Prop :=
  ∃ fbk keys, checkSources Γ isAll ss emK = some (fbk, keys) ∧ r.1.fallback.isSome = fbk ∧ KeysOf r.1.st r.1.emptied keys

theorem isSome_false {α} {o : Option α} (h : o.isSome = false) : o = none := by cases o <;> simp_all

mutual
theorem visitSource_ck {st : CState} {Γ : TEnv} (hinv : Inv st Γ) (pa : Code) (isAll : Bool) (s : Source) :
    CkSpec (visitSource st pa isAll s) (checkSource Γ isAll s).isSome (SrcPost Γ isAll s) := by
  cases s with
  | acct e od =>
    simp only [visitSource]
    have he := visitExpr_ck hinv e
    cases hv : visitExpr st e with
    | error er =>
      rw [hv] at he
      exact he.err (by intro hf; simp [checkSource, isSome_false hf])
    | ok o =>
      rw [hv] at he
      obtain ⟨_, t, ht1, ht2⟩ := he
      simp only
      by_cases hty : o.ty = .account
      · have : t = .account := Ty.toB_inj (by rw [← ht2, hty]; rfl)
        subst this
        simp only [hty, ne_eq, not_true_eq_false, if_false]
        obtain ⟨a, ha⟩ := visitExpr_addr hv (by rw [hty]; decide)
        simp only [ha]
        have hw := isWorldAddr_lit hv hinv.varIdxOK hty ha
        have hkey := acctKey hv hty ha
        have hinv1 := hinv.ext (visitExpr_ext hv)
        cases od with
        | none =>
          simp only
          cases hs : emitSeq o.st [.pushInt 0, .op .monetaryNew, .op .takeAll] with
          | error er => cases emitSeq_err hs; trivial
          | ok r =>
            obtain ⟨c, st1⟩ := r
            simp only
            have hk1 : KeysOf (addSources st1 [a]) [a] [resKey e] :=
              .cons (hkey.ext ((emitSeq_ext hs).trans (Ext.addSources _ _))) .nil
            rw [hw]
            cases hwl : isWorldLit e <;> cases isAll <;>
              simp [CkSpec, SrcPost, checkSource, ht1, hwl, hk1]
        | upTo x =>
          simp only
          rw [hw]
          cases hwl : isWorldLit e
          · simp only [Bool.false_eq_true, if_false]
            have hx := visitExpr_ck hinv1 x
            cases hvx : visitExpr o.st x with
            | error er =>
              rw [hvx] at hx
              exact hx.err (by intro hf; simp [checkSource, ht1, hwl, isSome_false hf])
            | ok xo =>
              rw [hvx] at hx
              obtain ⟨_, tx, htx1, htx2⟩ := hx
              simp only
              by_cases hxt : xo.ty = .monetary
              · have : tx = .monetary := Ty.toB_inj (by rw [← htx2, hxt]; rfl)
                subst this
                have hk1 : KeysOf (addSources xo.st [a]) [a] [resKey e] :=
                  .cons (hkey.ext ((visitExpr_ext hvx).trans (Ext.addSources _ _))) .nil
                simp [CkSpec, SrcPost, checkSource, ht1, hwl, hxt, htx1, hk1]
              · have : tx ≠ .monetary := by intro e'; subst e'; exact hxt htx2
                simp [CkSpec, checkSource, ht1, hwl, hxt, htx1, this]
          · simp [CkSpec, checkSource, ht1, hwl]
        | unbounded =>
          simp only
          rw [hw]
          cases hwl : isWorldLit e
          · simp only [Bool.false_eq_true, if_false]
            cases hs : emitSeq o.st [.pushInt 0, .op .monetaryNew, .op .takeAll] with
            | error er => cases emitSeq_err hs; trivial
            | ok r =>
              obtain ⟨c, st1⟩ := r
              simp only
              have hk1 : KeysOf (addSources st1 [a]) [a] [resKey e] :=
                .cons (hkey.ext ((emitSeq_ext hs).trans (Ext.addSources _ _))) .nil
              cases isAll <;> simp [CkSpec, SrcPost, checkSource, ht1, hwl, hk1]
          · simp [CkSpec, checkSource, ht1, hwl]
      · simp only [hty, ne_eq, not_false_eq_true, if_true]
        have : t ≠ .account := by intro e'; subst e'; exact hty ht2
        show (checkSource Γ isAll (.acct e od)).isSome = false
        simp [checkSource, ht1, this]
  | maxed cap s =>
    simp only [visitSource]
    have ih := visitSource_ck hinv pa false s
    cases hv : visitSource st pa false s with
    | error er =>
      rw [hv] at ih
      exact ih.err (by intro hf; simp [checkSource, isSome_false hf])
    | ok so1 =>
      rw [hv] at ih
      obtain ⟨_, fbk, keys, hck, _, _⟩ := ih
      simp only
      have hinv1 := hinv.ext (visitSource_ok hv).1
      have hc := visitExpr_ck hinv1 cap
      cases hvc : visitExpr so1.st cap with
      | error er =>
        rw [hvc] at hc
        exact hc.err (by intro hf; simp [checkSource, hck, isSome_false hf])
      | ok co =>
        rw [hvc] at hc
        obtain ⟨_, tc, htc1, htc2⟩ := hc
        simp only
        by_cases hct : co.ty = .monetary
        · have : tc = .monetary := Ty.toB_inj (by rw [← htc2, hct]; rfl)
          subst this
          simp only [hct, ne_eq, not_true_eq_false, if_false]
          cases hs : emitSeq co.st (match so1.fallback with
              | some fb => [.op .takeMax, .bump 1, .op .repay, .pushAddr fb, .bump 2, .op .takeAlways, .pushInt 2, .op .fundingAssemble]
              | none => [.op .takeMax, .bump 1, .op .repay, .bump 1, .op .delete]) with
          | error er => cases emitSeq_err hs; trivial
          | ok r =>
            obtain ⟨c, st1⟩ := r
            exact ⟨by simp [checkSource, hck, htc1], false, [], by simp [checkSource, hck, htc1], rfl, .nil⟩
        · simp only [hct, ne_eq, not_false_eq_true, if_true]
          have : tc ≠ .monetary := by intro e'; subst e'; exact hct htc2
          show (checkSource Γ isAll (.maxed cap s)).isSome = false
          simp [checkSource, hck, htc1, this]
  | inorder ss =>
    simp only [visitSource]
    have ih := visitSources_ck hinv pa isAll ss [] [] [] .nil
    cases hv : visitSources st pa isAll ss [] [] with
    | error er =>
      rw [hv] at ih
      exact ih.err (by intro hf; simpa [checkSource] using hf)
    | ok r =>
      obtain ⟨so, n⟩ := r
      rw [hv] at ih
      obtain ⟨hck0, fbk, keys, hck, hfb, hkeys⟩ := ih
      simp only
      cases hs : emitSeq so.st [.pushInt n, .op .fundingAssemble] with
      | error er => cases emitSeq_err hs; trivial
      | ok r =>
        obtain ⟨c, st1⟩ := r
        exact ⟨by simpa [checkSource] using hck0, fbk, keys, by simpa [checkSource] using hck, hfb,
          forall₂_ext hkeys ((emitSeq_ext hs).trans (Ext.addSources _ _))⟩
theorem visitSources_ck {st : CState} {Γ : TEnv} (hinv : Inv st Γ) (pa : Code) (isAll : Bool) (ss : SourceList)
    (nd em : List Addr) (emK : List String) (hem : KeysOf st em emK) :
    CkSpec (visitSources st pa isAll ss nd em) (checkSources Γ isAll ss emK).isSome (SrcsPost Γ isAll ss emK) := by
  cases ss with
  | nil =>
    simp only [visitSources, checkSources]
    exact ⟨rfl, false, emK, rfl, rfl, hem⟩
  | cons s rest =>
    simp only [visitSources]
    have ih1 := visitSource_ck hinv pa isAll s
    cases hv : visitSource st pa isAll s with
    | error er =>
      rw [hv] at ih1
      exact ih1.err (by intro hf; simp [checkSources, isSome_false hf])
    | ok so =>
      rw [hv] at ih1
      obtain ⟨_, fbk, e1, hck, hfb, hk1⟩ := ih1
      simp only
      have hext := (visitSource_ok hv).1
      have hinv1 := hinv.ext hext
      have hem1 := forall₂_ext hem hext
      have hany := any_contains_keys hinv1 hk1 hem1
      by_cases hA : (so.fallback.isSome && !rest.isNil) = true
      · simp only [hA, if_true]
        show (checkSources Γ isAll (.cons s rest) emK).isSome = false
        simp only [Bool.and_eq_true, Bool.not_eq_true'] at hA
        cases rest with
        | nil => simp [SourceList.isNil] at hA
        | cons s2 r2 =>
          simp only [checkSources, hck]
          split
          · rfl
          · rw [← hfb, hA.1]; rfl
      · simp only [hA, Bool.false_eq_true, if_false]
        by_cases hB : (so.emptied.any fun k => em.contains k) = true
        · simp only [hB, if_true]
          show (checkSources Γ isAll (.cons s rest) emK).isSome = false
          rw [hany] at hB
          simp only [checkSources, hck, hB, if_true]; rfl
        · simp only [hB, Bool.false_eq_true, if_false]
          have hB' : (e1.any fun k => emK.contains k) = false := by rw [← hany]; simpa using hB
          have ih2 := visitSources_ck hinv1 pa isAll rest (unionAddr nd so.needed) (em ++ so.emptied) (emK ++ e1) (hem1.append hk1)
          cases rest with
          | nil =>
            simp only [visitSources, SourceList.isNil, if_true]
            refine ⟨by simp only [checkSources, hck, hB', Bool.false_eq_true, if_false]; rfl, fbk, emK ++ e1,
              by simp only [checkSources, hck, hB', Bool.false_eq_true, if_false], hfb, hem1.append hk1⟩
          | cons s2 r2 =>
            have hnfb : fbk = false := by
              rw [← hfb]; simpa [SourceList.isNil] using hA
            subst hnfb
            cases hv2 : visitSources so.st pa isAll (.cons s2 r2) (unionAddr nd so.needed) (em ++ so.emptied) with
            | error er =>
              rw [hv2] at ih2
              exact ih2.err (by intro hf; simp only [checkSources, hck, hB', Bool.false_eq_true, if_false] at hf ⊢; exact hf)
            | ok r =>
              obtain ⟨ro, n⟩ := r
              rw [hv2] at ih2
              obtain ⟨hck0, fbk2, keys2, hck2, hfb2, hk2⟩ := ih2
              simp only [SourceList.isNil, Bool.false_eq_true, if_false]
              refine ⟨?_, fbk2, keys2, ?_, hfb2, hk2⟩
              · simp only [checkSources, hck, hB', Bool.false_eq_true, if_false]; simpa [checkSources] using hck0
              · simp only [checkSources, hck, hB', Bool.false_eq_true, if_false]; simpa [checkSources] using hck2
end

/-! ### allotments -/

def isVarP : PortionSpec → Bool | .var _ => true | _ => false
def isRemP : PortionSpec → Bool | .remaining => true | _ => false
def isBadP : PortionSpec → Bool | .badConst => true | _ => false
def varOkP (Γ : TEnv) : PortionSpec → Bool
  | .var n => decide (tyOf Γ (.var n) = some .portion)
  | _ => true
def nRem (l : List PortionSpec) : Nat := (l.filter isRemP).length

/-- the verdict of the loop of `VisitAllotment` over `l`, entered with `hasRemaining = hr` -/
def portionsCk (Γ : TEnv) (l : List PortionSpec) (hr : Bool) : Bool :=
  !l.any isBadP && l.all (varOkP Γ) && decide (nRem l + (if hr then 1 else 0) ≤ 1)

theorem nRem_cons (p : PortionSpec) (l : List PortionSpec) : nRem (p :: l) = nRem l + (if isRemP p then 1 else 0) := by
  unfold nRem
  rw [List.filter_cons]
  cases isRemP p <;> simp

theorem portionsCk_cons (Γ : TEnv) (p : PortionSpec) (l : List PortionSpec) (hr : Bool) :
    portionsCk Γ (p :: l) hr = (!isBadP p && varOkP Γ p && !(isRemP p && hr) && portionsCk Γ l (hr || isRemP p)) := by
  unfold portionsCk
  rw [nRem_cons, List.any_cons, List.all_cons]
  cases isBadP p <;> cases varOkP Γ p <;> cases isRemP p <;> cases hr <;> cases l.any isBadP <;> cases l.all (varOkP Γ) <;> simp <;> omega

theorem ck_const (Γ : TEnv) (r : Rat') (l : List PortionSpec) (hr : Bool) : portionsCk Γ (.const r :: l) hr = portionsCk Γ l hr := by
  rw [portionsCk_cons]; simp [isBadP, varOkP, isRemP]
theorem ck_bad (Γ : TEnv) (l : List PortionSpec) (hr : Bool) : portionsCk Γ (.badConst :: l) hr = false := by
  rw [portionsCk_cons]; simp [isBadP]
theorem ck_var (Γ : TEnv) (n : String) (l : List PortionSpec) (hr : Bool) :
    portionsCk Γ (.var n :: l) hr = (decide (tyOf Γ (.var n) = some .portion) && portionsCk Γ l hr) := by
  rw [portionsCk_cons]; simp [isBadP, varOkP, isRemP]
theorem ck_rem_t (Γ : TEnv) (l : List PortionSpec) : portionsCk Γ (.remaining :: l) true = false := by
  rw [portionsCk_cons]; simp [isBadP, varOkP, isRemP]
theorem ck_rem_f (Γ : TEnv) (l : List PortionSpec) : portionsCk Γ (.remaining :: l) false = portionsCk Γ l true := by
  rw [portionsCk_cons]; simp [isBadP, varOkP, isRemP]

/-- what the loop of `VisitAllotment` returns: the two flags, and a state that only grew -/
def PortPost (st : CState) (l : List PortionSpec) (hv hr : Bool) (r : Code × CState × Bool × Bool) : Prop :=
  r.2.2.1 = (hv || l.any isVarP) ∧ r.2.2.2 = (hr || l.any isRemP) ∧ Ext st r.2.1

theorem visitPortions_ck {st : CState} {Γ : TEnv} (hinv : Inv st Γ) (l : List PortionSpec) (hv hr : Bool) :
    CkSpec (visitPortions st l hv hr) (portionsCk Γ l hr) (PortPost st l hv hr) := by
  induction l generalizing st hv hr with
  | nil =>
    simp only [visitPortions]
    refine ⟨?_, by simp, by simp, Ext.refl _⟩
    cases hr <;> simp [portionsCk, nRem]
  | cons p rest ih =>
    simp only [visitPortions]
    cases p with
    | const r =>
      simp only
      rw [ck_const]
      cases hal : allocRes st (.const (.portion r)) with
      | error e => cases allocRes_err hal; trivial
      | ok x =>
        obtain ⟨a, st1⟩ := x
        simp only
        have hext := (allocConst_ok hal).1
        have := ih (hinv.ext hext) hv hr
        cases hrec : visitPortions st1 rest hv hr with
        | error e => rw [hrec] at this; exact this.err id
        | ok y =>
          obtain ⟨c2, st2, hv2, hr2⟩ := y
          rw [hrec] at this
          obtain ⟨h1, h2, h3, h4⟩ := this
          exact ⟨h1, by simpa [isVarP] using h2, by simpa [isRemP] using h3, hext.trans h4⟩
    | badConst => simp only; rw [ck_bad]; rfl
    | var n =>
      simp only
      rw [ck_var]
      have he := visitExpr_ck hinv (.var n)
      cases hvx : visitExpr st (.var n) with
      | error e =>
        rw [hvx] at he
        exact he.err (by intro hf; simp [isSome_false hf])
      | ok o =>
        rw [hvx] at he
        obtain ⟨_, t, ht1, ht2⟩ := he
        simp only
        by_cases hty : o.ty = .portion
        · have : t = .portion := Ty.toB_inj (by rw [← ht2, hty]; rfl)
          subst this
          simp only [hty, ne_eq, not_true_eq_false, if_false, ht1, decide_true, Bool.true_and]
          have hext := visitExpr_ext hvx
          have := ih (hinv.ext hext) true hr
          cases hrec : visitPortions o.st rest true hr with
          | error e => rw [hrec] at this; exact this.err id
          | ok y =>
            obtain ⟨c2, st2, hv2, hr2⟩ := y
            rw [hrec] at this
            obtain ⟨h1, h2, h3, h4⟩ := this
            exact ⟨h1, by simpa [isVarP] using h2, by simpa [isRemP] using h3, hext.trans h4⟩
        · simp only [hty, ne_eq, not_false_eq_true, if_true]
          have : t ≠ .portion := by intro e'; subst e'; exact hty ht2
          show (decide (tyOf Γ (.var n) = some .portion) && portionsCk Γ rest hr) = false
          simp [ht1, this]
    | remaining =>
      simp only
      cases hr with
      | true => simp only [if_true]; rw [ck_rem_t]; rfl
      | false =>
        simp only [Bool.false_eq_true, if_false]
        rw [ck_rem_f]
        cases hal : allocRes st (.const .remaining) with
        | error e => cases allocRes_err hal; trivial
        | ok x =>
          obtain ⟨a, st1⟩ := x
          simp only
          have hext := (allocConst_ok hal).1
          have := ih (hinv.ext hext) hv true
          cases hrec : visitPortions st1 rest hv true with
          | error e => rw [hrec] at this; exact this.err id
          | ok y =>
            obtain ⟨c2, st2, hv2, hr2⟩ := y
            rw [hrec] at this
            obtain ⟨h1, h2, h3, h4⟩ := this
            exact ⟨h1, by simpa [isVarP] using h2, by simpa [isRemP] using h3, hext.trans h4⟩

theorem nRem_reverse (l : List PortionSpec) : nRem l.reverse = nRem l := by
  simp [nRem, List.filter_reverse]

theorem any_isRem_iff (l : List PortionSpec) : l.any isRemP = decide (1 ≤ nRem l) := by
  induction l with
  | nil => rfl
  | cons p rest ih =>
    rw [List.any_cons, nRem_cons, ih]
    cases isRemP p <;> simp

theorem checkPortions_eqP (Γ : TEnv) (ps : List PortionSpec) :
    checkPortions Γ ps =
      (!ps.any isBadP && ps.all (varOkP Γ) && decide (nRem ps ≤ 1) && decide ((ratSum (constPortions ps)).1 ≤ (ratSum (constPortions ps)).2) &&
        (if (ratSum (constPortions ps)).1 < (ratSum (constPortions ps)).2 then decide (nRem ps = 1) else !ps.any isVarP && decide (nRem ps = 0))) := by
  rfl

theorem chain_eq {α : Type} (a b k : Nat) (hv : Bool) (hk : k ≤ 1) (X : Except CompileErr α) :
    (if a > b then (.error .static : Except CompileErr α)
     else if (decide (a < b) && !decide (1 ≤ k)) = true then .error .static
     else if (decide (a = b) && hv) = true then .error .static
     else if (decide (a = b) && decide (1 ≤ k)) = true then .error .static
     else X)
    = if (decide (a ≤ b) && (if a < b then decide (k = 1) else !hv && decide (k = 0))) = true then X else .error .static := by
  have hk' : k = 0 ∨ k = 1 := by omega
  rcases Nat.lt_trichotomy a b with h | h | h
  · have h1 : ¬ a > b := by omega
    have h2 : ¬ a = b := by omega
    have h3 : a ≤ b := by omega
    rcases hk' with rfl | rfl <;> cases hv <;> simp [h, h1, h2, h3]
  · subst h
    rcases hk' with rfl | rfl <;> cases hv <;> simp
  · have h1 : ¬ a < b := by omega
    have h2 : ¬ a = b := by omega
    have h3 : ¬ a ≤ b := by omega
    rcases hk' with rfl | rfl <;> cases hv <;> simp [h, h1, h3]

/-- `VisitAllotment` accepts exactly the portion lists `checkPortions` accepts -/
theorem visitAllotment_ck {st : CState} {Γ : TEnv} (hinv : Inv st Γ) (ps : List PortionSpec) :
    CkSpec (visitAllotment st ps) (checkPortions Γ ps) (fun r => Ext st r.2) := by
  unfold visitAllotment
  have hp := visitPortions_ck hinv ps.reverse false false
  have hck : portionsCk Γ ps.reverse false = (!ps.any isBadP && ps.all (varOkP Γ) && decide (nRem ps ≤ 1)) := by
    simp [portionsCk, nRem_reverse]
  rw [checkPortions_eqP]
  rw [hck] at hp
  cases hv : visitPortions st ps.reverse false false with
  | error e =>
    rw [hv] at hp
    refine hp.err ?_
    intro hf
    rw [hf]; rfl
  | ok r =>
    obtain ⟨c, st1, hasVar, hasRem⟩ := r
    rw [hv] at hp
    obtain ⟨h1, h2, h3, h4⟩ := hp
    simp only [Bool.false_or, List.any_reverse] at h2 h3
    simp only at h4
    rw [any_isRem_iff] at h3
    subst h2 h3
    have hle : nRem ps ≤ 1 := by
      simp only [Bool.and_eq_true, decide_eq_true_eq] at h1; exact h1.2
    dsimp only
    rw [h1, Bool.true_and]
    rw [chain_eq _ _ _ _ hle]
    cases hacc : (decide ((ratSum (constPortions ps)).1 ≤ (ratSum (constPortions ps)).2) &&
        (if (ratSum (constPortions ps)).1 < (ratSum (constPortions ps)).2 then decide (nRem ps = 1) else !ps.any isVarP && decide (nRem ps = 0)))
    · simp only [Bool.false_eq_true, if_false]; rfl
    · simp only [if_true]
      cases hs : emitSeq st1 [.pushInt ps.length, .op .makeAllotment] with
      | error e => cases emitSeq_err hs; trivial
      | ok r => exact ⟨rfl, h4.trans (emitSeq_ext hs)⟩

/-! ### destinations -/

mutual
theorem visitDest_ck {st : CState} {Γ : TEnv} (hinv : Inv st Γ) (d : Dest) :
    CkSpec (visitDest st d) (checkDest Γ d) (fun r => Ext st r.2) := by
  cases d with
  | acct e =>
    simp only [visitDest, checkDest]
    have he := visitExpr_ck hinv e
    cases hv : visitExpr st e with
    | error er =>
      rw [hv] at he
      exact he.err (by intro hf; simp [isSome_false hf])
    | ok o =>
      rw [hv] at he
      obtain ⟨_, t, ht1, ht2⟩ := he
      simp only
      by_cases hty : o.ty = .account
      · have : t = .account := Ty.toB_inj (by rw [← ht2, hty]; rfl)
        subst this
        simp only [hty, ne_eq, not_true_eq_false, if_false]
        exact ⟨by simp [ht1], visitExpr_ext hv⟩
      · simp only [hty, ne_eq, not_false_eq_true, if_true]
        have : t ≠ .account := by intro e'; subst e'; exact hty ht2
        show decide (tyOf Γ e = some .account) = false
        simp [ht1, this]
  | inorder caps rest =>
    simp only [visitDest, checkDest]
    cases h0 : emitSeq st [.op .fundingSum, .op .asset, .pushInt 0, .op .monetaryNew, .bump 1] with
    | error e => cases emitSeq_err h0; trivial
    | ok r0 =>
      obtain ⟨c0, st0⟩ := r0
      simp only
      have e0 := emitSeq_ext h0
      have hc := visitCaps_ck (hinv.ext e0) caps
      cases h1 : visitCaps st0 caps with
      | error e => rw [h1] at hc; exact hc.err (by intro hf; simp [hf])
      | ok r1 =>
        obtain ⟨c1, st1⟩ := r1
        rw [h1] at hc
        obtain ⟨hck1, e1⟩ := hc
        simp only at e1
        simp only
        cases h2 : emitSeq st1 [.op .fundingReverse, .bump 1, .op .take, .op .fundingReverse, .bump 1, .op .fundingReverse] with
        | error e => cases emitSeq_err h2; trivial
        | ok r2 =>
          obtain ⟨c2, st2⟩ := r2
          simp only
          have e2 := emitSeq_ext h2
          have hk := visitKD_ck (hinv.ext (e0.trans (e1.trans e2))) rest
          cases h3 : visitKD st2 rest with
          | error e => rw [h3] at hk; exact hk.err (by intro hf; simp [hf])
          | ok r3 =>
            obtain ⟨c3, st3⟩ := r3
            rw [h3] at hk
            obtain ⟨hck3, e3⟩ := hk
            simp only at e3
            simp only
            cases h4 : emitSeq st3 [.bump 1, .pushInt 2, .op .fundingAssemble] with
            | error e => cases emitSeq_err h4; trivial
            | ok r4 =>
              obtain ⟨c4, st4⟩ := r4
              exact ⟨by simp [hck1, hck3], e0.trans (e1.trans (e2.trans (e3.trans (emitSeq_ext h4))))⟩
  | allot items =>
    simp only [visitDest, checkDest]
    have ha := visitAllotment_ck hinv (allotPortions items)
    cases h1 : visitAllotment st (allotPortions items) with
    | error e => rw [h1] at ha; exact ha.err (by intro hf; simp [hf])
    | ok r1 =>
      obtain ⟨c1, st1⟩ := r1
      rw [h1] at ha
      obtain ⟨hck1, e1⟩ := ha
      simp only at e1
      simp only
      cases h2 : emitSeq st1 [.bump (allotLen items)] with
      | error e => cases emitSeq_err h2; trivial
      | ok r2 =>
        obtain ⟨c2, st2⟩ := r2
        simp only
        have e2 := emitSeq_ext h2
        have hd := visitAllocDest_ck (hinv.ext (e1.trans e2)) items
        cases h3 : visitAllocDest st2 items with
        | error e => rw [h3] at hd; exact hd.err (by intro hf; simp [hf])
        | ok r3 =>
          obtain ⟨c3, st3⟩ := r3
          rw [h3] at hd
          obtain ⟨hck3, e3⟩ := hd
          exact ⟨by simp [hck1, hck3], e1.trans (e2.trans e3)⟩
theorem visitKD_ck {st : CState} {Γ : TEnv} (hinv : Inv st Γ) (kd : KeptOrDest) :
    CkSpec (visitKD st kd) (checkKD Γ kd) (fun r => Ext st r.2) := by
  cases kd with
  | kept => simp only [visitKD, checkKD]; exact ⟨rfl, Ext.refl _⟩
  | «to» d => simp only [visitKD, checkKD]; exact visitDest_ck hinv d
theorem visitCaps_ck {st : CState} {Γ : TEnv} (hinv : Inv st Γ) (cs : CapList) :
    CkSpec (visitCaps st cs) (checkCaps Γ cs) (fun r => Ext st r.2) := by
  cases cs with
  | nil => simp only [visitCaps, checkCaps]; exact ⟨rfl, Ext.refl _⟩
  | cons cap kd rest =>
    simp only [visitCaps, checkCaps]
    have he := visitExpr_ck hinv cap
    cases hv : visitExpr st cap with
    | error er =>
      rw [hv] at he
      exact he.err (by intro hf; simp [isSome_false hf])
    | ok o =>
      rw [hv] at he
      obtain ⟨_, t, ht1, ht2⟩ := he
      simp only
      by_cases hty : o.ty = .monetary
      · have : t = .monetary := Ty.toB_inj (by rw [← ht2, hty]; rfl)
        subst this
        simp only [hty, ne_eq, not_true_eq_false, if_false]
        have e0 := visitExpr_ext hv
        cases h1 : emitSeq o.st [.op .takeMax, .bump 2, .op .delete] with
        | error e => cases emitSeq_err h1; trivial
        | ok r1 =>
          obtain ⟨c1, st1⟩ := r1
          simp only
          have e1 := emitSeq_ext h1
          have hk := visitKD_ck (hinv.ext (e0.trans e1)) kd
          cases h2 : visitKD st1 kd with
          | error e => rw [h2] at hk; exact hk.err (by intro hf; simp [hf])
          | ok r2 =>
            obtain ⟨c2, st2⟩ := r2
            rw [h2] at hk
            obtain ⟨hck2, e2⟩ := hk
            simp only at e2
            simp only
            cases h3 : emitSeq st2 [.op .fundingSum, .bump 3, .op .monetaryAdd, .bump 1, .bump 2, .pushInt 2, .op .fundingAssemble] with
            | error e => cases emitSeq_err h3; trivial
            | ok r3 =>
              obtain ⟨c3, st3⟩ := r3
              simp only
              have e3 := emitSeq_ext h3
              have hr := visitCaps_ck (hinv.ext (e0.trans (e1.trans (e2.trans e3)))) rest
              cases h4 : visitCaps st3 rest with
              | error e => rw [h4] at hr; exact hr.err (by intro hf; simp [hf])
              | ok r4 =>
                obtain ⟨c4, st4⟩ := r4
                rw [h4] at hr
                obtain ⟨hck4, e4⟩ := hr
                exact ⟨by simp [ht1, hck2, hck4], e0.trans (e1.trans (e2.trans (e3.trans e4)))⟩
      · simp only [hty, ne_eq, not_false_eq_true, if_true]
        have : t ≠ .monetary := by intro e'; subst e'; exact hty ht2
        show (decide (tyOf Γ cap = some .monetary) && checkKD Γ kd && checkCaps Γ rest) = false
        simp [ht1, this]
theorem visitAllocDest_ck {st : CState} {Γ : TEnv} (hinv : Inv st Γ) (al : AllotList) :
    CkSpec (visitAllocDest st al) (checkAllot Γ al) (fun r => Ext st r.2) := by
  cases al with
  | nil => simp only [visitAllocDest, checkAllot]; exact ⟨rfl, Ext.refl _⟩
  | cons p kd rest =>
    simp only [visitAllocDest, checkAllot]
    cases h1 : emitSeq st [.bump 1, .op .take] with
    | error e => cases emitSeq_err h1; trivial
    | ok r1 =>
      obtain ⟨c1, st1⟩ := r1
      simp only
      have e1 := emitSeq_ext h1
      have hk := visitKD_ck (hinv.ext e1) kd
      cases h2 : visitKD st1 kd with
      | error e => rw [h2] at hk; exact hk.err (by intro hf; simp [hf])
      | ok r2 =>
        obtain ⟨c2, st2⟩ := r2
        rw [h2] at hk
        obtain ⟨hck2, e2⟩ := hk
        simp only at e2
        simp only
        cases h3 : emitSeq st2 [.bump 1, .pushInt 2, .op .fundingAssemble] with
        | error e => cases emitSeq_err h3; trivial
        | ok r3 =>
          obtain ⟨c3, st3⟩ := r3
          simp only
          have e3 := emitSeq_ext h3
          have hr := visitAllocDest_ck (hinv.ext (e1.trans (e2.trans e3))) rest
          cases h4 : visitAllocDest st3 rest with
          | error e => rw [h4] at hr; exact hr.err (by intro hf; simp [hf])
          | ok r4 =>
            obtain ⟨c4, st4⟩ := r4
            rw [h4] at hr
            obtain ⟨hck4, e4⟩ := hr
            exact ⟨by simp [hck2, hck4], e1.trans (e2.trans (e3.trans e4))⟩
end

theorem visitDestination_ck {st : CState} {Γ : TEnv} (hinv : Inv st Γ) (d : Dest) :
    CkSpec (visitDestination st d) (checkDest Γ d) (fun r => Ext st r.2) := by
  unfold visitDestination
  have h := visitDest_ck hinv d
  cases hv : visitDest st d with
  | error e => rw [hv] at h; exact h.err id
  | ok r => obtain ⟨c, st'⟩ := r; rw [hv] at h; exact h

/-! ### statements -/

theorem visitAllotSources_ck {st : CState} {Γ : TEnv} (hinv : Inv st Γ) (pa : Code) (m : Addr) (hm : HasTy st.resources m .monetary)
    (items : List (PortionSpec × Source)) (i : Nat) :
    CkSpec (visitAllotSources st pa m items i) (items.all fun it => (checkSource Γ false it.2).isSome) (fun _ => True) := by
  induction items generalizing st i with
  | nil => simp only [visitAllotSources, List.all_nil]; exact ⟨rfl, trivial⟩
  | cons it rest ih =>
    obtain ⟨p, s⟩ := it
    simp only [visitAllotSources, List.all_cons]
    have hs := visitSource_ck hinv pa false s
    cases hv : visitSource st pa false s with
    | error e => rw [hv] at hs; exact hs.err (by intro hf; simp [hf])
    | ok so =>
      rw [hv] at hs
      obtain ⟨hck1, _⟩ := hs
      simp only
      obtain ⟨e1, a1⟩ := visitSource_ok hv
      cases h1 : emitSeq (setNeeded so.st so.needed m) (.bump (i + 1) :: takeFromSourceSeq so.fallback) with
      | error e => cases emitSeq_err h1; trivial
      | ok r1 =>
        obtain ⟨c1, st1⟩ := r1
        simp only
        have e2 := e1.trans ((Ext.setNeeded so.st so.needed m a1 (Or.inr (e1.hasTy hm))).trans (emitSeq_ext h1))
        have := ih (hinv.ext e2) (e2.hasTy hm) (i + 1)
        cases h2 : visitAllotSources st1 pa m rest (i + 1) with
        | error e => rw [h2] at this; exact this.err (by intro hf; simp [hf])
        | ok r2 =>
          obtain ⟨c2, st2⟩ := r2
          rw [h2] at this
          exact ⟨by simp [hck1, this.1], trivial⟩

/-- the verdict of the source half of a `send` -/
def sendCk (Γ : TEnv) : SendAmt → VSource → Bool
  | .mon e, src => decide (tyOf Γ e = some .monetary) && checkVSource Γ false src
  | .all ae, src => decide (tyOf Γ ae = some .asset) && checkVSource Γ true src

/-- a second visit of an expression that has a type cannot be refused -/
theorem visitExpr_again {st : CState} {Γ : TEnv} (hinv : Inv st Γ) {e : Expr} {t : Ty} (ht : tyOf Γ e = some t)
    {ck : Bool} {α : Type} {p : α → Prop} (f : ExprOut → Except CompileErr α)
    (hf : ∀ o, visitExpr st e = .ok o → CkSpec (f o) ck p) :
    CkSpec (match visitExpr st e with | .error er => .error er | .ok o => f o) ck p := by
  have he := visitExpr_ck hinv e
  cases hv : visitExpr st e with
  | error er =>
    rw [hv] at he
    cases er with
    | static => simp [CkSpec, ht] at he
    | nilAddr => exact he.elim
    | tooManyResources => trivial
    | tooManyVars => trivial
  | ok o => exact hf o hv

theorem visitSendSource_ck {st : CState} {Γ : TEnv} (hinv : Inv st Γ) (amt : SendAmt) (src : VSource) :
    CkSpec (visitSendSource st amt src) (sendCk Γ amt src) (fun _ => True) := by
  cases amt with
  | mon e =>
    have ht := visitTyped_ck hinv .monetary (by decide) e
    cases src with
    | src s =>
      simp only [visitSendSource, sendCk, checkVSource]
      cases hv : visitTyped st .monetary e with
      | error er =>
        have ht' : CkSpec (visitTyped st BTy.monetary e) _ _ := ht
        rw [hv] at ht'; exact ht'.err (by intro hf; simp [hf])
      | ok r =>
        obtain ⟨m, c0, st1⟩ := r
        have ht' : CkSpec (visitTyped st BTy.monetary e) _ _ := ht
        rw [hv] at ht'
        obtain ⟨hck0, _⟩ := ht'
        have hty : tyOf Γ e = some .monetary := by simpa using hck0
        simp only
        obtain ⟨e1, t1⟩ := visitTyped_ok hv
        have hs := visitSource_ck (hinv.ext e1) [.apush m, .asset] false s
        cases hvs : visitSource st1 [.apush m, .asset] false s with
        | error er => rw [hvs] at hs; exact hs.err (by intro hf; simp [hf])
        | ok so =>
          rw [hvs] at hs
          obtain ⟨hck1, _⟩ := hs
          simp only
          obtain ⟨e2, a2⟩ := visitSource_ok hvs
          have e3 := Ext.setNeeded so.st so.needed m a2 (Or.inr (e2.hasTy t1))
          refine visitExpr_again (hinv.ext (e1.trans (e2.trans e3))) hty _ ?_
          intro eo heo
          cases h4 : emitSeq eo.st (takeFromSourceSeq so.fallback) with
          | error er => cases emitSeq_err h4; trivial
          | ok r4 => obtain ⟨c, st2⟩ := r4; exact ⟨by simp [hty, hck1], trivial⟩
    | allot items =>
      simp only [visitSendSource, sendCk, checkVSource]
      cases hv : visitTyped st .monetary e with
      | error er =>
        have ht' : CkSpec (visitTyped st BTy.monetary e) _ _ := ht
        rw [hv] at ht'; exact ht'.err (by intro hf; simp [hf])
      | ok r =>
        obtain ⟨m, c0, st1⟩ := r
        have ht' : CkSpec (visitTyped st BTy.monetary e) _ _ := ht
        rw [hv] at ht'
        obtain ⟨hck0, _⟩ := ht'
        have hty : tyOf Γ e = some .monetary := by simpa using hck0
        simp only
        obtain ⟨e1, t1⟩ := visitTyped_ok hv
        refine visitExpr_again (hinv.ext e1) hty _ ?_
        intro eo heo
        have e2 := visitExpr_ext heo
        have ha := visitAllotment_ck (hinv.ext (e1.trans e2)) (items.map (·.1))
        cases h3 : visitAllotment eo.st (items.map (·.1)) with
        | error er => rw [h3] at ha; exact ha.err (by intro hf; simp [hf])
        | ok r3 =>
          obtain ⟨c1, st2⟩ := r3
          rw [h3] at ha
          obtain ⟨hck3, e3⟩ := ha
          simp only at e3
          simp only
          have eall := e1.trans (e2.trans e3)
          have hs := visitAllotSources_ck (hinv.ext eall) [.apush m, .asset] m ((e2.trans e3).hasTy t1) items 0
          cases h4 : visitAllotSources st2 [.apush m, .asset] m items 0 with
          | error er => rw [h4] at hs; exact hs.err (by intro hf; simp [hf])
          | ok r4 =>
            obtain ⟨c2, st3⟩ := r4
            rw [h4] at hs
            simp only
            cases h5 : emitSeq st3 [.pushInt items.length, .op .fundingAssemble] with
            | error er => cases emitSeq_err h5; trivial
            | ok r5 => obtain ⟨c3, st4⟩ := r5; exact ⟨by simp [hty, hck3, hs.1], trivial⟩
  | all ae =>
    have ht := visitTyped_ck hinv .asset (by decide) ae
    cases src with
    | src s =>
      simp only [visitSendSource, sendCk, checkVSource]
      cases hv : visitTyped st .asset ae with
      | error er =>
        have ht' : CkSpec (visitTyped st BTy.asset ae) _ _ := ht
        rw [hv] at ht'; exact ht'.err (by intro hf; simp [hf])
      | ok r =>
        obtain ⟨a, c0, st1⟩ := r
        have ht' : CkSpec (visitTyped st BTy.asset ae) _ _ := ht
        rw [hv] at ht'
        obtain ⟨hck0, _⟩ := ht'
        simp only
        obtain ⟨e1, t1⟩ := visitTyped_ok hv
        have hs := visitSource_ck (hinv.ext e1) [.apush a] true s
        cases hvs : visitSource st1 [.apush a] true s with
        | error er => rw [hvs] at hs; exact hs.err (by intro hf; simp [hf])
        | ok so =>
          rw [hvs] at hs
          exact ⟨by simp [hck0, hs.1], trivial⟩
    | allot items =>
      simp only [visitSendSource, sendCk, checkVSource]
      cases hv : visitTyped st .asset ae with
      | error er =>
        have ht' : CkSpec (visitTyped st BTy.asset ae) _ _ := ht
        rw [hv] at ht'; exact ht'.err (by intro hf; simp [hf])
      | ok r => simp [CkSpec]

theorem checkStmt_send (Γ : TEnv) (amt : SendAmt) (src : VSource) (d : Dest) :
    checkStmt Γ (.send amt src d) = (sendCk Γ amt src && checkDest Γ d) := by
  cases amt <;> rfl

theorem visitStmt_ck {st : CState} {Γ : TEnv} (hinv : Inv st Γ) (s : Stmt) :
    CkSpec (visitStmt st s) (checkStmt Γ s) (fun _ => True) := by
  cases s with
  | send amt src d =>
    rw [checkStmt_send]
    simp only [visitStmt]
    have hs := visitSendSource_ck hinv amt src
    cases h1 : visitSendSource st amt src with
    | error er => rw [h1] at hs; exact hs.err (by intro hf; simp [hf])
    | ok r1 =>
      obtain ⟨c1, st1⟩ := r1
      rw [h1] at hs
      simp only
      have hd := visitDestination_ck (hinv.ext (visitSendSource_ext h1)) d
      cases h2 : visitDestination st1 d with
      | error er => rw [h2] at hd; exact hd.err (by intro hf; simp [hf])
      | ok r2 => obtain ⟨c2, st2⟩ := r2; rw [h2] at hd; exact ⟨by simp [hs.1, hd.1], trivial⟩
  | saveMon e acc =>
    simp only [visitStmt, checkStmt]
    have ht : CkSpec (visitTyped st BTy.monetary e) _ _ := visitTyped_ck hinv .monetary (by decide) e
    cases h1 : visitTyped st .monetary e with
    | error er => rw [h1] at ht; exact ht.err (by intro hf; simp [hf])
    | ok r1 =>
      obtain ⟨m, c1, st1⟩ := r1
      rw [h1] at ht
      simp only
      have ha : CkSpec (visitTyped st1 BTy.account acc) _ _ := visitTyped_ck (hinv.ext (visitTyped_ok h1).1) .account (by decide) acc
      cases h2 : visitTyped st1 .account acc with
      | error er => rw [h2] at ha; exact ha.err (by intro hf; simp [hf])
      | ok r2 => obtain ⟨a, c2, st2⟩ := r2; rw [h2] at ha; exact ⟨by simp [ht.1, ha.1], trivial⟩
  | saveAll ae acc =>
    simp only [visitStmt, checkStmt]
    have ht : CkSpec (visitTyped st BTy.asset ae) _ _ := visitTyped_ck hinv .asset (by decide) ae
    cases h1 : visitTyped st .asset ae with
    | error er => rw [h1] at ht; exact ht.err (by intro hf; simp [hf])
    | ok r1 =>
      obtain ⟨m, c1, st1⟩ := r1
      rw [h1] at ht
      simp only
      have ha : CkSpec (visitTyped st1 BTy.account acc) _ _ := visitTyped_ck (hinv.ext (visitTyped_ok h1).1) .account (by decide) acc
      cases h2 : visitTyped st1 .account acc with
      | error er => rw [h2] at ha; exact ha.err (by intro hf; simp [hf])
      | ok r2 => obtain ⟨a, c2, st2⟩ := r2; rw [h2] at ha; exact ⟨by simp [ht.1, ha.1], trivial⟩
  | setTxMeta key v =>
    simp only [visitStmt, checkStmt]
    have he := visitExpr_ck hinv v
    cases h1 : visitExpr st v with
    | error er => rw [h1] at he; exact he.err id
    | ok o =>
      rw [h1] at he
      simp only
      cases h2 : allocRes o.st (.const (.str key)) with
      | error er => cases allocRes_err h2; trivial
      | ok r => obtain ⟨k, st1⟩ := r; exact ⟨he.1, trivial⟩
  | setAccountMeta acc key v =>
    simp only [visitStmt, checkStmt]
    have he := visitExpr_ck hinv v
    cases h1 : visitExpr st v with
    | error er => rw [h1] at he; exact he.err (by intro hf; simp [hf])
    | ok o =>
      rw [h1] at he
      simp only
      cases h2 : allocRes o.st (.const (.str key)) with
      | error er => cases allocRes_err h2; trivial
      | ok r =>
        obtain ⟨k, st1⟩ := r
        simp only
        have ha : CkSpec (visitTyped st1 BTy.account acc) _ _ :=
          visitTyped_ck (hinv.ext ((visitExpr_ext h1).trans (allocConst_ok h2).1)) .account (by decide) acc
        cases h3 : visitTyped st1 .account acc with
        | error er => rw [h3] at ha; exact ha.err (by intro hf; simp [hf])
        | ok r3 => obtain ⟨a, c2, st2⟩ := r3; rw [h3] at ha; exact ⟨by simp [he.1, ha.1], trivial⟩
  | print e =>
    simp only [visitStmt, checkStmt]
    have he := visitExpr_ck hinv e
    cases h1 : visitExpr st e with
    | error er => rw [h1] at he; exact he.err id
    | ok o => rw [h1] at he; exact ⟨he.1, trivial⟩
  | fail => simp only [visitStmt, checkStmt]; exact ⟨rfl, trivial⟩

theorem visitStmts_ck {st : CState} {Γ : TEnv} (hinv : Inv st Γ) (ss : List Stmt) :
    CkSpec (visitStmts st ss) (ss.all (checkStmt Γ)) (fun _ => True) := by
  induction ss generalizing st with
  | nil => simp only [visitStmts, List.all_nil]; exact ⟨rfl, trivial⟩
  | cons s rest ih =>
    simp only [visitStmts, List.all_cons]
    have hs := visitStmt_ck hinv s
    cases h1 : visitStmt st s with
    | error er => rw [h1] at hs; exact hs.err (by intro hf; simp [hf])
    | ok r1 =>
      obtain ⟨c1, st1⟩ := r1
      rw [h1] at hs
      simp only
      have := ih (hinv.ext (visitStmt_ext h1))
      cases h2 : visitStmts st1 rest with
      | error er => rw [h2] at this; exact this.err (by intro hf; simp [hf])
      | ok r2 => obtain ⟨c2, st2⟩ := r2; rw [h2] at this; exact ⟨by simp [hs.1, this.1], trivial⟩

/-! ### variable declarations and the whole program -/

theorem any_eq_find_isSome {α} (l : List (String × α)) (n : String) :
    l.any (fun x => decide (x.1 = n)) = (l.find? (fun x => decide (x.1 = n))).isSome := by
  induction l with
  | nil => rfl
  | cons x xs ih =>
    simp only [List.any_cons, List.find?_cons]
    by_cases h : x.1 = n <;> simp [h, ih]

theorem lookupTy_append (Γ : TEnv) (k n : String) (t : Ty) :
    lookupTy (Γ ++ [(k, t)]) n = match lookupTy Γ n with | some x => some x | none => if k = n then some t else none := by
  unfold lookupTy
  rw [List.find?_append]
  cases hf : Γ.find? (·.1 = n) with
  | some x => simp
  | none =>
    by_cases hk : k = n
    · simp [hk]
    · simp [hk]

/-- declaring one more variable keeps the compiler state and the typing environment in step -/
theorem Inv.declare {st : CState} {Γ : TEnv} (hinv : Inv st Γ) {r : Resource} {name : String} {ty : Ty}
    (hname : declName r = some name) (hty : r.bty = ty.toB)
    (hfresh : lookupIdx st.varIdx name = none) :
    Inv { st with resources := st.resources ++ [r], varIdx := st.varIdx ++ [(name, st.resources.length)] } (Γ ++ [(name, ty)]) := by
  have hnc : ∀ v, r ≠ .const v := by intro v hv; subst hv; simp [declName] at hname
  refine ⟨?_, ?_, ?_⟩
  · intro n
    show match lookupIdx (st.varIdx ++ [(name, st.resources.length)]) n with
      | none => lookupTy (Γ ++ [(name, ty)]) n = none
      | some a => ∃ r' t, (st.resources ++ [r])[a]? = some r' ∧ declName r' = some n ∧ r'.bty = Ty.toB t ∧ lookupTy (Γ ++ [(name, ty)]) n = some t
    rw [lookupIdx_append, lookupTy_append]
    have hv := hinv.vars n
    cases hl : lookupIdx st.varIdx n with
    | some a =>
      rw [hl] at hv
      obtain ⟨r', t, h1, h2, h3, h4⟩ := hv
      simp only [h4]
      exact ⟨r', t, by rw [List.getElem?_append_left (getElem?_lt h1)]; exact h1, h2, h3, rfl⟩
    | none =>
      rw [hl] at hv
      simp only [hv]
      by_cases hk : name = n
      · subst hk
        simp only [if_true]
        exact ⟨r, ty, by simp, hname, hty, rfl⟩
      · simp [hk]
  · intro n n' a h1 h2
    change lookupIdx (st.varIdx ++ [(name, st.resources.length)]) n = some a at h1
    change lookupIdx (st.varIdx ++ [(name, st.resources.length)]) n' = some a at h2
    rw [lookupIdx_append] at h1 h2
    have old_lt : ∀ m x, lookupIdx st.varIdx m = some x → x < st.resources.length := by
      intro m x hm
      have := hinv.vars m
      rw [hm] at this
      obtain ⟨r', _, hr', _⟩ := this
      exact getElem?_lt hr'
    cases hl : lookupIdx st.varIdx n with
    | some x =>
      simp only [hl, Option.some.injEq] at h1; subst h1
      cases hl' : lookupIdx st.varIdx n' with
      | some y =>
        simp only [hl', Option.some.injEq] at h2; subst h2
        exact hinv.inj n n' _ hl hl'
      | none =>
        simp only [hl'] at h2
        split at h2
        · simp only [Option.some.injEq] at h2
          have := old_lt n _ hl
          exact absurd h2.symm (Nat.ne_of_lt this)
        · cases h2
    | none =>
      simp only [hl] at h1
      split at h1
      · rename_i hk
        simp only [Option.some.injEq] at h1; subst h1
        cases hl' : lookupIdx st.varIdx n' with
        | some y =>
          simp only [hl', Option.some.injEq] at h2
          have := old_lt n' _ hl'
          exact absurd h2 (Nat.ne_of_lt this)
        | none =>
          simp only [hl'] at h2
          split at h2
          · rename_i hk'; rw [← hk, ← hk']
          · cases h2
      · cases h1
  · intro i j c d hij hi hj
    show valueEquals c d = false
    have hi' : (st.resources ++ [r])[i]? = some (.const c) := hi
    have hj' : (st.resources ++ [r])[j]? = some (.const d) := hj
    rcases snoc_cases hj' with ⟨hjl, hj''⟩ | ⟨_, hr⟩
    · rw [List.getElem?_append_left (Nat.lt_trans hij hjl)] at hi'
      exact hinv.nodup i j c d hij hi' hj''
    · exact absurd hr.symm (hnc d)

theorem lookupIdx_none_iff {st : CState} {Γ : TEnv} (hinv : Inv st Γ) (n : String) :
    st.varIdx.any (fun x => decide (x.1 = n)) = Γ.any (fun x => decide (x.1 = n)) := by
  rw [any_eq_find_isSome, any_eq_find_isSome]
  have := hinv.vars n
  cases hl : lookupIdx st.varIdx n with
  | none =>
    rw [hl] at this
    have h1 : (st.varIdx.find? (fun x => decide (x.1 = n))) = none := by
      unfold lookupIdx at hl; simpa using hl
    have h2 : (Γ.find? (fun x => decide (x.1 = n))) = none := by
      unfold lookupTy at this; simpa using this
    rw [h1, h2]; rfl
  | some a =>
    rw [hl] at this
    obtain ⟨_, t, _, _, _, h4⟩ := this
    have h1 : (st.varIdx.find? (fun x => decide (x.1 = n))).isSome = true := by
      unfold lookupIdx at hl
      cases hf : st.varIdx.find? (fun x => decide (x.1 = n)) with
      | none => simp [hf] at hl
      | some _ => rfl
    have h2 : (Γ.find? (fun x => decide (x.1 = n))).isSome = true := by
      unfold lookupTy at h4
      cases hf : Γ.find? (fun x => decide (x.1 = n)) with
      | none => simp [hf] at h4
      | some _ => rfl
    rw [h1, h2]

/-- the allocation of a declaration resource -/
theorem allocDecl {st : CState} {Γ : TEnv} (hinv : Inv st Γ) {r : Resource} {name : String} {ty : Ty}
    (hname : declName r = some name) (hty : r.bty = ty.toB) (hfresh : lookupIdx st.varIdx name = none) :
    CkSpec (match allocRes st r with
        | .error er => (.error er : Except CompileErr CState)
        | .ok (addr, st') => .ok { st' with varIdx := st'.varIdx ++ [(name, addr)] }) true
      (fun st' => Inv st' (Γ ++ [(name, ty)])) := by
  have hnc : ∀ v, r ≠ .const v := by intro v hv; subst hv; simp [declName] at hname
  cases h : allocRes st r with
  | error e => cases allocRes_err h; trivial
  | ok x =>
    obtain ⟨addr, st'⟩ := x
    have happ : appendResource st r = .ok (addr, st') := by
      unfold allocRes at h
      cases r with
      | const v => exact absurd rfl (hnc v)
      | var _ _ => exact h
      | varMeta _ _ _ _ => exact h
      | varBalance _ _ _ => exact h
      | monetary _ _ => exact h
    obtain ⟨rfl, rfl⟩ := appendResource_ok happ
    exact ⟨rfl, hinv.declare hname hty hfresh⟩

theorem visitVar_ck {st : CState} {Γ : TEnv} (hinv : Inv st Γ) (d : VarDecl) :
    CkSpec (visitVar st d)
      (!Γ.any (fun x => decide (x.1 = d.name)) && (match d.origin with
        | .none => true
        | .metaOf acc _ => decide (tyOf Γ acc = some .account)
        | .balance acc a => decide (d.ty = .monetary) && decide (tyOf Γ acc = some .account) && decide (tyOf Γ a = some .asset)))
      (fun st' => Inv st' (Γ ++ [(d.name, d.ty)])) := by
  unfold visitVar
  rw [← lookupIdx_none_iff hinv]
  by_cases hdup : (st.varIdx.any fun x => decide (x.1 = d.name)) = true
  · simp [hdup, CkSpec]
  · have hdup' : (st.varIdx.any fun x => decide (x.1 = d.name)) = false := (Bool.not_eq_true _).mp hdup
    have hfresh : lookupIdx st.varIdx d.name = none := by
      rw [any_eq_find_isSome] at hdup'
      unfold lookupIdx
      cases hf : st.varIdx.find? (fun x => decide (x.1 = d.name)) with
      | none => rfl
      | some _ => simp [hf] at hdup'
    simp only [hdup', Bool.false_eq_true, if_false, Bool.not_false, Bool.true_and]
    cases ho : d.origin with
    | none =>
      simp only
      exact allocDecl hinv (r := .var d.ty d.name) rfl rfl hfresh
    | metaOf acc key =>
      simp only
      have ha : CkSpec (visitTyped st BTy.account acc) _ _ := visitTyped_ck hinv .account (by decide) acc
      cases h1 : visitTyped st .account acc with
      | error er => rw [h1] at ha; exact ha.err id
      | ok r1 =>
        obtain ⟨a, c1, st1⟩ := r1
        rw [h1] at ha
        simp only [ha.1]
        have e1 := (visitTyped_ok h1).1
        exact allocDecl (hinv.ext e1) (r := .varMeta d.ty d.name a key) rfl rfl (by rw [e1.vars]; exact hfresh)
    | balance acc ae =>
      simp only
      by_cases hm : d.ty = .monetary
      · simp only [hm, ne_eq, not_true_eq_false, if_false, decide_true, Bool.true_and]
        have ha : CkSpec (visitTyped st BTy.account acc) _ _ := visitTyped_ck hinv .account (by decide) acc
        cases h1 : visitTyped st .account acc with
        | error er => rw [h1] at ha; exact ha.err (by intro hf; simp [hf])
        | ok r1 =>
          obtain ⟨a, c1, st1⟩ := r1
          rw [h1] at ha
          simp only [ha.1, Bool.true_and]
          have e1 := (visitTyped_ok h1).1
          have hs : CkSpec (visitTyped st1 BTy.asset ae) _ _ := visitTyped_ck (hinv.ext e1) .asset (by decide) ae
          cases h2 : visitTyped st1 .asset ae with
          | error er => rw [h2] at hs; exact hs.err id
          | ok r2 =>
            obtain ⟨s, c2, st2⟩ := r2
            rw [h2] at hs
            simp only [hs.1]
            have e2 := (visitTyped_ok h2).1
            have := allocDecl (hinv.ext (e1.trans e2)) (r := .varBalance d.name a s) (name := d.name) (ty := d.ty) rfl
              (by rw [hm]; rfl) (by rw [(e1.trans e2).vars]; exact hfresh)
            rw [hm] at this
            exact this
      · simp [hm, CkSpec]

theorem checkVars_cons (d : VarDecl) (ds : List VarDecl) (Γ : TEnv) :
    checkVars (d :: ds) Γ =
      if (!Γ.any (fun x => decide (x.1 = d.name)) && (match d.origin with
        | .none => true
        | .metaOf acc _ => decide (tyOf Γ acc = some .account)
        | .balance acc a => decide (d.ty = .monetary) && decide (tyOf Γ acc = some .account) && decide (tyOf Γ a = some .asset))) = true
      then checkVars ds (Γ ++ [(d.name, d.ty)]) else none := by
  simp only [checkVars]
  cases hany : (Γ.any fun x => decide (x.1 = d.name))
  · simp only [Bool.false_eq_true, if_false, Bool.not_false, Bool.true_and]
    cases d.origin <;> simp
  · simp

theorem visitVarList_ck {st : CState} {Γ : TEnv} (hinv : Inv st Γ) (ds : List VarDecl) :
    CkSpec (visitVarList st ds) (checkVars ds Γ).isSome (fun st' => ∃ Γ', checkVars ds Γ = some Γ' ∧ Inv st' Γ') := by
  induction ds generalizing st Γ with
  | nil => simp only [visitVarList, checkVars]; exact ⟨rfl, Γ, rfl, hinv⟩
  | cons d rest ih =>
    simp only [visitVarList]
    rw [checkVars_cons]
    have hv := visitVar_ck hinv d
    cases h1 : visitVar st d with
    | error er => rw [h1] at hv; exact hv.err (by intro hf; simp [hf])
    | ok st1 =>
      rw [h1] at hv
      obtain ⟨hck, hinv1⟩ := hv
      simp only [hck, if_true]
      exact ih hinv1

theorem inv_init : Inv {} [] :=
  ⟨by intro n; simp [lookupIdx, lookupTy], by intro n n' a h; simp [lookupIdx] at h, by intro i j c d _ h; simp at h⟩

/-- **the compiler against the static rules**: success needs `check` to pass, a static refusal needs it to fail,
a nil dereference never happens; only the two size limits lie outside `check` -/
theorem compile_ck (P : Script) : CkSpec (compile P) (check P) (fun _ => True) := by
  unfold compile check visitVars
  by_cases hlen : P.vars.length > 32768
  · simp [hlen, CkSpec]
  · simp only [hlen, if_false]
    have hv := visitVarList_ck inv_init P.vars
    cases h0 : visitVarList {} P.vars with
    | error er =>
      rw [h0] at hv
      refine hv.err ?_
      intro hf
      rw [isSome_false hf]
    | ok st0 =>
      rw [h0] at hv
      obtain ⟨_, Γ, hΓ, hinv⟩ := hv
      simp only [hΓ]
      have hs := visitStmts_ck hinv P.stmts
      cases h1 : visitStmts st0 P.stmts with
      | error er => rw [h1] at hs; exact hs.err id
      | ok r => obtain ⟨code, st⟩ := r; rw [h1] at hs; exact ⟨hs.1, trivial⟩

end Num
