import Model.Paginate
/-! Helper lemmas for C17: `orderBy` (insertion sort on the pagination column) yields *the* strictly sorted
permutation of a table with a unique pagination column, hence commutes with `WHERE` and reverses with the
direction.  Core Lean only. -/
namespace Paginate

/-- `a` comes strictly before `b` in a list ordered by `o` -/
def Order.ltb (o : Order) (a b : Int) : Bool :=
  match o with
  | .asc => decide (a < b)
  | .desc => decide (b < a)

/-- the rows are in the strict order of the list (`ORDER BY id o`, ids pairwise distinct) -/
def Strict (o : Order) (l : List Row) : Prop := l.Pairwise (fun a b => o.ltb a.id b.id = true)

/-- the pagination column is unique in the table -/
def UniqueIds (tbl : List Row) : Prop := tbl.Pairwise (fun a b => a.id ≠ b.id)

theorem Order.ltb_irrefl (o : Order) (a : Int) : o.ltb a a = false := by
  cases o <;> simp [Order.ltb]

theorem Order.ltb_asymm (o : Order) {a b : Int} (h : o.ltb a b = true) : o.ltb b a = false := by
  cases o <;> simp [Order.ltb] at * <;> omega

theorem Order.ltb_trans (o : Order) {a b c : Int} (h1 : o.ltb a b = true) (h2 : o.ltb b c = true) : o.ltb a c = true := by
  cases o <;> simp [Order.ltb] at * <;> omega

theorem Order.ltb_rev (o : Order) (a b : Int) : o.rev.ltb a b = o.ltb b a := by
  cases o <;> simp [Order.ltb, Order.rev]

theorem Order.le_total (o : Order) (a b : Int) : o.le a b = false → o.le b a = true := by
  cases o <;> simp [Order.le] <;> omega

theorem Order.le_trans (o : Order) {a b c : Int} (h1 : o.le a b = true) (h2 : o.le b c = true) : o.le a c = true := by
  cases o <;> simp [Order.le] at * <;> omega

theorem Order.ltb_of_le_ne (o : Order) {a b : Int} (h1 : o.le a b = true) (h2 : a ≠ b) : o.ltb a b = true := by
  cases o <;> simp [Order.le, Order.ltb] at * <;> omega

theorem insertBy_perm (o : Order) (r : Row) (l : List Row) : (insertBy o r l).Perm (r :: l) := by
  induction l with
  | nil => simp [insertBy]
  | cons x xs ih =>
    by_cases h : o.le r.id x.id = true
    · simp [insertBy, h]
    · simp only [insertBy, h, if_false, Bool.false_eq_true]
      exact (List.Perm.cons x ih).trans (List.Perm.swap r x xs)

theorem orderBy_perm (o : Order) (l : List Row) : (orderBy o l).Perm l := by
  induction l with
  | nil => simp [orderBy]
  | cons r rs ih => exact (insertBy_perm o r _).trans (List.Perm.cons r ih)

theorem insertBy_sorted (o : Order) (r : Row) (l : List Row)
    (h : l.Pairwise (fun a b => o.le a.id b.id = true)) : (insertBy o r l).Pairwise (fun a b => o.le a.id b.id = true) := by
  induction l with
  | nil => simp [insertBy]
  | cons x xs ih =>
    have hx := List.pairwise_cons.mp h
    by_cases hle : o.le r.id x.id = true
    · simp only [insertBy, hle, if_true]
      refine List.pairwise_cons.mpr ⟨?_, h⟩
      intro y hy
      rcases List.mem_cons.mp hy with rfl | hy
      · exact hle
      · exact o.le_trans hle (hx.1 y hy)
    · simp only [insertBy, hle, if_false, Bool.false_eq_true]
      refine List.pairwise_cons.mpr ⟨?_, ih hx.2⟩
      intro y hy
      have hy' := (insertBy_perm o r xs).mem_iff.mp hy
      rcases List.mem_cons.mp hy' with rfl | hy'
      · exact o.le_total _ _ (by simpa using hle)
      · exact hx.1 y hy'

theorem orderBy_sorted (o : Order) (l : List Row) : (orderBy o l).Pairwise (fun a b => o.le a.id b.id = true) := by
  induction l with
  | nil => simp [orderBy]
  | cons r rs ih => exact insertBy_sorted o r _ ih

theorem UniqueIds.perm {l l' : List Row} (h : UniqueIds l) (p : l.Perm l') : UniqueIds l' :=
  List.Pairwise.perm h p (fun hxy => fun e => hxy e.symm)

theorem UniqueIds.filter {l : List Row} (h : UniqueIds l) (p : Row → Bool) : UniqueIds (l.filter p) :=
  List.Pairwise.filter p h

/-- the listing of a table with a unique pagination column is strictly ordered -/
theorem orderBy_strict (o : Order) {l : List Row} (h : UniqueIds l) : Strict o (orderBy o l) := by
  have h1 := orderBy_sorted o l
  have h2 : UniqueIds (orderBy o l) := h.perm (orderBy_perm o l).symm
  exact (h1.and h2).imp (fun ⟨a, b⟩ => o.ltb_of_le_ne a b)

/-- two strictly ordered lists with the same rows are the same list -/
theorem Strict.unique {o : Order} {l₁ l₂ : List Row} (p : l₁.Perm l₂) (h₁ : Strict o l₁) (h₂ : Strict o l₂) : l₁ = l₂ := by
  refine List.Perm.eq_of_pairwise ?_ h₁ h₂ p
  intro a b _ _ hab hba
  have := o.ltb_asymm hab
  simp [hba] at this

theorem Strict.filter {o : Order} {l : List Row} (h : Strict o l) (p : Row → Bool) : Strict o (l.filter p) :=
  List.Pairwise.filter p h

theorem Strict.reverse {o : Order} {l : List Row} (h : Strict o l) : Strict o.rev l.reverse := by
  unfold Strict
  rw [List.pairwise_reverse]
  exact h.imp (fun hab => by rw [Order.ltb_rev]; exact hab)

/-- `WHERE` and `ORDER BY` commute -/
theorem orderBy_filter (o : Order) {l : List Row} (h : UniqueIds l) (p : Row → Bool) :
    orderBy o (l.filter p) = (orderBy o l).filter p :=
  Strict.unique ((orderBy_perm o _).trans ((orderBy_perm o l).filter p).symm)
    (orderBy_strict o (h.filter p)) ((orderBy_strict o h).filter p)

/-- ordering the other way round is reading the list backwards -/
theorem orderBy_rev (o : Order) {l : List Row} (h : UniqueIds l) : orderBy o.rev l = (orderBy o l).reverse :=
  Strict.unique ((orderBy_perm o.rev l).trans ((List.reverse_perm _).trans (orderBy_perm o l)).symm)
    (orderBy_strict o.rev h) (orderBy_strict o h).reverse

end Paginate
