import Model.Store.Spec
/-! Helper lemmas for C04: metadata algebra, metadata of accounts / transactions after one log entry, the reverted flag. -/
namespace Store

namespace Meta
theorem get_erase_same (m : Meta) (k : String) : (erase m k).get k = none := by
  induction m with
  | nil => rfl
  | cons kv rest ih =>
    obtain ⟨a, b⟩ := kv
    simp only [erase, get] at ih ⊢
    by_cases h : a = k
    · simp [h, ih]
    · have h2 : (k == a) = false := by simpa using fun hh => h hh.symm
      simp [h, List.lookup_cons, h2, ih]

theorem get_erase_other (m : Meta) (k k' : String) (hk : k' ≠ k) : (erase m k).get k' = m.get k' := by
  induction m with
  | nil => rfl
  | cons kv rest ih =>
    obtain ⟨a, b⟩ := kv
    simp only [erase, get] at ih ⊢
    by_cases h : a = k
    · subst h
      have h' : (k' == a) = false := by simpa using hk
      simp [List.lookup_cons, h', ih]
    · by_cases h2 : k' = a
      · simp [h, h2]
      · have h' : (k' == a) = false := by simpa using h2
        simp [h, List.lookup_cons, h', ih]

theorem get_set_same (m : Meta) (k v : String) : (set m k v).get k = some v := by
  simp [set, get]

theorem get_set_other (m : Meta) (k k' v : String) (hk : k' ≠ k) : (set m k v).get k' = m.get k' := by
  have h' : (k' == k) = false := by simpa using hk
  have := get_erase_other m k k' hk
  simp only [get] at this
  simp [set, get, List.lookup_cons, h', this]

theorem get_merge_not_mem (new m : Meta) (k : String) (hk : ∀ kv ∈ new, kv.1 ≠ k) : (merge m new).get k = m.get k := by
  induction new generalizing m with
  | nil => rfl
  | cons kv rest ih =>
    simp only [merge, List.foldl_cons] at ih ⊢
    rw [ih _ (fun x hx => hk x (List.mem_cons_of_mem _ hx))]
    exact get_set_other m kv.1 k kv.2 (fun h => hk kv (List.mem_cons_self ..) h.symm)

/-- the last binding of a key in the merged-in object wins -/
theorem get_merge_last (pre post m : Meta) (k v : String) (hk : ∀ kv ∈ post, kv.1 ≠ k) :
    (merge m (pre ++ (k, v) :: post)).get k = some v := by
  have : merge m (pre ++ (k, v) :: post) = merge (set (merge m pre) k v) post := by
    simp [merge, List.foldl_append]
  rw [this, get_merge_not_mem post _ k hk, get_set_same]
end Meta

-- ---------------------------------------------------------------- metadata of one account after one entry

theorem findAcct_revise (as : List AcctRec) (a b : String) (d : Int) (f : Meta → Meta) :
    (reviseAcct as a d f).find? (fun r => r.address == b) =
      (as.find? (fun r => r.address == b)).map
        (fun r => if r.address == a then { r with metaHist := (d, f (histCurrent r.metaHist)) :: r.metaHist } else r) := by
  unfold reviseAcct
  rw [List.find?_map]
  have : ((fun r : AcctRec => r.address == b) ∘
      (fun r : AcctRec => if r.address == a then { r with metaHist := (d, f (histCurrent r.metaHist)) :: r.metaHist } else r))
      = (fun r : AcctRec => r.address == b) := by
    funext r
    by_cases h : r.address = a <;> simp [Function.comp, h]
  rw [this]

theorem find_none_of_not_hasAcct (as : List AcctRec) (a : String) (h : hasAcct as a = false) :
    as.find? (fun r => r.address == a) = none := by
  rw [List.find?_eq_none]
  intro r hr hh
  have : hasAcct as a = true := by
    simp only [hasAcct, List.any_eq_true]; exact ⟨r, hr, hh⟩
  rw [h] at this; cases this

def metaOfAccts (as : List AcctRec) (a : String) : Meta :=
  match as.find? (fun r => r.address == a) with
  | some r => histCurrent r.metaHist
  | none => []

theorem acctMeta_eq (st : LedgerState) (a : String) : acctMeta st a = metaOfAccts st.accts a := rfl

theorem metaOfAccts_touch (as : List AcctRec) (a b : String) (d : Int) :
    metaOfAccts (touch as a d) b = metaOfAccts as b := by
  unfold touch
  by_cases h : hasAcct as a = true
  · simp [h]
  · have h' : hasAcct as a = false := by simpa using h
    simp only [h, Bool.false_eq_true, if_false, metaOfAccts, List.find?_append]
    cases hf : as.find? (fun r => r.address == b) with
    | some r => simp
    | none =>
      by_cases hab : a = b
      · subst hab; simp [histCurrent]
      · simp [hab]

theorem metaOfAccts_revise_same (as : List AcctRec) (a : String) (d : Int) (f : Meta → Meta)
    (h : hasAcct as a = true) : metaOfAccts (reviseAcct as a d f) a = f (metaOfAccts as a) := by
  unfold metaOfAccts
  rw [findAcct_revise]
  cases hf : as.find? (fun r => r.address == a) with
  | none =>
    have : hasAcct as a = false := by
      cases hh : hasAcct as a with
      | false => rfl
      | true =>
        simp only [hasAcct, List.any_eq_true] at hh
        obtain ⟨r, hr, hra⟩ := hh
        have := List.find?_eq_none.mp hf r hr
        exact absurd hra this
    rw [h] at this; cases this
  | some r =>
    have hr : r.address = a := by simpa using List.find?_some hf
    simp [hr, histCurrent]

theorem metaOfAccts_revise_absent (as : List AcctRec) (a : String) (d : Int) (f : Meta → Meta)
    (h : hasAcct as a = false) : metaOfAccts (reviseAcct as a d f) a = [] := by
  unfold metaOfAccts
  rw [findAcct_revise, find_none_of_not_hasAcct as a h]; rfl

theorem metaOfAccts_revise_other (as : List AcctRec) (a b : String) (d : Int) (f : Meta → Meta) (hab : b ≠ a) :
    metaOfAccts (reviseAcct as a d f) b = metaOfAccts as b := by
  unfold metaOfAccts
  rw [findAcct_revise]
  cases hf : as.find? (fun r => r.address == b) with
  | none => rfl
  | some r =>
    have hr : r.address = b := by simpa using List.find?_some hf
    have : ¬ r.address = a := by rw [hr]; exact hab
    simp [this]

theorem hasAcct_touch (as : List AcctRec) (a : String) (d : Int) : hasAcct (touch as a d) a = true := by
  unfold touch
  by_cases h : hasAcct as a = true
  · simp [h]
  · have h' : hasAcct as a = false := by simpa using h
    rw [if_neg (by simp [h'])]
    simp [hasAcct]

theorem metaOfAccts_setAcctMeta (as : List AcctRec) (a : String) (d : Int) (m : Meta) :
    metaOfAccts (setAcctMeta as a d m) a = Meta.merge (metaOfAccts as a) m := by
  unfold setAcctMeta
  rw [metaOfAccts_revise_same _ a d _ (hasAcct_touch as a d), metaOfAccts_touch]

-- ---------------------------------------------------------------- metadata of one transaction after one entry

theorem findTx_revise (ts : List TxRec) (id id' : Nat) (d : Int) (f : Meta → Meta) :
    (reviseTx ts id d f).find? (fun r => r.tx.id == id') =
      (ts.find? (fun r => r.tx.id == id')).map
        (fun r => if r.tx.id == id then { r with metaHist := (d, f (histCurrent r.metaHist)) :: r.metaHist } else r) := by
  unfold reviseTx
  rw [List.find?_map]
  have : ((fun r : TxRec => r.tx.id == id') ∘
      (fun r : TxRec => if r.tx.id == id then { r with metaHist := (d, f (histCurrent r.metaHist)) :: r.metaHist } else r))
      = (fun r : TxRec => r.tx.id == id') := by
    funext r
    by_cases h : r.tx.id = id <;> simp [Function.comp, h]
  rw [this]

-- ---------------------------------------------------------------- the reverted flag

theorem reviseTx_ids (ts : List TxRec) (id : Nat) (d : Int) (f : Meta → Meta) :
    (reviseTx ts id d f).map (fun r => r.tx.id) = ts.map (fun r => r.tx.id) := by
  unfold reviseTx
  rw [List.map_map]
  apply List.map_congr_left
  intro r _
  by_cases h : r.tx.id = id <;> simp [h]

theorem markReverted_ids (ts : List TxRec) (id : Nat) (info : RevertInfo) :
    (markReverted ts id info).map (fun r => r.tx.id) = ts.map (fun r => r.tx.id) := by
  unfold markReverted
  rw [List.map_map]
  apply List.map_congr_left
  intro r _
  by_cases h1 : r.tx.id = id <;> by_cases h2 : r.reverted = none <;> simp [h1, h2]

/-- the histories the commander writes: transaction ids are fresh, a revert targets a transaction that exists -/
def WFLogs (known : List Nat) : List CLog → Prop
  | [] => True
  | l :: ls =>
    match l.payload with
    | .newTx tx _ => tx.id ∉ known ∧ WFLogs (known ++ [tx.id]) ls
    | .revert rid tx => rid ∈ known ∧ tx.id ∉ known ∧ WFLogs (known ++ [tx.id]) ls
    | _ => WFLogs known ls

structure RevInv (st : LedgerState) (known targets : List Nat) : Prop where
  ids : st.txs.map (fun r => r.tx.id) = known
  sub : ∀ i ∈ targets, i ∈ known
  flag : ∀ r ∈ st.txs, (r.reverted.isSome = true ↔ r.tx.id ∈ targets)

theorem revInv_reviseTx (st : LedgerState) (known targets : List Nat) (id : Nat) (d : Int) (f : Meta → Meta)
    (h : RevInv st known targets) : RevInv { st with txs := reviseTx st.txs id d f } known targets := by
  refine ⟨by simpa [reviseTx_ids] using h.ids, h.sub, ?_⟩
  intro r hr
  simp only [reviseTx, List.mem_map] at hr
  obtain ⟨r0, hr0, rfl⟩ := hr
  have := h.flag r0 hr0
  by_cases hh : r0.tx.id = id <;> simpa [hh] using this

theorem revInv_insertTx (st : LedgerState) (known targets : List Nat) (d : Int) (tx : Tx)
    (hf : tx.id ∉ known) (h : RevInv st known targets) : RevInv (insertTx st d tx) (known ++ [tx.id]) targets := by
  refine ⟨by simp [insertTx, h.ids], fun i hi => List.mem_append_left _ (h.sub i hi), ?_⟩
  intro r hr
  simp only [insertTx, List.mem_append, List.mem_singleton] at hr
  cases hr with
  | inl hr => exact h.flag r hr
  | inr hr =>
    subst hr
    have : tx.id ∉ targets := fun hh => hf (h.sub _ hh)
    simp [this]

theorem revInv_step (st : LedgerState) (known targets : List Nat) (l : CLog) (ls : List CLog)
    (hw : WFLogs known (l :: ls)) (h : RevInv st known targets) :
    ∃ known', WFLogs known' ls ∧ RevInv (stepLedger st l) known' (targets ++ revertTargets [l]) := by
  have logsIrrelevant : ∀ (s : LedgerState) (k t : List Nat) (lg : List CLog), RevInv s k t → RevInv { s with logs := lg } k t :=
    fun s k t lg hh => ⟨hh.ids, hh.sub, hh.flag⟩
  cases hp : l.payload with
  | newTx tx am =>
    simp only [WFLogs, hp] at hw
    refine ⟨known ++ [tx.id], hw.2, ?_⟩
    have h1 := revInv_insertTx st known targets l.date tx hw.1 h
    simp only [stepLedger, hp, applyPayload, revertTargets, List.filterMap_cons, List.filterMap_nil, List.append_nil]
    exact ⟨h1.ids, h1.sub, h1.flag⟩
  | revert rid tx =>
    simp only [WFLogs, hp] at hw
    refine ⟨known ++ [tx.id], hw.2.2, ?_⟩
    have h1 := revInv_insertTx st known targets l.date tx hw.2.1 h
    simp only [stepLedger, hp, applyPayload, revertTargets, List.filterMap_cons, List.filterMap_nil]
    refine ⟨by simpa [markReverted_ids] using h1.ids, ?_, ?_⟩
    · intro i hi
      simp only [List.mem_append, List.mem_singleton] at hi
      cases hi with
      | inl hi => exact h1.sub i hi
      | inr hi => subst hi; exact List.mem_append_left _ hw.1
    · intro r hr
      simp only [markReverted, List.mem_map] at hr
      obtain ⟨r0, hr0, rfl⟩ := hr
      have := h1.flag r0 hr0
      by_cases h1' : r0.tx.id = rid
      · cases h2 : r0.reverted with
        | none => simp [h1']
        | some i => simp [h1', h2]
      · simp [h1', this]
  | setMeta tg m =>
    simp only [WFLogs, hp] at hw
    refine ⟨known, hw, ?_⟩
    cases tg with
    | account a =>
      simp only [stepLedger, hp, applyPayload, revertTargets, List.filterMap_cons, List.filterMap_nil, List.append_nil]
      exact ⟨h.ids, h.sub, h.flag⟩
    | transaction id =>
      have := revInv_reviseTx st known targets id l.date (fun cur => Meta.merge cur m) h
      simp only [stepLedger, hp, applyPayload, revertTargets, List.filterMap_cons, List.filterMap_nil, List.append_nil]
      exact ⟨this.ids, this.sub, this.flag⟩
  | delMeta tg k =>
    simp only [WFLogs, hp] at hw
    refine ⟨known, hw, ?_⟩
    cases tg with
    | account a =>
      simp only [stepLedger, hp, applyPayload, revertTargets, List.filterMap_cons, List.filterMap_nil, List.append_nil]
      exact ⟨h.ids, h.sub, h.flag⟩
    | transaction id =>
      have := revInv_reviseTx st known targets id l.date (fun cur => Meta.erase cur k) h
      simp only [stepLedger, hp, applyPayload, revertTargets, List.filterMap_cons, List.filterMap_nil, List.append_nil]
      exact ⟨this.ids, this.sub, this.flag⟩

theorem revertTargets_cons (l : CLog) (ls : List CLog) : revertTargets (l :: ls) = revertTargets [l] ++ revertTargets ls := by
  simp only [revertTargets, List.filterMap_cons, List.filterMap_nil]
  cases l.payload <;> simp

theorem revInv_replay (logs : List CLog) (st : LedgerState) (known targets : List Nat)
    (hw : WFLogs known logs) (h : RevInv st known targets) :
    ∃ known', RevInv (replayLedgerFrom st logs) known' (targets ++ revertTargets logs) := by
  induction logs generalizing st known targets with
  | nil => exact ⟨known, by simpa [replayLedgerFrom, revertTargets] using h⟩
  | cons l ls ih =>
    obtain ⟨k', hw', h'⟩ := revInv_step st known targets l ls hw h
    obtain ⟨k'', h''⟩ := ih _ k' _ hw' h'
    refine ⟨k'', ?_⟩
    simp only [replayLedgerFrom, List.foldl_cons] at h'' ⊢
    rw [revertTargets_cons, ← List.append_assoc]; exact h''

end Store
