import Model.Store.Spec
/-! Helper lemmas for the point-in-time statements of C04: a log entry dated after `t` leaves the record as of `t`
unchanged, and a record in which nothing is dated after `t` is its own record as of `t`. -/
namespace Store

def acctsAsOf (t : Int) (as : List AcctRec) : List AcctRec :=
  (as.filter (fun r => decide (r.firstSeen ≤ t))).map (AcctRec.asOf t)
def txsAsOf (t : Int) (ts : List TxRec) : List TxRec :=
  (ts.filter (fun r => decide (r.insertedAt ≤ t))).map (TxRec.asOf t)

theorem asOf_eq (t : Int) (st : LedgerState) :
    st.asOf t = { moves := st.moves.filter (fun m => decide (m.insertedAt ≤ t)), txs := txsAsOf t st.txs,
                  accts := acctsAsOf t st.accts, logs := st.logs.filter (fun l => decide (l.date ≤ t)) } := rfl

theorem histAsOf_cons_after (t d : Int) (m : Meta) (h : List (Int × Meta)) (hd : t < d) :
    histAsOf t ((d, m) :: h) = histAsOf t h := by
  have : ¬ d ≤ t := by omega
  simp [histAsOf, this]

-- ---------------------------------------------------------------- entries dated after t are invisible at t

theorem acctsAsOf_touch (t d : Int) (as : List AcctRec) (a : String) (hd : t < d) :
    acctsAsOf t (touch as a d) = acctsAsOf t as := by
  have : ¬ d ≤ t := by omega
  unfold touch
  by_cases h : hasAcct as a = true <;> simp [h, acctsAsOf, List.filter_append, this]

theorem acctsAsOf_revise (t d : Int) (as : List AcctRec) (a : String) (f : Meta → Meta) (hd : t < d) :
    acctsAsOf t (reviseAcct as a d f) = acctsAsOf t as := by
  unfold acctsAsOf reviseAcct
  rw [List.filter_map, List.map_map]
  have hf : ((fun r : AcctRec => decide (r.firstSeen ≤ t)) ∘
      (fun r : AcctRec => if r.address == a then { r with metaHist := (d, f (histCurrent r.metaHist)) :: r.metaHist } else r))
      = (fun r : AcctRec => decide (r.firstSeen ≤ t)) := by
    funext r; by_cases h : r.address = a <;> simp [h]
  rw [hf]
  apply List.map_congr_left
  intro r _
  by_cases h : r.address = a
  · simp [Function.comp, h, AcctRec.asOf, histAsOf_cons_after t d _ _ hd]
  · simp [Function.comp, h]

theorem acctsAsOf_touchAll (t d : Int) (addrs : List String) (as : List AcctRec) (hd : t < d) :
    acctsAsOf t (touchAll as addrs d) = acctsAsOf t as := by
  induction addrs generalizing as with
  | nil => rfl
  | cons a rest ih => simp only [touchAll, List.foldl_cons] at ih ⊢; rw [ih, acctsAsOf_touch t d as a hd]

theorem acctsAsOf_setAcctMeta (t d : Int) (as : List AcctRec) (a : String) (m : Meta) (hd : t < d) :
    acctsAsOf t (setAcctMeta as a d m) = acctsAsOf t as := by
  unfold setAcctMeta; rw [acctsAsOf_revise t d _ a _ hd, acctsAsOf_touch t d as a hd]

theorem acctsAsOf_applyAccountMeta (t d : Int) (am : List (String × Meta)) (as : List AcctRec) (hd : t < d) :
    acctsAsOf t (applyAccountMeta as am d) = acctsAsOf t as := by
  induction am generalizing as with
  | nil => rfl
  | cons km rest ih =>
    simp only [applyAccountMeta, List.foldl_cons] at ih ⊢; rw [ih, acctsAsOf_setAcctMeta t d as _ _ hd]

theorem txsAsOf_append_after (t d : Int) (ts : List TxRec) (r : TxRec) (hr : r.insertedAt = d) (hd : t < d) :
    txsAsOf t (ts ++ [r]) = txsAsOf t ts := by
  have : ¬ r.insertedAt ≤ t := by omega
  simp [txsAsOf, List.filter_append, this]

theorem txsAsOf_map (t : Int) (ts : List TxRec) (g : TxRec → TxRec)
    (h1 : ∀ r, (g r).insertedAt = r.insertedAt) (h2 : ∀ r, (g r).asOf t = r.asOf t) :
    txsAsOf t (ts.map g) = txsAsOf t ts := by
  unfold txsAsOf
  rw [List.filter_map, List.map_map]
  have hf : ((fun r : TxRec => decide (r.insertedAt ≤ t)) ∘ g) = (fun r : TxRec => decide (r.insertedAt ≤ t)) := by
    funext r; simp [Function.comp, h1]
  rw [hf]
  apply List.map_congr_left
  intro r _; simp [Function.comp, h2]

theorem txsAsOf_reviseTx (t d : Int) (ts : List TxRec) (id : Nat) (f : Meta → Meta) (hd : t < d) :
    txsAsOf t (reviseTx ts id d f) = txsAsOf t ts := by
  unfold reviseTx
  apply txsAsOf_map
  · intro r; by_cases h : r.tx.id = id <;> simp [h]
  · intro r
    by_cases h : r.tx.id = id
    · simp [h, TxRec.asOf, histAsOf_cons_after t d _ _ hd]
    · simp [h]

theorem txsAsOf_markReverted (t : Int) (ts : List TxRec) (id : Nat) (info : RevertInfo) (hd : t < info.at_) :
    txsAsOf t (markReverted ts id info) = txsAsOf t ts := by
  unfold markReverted
  apply txsAsOf_map
  · intro r; by_cases h1 : r.tx.id = id <;> by_cases h2 : r.reverted = none <;> simp [h1, h2]
  · intro r
    have : ¬ info.at_ ≤ t := by omega
    by_cases h1 : r.tx.id = id <;> by_cases h2 : r.reverted = none <;> simp [h1, h2, TxRec.asOf, this]

theorem moves_filter_txMoves (t d : Int) (tx : Tx) (hd : t < d) :
    (txMoves d tx).filter (fun m => decide (m.insertedAt ≤ t)) = [] := by
  rw [List.filter_eq_nil_iff]
  intro m hm
  unfold txMoves at hm
  simp only [List.mem_flatMap] at hm
  obtain ⟨p, _, hmp⟩ := hm
  have : m.insertedAt = d := by
    simp [postingMoves] at hmp
    rcases hmp with h | h <;> simp [h]
  simp [this]; omega

theorem asOf_insertTx (t d : Int) (st : LedgerState) (tx : Tx) (hd : t < d) :
    (insertTx st d tx).asOf t = st.asOf t := by
  simp only [asOf_eq, insertTx, List.filter_append, moves_filter_txMoves t d tx hd, List.append_nil,
    acctsAsOf_touchAll t d _ _ hd, txsAsOf_append_after t d st.txs ⟨tx, d, none, [(d, tx.metadata)]⟩ rfl hd]

theorem asOf_applyPayload (t d : Int) (st : LedgerState) (p : Payload) (hd : t < d) :
    (applyPayload st d p).asOf t = st.asOf t := by
  cases p with
  | newTx tx am =>
    have := asOf_insertTx t d st tx hd
    simp only [asOf_eq] at this
    simp only [applyPayload, asOf_eq, acctsAsOf_applyAccountMeta t d am _ hd]
    simpa using this
  | revert rid tx =>
    have := asOf_insertTx t d st tx hd
    simp only [asOf_eq] at this
    simp only [applyPayload, asOf_eq, txsAsOf_markReverted t _ rid ⟨d, tx.timestamp, tx.id⟩ hd]
    simpa using this
  | setMeta tg m =>
    cases tg with
    | account a => simp only [applyPayload, asOf_eq, acctsAsOf_setAcctMeta t d _ a m hd]
    | transaction id => simp only [applyPayload, asOf_eq, txsAsOf_reviseTx t d _ id _ hd]
  | delMeta tg k =>
    cases tg with
    | account a => simp only [applyPayload, asOf_eq, acctsAsOf_revise t d _ a _ hd]
    | transaction id => simp only [applyPayload, asOf_eq, txsAsOf_reviseTx t d _ id _ hd]

theorem asOf_step_after (t : Int) (st : LedgerState) (log : CLog) (hd : t < log.date) :
    (stepLedger st log).asOf t = st.asOf t := by
  have := asOf_applyPayload t log.date st log.payload hd
  simp only [asOf_eq] at this
  have hl : ¬ log.date ≤ t := by omega
  simp only [stepLedger, asOf_eq, List.filter_append, List.filter_cons, List.filter_nil, hl, decide_false]
  simpa using this

theorem asOf_replayFrom_after (t : Int) (logs : List CLog) (st : LedgerState) (h : ∀ l ∈ logs, t < l.date) :
    (replayLedgerFrom st logs).asOf t = st.asOf t := by
  induction logs generalizing st with
  | nil => rfl
  | cons l ls ih =>
    simp only [replayLedgerFrom, List.foldl_cons] at ih ⊢
    rw [ih _ (fun x hx => h x (List.mem_cons_of_mem _ hx)), asOf_step_after t st l (h l (List.mem_cons_self ..))]

-- ---------------------------------------------------------------- nothing dated after t ⇒ the record is its own past

def histLe (t : Int) (h : List (Int × Meta)) : Prop := ∀ e ∈ h, e.1 ≤ t
def AcctRec.Le (t : Int) (r : AcctRec) : Prop := r.firstSeen ≤ t ∧ histLe t r.metaHist
def TxRec.Le (t : Int) (r : TxRec) : Prop :=
  r.insertedAt ≤ t ∧ (∀ i, r.reverted = some i → i.at_ ≤ t) ∧ histLe t r.metaHist

structure AllLe (t : Int) (st : LedgerState) : Prop where
  moves : ∀ m ∈ st.moves, m.insertedAt ≤ t
  txs : ∀ r ∈ st.txs, TxRec.Le t r
  accts : ∀ r ∈ st.accts, AcctRec.Le t r
  logs : ∀ l ∈ st.logs, l.date ≤ t

theorem histAsOf_of_le (t : Int) (h : List (Int × Meta)) (hl : histLe t h) : histAsOf t h = h := by
  unfold histAsOf; rw [List.filter_eq_self]; intro e he; simpa using hl e he

theorem AcctRec.asOf_of_le (t : Int) (r : AcctRec) (h : AcctRec.Le t r) : r.asOf t = r := by
  cases r; simp only [AcctRec.asOf, histAsOf_of_le t _ h.2]

theorem TxRec.asOf_of_le (t : Int) (r : TxRec) (h : TxRec.Le t r) : r.asOf t = r := by
  obtain ⟨_, h2, h3⟩ := h
  cases r with
  | mk tx ins rev hist =>
    simp only [TxRec.asOf, histAsOf_of_le t _ h3]
    cases rev with
    | none => rfl
    | some i => have := h2 i rfl; simp [this]

theorem map_id_of {α} (l : List α) (g : α → α) (h : ∀ x ∈ l, g x = x) : l.map g = l := by
  induction l with
  | nil => rfl
  | cons x xs ih =>
    simp only [List.map_cons, h x (List.mem_cons_self ..)]
    rw [ih (fun y hy => h y (List.mem_cons_of_mem _ hy))]

theorem asOf_of_allLe (t : Int) (st : LedgerState) (h : AllLe t st) : st.asOf t = st := by
  cases st with
  | mk moves txs accts logs =>
    simp only [asOf_eq, acctsAsOf, txsAsOf]
    have h1 : moves.filter (fun m => decide (m.insertedAt ≤ t)) = moves := by
      rw [List.filter_eq_self]; intro m hm; simpa using h.moves m hm
    have h2 : txs.filter (fun r => decide (r.insertedAt ≤ t)) = txs := by
      rw [List.filter_eq_self]; intro r hr; simpa using (h.txs r hr).1
    have h3 : accts.filter (fun r => decide (r.firstSeen ≤ t)) = accts := by
      rw [List.filter_eq_self]; intro r hr; simpa using (h.accts r hr).1
    have h4 : logs.filter (fun l => decide (l.date ≤ t)) = logs := by
      rw [List.filter_eq_self]; intro l hl; simpa using h.logs l hl
    rw [h1, h2, h3, h4, map_id_of txs _ (fun r hr => TxRec.asOf_of_le t r (h.txs r hr)),
      map_id_of accts _ (fun r hr => AcctRec.asOf_of_le t r (h.accts r hr))]

-- preservation by a log entry dated ≤ t

theorem le_touch (t d : Int) (as : List AcctRec) (a : String) (hd : d ≤ t) (h : ∀ r ∈ as, AcctRec.Le t r) :
    ∀ r ∈ touch as a d, AcctRec.Le t r := by
  unfold touch
  by_cases hh : hasAcct as a = true
  · simpa [hh] using h
  · simp only [hh, Bool.false_eq_true, if_false, List.mem_append, List.mem_singleton]
    intro r hr
    cases hr with
    | inl hr => exact h r hr
    | inr hr => subst hr; exact ⟨hd, by intro e he; simp at he; subst he; exact hd⟩

theorem le_revise (t d : Int) (as : List AcctRec) (a : String) (f : Meta → Meta) (hd : d ≤ t)
    (h : ∀ r ∈ as, AcctRec.Le t r) : ∀ r ∈ reviseAcct as a d f, AcctRec.Le t r := by
  unfold reviseAcct
  intro r hr
  simp only [List.mem_map] at hr
  obtain ⟨r0, hr0, rfl⟩ := hr
  have := h r0 hr0
  by_cases hh : (r0.address == a) = true
  · simp only [hh, if_true]
    refine ⟨this.1, ?_⟩
    intro e he
    simp only [List.mem_cons] at he
    cases he with
    | inl he => subst he; exact hd
    | inr he => exact this.2 e he
  · simpa [hh] using this

theorem le_touchAll (t d : Int) (addrs : List String) (as : List AcctRec) (hd : d ≤ t) (h : ∀ r ∈ as, AcctRec.Le t r) :
    ∀ r ∈ touchAll as addrs d, AcctRec.Le t r := by
  induction addrs generalizing as with
  | nil => simpa [touchAll] using h
  | cons a rest ih => simp only [touchAll, List.foldl_cons] at ih ⊢; exact ih _ (le_touch t d as a hd h)

theorem le_setAcctMeta (t d : Int) (as : List AcctRec) (a : String) (m : Meta) (hd : d ≤ t)
    (h : ∀ r ∈ as, AcctRec.Le t r) : ∀ r ∈ setAcctMeta as a d m, AcctRec.Le t r := by
  unfold setAcctMeta; exact le_revise t d _ a _ hd (le_touch t d as a hd h)

theorem le_applyAccountMeta (t d : Int) (am : List (String × Meta)) (as : List AcctRec) (hd : d ≤ t)
    (h : ∀ r ∈ as, AcctRec.Le t r) : ∀ r ∈ applyAccountMeta as am d, AcctRec.Le t r := by
  induction am generalizing as with
  | nil => simpa [applyAccountMeta] using h
  | cons km rest ih =>
    simp only [applyAccountMeta, List.foldl_cons] at ih ⊢; exact ih _ (le_setAcctMeta t d as _ _ hd h)

theorem le_reviseTx (t d : Int) (ts : List TxRec) (id : Nat) (f : Meta → Meta) (hd : d ≤ t)
    (h : ∀ r ∈ ts, TxRec.Le t r) : ∀ r ∈ reviseTx ts id d f, TxRec.Le t r := by
  unfold reviseTx
  intro r hr
  simp only [List.mem_map] at hr
  obtain ⟨r0, hr0, rfl⟩ := hr
  have := h r0 hr0
  by_cases hh : (r0.tx.id == id) = true
  · simp only [hh, if_true]
    refine ⟨this.1, this.2.1, ?_⟩
    intro e he
    simp only [List.mem_cons] at he
    cases he with
    | inl he => subst he; exact hd
    | inr he => exact this.2.2 e he
  · simpa [hh] using this

theorem le_markReverted (t : Int) (ts : List TxRec) (id : Nat) (info : RevertInfo) (hd : info.at_ ≤ t)
    (h : ∀ r ∈ ts, TxRec.Le t r) : ∀ r ∈ markReverted ts id info, TxRec.Le t r := by
  unfold markReverted
  intro r hr
  simp only [List.mem_map] at hr
  obtain ⟨r0, hr0, rfl⟩ := hr
  have := h r0 hr0
  by_cases hh : (r0.tx.id == id && r0.reverted.isNone) = true
  · simp only [hh, if_true]
    refine ⟨this.1, ?_, this.2.2⟩
    intro i hi; simp at hi; subst hi; exact hd
  · simpa [hh] using this

theorem allLe_insertTx (t d : Int) (st : LedgerState) (tx : Tx) (hd : d ≤ t) (h : AllLe t st) :
    AllLe t (insertTx st d tx) := by
  refine ⟨?_, ?_, le_touchAll t d _ _ hd h.accts, h.logs⟩
  · intro m hm
    simp only [insertTx, List.mem_append] at hm
    cases hm with
    | inl hm => exact h.moves m hm
    | inr hm =>
      unfold txMoves at hm
      simp only [List.mem_flatMap] at hm
      obtain ⟨p, _, hmp⟩ := hm
      simp [postingMoves] at hmp
      rcases hmp with hh | hh <;> simp [hh, hd]
  · intro r hr
    simp only [insertTx, List.mem_append, List.mem_singleton] at hr
    cases hr with
    | inl hr => exact h.txs r hr
    | inr hr =>
      subst hr
      refine ⟨hd, ?_, ?_⟩
      · intro i hi; cases hi
      · intro e he; simp at he; subst he; exact hd

theorem allLe_applyPayload (t d : Int) (st : LedgerState) (p : Payload) (hd : d ≤ t) (h : AllLe t st) :
    AllLe t (applyPayload st d p) := by
  cases p with
  | newTx tx am =>
    have h1 := allLe_insertTx t d st tx hd h
    exact ⟨h1.moves, h1.txs, le_applyAccountMeta t d am _ hd h1.accts, h1.logs⟩
  | revert rid tx =>
    have h1 := allLe_insertTx t d st tx hd h
    exact ⟨h1.moves, le_markReverted t _ rid ⟨d, tx.timestamp, tx.id⟩ hd h1.txs, h1.accts, h1.logs⟩
  | setMeta tg m =>
    cases tg with
    | account a => exact ⟨h.moves, h.txs, le_setAcctMeta t d _ a m hd h.accts, h.logs⟩
    | transaction id => exact ⟨h.moves, le_reviseTx t d st.txs id (fun cur => Meta.merge cur m) hd h.txs, h.accts, h.logs⟩
  | delMeta tg k =>
    cases tg with
    | account a => exact ⟨h.moves, h.txs, le_revise t d st.accts a (fun cur => Meta.erase cur k) hd h.accts, h.logs⟩
    | transaction id => exact ⟨h.moves, le_reviseTx t d st.txs id (fun cur => Meta.erase cur k) hd h.txs, h.accts, h.logs⟩

theorem allLe_step (t : Int) (st : LedgerState) (log : CLog) (hd : log.date ≤ t) (h : AllLe t st) :
    AllLe t (stepLedger st log) := by
  have h1 := allLe_applyPayload t log.date st log.payload hd h
  refine ⟨h1.moves, h1.txs, h1.accts, ?_⟩
  intro l hl
  simp only [stepLedger, List.mem_append, List.mem_singleton] at hl
  cases hl with
  | inl hl => exact h1.logs l hl
  | inr hl => subst hl; exact hd

theorem allLe_replayFrom (t : Int) (logs : List CLog) (st : LedgerState) (hl : ∀ l ∈ logs, l.date ≤ t)
    (h : AllLe t st) : AllLe t (replayLedgerFrom st logs) := by
  induction logs generalizing st with
  | nil => simpa [replayLedgerFrom] using h
  | cons l ls ih =>
    simp only [replayLedgerFrom, List.foldl_cons] at ih ⊢
    exact ih _ (fun x hx => hl x (List.mem_cons_of_mem _ hx)) (allLe_step t st l (hl l (List.mem_cons_self ..)) h)

theorem allLe_empty (t : Int) : AllLe t {} := ⟨by simp, by simp, by simp, by simp⟩

end Store
